#!/usr/bin/env python3
"""Entry point of every quick/thorough command:  tools/check.py Cnn [--tier quick|thorough] [--replay FILE]

Per DESIGN.md section 7:
 1. regenerate lean/UtpVerif/Gen/Constants.lean from /repo (tie 1)
 2. lake build the property's theorem modules + the model driver; audit axioms / forbidden words
 3. cargo build the harness against /repo's working tree (feature verif)
 4. correspondence runs: corpus first, then generated cases; diff; shrink
 5. implementation-side property oracles on the same runs
 6. evidence JSON
Exit 0 = held on everything explored (KNOWN-FINDING lines allowed); exit 1 + VIOLATION line otherwise.
"""
import argparse
import fcntl
import hashlib
import json
import os
import re
import subprocess
import sys
import time

HERE = os.path.dirname(os.path.abspath(__file__))
VERIF = os.path.normpath(os.path.join(HERE, ".."))
LEAN = os.path.join(VERIF, "lean")
HARNESS = os.path.join(VERIF, "harness")
REPLAYS = os.path.join(VERIF, "replays")
EVIDENCE = os.path.join(VERIF, "evidence")
CORPUS = os.path.join(VERIF, "corpus")
DRIVER = os.path.join(LEAN, ".lake", "build", "bin", "driver")
HBIN = os.path.join(HARNESS, "target", "debug", "utp-verif-harness")
ALLOWED_AXIOMS = {"propext", "Classical.choice", "Quot.sound"}
FORBIDDEN = re.compile(r"\b(sorry|admit|native_decide|bv_decide|implemented_by|unsafe)\b|^\s*axiom\s|maxHeartbeats\s+0")

sys.path.insert(0, HERE)
import props  # noqa: E402


def sh(cmd, cwd=None, timeout=3600, inp=None, env=None):
    e = dict(os.environ)
    e["CARGO_NET_OFFLINE"] = "true"
    if env:
        e.update(env)
    p = subprocess.run(cmd, cwd=cwd, input=inp, capture_output=True, text=True, timeout=timeout, env=e)
    return p.returncode, p.stdout, p.stderr


class Lock:
    def __enter__(self):
        self.f = open(os.path.join(VERIF, ".build.lock"), "w")
        fcntl.flock(self.f, fcntl.LOCK_EX)
        return self

    def __exit__(self, *a):
        fcntl.flock(self.f, fcntl.LOCK_UN)
        self.f.close()


# ---------------------------------------------------------------- build steps

def regen_constants():
    rc, out, err = sh([sys.executable, os.path.join(HERE, "extract_constants.py"), "--json"])
    if rc != 0:
        return None, err.strip()
    consts = json.loads(out)
    # tie 1b: small pure functions translated from the Rust source into Gen/Fns.lean. A function the translator
    # cannot handle is left out of the file; the `generated_*` theorem that refers to it then fails to build and is
    # reported as a broken proof obligation of the property it belongs to.
    rc2, out2, err2 = sh([sys.executable, os.path.join(HERE, "translate_fns.py"), "--json"])
    if rc2 != 0:
        return None, "function translator failed: " + (err2.strip() or out2.strip())[-400:]
    try:
        consts["__translated_functions__"] = json.loads(out2)
    except ValueError:
        return None, "function translator produced no report"
    return consts, None


def strip_lean_comments(src):
    # remove /- ... -/ (nested not used in our files) and -- line comments
    src = re.sub(r"/-.*?-/", lambda m: "\n" * m.group(0).count("\n"), src, flags=re.S)
    return "\n".join(l.split("--")[0] for l in src.split("\n"))


def lean_module_path(mod):
    return os.path.join(LEAN, *mod.split(".")) + ".lean"


def module_cone(mod, seen=None):
    """All UtpVerif.* modules transitively imported by `mod` (including itself)."""
    seen = seen if seen is not None else set()
    if mod in seen:
        return seen
    seen.add(mod)
    try:
        src = open(lean_module_path(mod)).read()
    except OSError:
        return seen
    for m in re.findall(r"^import\s+(UtpVerif\.[A-Za-z0-9_.]+)", src, re.M):
        module_cone(m, seen)
    return seen


def theorems_of(mod):
    """(namespace-qualified names, source lines) of every theorem in a Props module."""
    src = open(lean_module_path(mod)).read()
    code = strip_lean_comments(src)
    ns = []
    names = []
    for i, line in enumerate(code.split("\n"), 1):
        m = re.match(r"\s*namespace\s+(\S+)", line)
        if m:
            ns.append(m.group(1))
            continue
        m = re.match(r"\s*end\s+(\S+)", line)
        if m and ns and ns[-1] == m.group(1):
            ns.pop()
            continue
        m = re.match(r"\s*(?:private\s+|protected\s+)?theorem\s+([A-Za-z0-9_.'!?]+)", line)
        if m:
            names.append((".".join(ns + [m.group(1)]), i))
    return names


def lake_build(targets):
    rc, out, err = sh(["lake", "build"] + targets, cwd=LEAN, timeout=3600)
    return rc, out + err


def failing_theorems(mod, log):
    """Map Lean error lines back to the theorem they occur in."""
    path = lean_module_path(mod)
    rel = os.path.relpath(path, LEAN)
    lines = [int(m.group(1)) for m in re.finditer(r"error: " + re.escape(rel) + r":(\d+):", log)]
    thms = theorems_of(mod)
    bad = []
    for ln in lines:
        cur = None
        for name, tl in thms:
            if tl <= ln:
                cur = name
        if cur and cur not in bad:
            bad.append(cur)
    return bad


def audit(mods):
    """Forbidden words in the cone + #print axioms of each property theorem."""
    problems = []
    cone = set()
    for m in mods:
        cone |= module_cone(m)
    for m in sorted(cone):
        try:
            code = strip_lean_comments(open(lean_module_path(m)).read())
        except OSError:
            continue
        for i, line in enumerate(code.split("\n"), 1):
            if FORBIDDEN.search(line):
                problems.append(f"{m}:{i}: forbidden construct: {line.strip()[:80]}")
    thms = []
    for m in mods:
        thms += [n for n, _ in theorems_of(m)]
    axioms = {}
    if thms:
        tmp = os.path.join(LEAN, ".lake", f"audit_{os.getpid()}.lean")
        with open(tmp, "w") as f:
            for m in mods:
                f.write(f"import {m}\n")
            for t in thms:
                f.write(f"#print axioms {t}\n")
        rc, out, err = sh(["lake", "env", "lean", tmp], cwd=LEAN, timeout=1800)
        os.unlink(tmp)
        text = out + err
        if rc != 0:
            problems.append("axiom audit failed to run: " + text.strip()[:400])
        # "'name' depends on axioms: [a, b]" / "'name' does not depend on any axioms"
        for m_ in re.finditer(r"'([^']+)' depends on axioms: \[([^\]]*)\]", text, re.S):
            ax = {a.strip() for a in m_.group(2).replace("\n", " ").split(",") if a.strip()}
            axioms[m_.group(1)] = sorted(ax)
            extra = ax - ALLOWED_AXIOMS
            if extra:
                problems.append(f"{m_.group(1)}: non-standard axioms {sorted(extra)}")
        for m_ in re.finditer(r"'([^']+)' does not depend on any axioms", text):
            axioms[m_.group(1)] = []
        for t in thms:
            if t not in axioms:
                problems.append(f"{t}: no axiom report")
    return thms, axioms, problems


def cargo_build():
    lock_src = os.path.join(os.environ.get("VERIF_REPO", "/repo"), "Cargo.lock")
    lock_dst = os.path.join(HARNESS, "Cargo.lock")
    if not os.path.exists(lock_dst) and os.path.exists(lock_src):
        import shutil
        shutil.copy(lock_src, lock_dst)
    rc, out, err = sh(["cargo", "build", "--offline"], cwd=HARNESS, timeout=3600)
    return rc, out + err


# ---------------------------------------------------------------- running cases

def run_side(binary, lines, timeout=1800):
    inp = "\n".join(lines) + "\n"
    p = subprocess.run([binary], input=inp, capture_output=True, text=True, timeout=timeout)
    return p.returncode, p.stdout.split("\n")[:-1] if p.stdout.endswith("\n") else p.stdout.split("\n"), p.stderr


def run_cases(cases):
    """cases: list of list-of-lines. Returns per-case (impl_out, model_out) or raises on process trouble."""
    flat = []
    for c in cases:
        flat += c
    rc1, o1, e1 = run_side(HBIN, flat)
    # second pass input: some model ops take answers observed on the implementation (the congestion
    # controller's return values, see DESIGN 3.3); the harness ignores those extra tokens
    flat2 = props.augment(flat, o1) if len(o1) == len(flat) else flat
    rc2, o2, e2 = run_side(DRIVER, flat2)
    res = []
    i = 0
    for c in cases:
        n = len(c)
        res.append((o1[i:i + n], o2[i:i + n]))
        i += n
    trouble = None
    if rc1 != 0 or len(o1) != len(flat):
        trouble = f"harness exited rc={rc1} after {len(o1)}/{len(flat)} lines: {e1.strip()[-300:]}"
    if rc2 != 0 or len(o2) != len(flat):
        t2 = f"model driver exited rc={rc2} after {len(o2)}/{len(flat)} lines: {e2.strip()[-300:]}"
        trouble = (trouble + "; " + t2) if trouble else t2
    return res, trouble


def first_diff(a, b, cmp):
    for i in range(max(len(a), len(b))):
        x = a[i] if i < len(a) else "<missing>"
        y = b[i] if i < len(b) else "<missing>"
        if not cmp(x, y):
            return i
        if x.startswith("PANIC") and y.startswith("PANIC"):
            return None      # both sides panicked: the state after a panic is not comparable
    return None


def shrink(case, pred, budget=400, seconds=90):
    """ddmin-ish: drop chunks of ops (never the first, the reset op) while pred(case) stays true. Bounded in
    attempts and in wall-clock time (one attempt on a 60 k-op case costs a minute of model time)."""
    head, ops = case[:1], case[1:]
    n = 2
    tries = 0
    deadline = time.time() + seconds
    while len(ops) >= 1 and tries < budget and time.time() < deadline:
        chunk = max(1, len(ops) // n)
        reduced = False
        for i in range(0, len(ops), chunk):
            cand = ops[:i] + ops[i + chunk:]
            tries += 1
            if pred(head + cand):
                ops = cand
                n = max(n - 1, 2)
                reduced = True
                break
            if tries >= budget or time.time() >= deadline:
                break
        if not reduced:
            if chunk == 1:
                break
            n = min(n * 2, len(ops))
    return head + ops


# ---------------------------------------------------------------- known findings

def load_known():
    known, fixed = [], []
    p = os.path.join(VERIF, "known_findings.txt")
    if os.path.exists(p):
        for line in open(p):
            line = line.strip()
            if not line or line.startswith("#"):
                continue
            m = re.match(r"known: property=(\S+) sig=(\{.*?\}) (.*)$", line)
            if m:
                known.append({"property": m.group(1), "sig": json.loads(m.group(2)), "text": m.group(3)})
                continue
            m = re.match(r"fixed: property=(\S+) (\S+) (.*)$", line)
            if m:
                fixed.append({"property": m.group(1), "commit": m.group(2), "text": m.group(3)})
    return known, fixed


def match_known(known, pid, finding):
    """finding: dict with 'sig' (dict). A known entry matches if all its sig keys equal the finding's."""
    for k in known:
        if k["property"] != pid:
            continue
        if all(finding.get("sig", {}).get(a) == b for a, b in k["sig"].items()):
            return k
    return None


# ---------------------------------------------------------------- main

def write_replay(pid, tag, payload):
    os.makedirs(REPLAYS, exist_ok=True)
    h = hashlib.sha1(json.dumps(payload, sort_keys=True).encode()).hexdigest()[:10]
    path = os.path.join(REPLAYS, f"{pid}-{tag}-{h}.json")
    with open(path, "w") as f:
        json.dump(payload, f, indent=1)
    return path


def do_replay(pid, path):
    P = props.PROPS[pid]
    payload = json.load(open(path))
    with Lock():
        regen_constants()
        lake_build(["driver"])
        cargo_build()
    if "case" not in payload:
        print(json.dumps(payload, indent=1))
        print("replay file carries no executable case (proof-obligation / tie failure); see 'reason'")
        return 1
    case = payload["case"]
    (res,), trouble = run_cases([case])
    impl, model = res
    for op, a, b in zip(case, impl, model):
        mark = "  " if props.cmp_for(payload.get("component", ""))(a, b) else "!!"
        print(f"{mark} {op}\n     impl : {a}\n     model: {b}")
    bad = 0
    for name, orc in P.get("oracles", {}).items():
        for v in orc(case, impl):
            print(f"ORACLE {name}: {v}")
            bad += 1
    d = first_diff(impl, model, props.cmp_for(payload.get("component", "")))
    if d is not None:
        bad += 1
    print("replay: " + ("property/correspondence still fails" if bad else "no failure reproduced"))
    return 1 if bad else 0


def corpus_cases(comp, pid, tier=None):
    """Corpus of one component: corpus/<component>/*.ops, plus corpus/<component>/only_<ID>_<ID>.../*.ops - (long)
    cases that run for the named properties only - plus corpus/<component>/thorough_<ID>_<ID>.../*.ops - (very long)
    cases that run for the named properties in the thorough tier and in the witness search (tier=None) only."""
    cdir = os.path.join(CORPUS, comp)
    cases = []
    if os.path.isdir(cdir):
        files = [os.path.join(cdir, fn) for fn in sorted(os.listdir(cdir)) if fn.endswith(".ops")]
        for sub in sorted(os.listdir(cdir)):
            scoped = sub.startswith("only_") or (sub.startswith("thorough_") and tier in (None, "thorough"))
            if scoped and pid in sub.split("_")[1:] and os.path.isdir(os.path.join(cdir, sub)):
                files += [os.path.join(cdir, sub, fn) for fn in sorted(os.listdir(os.path.join(cdir, sub))) if fn.endswith(".ops")]
        for path in files:
            cases.append(expand_ops([l.rstrip("\n") for l in open(path) if l.strip()]))
    return cases


def expand_ops(lines):
    """`@repeat N` ... `@end` in a corpus file stands for N copies of the lines in between."""
    out, i = [], 0
    while i < len(lines):
        if lines[i].startswith("@repeat "):
            n = int(lines[i].split()[1])
            j = lines.index("@end", i)
            out += lines[i + 1:j] * n
            i = j + 1
        else:
            out.append(lines[i])
            i += 1
    return out


def main():
    ap = argparse.ArgumentParser()
    ap.add_argument("prop")
    ap.add_argument("--tier", default=os.environ.get("VERIF_TIER", "quick"))
    ap.add_argument("--replay")
    a = ap.parse_args()
    pid = a.prop
    if pid not in props.PROPS:
        print(f"unknown property {pid}")
        return 2
    if a.replay:
        return do_replay(pid, a.replay)
    tier = a.tier if a.tier in ("quick", "thorough") else "quick"
    seed = int(os.environ.get("VERIF_SEED", "1"))
    t0 = time.time()
    P = props.PROPS[pid]
    known, fixed = load_known()
    violations = []   # dicts: {kind, sig, text, replay}
    notes = []
    ev_cov = {}

    # 1-3: builds under a lock (shared lake / cargo dirs)
    with Lock():
        consts, cerr = regen_constants()
        tie_broken = None
        if cerr:
            tie_broken = f"constants translator failed: {cerr}"
        mods = P["lean"]
        proof_failed = []
        build_log = ""
        if not tie_broken:
            rc, log = lake_build(mods + ["driver"])
            build_log = log
            if rc != 0:
                for m in mods:
                    proof_failed += failing_theorems(m, log)
                # failures in model/lemma files (not property theorems)
                if not proof_failed:
                    proof_failed = ["<build of model/lemmas failed>"]
                # the driver may still be buildable even if a Props module is not
                rc_d, log_d = lake_build(["driver"])
                if rc_d != 0:
                    tie_broken = "model driver does not build: " + log_d.strip()[-400:]
        thms, axioms, audit_problems = ([], {}, [])
        if not tie_broken and not proof_failed:
            thms, axioms, audit_problems = audit(mods)
        else:
            for m in mods:
                try:
                    thms += [n for n, _ in theorems_of(m)]
                except OSError:
                    pass
        rc, clog = cargo_build()
        if rc != 0:
            tie_broken = (tie_broken + "; " if tie_broken else "") + "harness does not build against /repo: " + clog.strip()[-600:]

    # 4-5: correspondence + oracles
    evaluations = 0
    distinct = set()
    nontrivial = 0
    samples = []
    disagreements = []
    oracle_hits = []
    dist = {}
    if not tie_broken:
        for comp in P["components"]:
            gen = props.GENERATORS[comp]
            cmp = props.cmp_for(comp)
            cases = []
            cdir = os.path.join(CORPUS, comp)
            cases += corpus_cases(comp, pid, tier)
            ncorpus = len(cases)
            cases += gen(seed, tier)
            res, trouble = run_cases(cases)
            if trouble:
                notes.append(f"{comp}: {trouble}")
            stats = props.STATS.get(comp)
            for idx, (case, (impl, model)) in enumerate(zip(cases, res)):
                evaluations += 1
                h = hashlib.sha1("\n".join(case).encode()).hexdigest()
                is_new = h not in distinct
                distinct.add(h)
                if stats:
                    nt = stats(case, impl, dist)
                else:
                    nt = len(case) > 1
                if nt and is_new:
                    nontrivial += 1
                if len(samples) < 3 and idx >= ncorpus and nt:
                    samples.append({"component": comp, "ops": case[:12], "impl_out": impl[:12]})
                d = first_diff(impl, model, cmp)
                if d is not None:
                    disagreements.append((comp, case, d))
                for name, orc in P.get("oracles", {}).items():
                    if props.ORACLE_COMPONENT.get(name, name if name in props.GENERATORS else comp) != comp:
                        continue
                    for v in orc(case, impl):
                        oracle_hits.append((comp, name, case, v))
            if trouble and not disagreements:
                tie_broken = f"correspondence run incomplete: {trouble}"

    # implementation-side oracle failures: concrete replays (7.1)
    seen_sigs = set()
    for comp, name, case, v in oracle_hits:
        sig = v.get("sig", {"oracle": name})
        key = json.dumps(sig, sort_keys=True)
        if key in seen_sigs:
            continue
        seen_sigs.add(key)

        def still(c, name=name, sigkey=key):
            (r,), tr = run_cases([c])
            return any(json.dumps(x.get("sig", {"oracle": name}), sort_keys=True) == sigkey
                       for x in P["oracles"][name](c, r[0]))
        small = shrink(case, still)
        (r,), _tr = run_cases([small])
        for x in P["oracles"][name](small, r[0]):
            if json.dumps(x.get("sig", {"oracle": name}), sort_keys=True) == key:
                v = x
                break
        path = write_replay(pid, "oracle", {"property": pid, "kind": "implementation fails property oracle",
                                           "oracle": name, "component": comp, "sig": sig, "what": v["text"], "case": small,
                                           "impl_out": r[0]})
        violations.append({"kind": "oracle", "sig": sig, "text": v["text"], "replay": path})

    # model/implementation disagreements (7.3): shrink, look for a failing input via oracles
    if disagreements:
        comp, case, d = disagreements[0]
        cmp = props.cmp_for(comp)

        def differs(c):
            (r,), tr = run_cases([c])
            return first_diff(r[0], r[1], cmp) is not None
        small = shrink(case[: d + 1], differs)
        (r,), _ = run_cases([small])
        dd = first_diff(r[0], r[1], cmp)
        found = None
        for name, orc in P.get("oracles", {}).items():
            hits = [h for h in orc(small, r[0]) if not match_known(known, pid, h)]
            if hits:
                found = (name, hits[0])
                break
        witness_case = None
        if not found:
            # the corpus cases reserved for the thorough tier / the witness search (too long for every quick run):
            # implementation only, through the property's oracles
            seen = {"\n".join(c) for c in corpus_cases(comp, pid, tier)}
            for wc in corpus_cases(comp, pid, None):
                if "\n".join(wc) in seen:
                    continue
                rcw, ow, _ew = run_side(HBIN, wc)
                if len(ow) != len(wc):
                    continue
                for name, orc in P.get("oracles", {}).items():
                    hits = [h for h in orc(wc, ow) if not match_known(known, pid, h)]
                    if hits:
                        found = (name, hits[0])
                        witness_case = wc
                        break
                if found:
                    break
        # a listed known finding never hides a broken correspondence: only violations that are NOT known count here
        unknown_violations = [v for v in violations if not match_known(known, pid, v)]
        payload = {"property": pid, "component": comp, "case": small,
                   "first_diff_op": small[dd] if dd is not None and dd < len(small) else None,
                   "impl": r[0][dd] if dd is not None and dd < len(r[0]) else None,
                   "model": r[1][dd] if dd is not None and dd < len(r[1]) else None,
                   "n_disagreeing_cases": len(disagreements)}
        if found and not unknown_violations:
            payload["kind"] = "implementation fails property oracle (found after correspondence broke)"
            payload["what"] = found[1]["text"]
            if witness_case is not None:
                payload["disagreeing_case"] = small
                payload["case"] = witness_case
            path = write_replay(pid, "oracle", payload)
            violations.append({"kind": "oracle", "sig": found[1].get("sig", {}), "text": found[1]["text"], "replay": path})
        elif not unknown_violations:
            payload["kind"] = "correspondence broken: model and implementation disagree; no property-oracle failure found on this input"
            payload["reason"] = f"correspondence {comp} no longer checks"
            path = write_replay(pid, "corr", payload)
            violations.append({"kind": "corr", "sig": {"kind": "correspondence", "component": comp},
                               "text": f"model/implementation disagreement in {comp}", "replay": path, "nofail": True})

    # broken proof obligations (7.2) / audit / tie (7.4)
    if (proof_failed or audit_problems or tie_broken) and not [v for v in violations if not match_known(known, pid, v)]:
        # directed witness search on the implementation
        found = None
        if not tie_broken or "harness does not build" not in (tie_broken or ""):
            fams = [("corpus", lambda seed: [c for comp in P["components"] for c in corpus_cases(comp, pid)])]
            for name, fam in fams + list(P.get("directed", {}).items()):
                try:
                    cases = fam(seed)
                    res, tr = run_cases(cases)
                    for case, (impl, model) in zip(cases, res):
                        for oname, orc in P.get("oracles", {}).items():
                            # (a hit that is a listed known finding is not the witness of THIS broken obligation)
                            hits = [h for h in orc(case, impl)
                                    if not match_known(known, pid, {"kind": "oracle", "sig": h.get("sig", {}), "text": h.get("text", "")})]
                            if hits:
                                found = (case, oname, hits[0])
                                break
                        if found:
                            break
                except Exception as e:  # harness may be unusable
                    notes.append(f"directed search {name} failed: {e}")
                if found:
                    break
        reason = {"failed_theorems": proof_failed, "audit": audit_problems, "tie": tie_broken,
                  "lean_log_tail": build_log.strip()[-1500:] if proof_failed else ""}
        if found:
            case, oname, hit = found
            path = write_replay(pid, "oracle", {"property": pid, "kind": "implementation fails property oracle (found after a proof obligation broke)",
                                               "what": hit["text"], "case": case, "reason": reason})
            violations.append({"kind": "oracle", "sig": hit.get("sig", {}), "text": hit["text"], "replay": path})
        else:
            path = write_replay(pid, "unproved", {"property": pid, "kind": "proof obligation / tie no longer checks", "reason": reason})
            what = ("theorems " + ", ".join(proof_failed)) if proof_failed else (tie_broken or "; ".join(audit_problems))
            violations.append({"kind": "unproved", "sig": {"kind": "unproved"}, "text": what[:300], "replay": path, "nofail": True})

    # classify against known findings
    exit_code = 0
    out_lines = []
    n_viol = 0
    for k in known:
        pass
    reported_known = set()
    for v in violations:
        k = match_known(known, pid, v)
        if k:
            reported_known.add(k["text"])
            continue
        n_viol += 1
        exit_code = 1
        rel = os.path.relpath(v["replay"], VERIF)
        line = f"VIOLATION property={pid} replay={rel}"
        if v.get("nofail"):
            line += " no-failing-input-found"
        out_lines.append(line)
    # known findings are demonstrated by their own directed replay each run (never appended at run time)
    for k in known:
        if k["property"] != pid:
            continue
        demo = props.KNOWN_DEMOS.get(json.dumps(k["sig"], sort_keys=True))
        if demo is None:
            out_lines.append(f"KNOWN-FINDING: property={pid} {k['text']}")
            continue
        still_there = True
        if not tie_broken:
            try:
                still_there = demo()
            except Exception as e:
                notes.append(f"known-finding demo failed to run: {e}")
        if still_there or k["text"] in reported_known:
            out_lines.append(f"KNOWN-FINDING: property={pid} {k['text']}")

    wall = time.time() - t0
    obligations = len(thms)
    discharged = 0 if (proof_failed or tie_broken) else sum(1 for t in thms if t in axioms and not (set(axioms[t]) - ALLOWED_AXIOMS))
    if proof_failed:
        discharged = max(0, obligations - len(proof_failed)) if "<build of model/lemmas failed>" not in proof_failed else 0
    ev = {
        "property_id": pid,
        "tier": tier,
        "seed": seed,
        "level": "proof",
        "coverage": {
            "obligations": obligations,
            "discharged": discharged,
            "checker_cmd": "cd lean && lake build " + " ".join(P["lean"]) + "  (then #print axioms per theorem; thorough: lake env leanchecker)",
            "trusted_base": P.get("trusted", []) + [
                "Lean 4.33.0 kernel; axioms allowed: propext, Classical.choice, Quot.sound",
                "tools/extract_constants.py (regex translator of Rust constants)",
                "tools/translate_fns.py (translator of small pure Rust functions into Gen/Fns.lean; the subset and the emitted semantics are in its header)",
                "correspondence harness (/verif/harness) + tools/check.py diffing",
            ],
            "theorems": thms,
            "axioms": axioms,
            "constants": consts or {},
            "evaluations": evaluations,
            "distinct_nontrivial": nontrivial,
            "rule": P.get("rule", "cases are op sequences from the component generators; distinct by SHA-1 of the op list; non-trivial by the component's stats rule"),
            "samples": samples,
            "traces_validated_against_impl": evaluations - len(disagreements),
            "disagreements": len(disagreements),
            "distribution": dist,
            "components": P["components"],
            "notes": notes,
        },
        "assumptions": P.get("assumptions", []),
        "wall_s": round(wall, 2),
        "violations": n_viol,
    }
    if tier == "thorough" and not proof_failed and not tie_broken:
        lc = []
        for m in P["lean"]:
            rc, out, err = sh(["lake", "env", "leanchecker", m], cwd=LEAN, timeout=3600)
            lc.append({"module": m, "rc": rc, "out": (out + err).strip()[-200:]})
            if rc != 0:
                exit_code = 1
                path = write_replay(pid, "unproved", {"property": pid, "kind": "leanchecker rejected module", "reason": lc[-1]})
                out_lines.append(f"VIOLATION property={pid} replay={os.path.relpath(path, VERIF)} no-failing-input-found")
        ev["coverage"]["leanchecker"] = lc
    os.makedirs(EVIDENCE, exist_ok=True)
    with open(os.path.join(EVIDENCE, f"{pid}.json"), "w") as f:
        json.dump(ev, f, indent=1, sort_keys=True)
    for l in out_lines:
        print(l)
    print(f"{pid} {tier}: theorems {discharged}/{obligations}, cases {evaluations} (nontrivial distinct {nontrivial}), "
          f"disagreements {len(disagreements)}, oracle hits {len(oracle_hits)}, {wall:.1f}s -> exit {exit_code}")
    for n in notes:
        print("note:", n)
    return exit_code


if __name__ == "__main__":
    sys.exit(main())
