#!/usr/bin/env python3
"""Tie 1: regenerate lean/UtpVerif/Gen/Constants.lean from /repo's Rust source.

Every value below is read from the *current* working tree by an anchored regex
on the declaration; nothing has a default.  If a site cannot be found or its
expression cannot be evaluated the script exits 2 and names the site, and the
caller (check.py) treats that as "tie cannot be established".

Durations are emitted in nanoseconds (Nat).  Floats are emitted as exact
decimal rationals (num/den) - 0.7 becomes 7/10 - because the Cubic model works
over exact rationals.
"""
import json
import os
import re
import sys
from fractions import Fraction

REPO = os.environ.get("VERIF_REPO", "/repo")
OUT = os.path.join(os.path.dirname(os.path.abspath(__file__)), "..", "lean", "UtpVerif", "Gen", "Constants.lean")


class ExtractError(Exception):
    pass


def read(path):
    p = os.path.join(REPO, path)
    try:
        with open(p) as f:
            return f.read()
    except OSError as e:
        raise ExtractError(f"{path}: cannot read: {e}")


def strip_comments(src):
    # line comments only (the sources use no block comments at these sites)
    out = []
    for line in src.split("\n"):
        i = line.find("//")
        if i >= 0:
            line = line[:i]
        out.append(line)
    return "\n".join(out)


def eval_int(expr, where):
    e = expr.strip()
    m = re.fullmatch(r"non_zero_const!\((.*)\)", e, re.S)
    if m:
        return eval_int(m.group(1), where)
    m = re.fullmatch(r"NonZeroUsize::new\((.*)\)\.unwrap\(\)", e, re.S)
    if m:
        return eval_int(m.group(1), where)
    m = re.fullmatch(r"Duration::from_millis\((.*)\)", e, re.S)
    if m:
        return eval_int(m.group(1), where) * 1_000_000
    m = re.fullmatch(r"Duration::from_secs\((.*)\)", e, re.S)
    if m:
        return eval_int(m.group(1), where) * 1_000_000_000
    m = re.fullmatch(r"Duration::from_micros\((.*)\)", e, re.S)
    if m:
        return eval_int(m.group(1), where) * 1_000
    m = re.fullmatch(r"Duration::from_nanos\((.*)\)", e, re.S)
    if m:
        return eval_int(m.group(1), where)
    # products / sums of integer literals
    if re.fullmatch(r"[0-9_ \t\n*+()a-z]+", e):
        toks = re.sub(r"(?<=[0-9])_(?=[0-9])", "", e)
        toks = re.sub(r"(?<=[0-9])(u8|u16|u32|u64|usize|i32|i64|isize)\b", "", toks)
        if re.fullmatch(r"[0-9 \t\n*+()]+", toks):
            try:
                return int(eval(toks, {"__builtins__": {}}, {}))
            except Exception:
                pass
    raise ExtractError(f"{where}: cannot evaluate integer expression {expr!r}")


def eval_frac(expr, where):
    e = expr.strip().replace("_", "")
    if re.fullmatch(r"[0-9]+\.[0-9]*|[0-9]*\.[0-9]+|[0-9]+", e):
        return Fraction(e if not e.endswith(".") else e + "0")
    raise ExtractError(f"{where}: cannot evaluate float literal {expr!r}")


def const(path, name, kind="int"):
    src = strip_comments(read(path))
    m = re.findall(r"^\s*(?:pub(?:\([a-z]+\))?\s+)?const\s+" + re.escape(name) + r"\s*:\s*[^=]+=\s*([^;]+);", src, re.M)
    if len(m) != 1:
        raise ExtractError(f"{path}: expected exactly one `const {name}`, found {len(m)}")
    where = f"{path}: const {name}"
    return eval_int(m[0], where) if kind == "int" else eval_frac(m[0], where)


def site(path, regex, what, kind="int"):
    src = strip_comments(read(path))
    m = re.findall(regex, src, re.M | re.S)
    if len(m) != 1:
        raise ExtractError(f"{path}: expected exactly one match for {what} (/{regex}/), found {len(m)}")
    where = f"{path}: {what}"
    return eval_int(m[0], where) if kind == "int" else eval_frac(m[0], where)


def extract():
    c = {}
    C = "src/constants.rs"
    for n in ["IPV4_HEADER", "IPV6_HEADER", "UDP_HEADER", "UTP_HEADER",
              "RX_BUF_SIZE_PER_VSOCK_DEFAULT", "TX_BUF_SIZE_PER_VSOCK_INITIAL_DEFAULT",
              "TX_BUF_SIZE_PER_VSOCK_MAX_DEFAULT", "ACK_DELAY", "IMMEDIATE_ACK_EVERY_RMSS",
              "SYNACK_RESEND_INTERNAL", "WRAP_TOLERANCE", "DEFAULT_REMOTE_INACTIVITY_TIMEOUT",
              "DEFAULT_MAX_ACTIVE_STREAMS_PER_SOCKET", "SACK_DUP_THRESH", "SACK_DEPTH", "MAX_TX_SEGMENTS"]:
        c[n] = const(C, n)
    # calc_pipe_expiry: rtt * NUM / DEN
    src = strip_comments(read(C))
    m = re.findall(r"fn\s+calc_pipe_expiry\s*\(\s*rtt\s*:\s*Duration\s*\)\s*->\s*Duration\s*\{\s*rtt\s*\*\s*([0-9]+)\s*/\s*([0-9]+)\s*\}", src, re.S)
    if len(m) != 1:
        raise ExtractError(f"{C}: calc_pipe_expiry is not of the form `rtt * N / D`")
    c["PIPE_EXPIRY_NUM"], c["PIPE_EXPIRY_DEN"] = int(m[0][0]), int(m[0][1])

    R = "src/rtte.rs"
    for n in ["RTTE_INITIAL_RTT", "RTTE_MIN_RTO", "RTTE_MAX_RTO", "CLOCK_GRANULARITY"]:
        c[n] = const(R, n)
    c["RTTE_K"] = const(R, "K")

    Q = "src/congestion/cubic.rs"
    for n, key in [("BETA_CUBIC", "BETA_CUBIC"), ("C", "CUBIC_C")]:
        f = const(Q, n, "frac")
        c[key + "_NUM"], c[key + "_DEN"] = f.numerator, f.denominator
    c["CUBIC_INITIAL_CWND"] = site(Q, r"Cubic\s*\{\s*cwnd:\s*([0-9]+)\.,", "Cubic::new initial cwnd")
    c["CUBIC_RTO_CWND"] = site(Q, r"self\.w_max\s*=\s*self\.cwnd;\s*self\.cwnd\s*=\s*([0-9]+)\.\s*\}", "on_retransmission_timeout cwnd")

    S = "src/socket.rs"
    for n in ["MAX_CONNECTING_PER_ADDR", "ACCEPT_QUEUE_MAX_ACCEPTORS", "ACCEPT_QUEUE_MAX_SYNS"]:
        c[n] = const(S, n)
    c["DISPATCHER_READ_BUF"] = site(S, r"let\s+mut\s+read_buf\s*=\s*\[0u8;\s*([0-9_]+)\s*\];", "dispatcher read buffer")
    c["DEFAULT_LINK_MTU"] = site(S, r"self\.link_mtu\.unwrap_or\(([^;]+?)\);", "default link mtu")
    c["DEFAULT_MAX_RETRANSMISSIONS"] = site(S, r"\.max_retransmissions\s*\.unwrap_or\((NonZeroUsize::new\([0-9_]+\)\.unwrap\(\))\)", "default max_retransmissions")
    c["DEFAULT_MTU_PROBE_MAX_RETRANSMISSIONS"] = site(S, r"self\.mtu_probe_max_retransmissions\.unwrap_or\(([0-9_]+)\)", "default mtu_probe_max_retransmissions")

    M = "src/mtu.rs"
    m = re.findall(r"let\s+default_min_mtu\s*=\s*if\s+config\.is_ipv4\s*\{\s*([0-9_]+)\s*\}\s*else\s*\{\s*([0-9_]+)\s*\}\s*;", strip_comments(read(M)))
    if len(m) != 1:
        raise ExtractError(f"{M}: default_min_mtu site not found")
    c["MIN_MTU_V4"], c["MIN_MTU_V6"] = int(m[0][0]), int(m[0][1])
    c["MTU_PROBE_COOLDOWN_DEFAULT"] = site(M, r"probe_expiry_cooldown_packets:\s*([0-9_]+)\s*,", "default cooldown")
    c["MTU_INITIAL_COOLDOWN_REMAINING"] = site(M, r"cooldown_remaining_packets:\s*([0-9_]+)\s*,", "initial cooldown remaining")

    W = "src/raw.rs"
    for n in ["NO_NEXT_EXT", "EXT_SELECTIVE_ACK", "EXT_CLOSE_REASON"]:
        c[n] = const(W, n)
    c["WIRE_VERSION"] = const(W, "VERSION")
    src = strip_comments(read(W))
    for t in ["ST_DATA", "ST_FIN", "ST_STATE", "ST_RESET", "ST_SYN"]:
        m1 = re.findall(r"\b" + t + r"\s*=\s*([0-9]+)\s*,", src)
        m2 = re.findall(r"([0-9]+)\s*=>\s*Some\(Type::" + t + r"\)", src)
        m3 = re.findall(r"Type::" + t + r"\s*=>\s*([0-9]+)\s*,", src)
        if not (len(m1) == len(m2) == len(m3) == 1 and m1[0] == m2[0] == m3[0]):
            raise ExtractError(f"{W}: type number for {t} inconsistent or not found ({m1},{m2},{m3})")
        c["TYPE_" + t] = int(m1[0])

    D = "src/stream_dispatch.rs"
    c["SHUTDOWN_FINAL_CHANCE_DELAY"] = const(D, "SHUTDOWN_FINAL_CHANCE_DELAY")
    T = "src/stream_tx.rs"
    c["YIELD_EVERY"] = const(T, "YIELD_EVERY")
    return c


def render(c):
    lines = [
        "-- GENERATED by tools/extract_constants.py from /repo's Rust sources. Do not edit.",
        "-- Durations are nanoseconds. Floats are exact decimal rationals NUM/DEN.",
        "namespace UtpVerif.Gen",
        "",
    ]
    for k in sorted(c):
        lines.append(f"def {k} : Nat := {c[k]}")
    lines += ["", "end UtpVerif.Gen", ""]
    return "\n".join(lines)


def main():
    try:
        c = extract()
    except ExtractError as e:
        print(f"extract_constants: {e}", file=sys.stderr)
        return 2
    text = render(c)
    out = os.path.normpath(OUT)
    os.makedirs(os.path.dirname(out), exist_ok=True)
    old = None
    if os.path.exists(out):
        with open(out) as f:
            old = f.read()
    if old != text:
        with open(out, "w") as f:
            f.write(text)
    if "--json" in sys.argv:
        print(json.dumps(c, sort_keys=True))
    return 0


if __name__ == "__main__":
    sys.exit(main())
