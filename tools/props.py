"""Property registry: which Lean modules, which correspondence components, which oracles."""
import json
import os
import random
import subprocess
import sys

HERE = os.path.dirname(os.path.abspath(__file__))
sys.path.insert(0, HERE)

GENERATORS = {}      # component -> gen(seed, tier) -> list of cases (list of op lines)
STATS = {}           # component -> stats(case, impl_out, dist) -> bool nontrivial
CMP = {}             # component -> cmp(impl_line, model_line) -> bool equal
ORACLE_COMPONENT = {}  # oracle name -> component it applies to
KNOWN_DEMOS = {}     # json(sig) -> callable() -> bool (finding still present on the implementation)
PROPS = {}


def _default_cmp(a, b):
    # a panic of the real code is compared by kind only (the message text is Rust's)
    if a.startswith("PANIC") and b.startswith("PANIC"):
        return True
    return a == b


def cmp_for(comp):
    return CMP.get(comp, _default_cmp)


_CONSTS = None


def consts():
    global _CONSTS
    if _CONSTS is None:
        p = subprocess.run([sys.executable, os.path.join(HERE, "extract_constants.py"), "--json"], capture_output=True, text=True)
        _CONSTS = json.loads(p.stdout) if p.returncode == 0 else {}
    return _CONSTS


def augment(lines, impl_out):
    """`vs poll` lines get `a=<v1,v2,...>`: the values the real congestion controller returned during that
    poll (window / sshthresh / smss reads), in call order, which the model adopts (adopt-and-compare)."""
    res = []
    prev_cubic = None
    for l, o in zip(lines, impl_out):
        if l.startswith("cubic "):
            from gens import cubic as _cubic
            if prev_cubic and not l.startswith("cubic new"):
                l = l + " " + prev_cubic
            prev_cubic = _cubic.pre_token(o)
            res.append(l)
            continue
        if l.startswith("sock "):
            from gens import sock as _sock
            res.append(_sock.augment_line(l, o))
            continue
        if l.startswith("vs poll") and "cc=[" in o:
            cc = o.split("cc=[", 1)[1].split("]", 1)[0]
            vals = [x.split("=")[1] for x in cc.split(",") if x.startswith(("window=", "sshthresh=", "smss="))]
            res.append("vs poll a=" + ",".join(vals) if vals else "vs poll")
        else:
            res.append(l)
    return res


def rng_for(seed, comp):
    return random.Random(f"{seed}/{comp}")


def scale(tier, quick, thorough):
    return thorough if tier == "thorough" else quick


from gens import cubic, sock, net, pure, wire, mtu, txring, rx, segs, vsock, vsock_props  # noqa: E402,F401  (registers generators / oracles)

pure.register(sys.modules[__name__])
cubic.register(sys.modules[__name__])
sock.register(sys.modules[__name__])
wire.register(sys.modules[__name__])
mtu.register(sys.modules[__name__])
txring.register(sys.modules[__name__])
rx.register(sys.modules[__name__])
segs.register(sys.modules[__name__])
vsock.register(sys.modules[__name__])
vsock_props.register(sys.modules[__name__])
net.register(sys.modules[__name__])
sock.register_late(sys.modules[__name__])
