#!/usr/bin/env python3
"""Applies every seeded change under /verif/seeded/ to /repo in turn, runs the quick check of the property it
targets, records the outcome in seeded/<name>/meta.json ("detected_by") and prints a table. Always restores /repo."""
import json, os, subprocess, sys, glob
VERIF = os.path.normpath(os.path.join(os.path.dirname(os.path.abspath(__file__)), ".."))
REPO = os.environ.get("VERIF_REPO", "/repo")
os.chdir(VERIF)
rows = []
only = sys.argv[1:]
for d in sorted(glob.glob("seeded/*/")):
    name = os.path.basename(d.rstrip("/"))
    if only and not any(o in name for o in only):
        continue
    meta = json.load(open(d + "meta.json"))
    pid = meta["property"]
    if meta.get("obsolete"):
        rows.append((name, pid, "OBSOLETE (equivalent on the current tree)", ""))
        continue
    ap = subprocess.run(["git", "-C", REPO, "apply", os.path.abspath(d + "patch.diff")], capture_output=True, text=True)
    if ap.returncode != 0:
        rows.append((name, pid, "PATCH DOES NOT APPLY", ap.stderr.strip()[:100]))
        continue
    try:
        p = subprocess.run([sys.executable, "tools/check.py", pid, "--tier", "quick"], capture_output=True, text=True, timeout=1800)
        viol = [l for l in p.stdout.split("\n") if l.startswith("VIOLATION")]
        summ = [l for l in p.stdout.split("\n") if l.startswith(pid + " quick")]
        what = []
        for v in viol[:2]:
            rp = v.split("replay=")[1].split()[0]
            try:
                r = json.load(open(rp))
                what.append((r.get("kind", "")[:60] + ": " + str(r.get("what") or r.get("reason", ""))[:160]))
            except Exception:
                pass
        meta["detected_by"] = {"check": f"tools/check.py {pid} --tier quick", "exit": p.returncode, "violation_lines": viol[:3], "what": what, "summary": summ[:1]}
        rows.append((name, pid, "DETECTED" if p.returncode == 1 and viol else "MISSED", (viol[0] if viol else "")[:110]))
    finally:
        subprocess.run(["git", "-C", REPO, "checkout", "--", "."])
    json.dump(meta, open(d + "meta.json", "w"), indent=1)
# leave the harness built from the clean tree
subprocess.run(["cargo", "build", "--offline"], cwd=os.path.join(VERIF, "harness"), capture_output=True)
for r in rows:
    print(" | ".join(r))
