#!/usr/bin/env python3
"""Tie 1b: regenerate lean/UtpVerif/Gen/Fns.lean - Lean definitions of small pure functions of /repo, translated
from the Rust source text on every run.

The hand-written models of these functions are proved EQUAL to the generated definitions
(`generated_*` theorems in the Props modules), so the property theorems about them are re-checked against what the
code says now: a change to one of these functions changes the generated definition and the equality proof no
longer closes.

Subset of Rust understood (anything else makes that one function untranslatable; it is then omitted from the
output, the theorem that refers to it stops building, and check.py reports the proof as broken):
  fn f(a: T, ..) -> R { stmts }         T, R in u8/u16/u32/u64/usize/isize/i64/Duration/bool
  let [mut] x = e;   return e;   if c { return e; }   ident!(..);   trailing expression
  match a.cmp(&b) { Ordering::Less => .., Ordering::Equal => .., Ordering::Greater => .. }
  if c { a } else { b }
  + - * / %   < <= > >= == !=   && || !  ^ (on bool)   unary -   ( )   e as T
  a.wrapping_sub(b) a.wrapping_add(b) a.saturating_sub(b) a.min(b) a.max(b) a.clamp(lo, hi)
  self.<field / no-argument method chain>      -> becomes a parameter of the generated function
  UPPER_CASE constants                          -> UtpVerif.Gen.<NAME> (see the per-function map)
Semantics emitted: unsigned values are Nat, `as isize` is the cast to Int, `as u32/u16/u8` is `% 2^n`,
`a - b` on unsigned is Nat subtraction (the code guards it; an underflow would panic in debug builds),
`wrapping_sub` on u16 is `(a + 65536 - b % 65536) % 65536`, Duration is nanoseconds.
"""
import json
import os
import re
import sys

REPO = os.environ.get("VERIF_REPO", "/repo")
OUT = os.path.join(os.path.dirname(os.path.abspath(__file__)), "..", "lean", "UtpVerif", "Gen", "Fns.lean")

FNS = [
    dict(file="src/utils.rs", fn="seq_nr_offset", lean="seqNrOffset"),
    dict(file="src/rtte.rs", fn="clamp", lean="rtoClamp"),
    dict(file="src/rtte.rs", fn="calc_rto", lean="calcRto", calls={"clamp": "rtoClamp"}, consts={"K": "RTTE_K"}),
    dict(file="src/rtte.rs", fn="duration_abs_diff", lean="durationAbsDiff"),
    # single assignments inside RttEstimator::sample (the Subsequent arm)
    dict(file="src/rtte.rs", fn="sample", assign="*rttvar", lean="rttvarUpdate", calls={"duration_abs_diff": "durationAbsDiff"},
         params=[("rttvar", "Duration"), ("srtt", "Duration"), ("new_rtt", "Duration")]),
    dict(file="src/rtte.rs", fn="sample", assign="*srtt", lean="srttUpdate",
         params=[("srtt", "Duration"), ("new_rtt", "Duration")]),
    dict(file="src/mtu.rs", fn="next_probe", lean="nextProbe"),
    dict(file="src/mtu.rs", fn="on_probe_failed", assign="self.max_ss", lean="probeFailedMaxSs", params=[("size", "usize")]),
    dict(file="src/mtu.rs", fn="on_payload_delivered", assign="self.min_ss", lean="deliveredMinSs", params=[("payload_size", "usize")], lets=True),
    dict(file="src/mtu.rs", fn="on_payload_delivered", assign="self.max_ss", lean="deliveredMaxSs", params=[]),
    dict(file="src/stream_dispatch.rs", fn="rx_window", lean="rxWindow"),
    dict(file="src/constants.rs", fn="calc_pipe_expiry", lean="calcPipeExpiry"),
    dict(file="src/recovery.rs", fn="cwnd", lean="recoveringCwndLeft"),          # first `fn cwnd`: Recovering::cwnd
    dict(file="src/stream_rx.rs", fn="window", lean="msgQueueWindow"),           # MsgQueue::window
    dict(file="src/stream_dispatch.rs", fn="immediate_ack_to_transmit", lean="immediateAckToTransmit"),
]

WIDTH = {"u8": 8, "u16": 16, "u32": 32, "u64": 64, "usize": 64}
LEAN_RESERVED = {"end", "from", "at", "in", "do", "then", "else", "if", "fun", "let", "have", "show", "with", "where", "open", "by"}


class TErr(Exception):
    pass


TOKEN = re.compile(r"\s*(?:(\d[\d_]*(?:u8|u16|u32|u64|usize|isize|i64)?)|([A-Za-z_][A-Za-z0-9_]*(?:::[A-Za-z_][A-Za-z0-9_]*)*!?)|(=>|<=|>=|==|!=|&&|\|\||[-+*/%<>!^(){},;.&=:]))")


def tokenize(src):
    src = "\n".join(l.split("//")[0] for l in src.split("\n"))
    toks, i = [], 0
    while i < len(src):
        if src[i:].strip() == "":
            break
        m = TOKEN.match(src, i)
        if not m:
            raise TErr(f"cannot tokenize near {src[i:i + 30]!r}")
        if m.group(1):
            toks.append(("num", int(re.sub(r"[_a-z]|(?<=\d)(?:u8|u16|u32|u64|usize|isize|i64)$", "", re.sub(r"(u8|u16|u32|u64|usize|isize|i64)$", "", m.group(1))))))
        elif m.group(2):
            toks.append(("id", m.group(2)))
        else:
            toks.append(("op", m.group(3)))
        i = m.end()
    return toks


def find_fn(src, name):
    m = re.search(r"\bfn\s+%s\s*(?:<[^>]*>)?\s*\(" % re.escape(name), src)
    if not m:
        raise TErr(f"fn {name} not found")
    i = src.index("(", m.start())
    depth, j = 0, i
    while True:
        if src[j] == "(":
            depth += 1
        elif src[j] == ")":
            depth -= 1
            if depth == 0:
                break
        j += 1
    params = src[i + 1:j]
    k = src.index("{", j)
    ret = src[j + 1:k].replace("->", "").strip()
    depth, e = 0, k
    while True:
        if src[e] == "{":
            depth += 1
        elif src[e] == "}":
            depth -= 1
            if depth == 0:
                break
        e += 1
    line = src.count("\n", 0, m.start()) + 1
    return params, ret, src[k:e + 1], line


class Parser:
    def __init__(self, toks, cfg, env):
        self.t, self.i, self.cfg = toks, 0, cfg
        self.env = env            # name -> ("nat", width | None) | ("int",) | ("bool",)
        self.self_params = []     # (lean name, rust text)

    def peek(self, k=0):
        return self.t[self.i + k] if self.i + k < len(self.t) else ("eof", None)

    def eat(self, kind=None, val=None):
        tok = self.peek()
        if (kind and tok[0] != kind) or (val is not None and tok[1] != val):
            raise TErr(f"expected {val or kind}, got {tok}")
        self.i += 1
        return tok

    def at(self, val):
        return self.peek() == ("op", val) or self.peek() == ("id", val)

    # ---- blocks / statements: return (lean text, type)
    def block(self):
        self.eat("op", "{")
        r = self.stmts()
        self.eat("op", "}")
        return r

    def stmts(self):
        tok = self.peek()
        if tok == ("id", "let"):
            self.eat()
            if self.at("mut"):
                self.eat()
            name = self.eat("id")[1]
            if self.at(":"):
                self.eat()
                self.eat("id")
            self.eat("op", "=")
            e, ty = self.expr()
            self.eat("op", ";")
            self.env[name] = ty
            rest, rty = self.stmts()
            return f"let {lean_id(name)} := {e}\n  {rest}", rty
        if tok == ("id", "return"):
            self.eat()
            e, ty = self.expr()
            if self.at(";"):
                self.eat()
            if not self.at("}"):
                raise TErr("code after return")
            return e, ty
        if tok[0] == "id" and tok[1].endswith("!"):
            # macro statement (trace!, debug!): no effect on the value
            self.eat()
            self.eat("op", "(")
            depth = 1
            while depth:
                t = self.eat()
                depth += (t == ("op", "(")) - (t == ("op", ")"))
            if self.at(";"):
                self.eat()
            return self.stmts()
        if tok == ("id", "if") and self.peek(1) != ("id", "let"):
            # `if c { return e; }` followed by more code, or a trailing if/else expression
            save = self.i
            self.eat()
            c, _ = self.expr(no_struct=True)
            a, aty = self.block()
            if self.at("else"):
                self.i = save
                e, ty = self.expr()
                if not self.at("}"):
                    raise TErr("code after trailing if/else")
                return e, ty
            rest, rty = self.stmts()
            return f"if {c} then {a} else\n  {rest}", unify(aty, rty)
        e, ty = self.expr()
        if self.at(";"):
            raise TErr("expression statement with no value")
        if not self.at("}"):
            raise TErr(f"unexpected {self.peek()} after expression")
        return e, ty

    # ---- expressions
    PREC = [("||",), ("&&",), ("==", "!=", "<", "<=", ">", ">="), ("^",), ("+", "-"), ("*", "/", "%")]

    def expr(self, level=0, no_struct=False):
        if level == len(self.PREC):
            return self.cast()
        l, lty = self.expr(level + 1, no_struct)
        while self.peek()[0] == "op" and self.peek()[1] in self.PREC[level]:
            op = self.eat()[1]
            r, rty = self.expr(level + 1, no_struct)
            if op in ("||", "&&"):
                l, lty = f"({l} {'∨' if op == '||' else '∧'} {r})", ("bool",)
            elif op in ("==", "!=", "<", "<=", ">", ">="):
                sym = {"==": "=", "!=": "≠", "<": "<", "<=": "≤", ">": ">", ">=": "≥"}[op]
                l, lty = f"({l} {sym} {r})", ("bool",)
            elif op == "^":
                if lty != ("bool",) or rty != ("bool",):
                    raise TErr("^ on non-bool")
                l, lty = f"(({l}) ≠ ({r}))", ("bool",)
            else:
                ty = unify(lty, rty)
                l, lty = f"({l} {op} {r})", ty
        return l, lty

    def cast(self):
        e, ty = self.unary()
        while self.at("as"):
            self.eat()
            t = self.eat("id")[1]
            if t in ("isize", "i64", "i32"):
                e, ty = (f"(({e} : Nat) : Int)", ("int",)) if ty[0] == "nat" else (e, ("int",))
            elif t in WIDTH:
                if ty[0] != "nat":
                    raise TErr(f"cast of non-unsigned to {t}")
                w = WIDTH[t]
                if ty[1] is not None and ty[1] <= w or t == "usize" or t == "u64":
                    e, ty = e, ("nat", max(w, ty[1] or 0) if t in ("usize", "u64") else w)
                else:
                    e, ty = f"({e} % {2 ** w})", ("nat", w)
            else:
                raise TErr(f"cast to {t}")
        return e, ty

    def unary(self):
        if self.at("-"):
            self.eat()
            e, ty = self.unary()
            if ty != ("int",):
                raise TErr("unary minus on unsigned")
            return f"(-{e})", ty
        if self.at("!"):
            self.eat()
            e, ty = self.unary()
            return f"(¬ {e})", ("bool",)
        if self.at("*") or self.at("&"):
            # deref / borrow of a plain value: no effect on the value
            self.eat()
            return self.unary()
        return self.postfix()

    def postfix(self):
        e, ty, raw = self.primary()
        while self.at("."):
            self.eat()
            name = self.eat("id")[1]
            if raw is not None and raw.startswith("self"):
                # field / no-argument method chain on self: opaque input
                if self.at("("):
                    if self.peek(1) != ("op", ")"):
                        raise TErr(f"method with arguments on self: {raw}.{name}")
                    self.eat()
                    self.eat()
                    raw = f"{raw}.{name}()"
                else:
                    raw = f"{raw}.{name}"
                if not (self.at(".") and self.peek(1)[0] == "id" and self.peek(1)[1] not in METHODS):
                    pname = lean_id(re.sub(r"[^A-Za-z0-9]+", "_", raw.replace("self.", "").replace("()", "")).strip("_"))
                    if (pname, raw) not in self.self_params:
                        self.self_params.append((pname, raw))
                    e, ty, raw = pname, ("nat", None), None
                continue
            self.eat("op", "(")
            args = []
            while not self.at(")"):
                if self.at("&"):
                    self.eat()
                args.append(self.expr())
                if self.at(","):
                    self.eat()
            self.eat("op", ")")
            if name == "cmp":
                return ("cmp", e, args[0][0]), ("cmp",)
            e, ty = self.method(e, ty, name, args)
            raw = None
        return e, ty

    def postfix_until_checked_sub(self):
        """`a.checked_sub(b)` as the scrutinee of `if let Some(..)`: returns ((a, b), (_, type))."""
        a, aty, _ = self.primary()
        self.eat("op", ".")
        if self.eat("id")[1] != "checked_sub":
            raise TErr("if let Some(..) on something other than a.checked_sub(b)")
        self.eat("op", "(")
        b, _ = self.expr()
        self.eat("op", ")")
        return (a, b), (None, aty)

    def method(self, e, ty, name, args):
        a = [x[0] for x in args]
        if name in ("min", "max") and len(a) == 1:
            return f"({name} {e} {a[0]})", unify(ty, args[0][1])
        if name == "clamp" and len(a) == 2:
            return f"(if {e} < {a[0]} then {a[0]} else if {e} > {a[1]} then {a[1]} else {e})", ty
        if name == "saturating_sub" and len(a) == 1:
            return f"({e} - {a[0]})", ty
        if name in ("wrapping_sub", "wrapping_add") and len(a) == 1:
            if ty[0] != "nat" or ty[1] is None:
                raise TErr(f"{name} on a value of unknown width")
            m = 2 ** ty[1]
            if name == "wrapping_sub":
                return f"(({e} + {m} - {a[0]} % {m}) % {m})", ty
            return f"(({e} + {a[0]}) % {m})", ty
        if name == "get" and not a:
            return e, ty
        if name == "checked_sub" and len(a) == 1 and self.at(".") and self.peek(1) == ("id", "unwrap"):
            self.eat(); self.eat(); self.eat("op", "("); self.eat("op", ")")
            return f"({e} - {a[0]})", ty
        raise TErr(f"method .{name}/{len(a)} not in the translated subset")

    def primary(self):
        tok = self.eat()
        if tok[0] == "num":
            return str(tok[1]), ("lit",), None
        if tok == ("op", "("):
            e, ty = self.expr()
            self.eat("op", ")")
            return f"({e})", ty, None
        if tok == ("id", "if") and self.at("let"):
            self.eat()
            if self.eat("id")[1] != "Some":
                raise TErr("if let with a pattern other than Some(x)")
            self.eat("op", "(")
            x = self.eat("id")[1]
            self.eat("op", ")")
            self.eat("op", "=")
            a, aty = self.postfix_until_checked_sub()
            self.env[x] = aty[1]
            yes, yty = self.block()
            self.eat("id", "else")
            no, nty = self.block()
            return f"(if {a[1]} ≤ {a[0]} then (let {lean_id(x)} := {a[0]} - {a[1]}; {yes}) else {no})", unify(yty, nty), None
        if tok == ("id", "if"):
            c, _ = self.expr(no_struct=True)
            a, aty = self.block()
            self.eat("id", "else")
            b, bty = self.block() if self.at("{") else self.expr()
            return f"(if {c} then {a} else {b})", unify(aty, bty), None
        if tok == ("id", "match"):
            scrut, sty = self.expr(no_struct=True)
            if sty != ("cmp",):
                raise TErr("match on something other than a.cmp(&b)")
            _, a, b = scrut
            self.eat("op", "{")
            arms = {}
            while not self.at("}"):
                pat = self.eat("id")[1]
                self.eat("op", "=>")
                body = self.block() if self.at("{") else self.expr()
                arms[pat.split("::")[-1]] = body
                if self.at(","):
                    self.eat()
            self.eat("op", "}")
            if set(arms) != {"Less", "Equal", "Greater"}:
                raise TErr("match arms are not exactly Less/Equal/Greater")
            ty = unify(unify(arms["Less"][1], arms["Equal"][1]), arms["Greater"][1])
            return (f"(if {a} < {b} then ({arms['Less'][0]})\n   else if {a} = {b} then ({arms['Equal'][0]})\n   else ({arms['Greater'][0]}))"), ty, None
        if tok == ("op", "{"):
            self.i -= 1
            e, ty = self.block()
            return f"({e})", ty, None
        if tok[0] == "id":
            name = tok[1]
            if name == "self":
                return "self", ("self",), "self"
            if name in ("true", "false"):
                return ("True" if name == "true" else "False"), ("bool",), None
            if self.at("("):
                # free function call
                callee = (self.cfg.get("calls") or {}).get(name)
                if not callee:
                    raise TErr(f"call of {name}() is not in the translated subset")
                self.eat()
                args = []
                while not self.at(")"):
                    args.append(self.expr()[0])
                    if self.at(","):
                        self.eat()
                self.eat()
                return f"({callee} {' '.join(args)})", ("nat", None), None
            if re.fullmatch(r"[A-Z][A-Z0-9_]*", name):
                cname = (self.cfg.get("consts") or {}).get(name, name)
                if name == "usize::MAX":
                    return "18446744073709551615", ("nat", 64), None
                return f"UtpVerif.Gen.{cname}", ("nat", None), None
            if name in self.env:
                return lean_id(name), self.env[name], None
            raise TErr(f"unknown identifier {name}")
        raise TErr(f"unexpected token {tok}")


METHODS = {"min", "max", "clamp", "saturating_sub", "wrapping_sub", "wrapping_add", "cmp", "get", "checked_sub", "unwrap"}


def unify(a, b):
    if a == ("lit",):
        return b
    if b == ("lit",):
        return a
    if a[0] == "nat" and b[0] == "nat":
        return ("nat", a[1] if a[1] == b[1] else (a[1] or b[1]))
    if a == b:
        return a
    raise TErr(f"type mismatch {a} vs {b}")


def lean_id(n):
    return n + "_" if n in LEAN_RESERVED else n


def translate(cfg):
    src = open(os.path.join(REPO, cfg["file"])).read()
    params, ret, body, line = find_fn(src, cfg["fn"])
    if "assign" in cfg:
        code = "\n".join(l.split("//")[0] for l in body.split("\n"))
        ms = list(re.finditer(re.escape(cfg["assign"]) + r"\s*=\s*([^;]*);", code))
        if len(ms) != 1:
            raise TErr(f"expected exactly one assignment to {cfg['assign']} in fn {cfg['fn']}, found {len(ms)}")
        params = ", ".join(f"{n}: {t}" for n, t in cfg["params"])
        ret = "Duration"
        line += code.count("\n", 0, ms[0].start())
        # `let` statements that precede the assignment stay in scope
        lets = " ".join(m.group(0) for m in re.finditer(r"\blet\s[^;]*;", code[:ms[0].start()])) if cfg.get("lets") else ""
        body = "{ " + lets + " " + ms[0].group(1) + " }"
    env, lparams = {}, []
    for p in [x.strip() for x in params.split(",") if x.strip()]:
        if p in ("&self", "&mut self", "self"):
            continue
        n, t = [x.strip() for x in p.split(":", 1)]
        if t in WIDTH:
            env[n] = ("nat", WIDTH[t])
        elif t == "Duration":
            env[n] = ("nat", None)
        else:
            raise TErr(f"parameter type {t}")
        lparams.append(lean_id(n))
    ps = Parser(tokenize(body), cfg, env)
    e, ty = ps.block()
    if ps.peek()[0] != "eof":
        raise TErr("trailing tokens")
    rty = {"isize": "Int", "i64": "Int", "bool": "Prop"}.get(ret, "Nat")
    if ret not in ("isize", "i64", "bool", "Duration") and ret not in WIDTH:
        raise TErr(f"return type {ret}")
    allp = [p for p, _ in ps.self_params] + lparams
    sig = (" (" + " ".join(allp) + " : Nat)") if allp else ""
    doc = f"/-- `{cfg['fn']}` ({cfg['file']}:{line})"
    if ps.self_params:
        doc += "; inputs: " + ", ".join(f"`{p}` = `{r}`" for p, r in ps.self_params)
    doc += " -/"
    return f"{doc}\ndef {cfg['lean']}{sig} : {rty} :=\n  {e}\n", {"fn": cfg["fn"], "file": cfg["file"], "line": line, "lean": cfg["lean"], "params": allp}


def main():
    out = ["-- GENERATED by tools/translate_fns.py from /repo's Rust sources on every run. Do not edit.",
           "-- Unsigned values are Nat, isize is Int, Durations are nanoseconds; see the translator's header for the subset.",
           "import UtpVerif.Gen.Constants", "namespace UtpVerif.Gen.Fns", ""]
    report, failed = [], []
    for cfg in FNS:
        try:
            text, info = translate(cfg)
            out.append(text)
            report.append(info)
        except (TErr, OSError, ValueError, IndexError) as e:
            failed.append({"fn": cfg["fn"], "file": cfg["file"], "error": str(e)})
            out.append(f"-- {cfg['fn']} ({cfg['file']}): NOT TRANSLATED: {e}\n")
    out.append("end UtpVerif.Gen.Fns")
    text = "\n".join(out) + "\n"
    old = open(OUT).read() if os.path.exists(OUT) else None
    if old != text:
        with open(OUT, "w") as f:
            f.write(text)
    if "--json" in sys.argv:
        print(json.dumps({"translated": report, "failed": failed}))
    else:
        print(text)
    return 0


if __name__ == "__main__":
    sys.exit(main())
