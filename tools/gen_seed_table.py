#!/usr/bin/env python3
"""Prints the markdown table of DESIGN.md section 10 from seeded/*/meta.json (outcomes recorded by tools/run_seeds.py)."""
import glob, json, os, re
V = os.path.normpath(os.path.join(os.path.dirname(os.path.abspath(__file__)), ".."))
design = open(os.path.join(V, "DESIGN.md")).read()
old = {}
for m in re.finditer(r"^\| (C\d\d-[^ |]+) \| (C\d\d) \| ([^|]*) \|", design, re.M):
    old[m.group(1)] = m.group(3).strip()
rows = []
for d in sorted(glob.glob(os.path.join(V, "seeded/*/"))):
    name = os.path.basename(d.rstrip("/"))
    meta = json.load(open(d + "meta.json"))
    what = old.get(name) or meta.get("short") or meta["what_it_needs_to_manifest_and_agent_notes"].split("\n")[0][:140]
    det = meta.get("detected_by")
    if meta.get("obsolete"):
        caught = "OBSOLETE: " + meta["obsolete_reason"][:230] + "…"
    elif isinstance(det, dict):
        v = (det.get("violation_lines") or [""])[0]
        kinds = []
        for w in det.get("what", []):
            kinds.append(w.split(":")[0])
        oracle = None
        mm = re.search(r"replay=(\S+)", v)
        if mm:
            try:
                r = json.load(open(os.path.join(V, mm.group(1))))
                oracle = r.get("oracle") or (r.get("component") and f"{r['component']} lockstep/differential")
            except Exception:
                pass
        if "no-failing-input-found" in v:
            caught = f"correspondence ({oracle or 'lockstep'}), no-failing-input-found in the quick tier"
        elif "-oracle-" in v:
            caught = f"oracle `{oracle}`: concrete failing input on the real code" if oracle else "oracle: concrete failing input"
        elif v:
            caught = "violation reported"
        else:
            caught = "MISSED"
    else:
        caught = str(det)
    rows.append(f"| {name} | {meta['property']} | {what} | {caught} |")
print("| seed | property | what it breaks | caught by (quick tier) |\n|---|---|---|---|")
print("\n".join(rows))
