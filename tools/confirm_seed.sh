#!/bin/sh
# usage: confirm_seed.sh <worktree> <id>   -- confirms a seeded change: suite passes except the demo with the change, demo passes without
set -u
WT=$1; ID=$2
cd "$WT" || exit 2
export RUST_LOG=off CARGO_NET_OFFLINE=true
echo "== with change =="
timeout 1200 cargo test --offline 2>&1 | grep -E "^test result|FAILED|failed" | head -8 > /tmp/confirm_$ID.with
cat /tmp/confirm_$ID.with
git apply -R MUTATION.diff || { echo "cannot reverse MUTATION.diff"; exit 2; }
echo "== without change =="
timeout 1200 cargo test --offline 2>&1 | grep -E "^test result|FAILED|failed" | head -8 > /tmp/confirm_$ID.without
cat /tmp/confirm_$ID.without
git apply MUTATION.diff
