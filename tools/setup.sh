#!/bin/sh
# MANIFEST.setup_cmd: build the framework from files on disk only (offline).
set -e
cd "$(dirname "$0")/.."
python3 tools/extract_constants.py
(cd lean && lake build)
[ -f harness/Cargo.lock ] || cp /repo/Cargo.lock harness/Cargo.lock
(cd harness && CARGO_NET_OFFLINE=true cargo build --offline)
echo setup-ok
