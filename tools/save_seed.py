#!/usr/bin/env python3
"""save_seed.py <name> <worktree> <property> <detected_by|none> -- stores a confirmed seeded change under /verif/seeded/<name>/"""
import json, os, shutil, sys
name, wt, prop, det = sys.argv[1:5]
d = f"/verif/seeded/{name}"
os.makedirs(d, exist_ok=True)
shutil.copy(f"{wt}/MUTATION.diff", f"{d}/patch.diff")
shutil.copy(f"{wt}/DEMO.diff", f"{d}/demo.diff")
meta_txt = open(f"{wt}/META.txt").read()
conf = {}
for k in ("with", "without"):
    p = f"/tmp/confirm_{os.path.basename(wt)}.{k}"
    conf[k] = open(p).read().strip().split("\n") if os.path.exists(p) else None
json.dump({
    "property": prop,
    "source": "independent sub-agent given only the property text and a scratch worktree",
    "what_it_needs_to_manifest_and_agent_notes": meta_txt,
    "confirmed_by_me": {"cmd": "tools/confirm_seed.sh (cargo test --offline in the scratch worktree, with the change and with it reversed)",
                        "with_change": conf["with"], "without_change": conf["without"]},
    "detected_by": det,
}, open(f"{d}/meta.json", "w"), indent=1)
print("saved", d)
