#!/usr/bin/env python3
"""Writes MANIFEST.json from the table below (single source of truth for the interface)."""
import json
import os
import subprocess

HERE = os.path.dirname(os.path.abspath(__file__))
VERIF = os.path.normpath(os.path.join(HERE, ".."))

BASELINE_OFF = ("cd /repo && cargo nextest run --workspace --no-fail-fast --test-threads 8 --offline "
                "|| cargo test --workspace --no-fail-fast --offline")

CLAIMS = {
    "C09": dict(
        text="Lean theorems for all 2^32 pairs (omega, no enumeration): seq_nr_offset equals true signed modular distance and SeqNr's Ord agrees with its sign whenever the distance is within the tolerance; shift (relabelling) lemma; and the side condition that the regenerated WRAP_TOLERANCE covers the default receive windows. Model tied to utils.rs/seq_nr.rs by a differential over edge x edge pairs and random pairs. The model's seq_nr_offset is proved equal (generated_seq_nr_offset) to the definition regenerated from utils.rs by tools/translate_fns.py on every run, so the arithmetic theorems are about the current source text of that function.",
        note="Trusted: Lean kernel (axioms propext, Quot.sound, Classical.choice at most), constants translator, harness. Whole-connection relabelling (packet traces under shifted ISNs) is stated with the hypothesis that every compared distance is within tolerance; the per-component shift theorems are added as the component models land.",
        technique="Lean 4 proof (omega over Nat/Int model of 16-bit arithmetic) + regenerated constants + differential correspondence",
        ref="5 C09"),
    "C16": dict(
        text="Lean theorems by induction over every sample/timeout sequence: RTO in [200 ms, 60 s] always; RTO = clamp(SRTT + max(4 RTTVAR, 10 ms)) after each sample; a timeout gives min(2 RTO, 60 s) and n timeouts min(2^n RTO, 60 s); a sample after any back-off returns the sample-derived value; SRTT between min and max sample. Constants regenerated from rtte.rs; model tied by exact-equality differential. The rtte oracle also runs the same samples without the timeouts (metamorphic): after every sample the RTO must be the same. clamp, calc_rto, duration_abs_diff and the two assignments of RttEstimator::sample are regenerated from rtte.rs on every run (tools/translate_fns.py) and proved equal to the model's (generated_clamp, generated_calc_rto, generated_abs_diff, generated_sample_update, all by rfl): an edit of the RTO formula breaks those proofs. The rtte oracle also checks RTO >= clamp(SRTT + 10 ms).",
        note="Trusted: Lean kernel, constants translator, harness. Assumes Duration arithmetic does not overflow (samples < 2^63 ns).",
        technique="Lean 4 proof (induction over event lists, omega) + regenerated constants + differential correspondence",
        ref="5 C16"),
}

CLAIMS["C11"] = dict(
    text="Lean theorems over all byte strings and all header values: the parser accepts exactly (>= 20 bytes, version nibble 1, type <= 4, extension chain fits) where the chain is specified by an independent inductive relation written from the BEP-29 text, and reports header size 20 + chain size, so unknown extensions never shift the payload boundary; payload present exactly for ST_DATA; serialise-then-parse is the identity for every well-formed header (any SACK length, both extensions) whenever the buffer has room, parse-serialise-parse is the identity on everything the parser accepts, short buffers yield a parseable datagram, too-small buffers an error. Model tied to raw.rs/message.rs by a structural-enumeration + random differential; implementation-side oracle = independent BEP-29 parser in Python.",
    note="Trusted: Lean kernel, constants translator, harness. 'Never panics' for the Rust parser rests on the model mirroring each guarded index (reads happen after the len<20 check; chain reads use get) and on catch_unwind in every differential case. The clause 'every datagram the library emits parses, has version 1 and the owed connection id' is proved with the connection model (L2) and is listed in the evidence as pending until that layer is claimed.",
    technique="Lean 4 proof (functional induction on the extension-chain parser, inductive BEP-29 chain spec) + regenerated constants + differential correspondence",
    ref="5 C11")

CLAIMS["C14"] = dict(
    text="Lean theorems for every link MTU (u16), both address families and every operation sequence with arbitrary (peer-controlled) sizes: 1 <= min_ss <= max_ss <= link-MTU payload ceiling; every size handed to segmentation is within the ceiling, ordinary = proven size, probe in (min_ss, max_ss]; next_probe cannot overflow u16; against a consistent path oracle the bracket min_ss <= P <= max_ss is kept and the gap at least halves per probe outcome, so after n outcomes with 2^n > initial gap min_ss = max_ss = P and probing stops (10 outcomes for the default IPv4 start). Model tied to mtu.rs by differential incl. a path-oracle family; implementation-side oracle checks ceiling, order and convergence bound. next_probe is regenerated from mtu.rs on every run and proved equal to the model's (generated_next_probe). Oracle probe_discipline also rejects an oversized segment that is retransmitted like an ordinary one.",
    note="Trusted: Lean kernel, constants translator, harness. Component level (mtu.rs). The segmentation-side clauses (ordinary segments <= min_ss as enqueued, at most one outstanding probe and it is the newest, data intact on a blackholing path) belong to the connection model; until that layer is claimed they are covered by the C01/C14 parts marked pending in evidence.",
    technique="Lean 4 proof (invariant by induction over op lists, halving argument) + regenerated constants + differential correspondence",
    ref="5 C14")

CLAIMS["C19"] = dict(
    text="Lean theorems for every sequence of write/ack-truncate/grow/flush/shutdown/drop/close operations and every initial/maximum size: the ring content is exactly (bytes accepted by write) minus (bytes removed by acknowledgement processing), in order, and its length never exceeds max(initial, maximum); poll_write accepts exactly the prefix that fits, and when nothing fits it returns Pending with the writer's waker registered and buffers nothing; growth keeps content and order and doubles capacity up to the maximum only when below it; truncate_front removes exactly the first n bytes or reports the internal error; the dispatcher's take of the writer waker wakes a blocked writer; accepting writes, shutdown requests and writer drop wake a registered dispatcher; prepare_2_ioslices returns ring[offset, offset+len) for every internal wrap position and never a Bug* error inside the ring. Model tied to stream_tx.rs by differential on the real ring buffer (capacities 1..300, wrap-around, growth, 8192-byte yield path) with position-coded payloads.",
    note="Trusted: Lean kernel, constants translator, harness; ringbuf::SharedRb modelled as a bounded FIFO (validated by the differential, not proved). The call-site facts that the connection task truncates exactly the acknowledged byte count and wakes the writer after every removal/growth are proved with the connection model (L2).",
    technique="Lean 4 proof (ghost-history invariant by induction over op lists) + differential correspondence on the real ring buffer",
    ref="5 C19")

CLAIMS["C04"] = dict(
    text="Lean theorems for every sequence of arrivals (any type, payload, offset), flushes, reads of any size, reader drop and death, for every buffer/segment configuration: the receive side never panics (flush's unwrap is unreachable); bytes queued for the reader never exceed the configured buffer; the advertised window is at most capacity - queued - parked and 0 once the reader is gone; what add_remove reports as consumed is exactly the run of slots that became contiguous (after it all slots below the front are occupied and the front is a hole), so the acknowledgement number equals the highest sequence number stored in order; the front never moves backwards on arrivals; an occupied slot leaves only through send_front_if_fits, which hands exactly that message to the reader's queue; selective-ACK bit i (i<64) is set iff slot front+1+i is occupied (bit-exact, incl. the byte encoding). Model tied to stream_rx.rs by differential with position-coded packets; implementation-side oracle checks ack honesty, SACK bits, window bound, content, EOF position and lost reader wake-ups.",
    note="Trusted: Lean kernel, constants translator, harness. Component level: the glue `ack_nr = last_consumed`, `last_consumed += sequence_numbers` and the MSS rounding of rx_window live in stream_dispatch.rs and are proved with the connection model (L2); the correspondence driver mirrors that glue in unwrapped-index form. A partially read message is counted as handed to the reader (not part of the receive buffer).",
    technique="Lean 4 proof (structural invariant of the slot queue, induction over op lists and loop fuel, bit-level SACK lemma by decide) + differential correspondence",
    ref="5 C04")

L2NOTE = 'Trusted: Lean kernel; constants translator; the hand-written connection model (Model/VSock.lean and below) whose tie to stream_dispatch.rs is the lockstep correspondence (byte-exact datagrams, poll results, wakes, congestion-controller call log, state fingerprint after every op, adaptive scripted peer + directed families); congestion-controller return values are adopted from the implementation in lockstep and universally quantified in theorems; tokio runtime behaviour (re-poll of woken tasks, Sleep firing) is assumed. '

CLAIMS["C18"] = dict(
    text="Lean theorems about the segmentation loop of split_tx_queue_into_segments, for every state, buffer content and peer window: with Nagle on every segment created is either as large as it could be (payload = min(segment size, peer window left)) or was created when no earlier segment was outstanding; every created segment is >= 1 byte (termination), fits the window and the bytes left; with Nagle off the loop stops only when everything buffered is segmented, the peer window is used up, or the segment just created is an MTU probe. Lockstep correspondence ties the model to the code.",
    note=L2NOTE + "First-transmission sizes equal enqueue sizes because the sender never re-segments except popped probes (C06 content-stability lemmas). The property is read at segmentation time (uTP does not re-segment): a window-limited partial segment may be transmitted later when the window is larger.",
    technique="Lean 4 proof (induction over the segmentation loop) + lockstep correspondence of the connection model",
    ref="5 C18")
CLAIMS["C05"] = dict(
    text="Lean theorems about send_tx_queue: the first-transmission loop sends a segment only while the remaining budget covers it and subtracts what it sent, so with budget min(cwnd, last_remote_window) - flight the outstanding bytes never exceed the window last advertised; with a zero window the budget is 0 and nothing new leaves; while the RTO counter is set and the timer has not expired send_tx_queue returns without sending. Lockstep correspondence + implementation-side window oracle over scripted ACK/window histories. Added: newDataLoop_bytes (each datagram is 20 header bytes + the segment's payload; payload bytes of one pass <= budget), first_transmissions_within_peer_window (a whole send_tx_queue pass outside recovery/RTO mode: in flight + newly sent <= max(in flight, peer window)), recoveryLoop_bytes (recovery retransmissions <= cwnd - pipe + the entry retransmission); the slow-start history clause is C15 slow_start_history_exact; oracle cc_accounting (the controller is told about each acknowledged byte at most once).",
    note=L2NOTE + "The slow-start history clause (outstanding <= 2 segments + bytes acked before the first loss) composes these with the CUBIC model (C15) and is covered by the lockstep/oracle until C15's composition theorem is added.",
    technique="Lean 4 proof (induction over the send loop) + lockstep correspondence + window oracle",
    ref="5 C05")
CLAIMS["C07"] = dict(
    text="Lean theorems about maybe_send_ack / next_timer_to_poll for every state: if the unacknowledged bytes reached 2 x segment size (every forced case sets them to usize::MAX), or the window flipped to/from zero, or the delayed-ACK timer expired with something to acknowledge, send_ack runs; otherwise any unacknowledged consumed byte leaves the delayed-ACK timer armed with deadline <= now + 40 ms and never later than it was; otherwise nothing is sent; the re-poll time handed to the runtime is <= the delayed-ACK deadline; ACK_DELAY = 40 ms and the factor 2 are the regenerated constants. Lockstep correspondence + ack-timeliness oracle (re-poll requested within 40 ms, ACK on the wire by then). Implementation-side oracles added: ack_forcing (two-segment threshold; a duplicate / out-of-order packet is answered in the poll that processes it, also inside a batch with packets that raise the segment size and after a blocked transport) and window_reopen (after an advertised zero window the first read that takes bytes wakes the connection) - the latter found defect D21 on the unchanged tree (fixed, 2a22d41); the supporting theorems are C02 zero_window_means_waker_registered / flush_registers_when_window_low / read_wakes_dispatcher. rx_window and immediate_ack_to_transmit are regenerated from stream_dispatch.rs on every run and proved equal to the model's (generated_rx_window, generated_immediate_ack).",
    note=L2NOTE + "That the runtime actually re-polls at the requested time is the tokio assumption shared with C02. The forcing sites inside process_incoming_message (duplicate / out-of-order / gap fill / FIN set the counter to MAX and send at once) are covered by the lockstep, not by a separate theorem.",
    technique="Lean 4 proof (case analysis of the ACK decision, min-fold lemma) + lockstep correspondence + timing oracle",
    ref="5 C07")
CLAIMS["C17"] = dict(
    text="Lean theorems over the transition table (stateGate) and the FIN/SYN-ACK functions for every state and header: closing on own initiative assigns the next sequence number to the FIN exactly once; the FIN is emitted only when fin - last_sent = 1 (everything before it transmitted), is an ST_FIN with that number, arms the retransmission timer; a RESET always ends in Closed with StResetReceived unless LastAck and it acknowledges our FIN, and emits nothing; SYN is ignored; an out-of-sequence FIN is dropped without state change in Established/FinWait1/FinWait2; an in-sequence FIN in Established moves to LastAck scheduling our FIN; SynAckSent is left only by DATA/STATE acknowledging seq_nr-1; SYN-ACK resend waits for the 200 ms timer and fails with MaxSynAckRetransmissionsReached at the cap. Lockstep correspondence incl. a handshake/teardown matrix family + stream-content/FIN oracle. Added: fin_not_withheld_after_full_ack (for all 16-bit values within the comparison tolerance the clamp applied after acknowledgement processing leaves fin - last_sent = 1 once everything before the FIN is acknowledged: the D17 fix as a theorem). Oracle rtx_timer now also judges LastAck (our FIN unacknowledged implies an armed retransmission timer).",
    note=L2NOTE + "The FIN rules are stated for closing on the endpoint's own initiative (FinWait1); a FIN sent in answer to the peer's FIN, or on the death path, may precede unsent data by design (data after a remote FIN is discarded).",
    technique="Lean 4 proof (transition-table case analysis) + lockstep correspondence + FIN/stream oracle",
    ref="5 C17")
CLAIMS["C06"] = dict(
    text="Lean theorems: send_data! refuses with MaxRetransmissionsReached whenever the segment's retransmit count equals the limit, on every path; on_sent increases the count by one; RTO expiry resends the first undelivered segment, doubles the estimator's RTO (C16 doubling within [200 ms, 60 s]), restarts the timer with the doubled value, rewinds last_sent and enters RTO mode; SACK duplicate counting reaches the threshold 3 immediately with >= 3 bits and by one per SACK-bearing ACK otherwise, non-SACK counting requires same ack_nr/window ST_STATE; IgnoringUntilRecoveryPoint never enters recovery; iter_mut_for_sending never yields a delivered segment; ack processing, sending and pipe estimation never change the byte range a queued segment addresses (content stability); Karn's rule. Segments differential + lockstep correspondence (incl. RTO-then-SACK family) + stream-content oracle.",
    note=L2NOTE + "A re-segmented probe may reuse a sequence number whose first copy was delivered while its ACKs were lost (design-level, DESIGN section 6 D2): listed as a limitation of the property the code was written to, not claimed proved.",
    technique="Lean 4 proof (Segments invariants, Recovery/RTO step lemmas) + Segments differential + lockstep correspondence",
    ref="5 C06")
CLAIMS["C03"] = dict(
    text="Lean theorems: flush returns Ok only with an empty ring, and (C19 ghost history) for every history that means bytes accepted = bytes removed by acknowledgement processing; shutdown returns Ok only on an empty ring of a closed connection; the death path marks both halves closed and fires every registered reader/writer waker; on a closed connection write fails, flush/shutdown return Ok or an error and read (non-empty buffer) never returns Pending; end-of-stream is never returned while a partially read message or a queued payload precedes the EOF marker. Lockstep correspondence + calls-resolve and stream oracles; TxRing/Rx differentials. Added oracle completion_honest: flush/shutdown return Ok only when every accepted byte was cumulatively acknowledged in a datagram the connection processed (judged on the wire).",
    note=L2NOTE + "The cross-endpoint step 'what the sender removed the receiver holds in order' composes C04 (ack honesty), C06 (content stability) and C09 and is not mechanised over two endpoints (same gap as C01). Bounded detection time rests on C06 (retry cap) + C08 (inactivity/final-chance timers) + the runtime assumption.",
    technique="Lean 4 proof (TxRing/Rx invariants, read-loop induction, death-path lemma) + lockstep correspondence + oracles",
    ref="5 C03")
CLAIMS["C02"] = dict(
    text="Lean theorems for the code's obligations (liveness itself needs the runtime): every accepted send_data! leaves the retransmission timer armed no later than now + RTO and the inactivity timer armed; the re-poll request is <= every armed protocol timer when the transport is writable (and the inactivity deadline when it is blocked); the connection registers its waker when it finds the ring empty, and an accepting write / shutdown request / writer drop fire it (C19); a read returning bytes fires the registered connection waker; flush wakes the reader also for a lone EOF marker (fixed defect); an ACK at or beyond the first unacknowledged segment removes at least one segment (strict progress). Lockstep correspondence compares every wake event and the Sleep deadline after every operation. Added: flush_registers_when_window_low, zero_window_means_waker_registered (an advertised zero window always comes with a registered reader->connection wake-up, given the reassembly-queue invariant; D21), oracle window_reopen.",
    note=L2NOTE + "PARTIAL: 'eventually' over fair-lossy schedules is not a theorem here; it follows from these step facts plus the tokio assumptions. Two lost-wake-up defects (poll_shutdown, EOF flush) were found and fixed. The 5 s tracing tick of spawn_utils is not part of the model: wake events are compared exactly, so a wake that only the tick would mask shows as a disagreement.",
    technique="Lean 4 proof (timer/wake step lemmas, progress lemma) + lockstep correspondence of wake events and timers",
    ref="5 C02")
CLAIMS["C08"] = dict(
    text="Lean theorems (connection part): once the state is at or past our own FIN every Pending poll leaves the inactivity timer armed no later than one second after that poll and never extends an existing deadline; local close is absorbing under the transition table; Closed (or LastAck when the last ACK is not awaited) makes poll finish. Lockstep correspondence incl. teardown families; after Ready the harness drops the future and nothing more is emitted. Added: stale_data_keeps_timers, unconsumed_data_keeps_inactivity (only progress restarts the inactivity timer) and the oracle inactivity_discipline.",
    note=L2NOTE + "PARTIAL: slot release and the connection limit are socket-table facts (C12 theorems no_eviction / limit; exercised with real tasks by the `net` integration oracle: every table entry is released once all streams are dropped, silence afterwards); found and fixed D19 (application gone + zero window: task never ended; theorem app_gone_timer_armed); that Rust runs the Drop guard sending Shutdown(key) when the task's future is dropped, that tokio drops a finished/cancelled task's future, and that the socket dispatcher drains its control channel are assumptions the model cannot exhibit.",
    technique="Lean 4 proof (timer and transition lemmas) + lockstep correspondence",
    ref="5 C08")
CLAIMS["C10"] = dict(
    text="Lean theorems, for every byte string / header and every state satisfying the component invariant: the parser returns a header size within the datagram or rejects (never panics); any ack_nr with any selective-ACK bytes leaves the TX queue consistent and cannot underflow; any data/FIN packet at any offset leaves the reassembly queue consistent, never BugAssemblerMissingSlot, flush cannot panic; BugInvalidMessage only for types the connection never passes; iteration and probe pops never panic; the transition table fails only with StResetReceived outside SynReceived. Wire/Segments/Rx differentials + lockstep with a hostile peer stream + bug_errors oracle (found and fixed: BugRecvInClosed reachable with a blocked transport). Oracle sock_calls: a pending accept() on a live socket is never failed, whatever arrives.",
    note=L2NOTE + "PARTIAL: 'poll never ends in Bug*' is proved per component, the composition over poll is covered by the lockstep + oracle; cross-connection isolation is a socket-table fact (C12); the per-connection UnboundedReceiver has no bound in the code (TODO in the source) and is an assumption.",
    technique="Lean 4 proof (component invariants for all inputs) + differentials + lockstep correspondence with hostile peer",
    ref="5 C10")
CLAIMS["C01"] = dict(
    text="Lean theorems (data-plane invariants): with the ring = ghost stream minus the acknowledged prefix and the segment queue addressing a contiguous range of it, every payload send_data! gathers for any queued segment, for every ring wrap position, is exactly written[offset_abs, offset_abs+size) and never a Bug* error; ack processing for any header + truncate_front of the reported bytes, segmentation, writes and probe pops all re-establish that coupling; retransmissions carry the same bytes; a reassembly slot holds exactly what was stored for its position, duplicates never overwrite, slots reach the reader in order (C04). Segments/TxRing/Rx differentials with position-coded payloads + lockstep correspondence + stream-content oracle.",
    note=L2NOTE + "END-TO-END (Props/C01E2E.lean): for every event list (each data packet may arrive any number of times, in any order, or never, interleaved with flushes and reads of any size) and every buffer configuration, the bytes the application has read are a prefix of pkt 0 ++ pkt 1 ++ ... (reader_gets_prefix_of_packet_stream, invariant over the real reassembly model by induction over events), and with packets being consecutive slices of the written stream (what the sender theorems establish) a prefix of the written stream (read_is_prefix_of_written_slices). PARTIAL: that theorem works on ghost packet indices (16-bit offsets are C09), data packets only (FIN/errors: C17/C03), and takes the sender's labelling as a hypothesis discharged per segment by wire_payload_is_stream_slice / content_stable - the two-endpoint product with the full sender state machine is not one theorem; D2 (known finding) breaks the labelling for a re-split probe; it composes these invariants with C04, C09 and the network assumption (delivered datagrams were sent, staleness below the tolerance). Known limitation (DESIGN D2): re-segmentation of an expired probe whose first copy was delivered.",
    technique="Lean 4 proof (sender coupling invariant, receiver slot lemmas) + differentials + lockstep correspondence + content oracle",
    ref="5 C01")

CLAIMS["C15"] = dict(
    text="Lean theorems over a model of cubic.rs on extended rationals (NaN, +-inf, finite) with an explicit rounding operator, for EVERY rounding operator that is monotone, idempotent and exact on integers below 2^53 (IEEE round-to-nearest is) and every cbrt: window() lies between min(2*MSS, peer window) and the peer window in every state whatsoever (NaN/inf cwnd included); for every event sequence (ack / rto / enter recovery / recovered / set_mss / set_remote_window with any numeric arguments, MSS > 0) cwnd and rwnd stay finite, non-negative and representable (invariant by induction over event lists); an RTO gives window = min(2*MSS, peer) and never increases it, entering recovery never increases it, both set ssthresh = max(0.7*cwnd, 2); zero-length ACKs change nothing. Slow-start growth <= acknowledged bytes and MSS rescale keeps the byte value are proved exactly for exact arithmetic (rnd = id) and up to ONE byte for every rounding operator with relative error <= 2^-53 (the standard binary64 error model) and byte magnitudes below 2^50; the negation of the exact clause under binary64 is proved on a concrete witness (D15). Tie: every step of the real Cubic is compared from the implementation's own previous f64 state (bit patterns) with the model instantiated at binary64 rounding. Added: slow_start_history_exact (from a fresh controller, after any sequence of acknowledgements and window updates without a loss signal, window() <= 2 x MSS + bytes acknowledged; exact arithmetic).",
    note="Trusted: Lean kernel; that IEEE-754 binary64 +,-,*,/ satisfy `Rounding` on the normal range; model floats have unbounded exponent range (overflow/underflow of finite computations not modelled); libm pow/cbrt compared within 2^-44 relative; harness and comparator. PARTIAL: with f64 rounding the slow-start growth and MSS-rescale equalities hold only up to one byte (theorems slow_start_growth_within_one_byte, mss_change_rescales_within_one_byte); the real code does exceed the acknowledged bytes by one byte (known finding D15, Lean witness d15_slow_start_exceeds_by_one_byte) - the oracle reports any larger excess. That binary64 arithmetic satisfies `RoundErr` with eps = 2^-53 is assumed (IEEE-754), not proved for the executable rnd53. Found and fixed: D4 (window() above the peer window after rounding / MSS change).",
    technique="Lean 4 proof (rounding-parametric float model, invariant by induction over event lists, ordered-field lemmas) + regenerated constants + step-wise differential correspondence on f64 bit patterns",
    ref="5 C15")

SOCKNOTE = "Trusted: Lean kernel; constants translator; the hand-written dispatcher model (Model/Sock.lean) whose tie to socket.rs is the lockstep correspondence through the DispatcherDriver hook (branch taken by select!, SYN/RESET datagrams, result of every connect()/accept() call, and streams / connecting slots / SYN backlog / acceptor queue / next connection id after every operation); tokio's mpsc/oneshot semantics in the lockstep world are modelled in the Lean driver and validated, not proved; connection tasks are not run in lockstep - their inputs to the dispatcher (Shutdown(key), closed channel) are injected as events. "

CLAIMS["C12"] = dict(
    text="Lean theorems over every sequence of dispatcher loop iterations (acceptors, control requests, datagrams with any bytes from any address, idle wake-ups), every limit, random supply and requester liveness: the number of table entries never exceeds max_live_vsocks and keys (peer address, receive connection id) are unique (invariant by induction over event lists); every delivery made in an iteration is of the datagram just received, to the entry under (its source address, its connection id), and no other function of the dispatcher delivers; an entry (key -> connection instance) leaves the table only when that iteration processed the Shutdown request for its key or a datagram for exactly that key found the connection's task gone (no eviction by connects, SYNs, SYN-ACKs, floods or the limit); a connect beyond the limit fails with TooManyActiveConnections and changes nothing; SYN-ACKs and SYNs arriving at a full table leave it untouched.",
    note=SOCKNOTE + "PARTIAL: that each connection's byte stream stays intact is C01 per connection plus the delivery theorem here; the composition over many real connection tasks is not mechanised - it is exercised by the `net` integration component (2-3 real sockets, real dispatcher and connection tasks, scripted lossy network, per-stream tagged payload: implementation-side oracle only, no model). get_next_free_conn_id's loop is modelled with fuel 32768 (its termination needs fewer than 32768 same-parity keys for one address: true whenever max_live_vsocks <= 32768; beyond that the real loop would not terminate - observation, not reachable with the default 128). Found and fixed: D20 (the stale Shutdown(key) of an ended stream evicted a successor that re-used the key; reproduced with real tasks; Shutdown is now tagged with the stream instance; theorems no_eviction / stale_shutdown_ignored).",
    technique="Lean 4 proof (table invariant and effect classification by induction over loop fuel and event lists) + regenerated constants + lockstep correspondence of the real Dispatcher",
    ref="5 C12")
CLAIMS["C13"] = dict(
    text="Lean theorems for every state and event: the SYN backlog is a FIFO queue - in one loop iteration requests leave it only from the front and at most one enters, at the back, only while fewer than 32 wait, so it never exceeds 32 (induction over event lists); a SYN arriving while earlier SYNs are cached is never matched, only cached behind them or refused; acceptors (cached one, then channel) are likewise served from the front only; on_syn answers with a RESET naming the SYN's connection id and acknowledging its sequence number exactly when the request could not be cached because 32 are waiting; per-address connecting slots: insert fills exactly one free slot and fails only when all 4 are busy, pop (SYN-ACK matched by acknowledged sequence number, or ConnectDropped by token) frees exactly one and keeps the others. The accept_order oracle also checks that the backlog never changes order between two observations (elements leave, at most the SYN just processed joins at the back).",
    note=SOCKNOTE + "Found and fixed: D16 (a new SYN overtook cached SYNs when an accept call and the SYN became ready together; select! race reproduced deterministically enough through the hook's park/resume). PARTIAL: 'each successful connect is matched by exactly one accepted stream on the listener and the two are wired to each other' spans two sockets; here each connectOk/accepted effect consumes its slot/acceptor and inserts exactly its key, the cross-socket pairing is not mechanised. That a dropped connect()/accept() future releases its reservation relies on Rust running the drop guard (ConnectDropped) / closing the oneshot, which the lockstep exercises (dropconn/dropacc).",
    technique="Lean 4 proof (queue suffix invariants by induction over loop fuel, slot lemmas) + regenerated constants + lockstep correspondence of the real Dispatcher incl. the select! race",
    ref="5 C13")

PENDING = {
}

ALL = ["C%02d" % i for i in range(1, 20)]


def main():
    checks = []
    for pid in ALL:
        if pid not in CLAIMS:
            continue
        c = CLAIMS[pid]
        checks.append({
            "property_id": pid,
            "quick_cmd": f"python3 tools/check.py {pid} --tier quick",
            "thorough_cmd": f"python3 tools/check.py {pid} --tier thorough",
            "evidence_file": f"/verif/evidence/{pid}.json",
            "replay_cmd_template": f"python3 tools/check.py {pid} --replay {{path}}",
            "engine": "lean4-proof+correspondence",
            "level_claimed": {"category": "proof", "text": c["text"], "design_ref": "DESIGN.md section " + c["ref"]},
            "level_note": c["note"],
            "technique": c["technique"],
        })
    na = []
    for pid in ALL:
        if pid not in CLAIMS:
            na.append({"property_id": pid, "reason": PENDING.get(pid, "no check registered at this commit: the Lean model/theorems for this property are still being built (DESIGN.md section 10 staging); it will be claimed once its check passes on the unchanged tree")})
    hooks = subprocess.run(["git", "-C", "/repo", "log", "--format=%h %s"], capture_output=True, text=True).stdout.split("\n")
    hook_commits = [l.split()[0] for l in hooks if l and "verif hook" in l]
    m = {
        "version": 1,
        "setup_cmd": "sh tools/setup.sh",
        "hooks": {
            "guard": "cargo feature `verif`",
            "enable": "harness/Cargo.toml depends on librqbit-utp = { path = \"/repo\", features = [\"verif\"] }; every check runs `cargo build --offline` in /verif/harness, which rebuilds /repo's working tree with the feature on",
            "baseline_off_cmd": BASELINE_OFF,
            "source_commits": hook_commits,
            "add_only": True,
        },
        "engines": [{
            "name": "lean4-proof+correspondence",
            "path": "/verif/lean (theorems, model, driver), /verif/harness (real-code driver), /verif/tools/check.py",
            "serves_properties": sorted(CLAIMS),
            "kind_free_text": "machine-checked proof in Lean 4 over a hand-written executable model; constants regenerated from the Rust source each run; model tied to the code by differential correspondence runs",
        }],
        "checks": checks,
        "not_applicable": na,
        "notes": "See DESIGN.md. known_findings.txt lists fixed/known defects. Replays are written to /verif/replays/ only when a violation is reported.",
    }
    with open(os.path.join(VERIF, "MANIFEST.json"), "w") as f:
        json.dump(m, f, indent=1)
        f.write("\n")


if __name__ == "__main__":
    main()
