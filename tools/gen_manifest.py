#!/usr/bin/env python3
"""Writes MANIFEST.json from the table below (single source of truth for the interface)."""
import json
import os
import subprocess

HERE = os.path.dirname(os.path.abspath(__file__))
VERIF = os.path.normpath(os.path.join(HERE, ".."))

BASELINE_OFF = ("cd /repo && cargo nextest run --workspace --no-fail-fast --test-threads 8 --offline "
                "|| cargo test --workspace --no-fail-fast --offline")

CLAIMS = {
    "C09": dict(
        text="Lean theorems for all 2^32 pairs (omega, no enumeration): seq_nr_offset equals true signed modular distance and SeqNr's Ord agrees with its sign whenever the distance is within the tolerance; shift (relabelling) lemma; and the side condition that the regenerated WRAP_TOLERANCE covers the default receive windows. Model tied to utils.rs/seq_nr.rs by a differential over edge x edge pairs and random pairs.",
        note="Trusted: Lean kernel (axioms propext, Quot.sound, Classical.choice at most), constants translator, harness. Whole-connection relabelling (packet traces under shifted ISNs) is stated with the hypothesis that every compared distance is within tolerance; the per-component shift theorems are added as the component models land.",
        technique="Lean 4 proof (omega over Nat/Int model of 16-bit arithmetic) + regenerated constants + differential correspondence",
        ref="5 C09"),
    "C16": dict(
        text="Lean theorems by induction over every sample/timeout sequence: RTO in [200 ms, 60 s] always; RTO = clamp(SRTT + max(4 RTTVAR, 10 ms)) after each sample; a timeout gives min(2 RTO, 60 s) and n timeouts min(2^n RTO, 60 s); a sample after any back-off returns the sample-derived value; SRTT between min and max sample. Constants regenerated from rtte.rs; model tied by exact-equality differential.",
        note="Trusted: Lean kernel, constants translator, harness. Assumes Duration arithmetic does not overflow (samples < 2^63 ns).",
        technique="Lean 4 proof (induction over event lists, omega) + regenerated constants + differential correspondence",
        ref="5 C16"),
}

CLAIMS["C11"] = dict(
    text="Lean theorems over all byte strings and all header values: the parser accepts exactly (>= 20 bytes, version nibble 1, type <= 4, extension chain fits) where the chain is specified by an independent inductive relation written from the BEP-29 text, and reports header size 20 + chain size, so unknown extensions never shift the payload boundary; payload present exactly for ST_DATA; serialise-then-parse is the identity for every well-formed header (any SACK length, both extensions) whenever the buffer has room, parse-serialise-parse is the identity on everything the parser accepts, short buffers yield a parseable datagram, too-small buffers an error. Model tied to raw.rs/message.rs by a structural-enumeration + random differential; implementation-side oracle = independent BEP-29 parser in Python.",
    note="Trusted: Lean kernel, constants translator, harness. 'Never panics' for the Rust parser rests on the model mirroring each guarded index (reads happen after the len<20 check; chain reads use get) and on catch_unwind in every differential case. The clause 'every datagram the library emits parses, has version 1 and the owed connection id' is proved with the connection model (L2) and is listed in the evidence as pending until that layer is claimed.",
    technique="Lean 4 proof (functional induction on the extension-chain parser, inductive BEP-29 chain spec) + regenerated constants + differential correspondence",
    ref="5 C11")

CLAIMS["C14"] = dict(
    text="Lean theorems for every link MTU (u16), both address families and every operation sequence with arbitrary (peer-controlled) sizes: 1 <= min_ss <= max_ss <= link-MTU payload ceiling; every size handed to segmentation is within the ceiling, ordinary = proven size, probe in (min_ss, max_ss]; next_probe cannot overflow u16; against a consistent path oracle the bracket min_ss <= P <= max_ss is kept and the gap at least halves per probe outcome, so after n outcomes with 2^n > initial gap min_ss = max_ss = P and probing stops (10 outcomes for the default IPv4 start). Model tied to mtu.rs by differential incl. a path-oracle family; implementation-side oracle checks ceiling, order and convergence bound.",
    note="Trusted: Lean kernel, constants translator, harness. Component level (mtu.rs). The segmentation-side clauses (ordinary segments <= min_ss as enqueued, at most one outstanding probe and it is the newest, data intact on a blackholing path) belong to the connection model; until that layer is claimed they are covered by the C01/C14 parts marked pending in evidence.",
    technique="Lean 4 proof (invariant by induction over op lists, halving argument) + regenerated constants + differential correspondence",
    ref="5 C14")

CLAIMS["C19"] = dict(
    text="Lean theorems for every sequence of write/ack-truncate/grow/flush/shutdown/drop/close operations and every initial/maximum size: the ring content is exactly (bytes accepted by write) minus (bytes removed by acknowledgement processing), in order, and its length never exceeds max(initial, maximum); poll_write accepts exactly the prefix that fits, and when nothing fits it returns Pending with the writer's waker registered and buffers nothing; growth keeps content and order and doubles capacity up to the maximum only when below it; truncate_front removes exactly the first n bytes or reports the internal error; the dispatcher's take of the writer waker wakes a blocked writer; accepting writes, shutdown requests and writer drop wake a registered dispatcher; prepare_2_ioslices returns ring[offset, offset+len) for every internal wrap position and never a Bug* error inside the ring. Model tied to stream_tx.rs by differential on the real ring buffer (capacities 1..300, wrap-around, growth, 8192-byte yield path) with position-coded payloads.",
    note="Trusted: Lean kernel, constants translator, harness; ringbuf::SharedRb modelled as a bounded FIFO (validated by the differential, not proved). The call-site facts that the connection task truncates exactly the acknowledged byte count and wakes the writer after every removal/growth are proved with the connection model (L2).",
    technique="Lean 4 proof (ghost-history invariant by induction over op lists) + differential correspondence on the real ring buffer",
    ref="5 C19")

CLAIMS["C04"] = dict(
    text="Lean theorems for every sequence of arrivals (any type, payload, offset), flushes, reads of any size, reader drop and death, for every buffer/segment configuration: the receive side never panics (flush's unwrap is unreachable); bytes queued for the reader never exceed the configured buffer; the advertised window is at most capacity - queued - parked and 0 once the reader is gone; what add_remove reports as consumed is exactly the run of slots that became contiguous (after it all slots below the front are occupied and the front is a hole), so the acknowledgement number equals the highest sequence number stored in order; the front never moves backwards on arrivals; an occupied slot leaves only through send_front_if_fits, which hands exactly that message to the reader's queue; selective-ACK bit i (i<64) is set iff slot front+1+i is occupied (bit-exact, incl. the byte encoding). Model tied to stream_rx.rs by differential with position-coded packets; implementation-side oracle checks ack honesty, SACK bits, window bound, content, EOF position and lost reader wake-ups.",
    note="Trusted: Lean kernel, constants translator, harness. Component level: the glue `ack_nr = last_consumed`, `last_consumed += sequence_numbers` and the MSS rounding of rx_window live in stream_dispatch.rs and are proved with the connection model (L2); the correspondence driver mirrors that glue in unwrapped-index form. A partially read message is counted as handed to the reader (not part of the receive buffer).",
    technique="Lean 4 proof (structural invariant of the slot queue, induction over op lists and loop fuel, bit-level SACK lemma by decide) + differential correspondence",
    ref="5 C04")

PENDING = {
}

ALL = ["C%02d" % i for i in range(1, 20)]


def main():
    checks = []
    for pid in ALL:
        if pid not in CLAIMS:
            continue
        c = CLAIMS[pid]
        checks.append({
            "property_id": pid,
            "quick_cmd": f"python3 tools/check.py {pid} --tier quick",
            "thorough_cmd": f"python3 tools/check.py {pid} --tier thorough",
            "evidence_file": f"/verif/evidence/{pid}.json",
            "replay_cmd_template": f"python3 tools/check.py {pid} --replay {{path}}",
            "engine": "lean4-proof+correspondence",
            "level_claimed": {"category": "proof", "text": c["text"], "design_ref": "DESIGN.md section " + c["ref"]},
            "level_note": c["note"],
            "technique": c["technique"],
        })
    na = []
    for pid in ALL:
        if pid not in CLAIMS:
            na.append({"property_id": pid, "reason": PENDING.get(pid, "no check registered at this commit: the Lean model/theorems for this property are still being built (DESIGN.md section 10 staging); it will be claimed once its check passes on the unchanged tree")})
    hooks = subprocess.run(["git", "-C", "/repo", "log", "--format=%h %s"], capture_output=True, text=True).stdout.split("\n")
    hook_commits = [l.split()[0] for l in hooks if l and "verif hook" in l]
    m = {
        "version": 1,
        "setup_cmd": "sh tools/setup.sh",
        "hooks": {
            "guard": "cargo feature `verif`",
            "enable": "harness/Cargo.toml depends on librqbit-utp = { path = \"/repo\", features = [\"verif\"] }; every check runs `cargo build --offline` in /verif/harness, which rebuilds /repo's working tree with the feature on",
            "baseline_off_cmd": BASELINE_OFF,
            "source_commits": hook_commits,
            "add_only": True,
        },
        "engines": [{
            "name": "lean4-proof+correspondence",
            "path": "/verif/lean (theorems, model, driver), /verif/harness (real-code driver), /verif/tools/check.py",
            "serves_properties": sorted(CLAIMS),
            "kind_free_text": "machine-checked proof in Lean 4 over a hand-written executable model; constants regenerated from the Rust source each run; model tied to the code by differential correspondence runs",
        }],
        "checks": checks,
        "not_applicable": na,
        "notes": "See DESIGN.md. known_findings.txt lists fixed/known defects. Replays are written to /verif/replays/ only when a violation is reported.",
    }
    with open(os.path.join(VERIF, "MANIFEST.json"), "w") as f:
        json.dump(m, f, indent=1)
        f.write("\n")


if __name__ == "__main__":
    main()
