"""Generators + oracles for the wire format (C11, parser part of C10)."""
import itertools

EXT_IDS = [1, 2, 3, 255]
EXT_LENS = [0, 1, 4, 8, 9, 255]


def hx(b):
    return bytes(b).hex() if b else "-"


def spec_parse(b):
    """Independent BEP-29 reading: returns (header dict, hsize) or None. Written from the BEP text:
    byte0 = type<<4|version, byte1 = first extension id, then conn id, ts, ts diff, wnd, seq, ack (big endian);
    each extension = [next id][len][len bytes]; chain ends at id 0."""
    if len(b) < 20:
        return None
    ty, ver = b[0] >> 4, b[0] & 15
    if ver != 1 or ty > 4:
        return None
    pos = 20
    ext = b[1]
    exts = []
    while ext != 0:
        if pos + 2 > len(b):
            return None
        nxt, ln = b[pos], b[pos + 1]
        if pos + 2 + ln > len(b):
            return None
        exts.append((ext, bytes(b[pos + 2: pos + 2 + ln])))
        pos += 2 + ln
        ext = nxt
    return {"type": ty, "exts": exts,
            "cid": int.from_bytes(b[2:4], "big"), "seq": int.from_bytes(b[16:18], "big"),
            "ack": int.from_bytes(b[18:20], "big"), "wnd": int.from_bytes(b[12:16], "big")}, pos


def spec_msg_ok(b):
    r = spec_parse(b)
    if r is None:
        return False
    h, pos = r
    plen = len(b) - pos
    return (plen > 0) if h["type"] == 0 else (plen == 0)


def mk_packet(r, ty, ver, chain, payload, fixed=None):
    first = chain[0][0] if chain else 0
    hdr = [((ty & 15) << 4) | (ver & 15), first] + (fixed if fixed else [r.randrange(256) for _ in range(18)])
    body = []
    for i, (eid, ln) in enumerate(chain):
        nxt = chain[i + 1][0] if i + 1 < len(chain) else 0
        body += [nxt, ln] + [r.randrange(256) for _ in range(ln)]
    return hdr + body + payload


def gen_wire(P):
    def gen(seed, tier):
        r = P.rng_for(seed, "wire")
        cases = []
        thorough = tier == "thorough"
        # --- structural enumeration: (type, version) x chains of <= N extensions x truncation at every byte
        types = [0, 1, 2, 3, 4, 5, 15]
        vers = [0, 1, 2]
        maxchain = 3 if thorough else 2
        chains = [()]
        for n in range(1, maxchain + 1):
            chains += list(itertools.product(itertools.product(EXT_IDS, EXT_LENS), repeat=n))
        if not thorough:
            r.shuffle(chains)
            chains = [()] + chains[:260]
        ops = ["nop"]
        for chain in chains:
            for ty, ver in ([(r.choice(types), r.choice(vers)), (r.choice([0, 1, 2, 3, 4]), 1)] if not thorough else itertools.product(types, vers)):
                for payload in ([], [r.randrange(256) for _ in range(r.randrange(1, 5))]):
                    pkt = mk_packet(r, ty, ver, list(chain), payload)
                    ops.append(f"wire msg {hx(pkt)}")
                    ops.append(f"wire rt {hx(pkt)}")
                    if ver == 1 and ty <= 4:
                        cuts = range(0, len(pkt)) if (thorough or len(pkt) < 60) else sorted(r.sample(range(len(pkt)), 12))
                        for cut in cuts:
                            ops.append(f"wire de {hx(pkt[:cut])}")
                if len(ops) > 4000:
                    cases.append(ops)
                    ops = ["nop"]
        if len(ops) > 1:
            cases.append(ops)
        # --- random byte strings + mutated valid packets
        n = P.scale(tier, 60, 2000)
        for _ in range(n):
            ops = ["nop"]
            for _ in range(60):
                k = r.random()
                if k < 0.3:
                    b = [r.randrange(256) for _ in range(r.choice([0, 1, 19, 20, 21, 22, 30, 36, 64, 300]))]
                    if b and r.random() < 0.7:
                        b[0] = (r.randrange(6) << 4) | 1
                    if len(b) > 1 and r.random() < 0.5:
                        b[1] = r.choice([0, 1, 3, 2])
                else:
                    chain = [(r.choice(EXT_IDS), r.choice(EXT_LENS + [r.randrange(0, 40)])) for _ in range(r.randrange(0, 4))]
                    b = mk_packet(r, r.randrange(5), 1, chain, [r.randrange(256) for _ in range(r.choice([0, 0, 1, 5, 100]))])
                    if r.random() < 0.3 and b:
                        b[r.randrange(len(b))] = r.randrange(256)
                    if r.random() < 0.2:
                        b = b[: r.randrange(len(b) + 1)]
                ops.append(f"wire {r.choice(['de', 'msg', 'rt'])} {hx(b)}")
            cases.append(ops)
        # --- serialisation of arbitrary header values
        for _ in range(n):
            ops = ["nop"]
            for _ in range(40):
                ty = r.randrange(5)
                f = [r.choice([0, 1, 65535, r.randrange(65536)]), r.choice([0, 2**32 - 1, r.randrange(2**32)]), r.randrange(2**32),
                     r.choice([0, 2**32 - 1, r.randrange(2**32)]), r.randrange(65536), r.randrange(65536)]
                s = r.random()
                if s < 0.35:
                    sack = "none"
                elif s < 0.8:
                    sack = hx([r.randrange(256) for _ in range(8)])
                else:
                    sack = hx([r.randrange(256) for _ in range(r.choice([0, 1, 3, 4, 7, 9, 16]))])
                cr = "-" if r.random() < 0.6 else str(r.choice([0, 15, 256, 65535, r.randrange(65536)]))
                bl = r.choice([0, 19, 20, 21, 25, 26, 29, 30, 35, 36, 37, 64, 1024])
                args = f"{bl} {ty} {f[0]} {f[1]} {f[2]} {f[3]} {f[4]} {f[5]} {sack} {cr}"
                ops.append(f"wire ser {args}")
                ops.append(f"wire rts {args}")
            cases.append(ops)
        # --- SelectiveAck::new
        ops = ["nop"]
        for _ in range(P.scale(tier, 200, 5000)):
            idxs = sorted(r.sample(range(0, 80), r.randrange(0, 12)))
            if r.random() < 0.2:
                r.shuffle(idxs)
            ops.append("wire sacknew " + " ".join(map(str, idxs)))
        cases.append(ops)
        return cases
    return gen


def oracle_wire(P):
    def orc(case, impl):
        hits = []
        for op, out in zip(case, impl):
            t = op.split()
            if len(t) < 3 or t[0] != "wire":
                continue
            if out.startswith("PANIC"):
                hits.append({"sig": {"oracle": "wire", "what": "panic"}, "text": f"parser/serialiser panicked: {op} -> {out}"})
                continue
            if t[1] in ("de", "msg", "rt"):
                b = list(bytes.fromhex(t[2])) if t[2] != "-" else []
                want = spec_parse(b) is not None if t[1] != "msg" else spec_msg_ok(b)
                got = out != "none"
                if want != got:
                    hits.append({"sig": {"oracle": "wire", "what": "acceptance"},
                                 "text": f"{t[1]} {t[2][:80]}: implementation {'accepts' if got else 'rejects'}, BEP-29 reading {'accepts' if want else 'rejects'}"})
                    continue
                if got and t[1] == "de":
                    h, pos = spec_parse(b)
                    kv = dict(x.split("=", 1) for x in out.split()[1:])
                    if int(kv["hsize"]) != pos or int(kv["type"]) != h["type"] or int(kv["cid"]) != h["cid"] or int(kv["seq"]) != h["seq"] or int(kv["ack"]) != h["ack"] or int(kv["wnd"]) != h["wnd"]:
                        hits.append({"sig": {"oracle": "wire", "what": "fields"}, "text": f"de {t[2][:80]}: {out} but BEP-29 reading gives {h} hsize={pos}"})
                if got and t[1] == "msg":
                    h, pos = spec_parse(b)
                    kv = dict(x.split("=", 1) for x in out.split()[1:])
                    if kv["payload"] != hx(b[pos:]):
                        hits.append({"sig": {"oracle": "wire", "what": "payload_boundary"}, "text": f"msg {t[2][:80]}: payload boundary shifted"})
                if got and t[1] == "rt" and out.startswith("diff"):
                    h, pos = spec_parse(b)
                    sack_lens = [len(d) for (e, d) in h["exts"] if e == 1]
                    has_cr = any(e == 3 and len(d) == 4 for (e, d) in h["exts"])
                    if sack_lens and sack_lens[-1] != 8:
                        sig = {"oracle": "wire", "what": "roundtrip", "why": "sack_ext_len_not_8"}
                    elif sack_lens and has_cr:
                        sig = {"oracle": "wire", "what": "roundtrip", "why": "two_extensions"}
                    else:
                        sig = {"oracle": "wire", "what": "roundtrip", "why": "other"}
                    hits.append({"sig": sig, "text": f"parse -> serialise -> parse is not the identity: rt {t[2][:100]} -> {out[:200]}"})
            elif t[1] == "rts":
                if out.startswith("diff"):
                    bl = int(t[2])
                    sack, cr = t[10], t[11]
                    sack_len = None if sack == "none" else (0 if sack == "-" else len(sack) // 2)
                    need = 20 + (10 if sack_len is not None else 0) + (6 if cr != "-" else 0)
                    if bl < need:
                        continue   # short-buffer branch: extension silently dropped, covered separately (result still parses)
                    if sack_len is not None and sack_len != 8:
                        sig = {"oracle": "wire", "what": "roundtrip", "why": "sack_ext_len_not_8"}
                    elif sack_len is not None and cr != "-":
                        sig = {"oracle": "wire", "what": "roundtrip", "why": "two_extensions"}
                    else:
                        sig = {"oracle": "wire", "what": "roundtrip", "why": "other"}
                    hits.append({"sig": sig, "text": f"serialise -> parse is not the identity: {op} -> {out[:200]}"})
        # one hit per signature
        seen, res = set(), []
        for h in hits:
            k = str(sorted(h["sig"].items()))
            if k not in seen:
                seen.add(k)
                res.append(h)
        return res
    return orc


def stats_wire(case, impl, dist):
    acc = rej = 0
    for op, out in zip(case, impl):
        t = op.split()
        if len(t) > 1 and t[0] == "wire":
            dist["wire_" + t[1]] = dist.get("wire_" + t[1], 0) + 1
            if t[1] in ("de", "msg", "rt"):
                if out == "none":
                    rej += 1
                else:
                    acc += 1
                    if "sack=none" not in out and t[1] != "rt":
                        dist["parsed_with_sack"] = dist.get("parsed_with_sack", 0) + 1
    dist["wire_accepted"] = dist.get("wire_accepted", 0) + acc
    dist["wire_rejected"] = dist.get("wire_rejected", 0) + rej
    return acc > 0 and rej > 0 or any(o.startswith("wire ser") for o in case)


def register(P):
    P.GENERATORS["wire"] = gen_wire(P)
    P.STATS["wire"] = stats_wire
    P.ORACLE_COMPONENT["wire"] = "wire"
    P.PROPS["C11"] = {
        "lean": ["UtpVerif.Props.C11"],
        "components": ["wire"],
        "oracles": {"wire": oracle_wire(P)},
        "directed": {"wire": lambda seed: gen_wire(P)(seed, "quick")},
        "rule": "UtpHeader::deserialize / UtpMessage::deserialize / serialize on a structurally enumerated grammar (type x version x extension chains x truncation at every byte) plus random and mutated packets and arbitrary header values; non-trivial if the case mixes accepted and rejected inputs or exercises serialisation",
        "assumptions": ["'independent BEP-29 parser' = Spec.parse in Lean (and spec_parse in tools/gens/wire.py for the implementation-side oracle), written from the BEP text"],
        "trusted": ["model of raw.rs/message.rs/selective_ack.rs (Model/Wire.lean) - validated by this differential"],
    }
