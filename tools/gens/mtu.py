"""Generator + oracle for SegmentSizes (mtu.rs): C14 (component part)."""
import math


def ceiling(c, v4, link):
    iph = c["IPV4_HEADER"] if v4 else c["IPV6_HEADER"]
    link = max(link, iph + c["UDP_HEADER"] + c["UTP_HEADER"] + 1)
    return link - iph - c["UDP_HEADER"] - c["UTP_HEADER"]


def gen_mtu(P):
    def gen(seed, tier):
        r = P.rng_for(seed, "mtu")
        cases = []
        n = P.scale(tier, 600, 30000)
        links = [0, 48, 49, 68, 69, 100, 575, 576, 577, 1279, 1280, 1281, 1400, 1492, 1500, 4000, 9000, 16384, 65535]
        for i in range(n):
            v4 = r.choice([0, 1])
            link = r.choice(links) if r.random() < 0.7 else r.randrange(0, 65536)
            cd = r.choice([0, 1, 3, 3, 3, 10])
            ops = [f"mtu new {v4} {link} {cd}"]
            style = r.random()
            if style < 0.5:
                # consistent path oracle: everything up to `path` gets through
                path = r.randrange(1, 9100) if r.random() < 0.8 else r.randrange(1, 66000)
                for _ in range(r.randrange(5, 60)):
                    if r.random() < 0.1:
                        ops.append("mtu disarm")
                    ops.append(f"mtu path {path}")
            else:
                for _ in range(r.randrange(1, 40)):
                    k = r.random()
                    if k < 0.35:
                        ops.append("mtu next")
                    elif k < 0.6:
                        ops.append(f"mtu delivered {r.choice([0, 1, 100, 528, 1000, 1452, 1453, 3000, 16364, 65535, 70000, r.randrange(0, 2000)])}")
                    elif k < 0.85:
                        ops.append(f"mtu failed {r.choice([0, 1, 2, 529, 991, 1452, 1453, 65535, 65536, 65537, r.randrange(0, 2000)])}")
                    else:
                        ops.append("mtu disarm")
            cases.append(ops)
        return cases
    return gen


def kv(out):
    return {k: int(v) for k, v in (x.split("=") for x in out.split())}


def oracle_mtu(P):
    def orc(case, impl):
        c = P.consts()
        hits = []
        ceil = None
        path = None
        consistent = True
        probes = 0
        gap0 = None
        min0 = None
        for op, out in zip(case, impl):
            t = op.split()
            if t[0] != "mtu":
                continue
            if out.startswith("PANIC") or out == "bad-op":
                hits.append({"sig": {"oracle": "mtu", "what": "panic"}, "text": f"{op} -> {out}"})
                break
            d = kv(out)
            if t[1] == "new":
                ceil = ceiling(c, t[2] == "1", int(t[3]))
                gap0 = d["max"] - d["mss"]
                min0 = d["mss"]
            else:
                if t[1] != "path" and t[1] != "disarm":
                    consistent = False
                if t[1] == "path":
                    path = int(t[2])
                    if d["ss"] > prev["mss"]:
                        probes += 1
            if ceil is not None:
                if d["mss"] > ceil or d["max"] > ceil or ("ss" in d and d["ss"] > ceil):
                    hits.append({"sig": {"oracle": "mtu", "what": "above_link_ceiling"},
                                 "text": f"after `{op}` segment sizes {out} exceed the link-MTU payload ceiling {ceil}: a datagram larger than the link MTU allows would be emitted"})
                if d["mss"] > d["max"] or d["mss"] < 1:
                    hits.append({"sig": {"oracle": "mtu", "what": "order"}, "text": f"after `{op}`: {out} violates 1 <= min_ss <= max_ss"})
            prev = d
        if consistent and path is not None and ceil is not None and min0 <= path and not hits:
            target = min(path, ceil)
            need = math.ceil(math.log2(gap0 + 1)) if gap0 > 0 else 0
            if probes >= need and (prev["mss"] != target or prev["probing"] != 0):
                hits.append({"sig": {"oracle": "mtu", "what": "convergence"},
                             "text": f"path {path}, ceiling {ceil}: after {probes} probe outcomes (bound {need}) mss={prev['mss']} probing={prev['probing']}, expected {target}/0"})
            if prev["mss"] > target:
                hits.append({"sig": {"oracle": "mtu", "what": "overshoot"}, "text": f"proven size {prev['mss']} above what the path passes ({target})"})
        return hits[:3]
    return orc


def stats_mtu(case, impl, dist):
    kinds = set()
    for op, out in zip(case, impl):
        t = op.split()
        if t[0] == "mtu":
            dist["mtu_" + t[1]] = dist.get("mtu_" + t[1], 0) + 1
            kinds.add(t[1])
            if "probing=1" in out:
                dist["mtu_state_probing"] = dist.get("mtu_state_probing", 0) + 1
    return len(kinds) >= 2


def register(P):
    P.GENERATORS["mtu"] = gen_mtu(P)
    P.STATS["mtu"] = stats_mtu
    P.ORACLE_COMPONENT["mtu"] = "mtu"
    P.PROPS["C14"] = {
        "lean": ["UtpVerif.Props.C14"],
        "components": ["mtu", "segs"],
        "oracles": {"mtu": oracle_mtu(P), "segs": lambda case, impl: P.SEGS_ORACLE(case, impl)},
        "directed": {"mtu": lambda seed: gen_mtu(P)(seed, "quick")},
        "rule": "SegmentSizes driven by random op sequences and by a consistent path oracle over link MTUs 0..65535, both address families; non-trivial if at least two different operations occur",
        "assumptions": [],
        "trusted": ["model of mtu.rs (Model/Mtu.lean) - validated by this differential"],
    }
