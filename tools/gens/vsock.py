"""Scenario generator for the connection state machine (stream_dispatch.rs) in lockstep.

The generator plays the application and a scripted peer AGAINST THE REAL IMPLEMENTATION (interactive
harness process): it reads every datagram the connection emits and reacts - acks what it saw, loses,
duplicates and reorders, advertises windows, goes silent, sends FIN/RESET/garbage - so that established,
recovery, RTO, MTU-probing, zero-window and teardown paths are all reached.  The resulting op list is
then replayed in batch on implementation and model and compared (check.py)."""
import os
import subprocess

HERE = os.path.dirname(os.path.abspath(__file__))
HBIN = os.path.normpath(os.path.join(HERE, "..", "..", "harness", "target", "debug", "utp-verif-harness"))


class Impl:
    def __init__(self):
        env = dict(os.environ, RUST_LOG="off")
        self.p = subprocess.Popen([HBIN, "--interactive"], stdin=subprocess.PIPE, stdout=subprocess.PIPE, text=True, bufsize=1, env=env)

    def op(self, line):
        self.p.stdin.write(line + "\n")
        self.p.stdin.flush()
        return self.p.stdout.readline().rstrip("\n")

    def close(self):
        try:
            self.p.stdin.close()
            self.p.wait(timeout=5)
        except Exception:
            self.p.kill()


def mk_dgram(ty, cid, ts, tsd, wnd, seq, ack, sack=None, payload=b"", cr=None):
    b = bytearray(20)
    b[0] = (ty << 4) | 1
    b[2:4] = (cid % 65536).to_bytes(2, "big")
    b[4:8] = (ts % 2**32).to_bytes(4, "big")
    b[8:12] = (tsd % 2**32).to_bytes(4, "big")
    b[12:16] = (wnd % 2**32).to_bytes(4, "big")
    b[16:18] = (seq % 65536).to_bytes(2, "big")
    b[18:20] = (ack % 65536).to_bytes(2, "big")
    exts = []
    if sack is not None:
        exts.append((1, bytes(sack)))
    if cr is not None:
        exts.append((3, (cr % 65536).to_bytes(4, "big")))
    pos = 1
    for eid, data in exts:
        b[pos] = eid
        pos = len(b)
        b += bytes([0, len(data)]) + data
    return bytes(b) + bytes(payload)


def parse_dgram(hexs):
    b = bytes.fromhex(hexs)
    ty = b[0] >> 4
    d = {"type": ty, "cid": int.from_bytes(b[2:4], "big"), "wnd": int.from_bytes(b[12:16], "big"),
         "seq": int.from_bytes(b[16:18], "big"), "ack": int.from_bytes(b[18:20], "big")}
    pos = 20
    ext = b[1]
    d["sack"] = None
    while ext != 0 and pos + 2 <= len(b):
        nxt, ln = b[pos], b[pos + 1]
        if ext == 1:
            d["sack"] = b[pos + 2:pos + 2 + ln]
        pos += 2 + ln
        ext = nxt
    d["plen"] = len(b) - pos
    return d


def fp_fields(out):
    if "fp=" not in out:
        return {}
    fp = out.split("fp=", 1)[1].split(" ")[0]
    d = {}
    for x in fp.split(";"):
        if "=" in x:
            k, v = x.split("=", 1)
            d[k] = v
    return d


def pos_byte(i):
    return (i * 7 + 3) % 251


class Scenario:
    def __init__(self, r, impl):
        self.r = r
        self.impl = impl
        self.ops = []
        self.dead = False
        self.now = 0
        self.fp = {}

    def do(self, line):
        out = self.impl.op(line)
        self.ops.append(line)
        if line.startswith("vs poll"):
            if out.startswith("ready"):
                self.dead = True
            self.fp = fp_fields(out)
            self.on_poll(out)
        if " now=" in out:
            try:
                self.now = int(out.split("now=")[1].split()[0])
            except ValueError:
                pass
        return out

    # ---- peer model
    def setup(self):
        r = self.r
        self.outgoing = r.random() < 0.7
        self.our = r.choice([1, 101, 65530, 65535, r.randrange(65536)])
        self.rem = r.choice([1, 1, 65534, r.randrange(65536)])
        self.mss_hint = 528
        opts = []
        if r.random() < 0.3:
            opts.append(f"nagle={r.choice([0, 1])}")
        if r.random() < 0.35:
            opts.append(f"mtu={r.choice([576, 600, 1000, 1500, 9000, 100])}")
        if r.random() < 0.4:
            opts.append(f"rx={r.choice([1000, 2000, 4096, 65536, 528 * 4])}")
        if r.random() < 0.4:
            t0 = r.choice([100, 1000, 4096, 32768])
            opts.append(f"tx0={t0}")
            opts.append(f"txmax={r.choice([t0, t0 * 2, t0 * 8, max(1, t0 // 2)])}")
        if r.random() < 0.3:
            opts.append(f"retx={r.choice([1, 2, 5])}")
        if r.random() < 0.3:
            opts.append(f"inact={r.choice([500_000_000, 2_000_000_000, 10_000_000_000])}")
        if r.random() < 0.3:
            opts.append(f"wla={r.choice([0, 1])}")
        if r.random() < 0.3:
            opts.append(f"probe_retx={r.choice([0, 1, 2])}")
        if r.random() < 0.15:
            opts.append("v4=0")
        self.rwnd = r.choice([1 << 20, 1 << 20, 5000, 1500, 600, 0])
        if self.outgoing:
            opts.append(f"rwnd={self.rwnd}")
            opts.append(f"rtt={r.choice([1_000_000, 50_000_000, 1_000_000_000])}")
        self.cid = r.randrange(65536)
        out = self.do(f"vs new {'out' if self.outgoing else 'in'} our={self.our} rem={self.rem} cid={self.cid} " + " ".join(opts))
        # peer's view
        self.peer_next = self.rem if self.outgoing else (self.rem + 1) % 65536   # next seq the peer uses for data
        self.got = {}                  # our seq -> payload len, as received by the peer (it may pretend it lost some)
        self.lost = set()              # our seqs the peer pretends not to have received
        self.peer_ack = (self.our - 1) % 65536     # peer's cumulative ack of our data
        self.our_fin_seq = None
        self.saw_ack = None
        self.established = self.outgoing
        self.peer_sent_fin = False
        self.ts = 1000

    def on_poll(self, out):
        if "out=[" not in out:
            return
        body = out.split("out=[", 1)[1].split("]", 1)[0]
        for hx in [x for x in body.split(",") if x]:
            d = parse_dgram(hx)
            self.saw_ack = d["ack"]
            if d["type"] == 0:
                if self.r.random() < self.loss:
                    self.lost.add(d["seq"])
                else:
                    self.got[d["seq"]] = d["plen"]
                    self.lost.discard(d["seq"])
            elif d["type"] == 1:
                self.our_fin_seq = d["seq"]
                if self.r.random() >= self.loss:
                    self.got[d["seq"]] = 0
            elif d["type"] == 2 and not self.established:
                self.established = True       # SYN-ACK seen
        # advance the peer's cumulative ack
        while (self.peer_ack + 1) % 65536 in self.got:
            self.peer_ack = (self.peer_ack + 1) % 65536

    def sack_bytes(self):
        bits = bytearray(8)
        anyb = False
        for s in self.got:
            d = (s - self.peer_ack - 2) % 65536
            if d < 64:
                bits[d // 8] |= 1 << (d % 8)
                anyb = True
        return bytes(bits) if anyb else None

    def inject(self, ty, seq=None, ack=None, wnd=None, sack=None, payload=b"", cr=None):
        self.ts += self.r.choice([0, 1, 1000])
        d = mk_dgram(ty, self.cid, self.ts, 0, self.rwnd if wnd is None else wnd,
                     self.peer_next if seq is None else seq, self.peer_ack if ack is None else ack, sack, payload, cr)
        return self.do(f"vs inject {d.hex()}")

    def peer_payload(self, n):
        return bytes(pos_byte(self.peer_pos + j) for j in range(n))

    def run(self):
        r = self.r
        self.loss = r.choice([0, 0, 0.1, 0.3, 0.6])
        self.peer_pos = 0
        self.setup()
        persona = r.choice(["bulk_tx", "bulk_rx", "chatty", "teardown", "hostile", "mixed", "mixed"])
        steps = r.randrange(10, 110)
        peer_sent = {}     # peer seq -> payload (for retransmissions / duplicates)
        for _ in range(steps):
            if self.dead:
                break
            k = r.random()
            w = {"bulk_tx": (0.30, 0.45, 0.60, 0.85), "bulk_rx": (0.08, 0.30, 0.40, 0.85), "chatty": (0.25, 0.45, 0.60, 0.80),
                 "teardown": (0.15, 0.40, 0.50, 0.70), "hostile": (0.10, 0.35, 0.45, 0.60), "mixed": (0.2, 0.45, 0.6, 0.8)}[persona]
            if k < w[0]:
                # application
                a = r.random()
                if a < 0.5:
                    n = r.choice([1, 5, 100, 527, 528, 529, 1000, 3000, 20000]) if persona != "chatty" else r.choice([1, 2, 10, 50])
                    self.do(f"vs write {n}")
                elif a < 0.75:
                    self.do(f"vs read {r.choice([1, 10, 528, 5000, 100000])}")
                elif a < 0.85:
                    self.do("vs flush")
                elif a < 0.92 or persona == "teardown":
                    self.do(r.choice(["vs shutdown", "vs dropw", "vs dropr", "vs shutdown"]))
                else:
                    self.do("vs read 0")
            elif k < w[1]:
                self.do("vs poll")
            elif k < w[2]:
                # time: jump to (around) one of the armed timers, or a small step
                cands = []
                for key in ("t_rtx", "t_inact", "t_ack", "t_pipe", "t_syn", "sleep"):
                    v = self.fp.get(key, "-")
                    if v != "-" and int(v) > self.now:
                        cands.append(int(v) - self.now)
                if cands and r.random() < 0.7:
                    d = r.choice(cands) + r.choice([0, 0, 0, -1, 1, 1000])
                    d = max(0, d)
                else:
                    d = r.choice([0, 1, 1000, 1_000_000, 39_999_999, 40_000_000, 200_000_000, 1_000_000_000])
                self.do(f"vs adv {d}")
                if r.random() < 0.8:
                    self.do("vs poll")
            elif k < w[3]:
                # well-behaved-ish peer
                a = r.random()
                if not self.established and not self.outgoing and r.random() < 0.5:
                    a = 2.0   # stay silent sometimes before the handshake completes
                if a < 0.35:
                    sack = self.sack_bytes() if r.random() < 0.8 else None
                    self.inject(2, sack=sack, wnd=r.choice([self.rwnd, self.rwnd, 0, 528, 100, 1 << 20]))
                elif a < 0.45:
                    for _ in range(r.randrange(2, 5)):
                        self.inject(2, sack=self.sack_bytes() if r.random() < 0.5 else None)
                elif a < 0.80:
                    n = r.choice([1, 10, 528, 528, 1000, 1452, 3000]) if persona != "chatty" else r.choice([1, 3, 20])
                    style = r.random()
                    if style < 0.65 or not peer_sent:
                        seq = self.peer_next
                        pl = self.peer_payload(n)
                        peer_sent[seq] = pl
                        self.peer_pos += n
                        self.peer_next = (self.peer_next + 1) % 65536
                        if r.random() < 0.8 or persona == "bulk_rx":
                            self.inject(0, seq=seq, payload=pl)
                        # else: lost on the way
                    elif style < 0.85:
                        seq = r.choice(list(peer_sent))     # retransmission / duplicate / late packet
                        self.inject(0, seq=seq, payload=peer_sent[seq])
                    else:
                        self.inject(0, seq=(self.peer_next + r.choice([1, 2, 5, 70, 2000])) % 65536, payload=bytes(n))
                elif a < 0.88:
                    # FIN in sequence / out of sequence, with or without acking ours
                    seq = self.peer_next if r.random() < 0.7 else (self.peer_next + r.choice([1, 3, 65535])) % 65536
                    self.inject(1, seq=seq, cr=15 if r.random() < 0.2 else None)
                    if seq == self.peer_next:
                        self.peer_sent_fin = True
                elif a < 0.92:
                    self.inject(3, ack=self.our_fin_seq if (self.our_fin_seq is not None and r.random() < 0.5) else None)
                elif a < 0.95:
                    self.inject(2, seq=(self.peer_next) % 65536)      # ST_STATE carrying seq = last+1 ("fin-like")
                if r.random() < 0.7:
                    self.do("vs poll")
            else:
                a = r.random()
                if a < 0.3:
                    self.do(r.choice(["vs tmode ok", "vs tmode ok", f"vs tmode pend {r.choice([0, 1, 2])}", f"vs tmode limit {r.choice([548, 600, 1020, 1472])}", f"vs tmode fail {r.choice([0, 1, 3])}"]))
                elif a < 0.75:
                    # hostile / nonsense packets
                    ty = r.choice([0, 1, 2, 2, 2, 3, 4])
                    sack = bytes(r.randrange(256) for _ in range(r.choice([0, 1, 4, 8, 8, 16]))) if r.random() < 0.5 else None
                    pl = bytes(r.randrange(256) for _ in range(r.choice([1, 100, 2000]))) if ty == 0 else b""
                    self.inject(ty, seq=r.choice([self.peer_next, r.randrange(65536)]), ack=r.choice([self.peer_ack, r.randrange(65536), (self.our + 30000) % 65536]),
                                wnd=r.choice([0, 1, 2**32 - 1, self.rwnd]), sack=sack, payload=pl)
                elif a < 0.8:
                    self.do("vs chanclose")
                else:
                    self.do("vs poll")
                    self.do("vs poll")
        if self.dead:
            for _ in range(r.randrange(0, 5)):
                self.do(r.choice(["vs read 1000", "vs write 10", "vs flush", "vs shutdown"]))
        return self.ops


class Directed(Scenario):
    """Directed families: each drives the connection into a chosen situation with a *reactive* peer
    (acks what it really received, detects gaps, retransmits its own data), then perturbs it."""

    def start(self, outgoing=True, opts="", rwnd=1 << 20, our=None, rem=None):
        r = self.r
        self.loss = 0
        self.peer_pos = 0
        self.outgoing = outgoing
        self.our = our if our is not None else r.choice([101, 65533, r.randrange(65536)])
        self.rem = rem if rem is not None else r.choice([1, 65535, r.randrange(65536)])
        self.rwnd = rwnd
        self.cid = r.randrange(65536)
        extra = f" rwnd={rwnd} rtt={r.choice([1_000_000, 20_000_000, 100_000_000])}" if outgoing else ""
        self.do(f"vs new {'out' if outgoing else 'in'} our={self.our} rem={self.rem} cid={self.cid}{extra} {opts}".strip())
        self.peer_next = self.rem if outgoing else (self.rem + 1) % 65536
        self.got = {}
        self.lost = set()
        self.peer_ack = (self.our - 1) % 65536
        self.our_fin_seq = None
        self.saw_ack = None
        self.established = outgoing
        self.peer_sent_fin = False
        self.ts = 1000
        self.drop_rule = None          # function(dgram dict, count of times seen) -> bool (True = peer never gets it)
        self.seen_count = {}
        if not outgoing:
            self.do("vs poll")         # SYN-ACK goes out
            if r.random() < 0.8:
                self.inject(2, ack=(self.our - 1) % 65536)
                self.do("vs poll")

    def on_poll(self, out):
        if "out=[" not in out:
            return
        body = out.split("out=[", 1)[1].split("]", 1)[0]
        self.last_out = []
        for hx in [x for x in body.split(",") if x]:
            d = parse_dgram(hx)
            d["len"] = len(hx) // 2
            self.last_out.append(d)
            self.saw_ack = d["ack"]
            if d["type"] in (0, 1):
                key = (d["type"], d["seq"])
                self.seen_count[key] = self.seen_count.get(key, 0) + 1
                if self.drop_rule and self.drop_rule(d, self.seen_count[key]):
                    continue
                self.got[d["seq"]] = d["plen"]
                if d["type"] == 1:
                    self.our_fin_seq = d["seq"]
        while (self.peer_ack + 1) % 65536 in self.got:
            self.peer_ack = (self.peer_ack + 1) % 65536

    def next_timer(self):
        cands = []
        for key in ("t_rtx", "t_inact", "t_ack", "t_pipe", "t_syn"):
            v = self.fp.get(key, "-")
            if v != "-":
                cands.append(int(v))
        return min(cands) if cands else None

    def to_next_timer(self, jitter=True):
        t = self.next_timer()
        if t is None:
            self.do(f"vs adv {self.r.choice([1_000_000, 40_000_000])}")
        else:
            d = max(0, t - self.now)
            if jitter:
                d = max(0, d + self.r.choice([0, 0, 0, 0, -1, 1]))
            self.do(f"vs adv {d}")
        self.do("vs poll")

    def peer_acks(self, sack=True, wnd=None):
        self.inject(2, sack=self.sack_bytes() if sack else None, wnd=wnd)

    # ---- families
    def fam_bulk_loss(self):
        r = self.r
        mss_opts = r.choice(["", "mtu=576", "mtu=1000 probe_retx=0", "nagle=0", "retx=2", "tx0=4096 txmax=65536"])
        self.start(True, mss_opts, rwnd=r.choice([1 << 20, 20000, 5000]))
        sack_capable = r.random() < 0.7
        # which first transmissions get lost, and how many times
        lose = {}
        for _ in range(r.randrange(0, 4)):
            lose[r.randrange(0, 30)] = r.choice([1, 1, 2, 3, 6])
        order = []

        def rule(d, n):
            if d["type"] != 0:
                return False
            if d["seq"] not in order:
                order.append(d["seq"])
            idx = order.index(d["seq"])
            return n <= lose.get(idx, 0)
        self.drop_rule = rule
        self.do(f"vs write {r.choice([3000, 20000, 60000])}")
        idle = 0
        # acks may be blacked out for a while (the peer receives but its acks are lost), then resume
        blackout = (r.randrange(0, 8), r.randrange(2, 14)) if r.random() < 0.4 else (0, 0)
        for step in range(r.randrange(10, 60)):
            if self.dead:
                break
            out = self.do("vs poll")
            sent_something = "out=[]" not in out
            if blackout[0] <= step < blackout[0] + blackout[1]:
                if not sent_something:
                    self.to_next_timer()
                continue
            if sent_something:
                idle = 0
                # the peer acks each datagram it received (dup acks for out-of-order ones), or every other one
                n_ack = len([d for d in self.last_out if d["type"] in (0, 1)])
                for _ in range(n_ack if r.random() < 0.7 else max(1, n_ack // 2)):
                    self.peer_acks(sack=sack_capable, wnd=r.choice([None, None, None, 0, 600]))
                if r.random() < 0.2:
                    self.do(f"vs adv {r.choice([1000, 1_000_000, 30_000_000])}")
            else:
                idle += 1
                if r.random() < 0.3:
                    self.do(f"vs write {r.choice([1, 100, 5000])}")
                self.to_next_timer()
                if self.last_out and not self.dead:
                    self.peer_acks(sack=sack_capable)
        if not self.dead and r.random() < 0.5:
            self.do(r.choice(["vs shutdown", "vs flush", "vs dropw"]))
            for _ in range(4):
                if self.dead:
                    break
                self.do("vs poll")
                self.peer_acks(sack=sack_capable)
                self.to_next_timer()

    def fam_rto_then_sack(self):
        """A hole is lost together with its first `k` RTO retransmissions while the acknowledgements of the
        later segments are lost too; then the peer's (selective) acks get through again."""
        r = self.r
        retx = r.choice([1, 2, 2, 3, 5])
        self.start(True, f"retx={retx} " + r.choice(["", "mtu=576", "nagle=0"]), rwnd=1 << 20)
        hole_idx = r.randrange(3, 12)
        k = r.choice([retx, retx, retx - 1, retx + 1])
        order = []

        def rule(d, n):
            if d["type"] != 0:
                return False
            if d["seq"] not in order:
                order.append(d["seq"])
            return order.index(d["seq"]) == hole_idx and n <= k + 1
        self.drop_rule = rule
        sack_capable = r.random() < 0.85
        self.do(f"vs write {r.choice([20000, 40000])}")
        owed = False
        for _ in range(80):
            if self.dead:
                break
            out = self.do("vs poll")
            hole_seq = order[hole_idx] if len(order) > hole_idx else None
            in_blackout = hole_seq is not None and self.seen_count.get((0, hole_seq), 0) <= k and hole_seq not in self.got
            if in_blackout:
                owed = True
            if "out=[]" not in out and not in_blackout:
                for _ in range(max(1, len([d for d in self.last_out if d["type"] == 0]))):
                    self.peer_acks(sack=sack_capable)
                owed = False
            elif "out=[]" in out:
                if not in_blackout and owed:
                    # the acknowledgements get through again: everything received meanwhile is reported at once
                    for _ in range(r.choice([1, 1, 3])):
                        self.peer_acks(sack=sack_capable)
                    owed = False
                    continue
                self.to_next_timer(jitter=False)
                if not in_blackout and self.last_out and not self.dead:
                    self.peer_acks(sack=sack_capable)
            if hole_seq is not None and hole_seq in self.got and r.random() < 0.3:
                break
        for _ in range(3):
            if self.dead:
                break
            self.do("vs poll")
            self.peer_acks(sack=sack_capable)

    def fam_spurious_rto_then_close(self):
        """The peer receives everything but its acknowledgements are late: the RTO fires (one or more times), then
        the ACK for everything arrives; then the application closes (or had closed already)."""
        r = self.r
        self.start(True, r.choice(["", "nagle=0", "mtu=576", "wla=0"]), rwnd=1 << 20)
        close_first = r.random() < 0.4
        self.do(f"vs write {r.choice([600, 3000, 9000, 20000])}")
        # grow the window a little with prompt acks
        for _ in range(r.randrange(0, 5)):
            if self.dead:
                return self.ops
            out = self.do("vs poll")
            if "out=[]" not in out:
                self.peer_acks(sack=False)
        if r.random() < 0.5:
            self.do(f"vs write {r.choice([100, 2000, 5000])}")
        if close_first:
            self.do(r.choice(["vs shutdown", "vs dropw"]))
        self.do("vs poll")
        # acknowledgements are withheld while the retransmission timer fires
        for _ in range(r.choice([1, 1, 2, 3])):
            if self.dead or self.fp.get("t_rtx", "-") == "-":
                break
            self.do(f"vs adv {max(0, int(self.fp['t_rtx']) - self.now)}")
            self.do("vs poll")
        # ... and then everything the peer got is acknowledged at once
        if not self.dead:
            self.peer_acks(sack=r.random() < 0.5)
            self.do("vs poll")
        if not close_first and not self.dead:
            self.do(r.choice(["vs shutdown", "vs dropw", "vs flush"]))
            if r.random() < 0.5:
                self.do("vs dropr")
        for _ in range(12):
            if self.dead:
                break
            out = self.do("vs poll")
            if "out=[]" not in out:
                self.peer_acks(sack=False)
                if self.our_fin_seq is not None and r.random() < 0.7:
                    self.inject(1, seq=self.peer_next)      # the peer closes too
            else:
                self.to_next_timer(jitter=False)

    def fam_blackhole(self):
        r = self.r
        link = r.choice([1500, 1500, 1000, 9000, 1280])
        v4 = r.random() < 0.8
        self.start(True, f"mtu={link} probe_retx={r.choice([0, 1, 1, 2])}" + ("" if v4 else " v4=0"), rwnd=1 << 20)
        hdrs = 20 if v4 else 20
        path = r.choice([548, 600, 900, 1020, 1200, 1472, 1473, 4000, 9000])   # largest datagram (uTP hdr + payload) the path passes
        mode = r.random()
        if mode < 0.4:
            self.do(f"vs tmode limit {path}")          # local EMSGSIZE
        else:
            self.drop_rule = lambda d, n: d["len"] > path   # silent blackhole
        lose_small = r.random() < 0.3
        if lose_small:
            prev = self.drop_rule
            k = r.randrange(1, 12)
            self.drop_rule = lambda d, n: (prev(d, n) if prev else False) or (d["type"] == 0 and n == 1 and d["seq"] % 16 == k)
        if r.random() < 0.3:
            # a short first write, then a tail that is longer than the proven size but shorter than the probe size
            self.do(f"vs write {r.choice([1, 100])}")
            self.do("vs poll")
            self.peer_acks(sack=False)
            self.do("vs poll")
            self.do(f"vs write {r.choice([529, 600, 700, 900, 990])}")
        else:
            self.do(f"vs write {r.choice([8000, 30000, 30000])}")
        for _ in range(r.randrange(15, 70)):
            if self.dead:
                break
            out = self.do("vs poll")
            if "out=[]" not in out:
                for _ in range(max(1, len(self.last_out))):
                    self.peer_acks(sack=True)
                if r.random() < 0.3:
                    self.do("vs write 3000")
            else:
                self.to_next_timer()
                if self.last_out and not self.dead:
                    self.peer_acks(sack=True)

    def sub_probe_then_remote_fin(self):
        """D24's situation: a size probe that was sent is lost and popped at the RTO while an earlier segment is
        still out, so the re-segmented bytes wait unsent; then the remote closes."""
        r = self.r
        self.start(True, f"mtu={r.choice([1000, 1000, 1500])} probe_retx={r.choice([0, 0, 1])}" + r.choice(["", " nagle=0"]))
        self.drop_rule = lambda d, n: d["type"] == 0 and d["plen"] > 528      # the path does not carry the probes
        self.do("vs write 100")
        self.do("vs poll")
        self.do("vs write 600")
        self.do("vs poll")
        self.do("vs poll")
        self.peer_acks()
        self.do("vs poll")
        self.do(f"vs write {r.choice([3000, 30000])}")
        self.do("vs poll")
        if r.random() < 0.3:
            self.do("vs poll")
        old_ack = self.peer_ack
        if r.random() < 0.3:
            self.peer_acks()
            self.do("vs poll")
        for _ in range(r.randrange(1, 3)):
            self.to_next_timer(jitter=False)
        self.inject(1, seq=self.peer_next, ack=r.choice([self.peer_ack, self.peer_ack, old_ack]))
        self.do("vs poll")
        for _ in range(r.randrange(1, 5)):
            if self.dead:
                break
            self.to_next_timer()
        if self.our_fin_seq is not None and not self.dead and r.random() < 0.7:
            self.inject(2, ack=self.our_fin_seq)
            self.do("vs poll")
        for _ in range(r.randrange(0, 3)):
            self.do(r.choice(["vs read 10000", "vs flush", "vs shutdown"]))

    def sub_rto_resend_then_close(self):
        """D26's situation: segments are being re-sent one by one after an RTO (each re-send sets `seq_nr` back) when
        the application closes - by dropping both halves, or by shutdown() after a cumulative ACK that covers the
        originals, which were only delayed."""
        r = self.r
        self.start(True, "nagle=0" + r.choice(["", " mtu=576", " retx=4"]))
        self.do("vs write 500")
        self.do("vs poll")
        self.peer_acks()
        self.do("vs poll")
        n, size = r.randrange(2, 5), r.choice([300, 510, 510])
        first = {}
        self.drop_rule = lambda d, cnt: d["type"] == 0 and cnt == 1 and first.setdefault(d["seq"], True)   # first copies lost / delayed
        for _ in range(n):
            self.do(f"vs write {size}")
            self.do("vs poll")
        delayed = dict(self.seen_count)
        self.drop_rule = None
        for _ in range(r.randrange(1, 3)):
            self.to_next_timer(jitter=False)           # RTO: the first one is re-sent
            self.peer_acks(wnd=r.choice([600, 600, 1 << 20]))
            self.do("vs poll")                         # the next one is re-sent
        how = r.choice(["drop", "drop", "shutdown_after_full_ack", "shutdown_after_full_ack", "remote_fin"])
        if how == "drop":
            self.do("vs dropw")
            self.do("vs dropr")
            self.do("vs poll")
        elif how == "shutdown_after_full_ack":
            for (ty, seq), _c in delayed.items():      # the delayed originals arrive after all
                if ty == 0:
                    self.got.setdefault(seq, size)
            while (self.peer_ack + 1) % 65536 in self.got:
                self.peer_ack = (self.peer_ack + 1) % 65536
            self.peer_acks()
            self.do("vs poll")
            self.do("vs shutdown")
            self.do("vs poll")
        else:
            self.inject(1, seq=self.peer_next)
            self.do("vs poll")
        for _ in range(r.randrange(2, 7)):
            if self.dead:
                break
            if r.random() < 0.6:
                self.peer_acks()
                self.do("vs poll")
            else:
                self.to_next_timer()
        if self.our_fin_seq is not None and not self.dead:
            self.inject(2, ack=self.our_fin_seq)
            self.do("vs poll")
        for _ in range(r.randrange(0, 3)):
            self.do(r.choice(["vs shutdown", "vs flush"]))

    def sub_probe_last_then_close(self):
        """D27's situation: the last written bytes form a size probe, the path does not carry it, and the application
        closes (drops both halves / the remote closes) while the probe is unacknowledged."""
        r = self.r
        self.start(True, f"mtu={r.choice([1000, 1000, 1500])}" + r.choice(["", " probe_retx=0", " probe_retx=0", " nagle=0"]))
        self.drop_rule = lambda d, n: d["type"] == 0 and d["plen"] > 528      # the path does not carry the probes
        self.do("vs write 100")
        self.do("vs poll")
        self.do("vs write 600")
        self.do("vs poll")
        self.do("vs poll")
        self.peer_acks()
        self.do("vs poll")
        self.peer_acks()
        self.do("vs poll")
        self.do(f"vs write {r.choice([741, 741, 700, 991, 1269])}")
        self.do("vs poll")
        how = r.choice(["drop", "drop", "drop", "remote_fin", "shutdown"])
        if how == "drop":
            self.do("vs dropw")
            self.do("vs dropr")
        elif how == "remote_fin":
            self.inject(1, seq=self.peer_next)
        else:
            self.do("vs shutdown")
        self.do("vs poll")
        for _ in range(r.randrange(3, 12)):
            if self.dead:
                break
            if r.random() < 0.5:
                self.peer_acks()
                self.do("vs poll")
            else:
                self.to_next_timer(jitter=False)
        if self.our_fin_seq is not None and not self.dead and (self.peer_ack + 1) % 65536 == self.our_fin_seq:
            self.inject(2, ack=self.our_fin_seq)
            self.do("vs poll")

    def fam_teardown(self):
        r = self.r
        k = r.random()
        if k < 0.1:
            return self.sub_probe_then_remote_fin()
        if k < 0.2:
            return self.sub_rto_resend_then_close()
        if k < 0.3:
            return self.sub_probe_last_then_close()
        outgoing = r.random() < 0.7
        self.start(outgoing, r.choice(["", "wla=0", "inact=2000000000", "retx=2"]))
        target = r.choice(["est", "fw1", "fw1", "fw2", "la", "synack", "fw1_data_out"])
        if r.random() < 0.25:
            # the peer closes its window (or it never opened: accepted connection before the first packet),
            # then the application writes and lets go of the stream
            if self.established and r.random() < 0.7:
                self.peer_acks(wnd=0)
                self.do("vs poll")
            self.do(f"vs write {r.choice([1, 100, 2000])}")
            if r.random() < 0.5:
                self.do("vs poll")
                self.do(f"vs write {r.choice([1, 100])}")
            self.do(r.choice(["vs shutdown", "vs dropw"]))
            if r.random() < 0.7:
                self.do("vs dropr")
            self.do("vs poll")
            self.peer_acks(wnd=r.choice([0, 5000]))
            self.do("vs poll")
        if r.random() < 0.5:
            self.do(f"vs write {r.choice([5, 600, 3000])}")
            self.do("vs poll")
            if r.random() < 0.7:
                self.peer_acks()
                self.do("vs poll")
        peer_data_lost = False
        if r.random() < 0.5:
            # peer sends some data; the last packet may get lost on the way
            for i in range(r.randrange(1, 4)):
                pl = self.peer_payload(r.choice([1, 100, 528]))
                seq = self.peer_next
                self.peer_next = (self.peer_next + 1) % 65536
                self.peer_pos += len(pl)
                if r.random() < 0.75:
                    self.inject(0, seq=seq, payload=pl)
                else:
                    peer_data_lost = True
            self.do("vs poll")
        if target in ("fw1", "fw2", "fw1_data_out"):
            self.do(r.choice(["vs shutdown", "vs shutdown", "vs dropw"]))
            if target == "fw1_data_out" or r.random() < 0.2:
                self.do("vs dropr") if r.random() < 0.5 else None
            self.do("vs poll")
            if target == "fw2" and self.our_fin_seq is not None:
                self.inject(2, ack=self.our_fin_seq)
                self.do("vs poll")
        elif target == "la":
            if self.established and not peer_data_lost and r.random() < 0.5:
                # the peer's FIN crosses data of ours: our FIN goes out right behind the data and is lost; the peer
                # then acknowledges the data only
                old_ack = self.peer_ack
                self.do(f"vs write {r.choice([100, 300])}")
                self.do("vs poll")
                self.inject(1, seq=self.peer_next, ack=old_ack)
                self.do("vs poll")
                if self.our_fin_seq is not None:
                    self.inject(2, ack=(self.our_fin_seq - 1) % 65536)
                    self.do("vs poll")
            else:
                self.inject(1, seq=self.peer_next)
                self.do("vs poll")
        # stimuli
        for _ in range(r.randrange(1, 5)):
            if self.dead:
                break
            k = r.random()
            if k < 0.55:
                ty = r.choice([0, 1, 1, 1, 2, 2, 3, 4])
                seq = (self.peer_next + r.choice([0, 0, 0, 1, 2, 65535, 7])) % 65536
                acks = [self.peer_ack, (self.our - 1) % 65536, r.randrange(65536)]
                if self.our_fin_seq is not None:
                    acks += [self.our_fin_seq] * 3 + [(self.our_fin_seq - 1) % 65536]
                ack = r.choice(acks)
                pl = self.peer_payload(r.choice([1, 200])) if ty == 0 else b""
                self.inject(ty, seq=seq, ack=ack, payload=pl)
            elif k < 0.7:
                self.do(r.choice(["vs read 10000", "vs write 50", "vs shutdown", "vs dropw", "vs dropr", "vs flush"]))
            elif k < 0.9:
                self.to_next_timer()
                continue
            else:
                self.do(r.choice(["vs chanclose", "vs tmode pend 0", "vs tmode ok", "vs tmode fail 0"]))
            self.do("vs poll")
        if r.random() < 0.25 and not self.dead:
            # the peer never hears us: it keeps resending an old data packet
            pl = self.peer_payload(r.choice([1, 100]))
            for _ in range(r.randrange(2, 8)):
                if self.dead:
                    break
                self.do(f"vs adv {r.choice([100_000_000, 500_000_000, 900_000_000])}")
                self.inject(0, seq=(self.peer_next - r.choice([1, 1, 2])) % 65536, ack=self.peer_ack, payload=pl)
                self.do("vs poll")
        for _ in range(r.randrange(0, 6)):
            if self.dead:
                break
            self.to_next_timer()
        for _ in range(r.randrange(0, 4)):
            self.do(r.choice(["vs read 10000", "vs write 5", "vs flush", "vs shutdown"]))

    def fam_receiver(self):
        r = self.r
        rx = r.choice([1 << 20, 4224, 2112, 1056])
        self.start(r.random() < 0.7, f"rx={rx}" + r.choice(["", " mtu=576"]))
        reader = r.choice(["fast", "slow", "stopped", "dropped_later"])
        sent = {}
        for step in range(r.randrange(5, 50)):
            if self.dead:
                break
            k = r.random()
            if k < 0.06 and sent:
                # a duplicate and a segment that raises the segment-size estimate in ONE batch
                dup = r.choice(list(sent))
                self.inject(0, seq=dup, payload=sent[dup])
                seq = self.peer_next
                pl = self.peer_payload(r.choice([1000, 1400, 1452]))
                sent[seq] = pl
                self.peer_pos += len(pl)
                self.peer_next = (self.peer_next + 1) % 65536
                self.inject(0, seq=seq, payload=pl)
                self.do("vs poll")
            elif k < 0.12:
                # the local transport is blocked exactly when a duplicate / out-of-order packet arrives
                self.do("vs tmode pend 0")
                if sent and r.random() < 0.5:
                    dup = r.choice(list(sent))
                    self.inject(0, seq=dup, payload=sent[dup])
                else:
                    n = r.choice([100, 528])
                    hole = self.peer_payload(n)
                    hole_seq = self.peer_next
                    sent[hole_seq] = hole
                    self.peer_pos += n
                    seq = (self.peer_next + 1) % 65536
                    pl = self.peer_payload(n)
                    sent[seq] = pl
                    self.peer_pos += n
                    self.peer_next = (self.peer_next + 2) % 65536
                    self.inject(0, seq=seq, payload=pl)
                self.do("vs poll")
                self.do("vs tmode ok")
                self.do("vs poll")
            elif k < 0.55:
                n = r.choice([1, 100, 264, 528, 528, 528, 1000, 1400])
                style = r.random()
                if style < 0.7 or not sent:
                    seq = self.peer_next
                    pl = self.peer_payload(n)
                    sent[seq] = pl
                    self.peer_pos += n
                    self.peer_next = (self.peer_next + 1) % 65536
                    if r.random() < 0.85:
                        self.inject(0, seq=seq, payload=pl, wnd=r.choice([None, None, 600]))
                else:
                    seq = r.choice(list(sent))
                    self.inject(0, seq=seq, payload=sent[seq])
                if r.random() < 0.6:
                    self.do("vs poll")
            elif k < 0.75:
                d = r.choice([0, 1, 1_000_000, 39_999_999, 40_000_000, 40_000_001, 100_000_000])
                t = self.fp.get("t_ack", "-")
                if t != "-" and r.random() < 0.6:
                    d = max(0, int(t) - self.now + r.choice([0, 0, -1, 1]))
                self.do(f"vs adv {d}")
                self.do("vs poll")
            elif k < 0.95:
                if reader == "fast" or (reader == "slow" and r.random() < 0.4) or (reader == "dropped_later" and step < 10):
                    self.do(f"vs read {r.choice([1, 528, 100000])}")
                    if r.random() < 0.5:
                        self.do("vs poll")
                elif reader == "dropped_later" and step >= 10:
                    self.do("vs dropr")
                    self.do("vs poll")
                else:
                    self.do("vs poll")
            else:
                self.inject(1, seq=self.peer_next)
                self.do("vs poll")

    def fam_window(self):
        r = self.r
        nagle = r.choice([0, 1, 1])
        self.start(True, f"nagle={nagle} " + r.choice(["", "mtu=576", "tx0=2000 txmax=8000"]), rwnd=r.choice([0, 300, 600, 1500, 3000, 1 << 20]))
        if nagle == 0 and r.random() < 0.5:
            # a small first write still unacknowledged, then a write between the proven size and the probe size
            self.do(f"vs write {r.choice([1, 50, 100])}")
            self.do("vs poll")
            self.do(f"vs write {r.choice([529, 600, 700, 900])}")
            self.do("vs poll")
            self.do("vs poll")
        for _ in range(r.randrange(8, 50)):
            if self.dead:
                break
            k = r.random()
            if k < 0.35:
                self.do(f"vs write {r.choice([1, 2, 10, 100, 527, 528, 529, 1000, 1256, 3000])}")
                if r.random() < 0.7:
                    self.do("vs poll")
            elif k < 0.65:
                w = r.choice([0, 0, 100, 300, 528, 600, 1256, 3000, 1 << 20])
                self.peer_acks(wnd=w)
                self.rwnd = w if r.random() < 0.5 else self.rwnd
                self.do("vs poll")
            elif k < 0.75:
                # peer data whose payload is larger than our segment size, advertising a small window
                pl = self.peer_payload(r.choice([600, 1000, 1452]))
                seq = self.peer_next
                self.peer_next = (self.peer_next + 1) % 65536
                self.peer_pos += len(pl)
                self.inject(0, seq=seq, payload=pl, wnd=r.choice([300, 600, 1000, 3000]))
                self.do("vs poll")
            elif k < 0.9:
                self.to_next_timer()
            else:
                self.do("vs poll")

    def run(self):
        fam = self.r.choice([self.fam_bulk_loss, self.fam_bulk_loss, self.fam_rto_then_sack, self.fam_spurious_rto_then_close, self.fam_blackhole, self.fam_teardown, self.fam_teardown,
                             self.fam_receiver, self.fam_window])
        self.last_out = []
        fam()
        return self.ops


def _cache_key(seed, tier):
    import hashlib
    h = hashlib.sha1()
    with open(HBIN, "rb") as f:
        h.update(f.read())
    with open(os.path.abspath(__file__), "rb") as f:
        h.update(f.read())
    h.update(f"{seed}/{tier}".encode())
    return h.hexdigest()


def gen_vsock(P):
    def gen(seed, tier):
        # Scenarios are generated by talking to the harness binary built from /repo's current tree; several
        # property checks use the same set, so it is cached under a key that includes that binary's hash.
        import json
        cdir = os.path.normpath(os.path.join(HERE, "..", "..", ".cache"))
        key = _cache_key(seed, tier)
        cpath = os.path.join(cdir, f"vsock-{key}.json")
        if os.path.exists(cpath):
            try:
                return json.load(open(cpath))
            except Exception:
                pass
        cases = gen_uncached(seed, tier)
        try:
            os.makedirs(cdir, exist_ok=True)
            for fn in os.listdir(cdir):
                if fn.startswith("vsock-") and len(os.listdir(cdir)) > 6:
                    os.unlink(os.path.join(cdir, fn))
            tmp = cpath + f".{os.getpid()}"
            json.dump(cases, open(tmp, "w"))
            os.replace(tmp, cpath)
        except OSError:
            pass
        return cases

    def gen_uncached(seed, tier):
        r = P.rng_for(seed, "vsock")
        impl = Impl()
        cases = []
        try:
            n = P.scale(tier, 700, 15000)
            for _ in range(n):
                cases.append(Scenario(r, impl).run())
            for _ in range(n * 2):
                cases.append(Directed(r, impl).run())
        finally:
            impl.close()
        return cases
    return gen


def stats_vsock(case, impl, dist):
    states = set()
    sent_types = set()
    for op, out in zip(case, impl):
        t = op.split()
        if len(t) < 2 or t[0] != "vs":
            continue
        dist["vs_" + t[1]] = dist.get("vs_" + t[1], 0) + 1
        if t[1] == "poll":
            f = fp_fields(out)
            st = f.get("st", "?").split("{")[0]
            states.add(st)
            dist["st_" + st] = dist.get("st_" + st, 0) + 1
            if f.get("rec") == "recovering":
                dist["polls_in_recovery"] = dist.get("polls_in_recovery", 0) + 1
            if f.get("rtor", "0") != "0":
                dist["polls_in_rto_mode"] = dist.get("polls_in_rto_mode", 0) + 1
            res = out.split()[0]
            dist["poll_" + res.split(":")[0] + (":" + res.split(":")[1] if ":" in res else "")] = dist.get("poll_" + res.split(":")[0] + (":" + res.split(":")[1] if ":" in res else ""), 0) + 1
            if "out=[" in out:
                for hx in [x for x in out.split("out=[", 1)[1].split("]", 1)[0].split(",") if x]:
                    ty = int(hx[0], 16)
                    sent_types.add(ty)
                    dist[f"sent_type_{ty}"] = dist.get(f"sent_type_{ty}", 0) + 1
    return len(states) >= 2 or len(sent_types) >= 2


def register(P):
    P.GENERATORS["vsock"] = gen_vsock(P)
    P.STATS["vsock"] = stats_vsock
