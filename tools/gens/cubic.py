"""Generator, tolerant comparator and implementation-side oracle for `congestion::cubic::Cubic` (C15)."""
import struct
from fractions import Fraction

FIELDS = ["cwnd", "ssthresh", "k", "wmax", "wmaxlast", "rwnd"]
U64MAX = (1 << 64) - 1
# relative tolerance for the float fields: +,-,*,/ are correctly rounded in both (model: exact rational
# rounded to 53 bits), libm's pow/cbrt are not (<= 1 ulp each), and a few of those pass through ~10 operations
RTOL = Fraction(1, 1 << 44)


def kv(out):
    return dict(t.split("=", 1) for t in out.split() if "=" in t)


def f_of_bits(hx):
    return struct.unpack(">d", bytes.fromhex(hx))[0]


def frac_of_bits(hx):
    """f64 bit pattern -> 'nan' | 'inf' | '-inf' | Fraction"""
    f = f_of_bits(hx)
    if f != f:
        return "nan"
    if f in (float("inf"), float("-inf")):
        return "inf" if f > 0 else "-inf"
    return Fraction(f)


def frac_of_model(s):
    if s in ("nan", "inf", "-inf"):
        return s
    n, d = s.split("/")
    return Fraction(int(n), int(d))


def close(a, b, rtol=RTOL):
    if isinstance(a, str) or isinstance(b, str):
        return a == b
    if a == b:
        return True
    return abs(a - b) <= rtol * max(abs(a), abs(b))


def cmp_cubic(impl, model):
    # near-tie of `w_cubic < w_est`: the model prints both outcomes, the implementation must match one
    if " || " in model:
        return any(cmp_cubic1(impl, m) for m in model.split(" || "))
    return cmp_cubic1(impl, model)


def cmp_cubic1(impl, model):
    if impl == model:
        return True
    if impl.startswith("PANIC") and model.startswith("PANIC"):
        return True
    try:
        a, b = kv(impl), kv(model)
        for k in ("mss", "rwndb", "lce"):
            if a[k] != b[k]:
                return False
        exact = True
        for f in FIELDS:
            x, y = frac_of_bits(a[f]), frac_of_model(b[f])
            if not close(x, y):
                return False
            exact = exact and x == y
        for k in ("w", "ss"):
            wa, wb = int(a[k]), int(b[k])
            if wa != wb and (exact or abs(wa - wb) > 1 + max(wa, wb) // (1 << 40)):
                return False
        return True
    except Exception:
        return False


def pre_token(out):
    try:
        d = kv(out)
        return "pre=" + ",".join([d[f] for f in FIELDS] + [d["mss"], d["rwndb"], d["lce"]])
    except Exception:
        return None


def gen_cubic(P):
    def gen(seed, tier):
        r = P.rng_for(seed, "cubic")
        cases = []
        n = P.scale(tier, 500, 12000)
        for i in range(n):
            cases.append(one_case(r, i))
        return cases
    return gen


def pick_mss(r):
    k = r.random()
    if k < 0.6:
        return r.choice([548, 1172, 1232, 1372, 1392, 1432, 1452, 8972, 500, 1000, 1400, 1500])
    if k < 0.9:
        return r.randrange(1, 9001)
    return r.choice([1, 2, 3, 65507, 65535])


def pick_win(r, mss):
    k = r.random()
    if k < 0.1:
        return r.choice([0, 1, mss - 1 if mss > 1 else 0, mss, 2 * mss - 1, 2 * mss, 2 * mss + 1])
    if k < 0.6:
        return r.choice([1 << 20, 1 << 16, 65535, 256 * 1024, 4 << 20])
    if k < 0.9:
        return r.randrange(0, 1 << 22)
    return r.choice([(1 << 32) - 1, (1 << 31), r.randrange(1 << 22, 1 << 32)])


def pick_rtt(r):
    k = r.random()
    if k < 0.08:
        return r.choice(["0", "1", "-"])
    if k < 0.8:
        return str(int(r.lognormvariate(17.5, 1.2)))
    if k < 0.95:
        return str(r.randrange(1, 2_000_000_000))
    return str(r.randrange(1, 3_600_000_000_000))


def one_case(r, i):
    now = r.choice([0, r.randrange(0, 10**9), r.randrange(0, 10**15)])
    mss = pick_mss(r)
    ops = [f"cubic new {now} {mss}"]
    win = pick_win(r, mss)
    if r.random() < 0.95:
        ops.append(f"cubic setrwnd {win}")
    style = r.random()
    steps = r.randrange(3, 60)
    rtt = pick_rtt(r)
    for _ in range(steps):
        now += r.choice([0, r.randrange(0, 1000), int(r.lognormvariate(16.5, 1.5)), r.randrange(0, 3 * 10**9)])
        if r.random() < 0.15:
            rtt = pick_rtt(r)
        k = r.random()
        if style < 0.35:      # bulk: mostly acks
            k = k * 0.62 if r.random() < 0.85 else k
        if k < 0.55:
            ln = r.choice([0, 1, mss, mss, mss, 2 * mss, r.randrange(0, 3 * mss + 1), r.randrange(0, 1 << 20)])
            ops.append(f"cubic ack {now} {ln} {rtt}")
        elif k < 0.63:
            ops.append(f"cubic enter {now}")
            if r.random() < 0.7:
                # what Recovery hands back: bytes and a threshold
                for _ in range(r.randrange(0, 4)):
                    now += int(r.lognormvariate(16, 1))
                    ops.append(f"cubic ack {now} {r.choice([mss, 0, r.randrange(0, 4 * mss + 1)])} {rtt}")
                ops.append(f"cubic recovered {r.choice([0, mss, r.randrange(0, 1 << 21), r.randrange(0, 1 << 33)])} {r.choice([0, 2 * mss, r.randrange(0, 1 << 21)])}")
        elif k < 0.70:
            ops.append(f"cubic rto {now}")
        elif k < 0.80:
            win = pick_win(r, mss)
            ops.append(f"cubic setrwnd {win}")
        elif k < 0.90:
            mss = pick_mss(r)
            ops.append(f"cubic setmss {mss}")
            if r.random() < 0.8:
                ops.append(f"cubic setrwnd {win}")
        elif k < 0.95:
            ops.append(f"cubic recovered {r.randrange(0, 1 << 22)} {r.randrange(0, 1 << 22)}")
        else:
            ops.append("cubic show")
    return ops


def directed_slow_start(P):
    """Slow start from many (mss, len) pairs: the growth clause."""
    def fam(seed):
        r = P.rng_for(seed, "cubic-ss")
        cases = []
        for _ in range(60):
            mss = pick_mss(r)
            ops = [f"cubic new 0 {mss}", f"cubic setrwnd {r.choice([1 << 20, 4 << 20, (1 << 32) - 1])}"]
            now = 0
            for _ in range(80):
                now += r.randrange(0, 10**7)
                ops.append(f"cubic ack {now} {r.choice([1, mss, mss - 1 if mss > 1 else 1, r.randrange(1, 2 * mss + 1)])} 50000000")
            cases.append(ops)
        return cases
    return fam


def directed_mss_change(P):
    def fam(seed):
        r = P.rng_for(seed, "cubic-mss")
        cases = []
        for _ in range(60):
            mss = pick_mss(r)
            win = r.choice([1 << 20, 4 << 20, 1 << 18])
            ops = [f"cubic new 0 {mss}", f"cubic setrwnd {win}"]
            now = 0
            for _ in range(r.randrange(1, 40)):
                now += r.randrange(0, 10**7)
                ops.append(f"cubic ack {now} {r.randrange(1, 2 * mss + 1)} 50000000")
            if r.random() < 0.5:
                ops.append(f"cubic enter {now}")
                ops.append(f"cubic ack {now + 10**8} {mss} 50000000")
            for _ in range(4):
                m2 = pick_mss(r)
                ops.append(f"cubic setmss {m2}")
                ops.append(f"cubic setrwnd {win}")
            cases.append(ops)
        return cases
    return fam


def oracle_cubic(P):
    """What C15 states, checked on the implementation's own outputs (mss > 0)."""
    def orc(case, impl):
        hits = []
        prev = None       # (kv dict) before this op
        for idx, (op, out) in enumerate(zip(case, impl)):
            t = [x for x in op.split() if not x.startswith("pre=")]
            if t[0] != "cubic":
                continue
            if out.startswith("PANIC") or out == "bad-op":
                if out.startswith("PANIC"):
                    hits.append({"sig": {"oracle": "cubic", "what": "panic"}, "text": f"op {idx} {op} -> {out}"})
                prev = None
                continue
            d = kv(out)
            w, mss, rb = int(d["w"]), int(d["mss"]), int(d["rwndb"])
            cw = frac_of_bits(d["cwnd"])
            if mss > 0:
                lo = min(2 * mss, rb)
                if not (lo <= w <= rb):
                    hits.append({"sig": {"oracle": "cubic", "what": "window_bounds"},
                                 "text": f"op {idx} {' '.join(t)}: window()={w} outside [min(2*mss,peer)={lo}, peer={rb}] (mss={mss})"})
                if isinstance(cw, str):
                    hits.append({"sig": {"oracle": "cubic", "what": "cwnd_not_finite"}, "text": f"op {idx} {' '.join(t)}: cwnd={cw}"})
            if prev is not None and mss > 0:
                pw, pmss = int(prev["w"]), int(prev["mss"])
                pcw = frac_of_bits(prev["cwnd"])
                pss = frac_of_bits(prev["ssthresh"])
                prw = frac_of_bits(prev["rwnd"])
                if t[1] in ("rto", "enter"):
                    if w > pw:
                        hits.append({"sig": {"oracle": "cubic", "what": "loss_increases_window"},
                                     "text": f"op {idx} {' '.join(t)}: window {pw} -> {w}"})
                    ss = frac_of_bits(d["ssthresh"])
                    if not isinstance(pcw, str):
                        want = max(pcw * Fraction(7, 10), Fraction(2))
                        if isinstance(ss, str) or not close(ss, want, Fraction(1, 1 << 40)):
                            hits.append({"sig": {"oracle": "cubic", "what": "ssthresh_not_0.7"},
                                         "text": f"op {idx} {' '.join(t)}: ssthresh={ss if isinstance(ss, str) else float(ss)} MSS, expected max(0.7*{float(pcw)},2)={float(want)}"})
                if t[1] == "ack" and not isinstance(pcw, str):
                    ln = int(t[3])
                    in_ss = pss == "inf" or (not isinstance(pss, str) and pcw < pss)
                    if in_ss and w - pw > ln:
                        hits.append({"sig": {"oracle": "cubic", "what": "slow_start_growth", "excess_bytes": min(w - pw - ln, 2)},
                                     "text": f"op {idx} {' '.join(t)}: slow start, window {pw} -> {w} grew by {w - pw} > {ln} acknowledged bytes (mss={mss})"})
                    if ln == 0 and w != pw:
                        hits.append({"sig": {"oracle": "cubic", "what": "zero_len_ack_changes_window"}, "text": f"op {idx}: {pw} -> {w}"})
                if t[1] == "setrwnd" and idx >= 2:
                    # MSS change followed by re-applying the same peer window: same bytes above the floor
                    t0 = [x for x in case[idx - 1].split() if not x.startswith("pre=")]
                    o0 = impl[idx - 2]
                    if t0[:2] == ["cubic", "setmss"] and not o0.startswith(("PANIC", "bad")):
                        b = kv(o0)
                        bw, bmss, brb = int(b["w"]), int(b["mss"]), int(b["rwndb"])
                        bcw = frac_of_bits(b["cwnd"])
                        if bmss > 0 and brb == rb and not isinstance(bcw, str) and bcw >= 2:
                            # bytes before (unclamped by the floor), expected after: max(that, 2*mss) capped by peer
                            want = min(max(bw, 2 * mss), rb)
                            if abs(w - want) > 1:
                                hits.append({"sig": {"oracle": "cubic", "what": "mss_change_resets_window"},
                                             "text": f"op {idx}: MSS {bmss} -> {mss} with peer window {rb}: window {bw} -> {w}, expected {want} (+-1)"})
            prev = d
        return hits[:3]
    return orc


def stats_cubic(case, impl, dist):
    kinds = set()
    for op, out in zip(case, impl):
        t = op.split()
        if t[0] != "cubic":
            continue
        kinds.add(t[1])
        dist["op_" + t[1]] = dist.get("op_" + t[1], 0) + 1
        if t[1] == "ack" and not out.startswith(("PANIC", "bad")):
            pass
    prev = None
    for op, out in zip(case, impl):
        if out.startswith(("PANIC", "bad")):
            prev = None
            continue
        d = kv(out)
        t = op.split()
        if prev is not None and t[1] == "ack":
            pcw, pss, prw = (frac_of_bits(prev[k]) for k in ("cwnd", "ssthresh", "rwnd"))
            if int(t[3]) == 0:
                b = "ack_zero_len"
            elif not isinstance(pcw, str) and not isinstance(prw, str) and pcw >= prw:
                b = "ack_window_limited"
            elif pss == "inf" or (not isinstance(pss, str) and not isinstance(pcw, str) and pcw < pss):
                b = "ack_slow_start"
            else:
                b = "ack_congestion_avoidance"
            dist[b] = dist.get(b, 0) + 1
        prev = d
    return "ack" in kinds and ("rto" in kinds or "enter" in kinds)


D15_OPS = ["cubic new 0 1432", "cubic setrwnd 1048576", "cubic ack 0 1 50000000", "cubic ack 0 1432 50000000"]
D15_SIG = {"oracle": "cubic", "what": "slow_start_growth", "excess_bytes": 1}


def _demo_d15(P):
    def demo():
        import subprocess
        hb = P.os.path.join(P.os.path.dirname(P.HERE), "harness", "target", "debug", "utp-verif-harness")
        out = subprocess.run([hb], input="\n".join(D15_OPS) + "\n", capture_output=True, text=True, timeout=60).stdout.splitlines()
        return any(h["sig"] == D15_SIG for h in oracle_cubic(P)(D15_OPS, out))
    return demo


def register(P):
    import json as _json
    P.KNOWN_DEMOS[_json.dumps(D15_SIG, sort_keys=True)] = _demo_d15(P)
    P.GENERATORS["cubic"] = gen_cubic(P)
    P.STATS["cubic"] = stats_cubic
    P.CMP["cubic"] = cmp_cubic
    P.ORACLE_COMPONENT["cubic_sanity"] = "cubic"
    P.PROPS["C15"] = {
        "lean": ["UtpVerif.Props.C15"],
        "components": ["cubic"],
        "oracles": {"cubic_sanity": oracle_cubic(P)},
        "directed": {"slow_start": directed_slow_start(P), "mss_change": directed_mss_change(P)},
        "rule": "Cubic driven through the CongestionController trait with ack/rto/enter/recovered/setmss/setrwnd sequences (zero/huge RTT, zero-length ACKs, zero/tiny/huge peer windows, MSS 1..65535); every step is compared from the implementation's own previous state (f64 bit patterns), exact for + - * /, within 2^-44 relative where libm pow/cbrt are involved; non-trivial if the sequence mixes ACKs with a loss reaction",
        "assumptions": ["mss > 0 (the crate never configures a zero MSS)",
                        "the model's floats have binary64 precision but unbounded exponent range: overflow to infinity / underflow to zero of a finite computation is not modelled (needs |values| beyond 1e308, unreachable with 32-bit windows and 16-bit MSS)",
                        "libm pow(x,3) and cbrt are within 1 ulp (the theorems hold for every cbrt and every rounding operator satisfying Rounding)"],
        "trusted": ["model of congestion/cubic.rs (Model/Cubic.lean) - validated by this differential, step by step from the implementation's own state"],
    }
