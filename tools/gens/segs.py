"""Generator + oracle for Segments (stream_tx_segments.rs): C01 (sender invariants), C06, C10, C05 parts."""


def hx(b):
    return bytes(b).hex() if b else "-"


def gen_case(r):
    una = r.choice([0, 1, 100, 65530, 65535, r.randrange(65536)])
    ops = [f"seg new {una}"]
    n_q = 0          # rough number of queued segments
    first = una
    now = 1_000_000_000
    last_sent = (una - 1) % 65536
    rtt = r.choice([1_000_000, 50_000_000, 200_000_000, 0])
    for _ in range(r.randrange(4, 90)):
        k = r.random()
        now += r.choice([0, 1, 1000, 5_000_000, 40_000_000, 200_000_000])
        if k < 0.25:
            probe = 1 if r.random() < 0.15 else 0
            ops.append(f"seg enq {r.choice([1, 2, 10, 100, 528, 991, 1452])} {probe}")
            n_q += 1
        elif k < 0.45 and n_q > 0:
            # send something: mostly the next unsent, sometimes a retransmission
            if r.random() < 0.7:
                q = (last_sent + 1) % 65536
                last_sent = q
            else:
                q = (first + r.randrange(0, max(1, n_q))) % 65536
            ops.append(f"seg sent {q} {now}")
        elif k < 0.70:
            style = r.random()
            if style < 0.5:
                a = (first + r.randrange(-2, max(1, n_q) + 1)) % 65536
            elif style < 0.8:
                a = (first - 1) % 65536       # duplicate ack
            else:
                a = r.choice([r.randrange(65536), (first + 1000) % 65536, (first - 1000) % 65536, (first + 32767) % 65536, (first + 32768) % 65536])
            s = r.random()
            if s < 0.45:
                sack = "none"
            elif s < 0.9:
                bits = [0] * 8
                for _ in range(r.randrange(0, 6)):
                    b = r.randrange(0, r.choice([4, 8, 16, 64]))
                    bits[b // 8] |= 1 << (b % 8)
                ln = r.choice([8, 8, 8, 4, 1, 0, 12])
                sack = hx((bits + [0xff] * 4)[:ln])
            else:
                sack = hx([r.randrange(256) for _ in range(r.choice([1, 4, 8, 16]))])
            ops.append(f"seg ack {now} {a} {sack}")
            # rough tracking
            d = (a - first) % 65536
            if d < n_q:
                first = (a + 1) % 65536
                n_q -= d + 1
        elif k < 0.78:
            ops.append(f"seg flight {r.choice([last_sent, (first + r.randrange(-2, n_q + 2)) % 65536, r.randrange(65536)])}")
        elif k < 0.86 and n_q > 0:
            hr = (first + r.randrange(-1, n_q)) % 65536
            hd = last_sent if r.random() < 0.9 else (first + r.randrange(0, n_q + 1)) % 65536
            ops.append(f"seg pipe {hr} {hd} {rtt} {now}")
        elif k < 0.91:
            q = (first + n_q - 1) % 65536 if r.random() < 0.8 else r.randrange(65536)
            ops.append(f"seg popprobe {q}")
        elif k < 0.95:
            ops.append(f"seg popexp {r.choice([0, 1, 1])} {r.choice([0, 1, 1, 2])}")
        else:
            ops.append(f"seg iter {r.choice(['none', str((last_sent + 1) % 65536), str(r.randrange(65536))])}")
    return ops


def gen_probe_case(r):
    """Directed family: k ordinary segments + one probe as the newest; everything sent (probe possibly
    retransmitted); a (selective) ACK pattern chosen relative to the real queue; then the probe pops."""
    una = r.choice([1, 100, 65534, r.randrange(65536)])
    ops = [f"seg new {una}"]
    k = r.randrange(0, 5)
    now = 10_000_000
    for i in range(k):
        ops.append(f"seg enq {r.choice([100, 528])} 0")
    ops.append(f"seg enq {r.choice([600, 991])} 1")
    n = k + 1
    for i in range(n):
        now += 1000
        ops.append(f"seg sent {(una + i) % 65536} {now}")
    probe = (una + k) % 65536
    for _ in range(r.choice([0, 0, 1, 2])):
        now += 200_000_000
        ops.append(f"seg sent {probe} {now}")
    for _ in range(r.randrange(0, 3)):
        # ack some prefix j (j may be 0 = duplicate ack) and SACK a subset of what follows the hole
        j = r.randrange(0, n)
        ack = (una + j - 1) % 65536
        bits = [0] * 8
        style = r.random()
        for b in range(0, n - j - 1):          # bit b <-> seq ack+2+b = una + j + 1 + b
            seq_is_probe = (j + 1 + b) == k
            if (style < 0.4 and seq_is_probe) or (style >= 0.4 and r.random() < 0.5):
                bits[b // 8] |= 1 << (b % 8)
        sack = "none" if r.random() < 0.2 else hx(bits)
        now += 1_000_000
        ops.append(f"seg ack {now} {ack} {sack}")
    for _ in range(r.randrange(1, 4)):
        c = r.random()
        if c < 0.6:
            ops.append(f"seg popexp {r.choice([1, 1, 0])} {r.choice([0, 0, 1, 2])}")
        elif c < 0.8:
            ops.append(f"seg popprobe {probe}")
        else:
            ops.append(f"seg enq {r.choice([100, 528])} 0")
    ops.append("seg iter none")
    return ops


def gen_segs(P):
    def gen(seed, tier):
        r = P.rng_for(seed, "segs")
        n = P.scale(tier, 1500, 40000)
        return [gen_case(r) for _ in range(n)] + [gen_probe_case(r) for _ in range(n // 2)]
    return gen


def parse_dump(out):
    """returns (kv of the prefix, header kv of dump, list of views) or None"""
    if "|" not in out:
        return None
    pre, d = out.split("|", 1)
    hdr = {}
    toks = d.split("[")[0].split()
    for x in toks:
        if "=" in x:
            a, b = x.split("=")
            hdr[a] = b
    body = d.split("[", 1)[1].rsplit("]", 1)[0].split()
    views = []
    for v in body:
        f = v.split(":")
        if len(f) != 6:
            return None
        views.append({"seq": int(f[0]), "size": int(f[1]), "off": int(f[2]), "sends": int(f[3]), "retx": int(f[4]), "flags": f[5]})
    kv = {}
    for x in pre.split():
        if "=" in x:
            a, b = x.split("=", 1)
            kv[a] = b
    return pre.split()[0] if pre.split() else "", kv, hdr, views


def oracle_segs(P):
    def orc(case, impl):
        hits = []
        removed = 0
        abs_off = {}     # seq -> (absolute offset, size) while queued
        sacked = set()      # seqs the peer selectively acknowledged while they were queued
        prev_hdr = None

        def hit(what, text):
            hits.append({"sig": {"oracle": "segs", "what": what}, "text": text})

        for op, out in zip(case, impl):
            t = op.split()
            if t[0] != "seg":
                continue
            if out.startswith("PANIC"):
                if t[1] in ("ack", "flight", "iter", "enq", "sent", "popprobe", "popexp"):
                    hit("panic", f"`{op}` panicked: {out[:120]}")
                break
            p = parse_dump(out)
            if p is None:
                continue
            res, kv, hdr, views = p
            if t[1] == "new":
                removed, abs_off = 0, {}
            if t[1] == "ack":
                removed += int(kv.get("bytes", 0))
                if t[4] != "none" and prev_hdr and prev_hdr.get("first", "-") != "-":
                    raw = bytes.fromhex(t[4]) if t[4] != "-" else b""
                    raw = (raw + bytes(8))[:8]
                    first, n = int(prev_hdr["first"]), int(prev_hdr["n"])
                    ack = int(t[3])
                    # only meaningful when the ack is just before the queue front or inside it
                    d = (ack - first) % 65536
                    if d < n or d == 65535:
                        for b in range(64):
                            if raw[b // 8] >> (b % 8) & 1:
                                q = (ack + 2 + b) % 65536
                                if (q - first) % 65536 < n:
                                    sacked.add(q)
            if t[1] == "popexp" and res.startswith("expired"):
                popped = (int(res.split(":")[1]) + 1) % 65536
                if popped in sacked:
                    hit("delivered_probe_expired", f"`{op}` popped sequence number {popped} as an expired probe although the peer had selectively acknowledged it: it will be re-segmented and sent again, and its proven size is recorded as failed")
            if t[1] in ("popprobe", "popexp") and (res == "1" or res.startswith("expired")):
                # a popped probe may be re-segmented: its sequence number is released
                if t[1] == "popprobe":
                    abs_off.pop(int(t[2]), None)
                else:
                    rw = int(res.split(":")[1])
                    abs_off.pop((rw + 1) % 65536, None)
            seen = set()
            prev = None
            for v in views:
                a = removed + v["off"]
                seen.add(v["seq"])
                if v["seq"] in abs_off and abs_off[v["seq"]] != (a, v["size"]):
                    hit("content_moved", f"after `{op}` sequence number {v['seq']} addresses stream bytes [{a},{a + v['size']}) but earlier it addressed [{abs_off[v['seq']][0]},{abs_off[v['seq']][0] + abs_off[v['seq']][1]})")
                abs_off[v["seq"]] = (a, v["size"])
                if prev is not None and (prev["seq"] + 1) % 65536 == v["seq"] and removed + prev["off"] + prev["size"] != a:
                    hit("offsets_not_contiguous", f"after `{op}` segments {prev['seq']} and {v['seq']} are adjacent but their byte ranges are not")
                prev = v
            if views and hdr.get("first", "-") != "-" and views[0]["seq"] == int(hdr["first"]) and views[0]["off"] != 0:
                hit("first_offset", f"after `{op}` the first unacked segment does not start at ring offset 0 ({views[0]['off']})")
            prev_hdr = hdr
            if t[1] == "new":
                sacked = set()
            if len(hits) >= 3:
                break
        return hits[:3]
    return orc


def stats_segs(case, impl, dist):
    sack = probe = False
    for op, out in zip(case, impl):
        t = op.split()
        if t[0] != "seg":
            continue
        dist["seg_" + t[1]] = dist.get("seg_" + t[1], 0) + 1
        if t[1] == "ack" and "sacked=" in out and "sacked=0" not in out:
            sack = True
            dist["seg_ack_with_new_sack"] = dist.get("seg_ack_with_new_sack", 0) + 1
        if t[1] in ("popprobe", "popexp") and (out.startswith("1 ") or out.startswith("expired")):
            probe = True
            dist["seg_probe_popped"] = dist.get("seg_probe_popped", 0) + 1
        if out.startswith("PANIC"):
            dist["seg_panic"] = dist.get("seg_panic", 0) + 1
    return sack or probe


def register(P):
    P.GENERATORS["segs"] = gen_segs(P)
    P.STATS["segs"] = stats_segs
    P.ORACLE_COMPONENT["segs"] = "segs"
    P.SEGS_ORACLE = oracle_segs(P)
