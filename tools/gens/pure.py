"""Generators + implementation-side oracles for the pure components: seqnr (C09), rtte (C16)."""

EDGES = [0, 1, 2, 3, 511, 512, 513, 1023, 1024, 1025, 1984, 1985, 1986, 2047, 2048, 16383, 16384,
         32766, 32767, 32768, 32769, 49151, 49152, 63550, 63551, 64511, 64512, 64513, 65533, 65534, 65535]
TOLS = [0, 1, 2, 511, 512, 1023, 1024, 1025, 1985, 4096, 32766, 32767]


def mod_dist(a, b):
    d = (a - b) % 65536
    return d if d <= 32768 else d - 65536


def gen_seqnr(P):
    def gen(seed, tier):
        r = P.rng_for(seed, "seqnr")
        cases = []
        # structured: every edge pair under every edge tolerance
        for tol in TOLS:
            ops = ["nop"]
            for a in EDGES:
                for b in EDGES:
                    ops.append(f"seqnr so {a} {b} {tol}")
            cases.append(ops)
        ops = ["nop"]
        for a in EDGES:
            for b in EDGES:
                ops.append(f"seqnr sub {a} {b}")
                ops.append(f"seqnr cmp {a} {b}")
        cases.append(ops)
        n = P.scale(tier, 150, 6000)
        for _ in range(n):
            ops = ["nop"]
            for _ in range(200):
                k = r.random()
                a = r.randrange(65536)
                if k < 0.5:
                    # near pair, possibly across the wrap
                    d = r.choice([r.randrange(0, 40), r.randrange(0, 2100), r.randrange(0, 32769), r.randrange(32760, 32776)])
                    b = (a + r.choice([-1, 1]) * d) % 65536
                else:
                    b = r.randrange(65536)
                m = r.random()
                if m < 0.4:
                    ops.append(f"seqnr so {a} {b} {r.choice(TOLS + [r.randrange(0, 32768)])}")
                elif m < 0.7:
                    ops.append(f"seqnr sub {a} {b}")
                else:
                    ops.append(f"seqnr cmp {a} {b}")
            cases.append(ops)
        return cases
    return gen


def oracle_seqnr(P):
    def orc(case, impl):
        c = P.consts()
        tol_crate = c.get("WRAP_TOLERANCE", 0)
        # "every distance the configured windows allow": default receive window in packets (v4)
        mss = min(c.get("MIN_MTU_V4", 576), c.get("DEFAULT_LINK_MTU", 1500)) - c.get("IPV4_HEADER", 20) - c.get("UDP_HEADER", 8) - c.get("UTP_HEADER", 20)
        window = c.get("RX_BUF_SIZE_PER_VSOCK_DEFAULT", 1 << 20) // max(mss, 1)
        hits = []
        for op, out in zip(case, impl):
            t = op.split()
            if len(t) < 2 or t[0] != "seqnr":
                continue
            try:
                if t[1] == "so":
                    a, b, tol = int(t[2]), int(t[3]), int(t[4])
                    md = mod_dist(a, b)
                    if tol <= 32767 and abs(md) <= tol and int(out) != md:
                        hits.append({"sig": {"oracle": "seqnr_distance", "op": "so"},
                                     "text": f"seq_nr_offset({a},{b},{tol}) = {out}, true modular distance {md} is within tolerance"})
                elif t[1] in ("sub", "cmp"):
                    a, b = int(t[2]), int(t[3])
                    md = mod_dist(a, b)
                    if abs(md) <= window and abs(md) <= 32767:
                        want = md if t[1] == "sub" else (md > 0) - (md < 0)
                        if int(out) != want:
                            hits.append({"sig": {"oracle": "seqnr_distance", "op": t[1]},
                                         "text": f"SeqNr({a}) {t[1]} SeqNr({b}) = {out}, expected {want}: distance {md} is inside the default {window}-packet window (WRAP_TOLERANCE={tol_crate})"})
            except ValueError:
                hits.append({"sig": {"oracle": "seqnr_distance", "op": "panic"}, "text": f"{op} -> {out}"})
        return hits[:3]
    return orc


def directed_seqnr(P):
    def fam(seed):
        ops = ["nop"]
        for base in (65535, 65000, 64000, 0, 100):
            for d in list(range(0, 2000, 7)) + [511, 512, 513, 1023, 1024, 1025, 1984, 1985]:
                a = (base + d) % 65536
                ops.append(f"seqnr sub {a} {base}")
                ops.append(f"seqnr sub {base} {a}")
                ops.append(f"seqnr cmp {a} {base}")
        return [ops]
    return fam


def stats_seqnr(case, impl, dist):
    wraps = 0
    for op in case:
        t = op.split()
        if len(t) >= 4 and t[0] == "seqnr":
            a, b = int(t[2]), int(t[3])
            if abs(a - b) > 32768:
                wraps += 1
            dist[t[1]] = dist.get(t[1], 0) + 1
    dist["pairs_crossing_wrap"] = dist.get("pairs_crossing_wrap", 0) + wraps
    return wraps > 0


# ------------------------------------------------------------------ rtte

def gen_rtte(P):
    def gen(seed, tier):
        r = P.rng_for(seed, "rtte")
        cases = []
        n = P.scale(tier, 400, 20000)
        for i in range(n):
            ops = ["rtte new"]
            style = r.random()
            for _ in range(r.randrange(1, 40)):
                if r.random() < 0.3:
                    ops.append("rtte timeout")
                else:
                    if style < 0.2:
                        ns = r.choice([0, 1, 7, 8, 9, 999_999, 1_000_000, 10_000_000, 199_999_999, 200_000_000])
                    elif style < 0.6:
                        ns = int(r.lognormvariate(17.5, 1.5))      # around 40 ms
                    elif style < 0.8:
                        ns = r.randrange(0, 3_600_000_000_000 * 3)  # up to hours
                    else:
                        ns = r.randrange(0, 400_000_000)
                    ops.append(f"rtte sample {ns}")
            cases.append(ops)
        for i in range(P.scale(tier, 20, 400)):
            # a constant RTT for long enough that the estimator stops moving, then timeouts, then the same RTT again
            ns = r.choice([0, 1, 1000, 1_000_000, 40_000_000, 250_000_000, 3_000_000_000])
            ops = ["rtte new"] + [f"rtte sample {ns}"] * r.choice([3, 40, 90, 130])
            ops += ["rtte timeout"] * r.randrange(1, 5) + [f"rtte sample {ns}"] * r.randrange(1, 3)
            cases.append(ops)
        return cases
    return gen


def parse_rtte(out):
    d = dict(kv.split("=") for kv in out.split())
    return int(d["rto"]), int(d["rtt"])


def oracle_rtte(P):
    def orc(case, impl):
        hits = []
        samples = []
        prev = None
        for op, out in zip(case, impl):
            t = op.split()
            if t[0] != "rtte":
                continue
            try:
                rto, rtt = parse_rtte(out)
            except Exception:
                hits.append({"sig": {"oracle": "rtte", "what": "panic"}, "text": f"{op} -> {out}"})
                break
            if t[1] == "new":
                samples, prev = [], rto
            if not (200_000_000 <= rto <= 60_000_000_000):
                hits.append({"sig": {"oracle": "rtte", "what": "bounds"}, "text": f"RTO {rto} ns outside 200 ms..60 s after {op}"})
            if t[1] == "timeout" and prev is not None and rto != min(2 * prev, 60_000_000_000):
                hits.append({"sig": {"oracle": "rtte", "what": "doubling"}, "text": f"timeout: RTO {prev} -> {rto}, expected min(2x, 60 s)"})
            if samples or t[1] == "sample":
                # "smoothed RTT plus four times its variance (at least the clock granularity)": never below SRTT + 10 ms
                floor = min(max(rtt + 10_000_000, 200_000_000), 60_000_000_000)
                if rto < floor:
                    hits.append({"sig": {"oracle": "rtte", "what": "below_srtt_plus_granularity"},
                                 "text": f"after {op}: RTO {rto} ns is below SRTT + clock granularity = {rtt} + 10 ms (clamped: {floor} ns)"})
            if t[1] == "sample":
                samples.append(int(t[2]))
                if not (min(samples) <= rtt <= max(samples)):
                    hits.append({"sig": {"oracle": "rtte", "what": "srtt_range"}, "text": f"SRTT {rtt} outside samples [{min(samples)},{max(samples)}]"})
            prev = rto
        # "returns to the sample-derived value on the next sample": the same samples without the timeouts in between
        # must give the same RTO after every sample (a timeout changes nothing but the RTO itself)
        if not hits and any(op == "rtte timeout" for op in case) and case and case[0] == "rtte new":
            import subprocess
            from gens.vsock import HBIN
            plain = [op for op in case if op != "rtte timeout"]
            try:
                p = subprocess.run([HBIN], input="\n".join(plain) + "\n", capture_output=True, text=True, timeout=60)
                out2 = p.stdout.split("\n")[:len(plain)]
                ref = [parse_rtte(o)[0] for op, o in zip(plain, out2) if op.startswith("rtte sample")]
                got = [(op, parse_rtte(o)[0]) for op, o in zip(case, impl) if op.startswith("rtte sample")]
                for k, ((op, rto), want) in enumerate(zip(got, ref)):
                    if rto != want:
                        hits.append({"sig": {"oracle": "rtte", "what": "backoff_not_undone_by_sample"},
                                     "text": f"sample #{k + 1} `{op}`: RTO {rto} ns, but the same samples without the timeouts in between give {want} ns: the sample did not return the RTO to the sample-derived value"})
                        break
            except Exception:
                pass
        return hits[:3]
    return orc


def stats_rtte(case, impl, dist):
    kinds = set()
    for op, out in zip(case, impl):
        t = op.split()
        if t[0] == "rtte":
            dist["rtte_" + t[1]] = dist.get("rtte_" + t[1], 0) + 1
            kinds.add(t[1])
            try:
                rto, _ = parse_rtte(out)
                if rto == 200_000_000:
                    dist["rto_at_min"] = dist.get("rto_at_min", 0) + 1
                elif rto == 60_000_000_000:
                    dist["rto_at_max"] = dist.get("rto_at_max", 0) + 1
                else:
                    dist["rto_interior"] = dist.get("rto_interior", 0) + 1
            except Exception:
                pass
    return "sample" in kinds and "timeout" in kinds


def register(P):
    P.GENERATORS["seqnr"] = gen_seqnr(P)
    P.STATS["seqnr"] = stats_seqnr
    P.GENERATORS["rtte"] = gen_rtte(P)
    P.STATS["rtte"] = stats_rtte
    P.ORACLE_COMPONENT["seqnr_distance"] = "seqnr"
    P.ORACLE_COMPONENT["rtte_bounds"] = "rtte"
    P.PROPS["C09"] = {
        "lean": ["UtpVerif.Props.C09", "UtpVerif.Props.C09Shift"],
        "components": ["seqnr"],
        "oracles": {"seqnr_distance": oracle_seqnr(P)},
        "directed": {"wrap_pairs": directed_seqnr(P)},
        "rule": "seq_nr_offset / SeqNr Sub / Ord on edge x edge pairs under edge tolerances plus random near/far pairs; a case is non-trivial if it contains a pair whose plain difference crosses the 16-bit wrap",
        "assumptions": ["the relabelling theorem for whole connections needs every compared distance within WRAP_TOLERANCE (stated as a hypothesis); configurations with more than 32767 packets of window are outside any 16-bit scheme"],
        "trusted": ["model of seq_nr_offset/SeqNr (Model/SeqNr.lean) - validated by this differential"],
    }
    P.PROPS["C16"] = {
        "lean": ["UtpVerif.Props.C16"],
        "components": ["rtte"],
        "oracles": {"rtte_bounds": oracle_rtte(P)},
        "directed": {"rtte_seq": lambda seed: gen_rtte(P)(seed, "quick")},
        "rule": "RttEstimator driven with sample/timeout sequences (tiny, typical, hours-long samples); non-trivial if the sequence mixes samples and timeouts",
        "assumptions": ["Duration arithmetic does not overflow (samples < 2^63 ns)"],
        "trusted": ["model of rtte.rs (Model/Rtte.lean) - validated by this differential"],
    }
