"""Generator + oracle for the TX ring (stream_tx.rs): C19, parts of C01/C02/C03."""


def pos_byte(i):
    return (i * 7 + 3) % 251


def hx(b):
    return bytes(b).hex() if b else "-"


def gen_txring(P):
    def gen(seed, tier):
        r = P.rng_for(seed, "txring")
        cases = []
        n = P.scale(tier, 500, 20000)
        for i in range(n):
            cap = r.choice([1, 2, 3, 4, 7, 8, 16, 31, 64]) if r.random() < 0.8 else r.randrange(1, 300)
            mx = r.choice([cap, cap + 1, cap * 2, cap * 3, cap * 8, max(1, cap // 2)])
            ops = [f"tx new {cap}"]
            pos = 0          # next stream position to write (position-coded payload)
            big = r.random() < 0.1
            for _ in range(r.randrange(3, 70)):
                k = r.random()
                if k < 0.35:
                    ln = r.choice([0, 1, 2, 3, cap, cap + 1, r.randrange(0, 2 * cap + 2)])
                    if big and r.random() < 0.5:
                        ln = r.randrange(3000, 9000)
                    # we do not know how many bytes will be accepted; the harness output tells the oracle.
                    # position coding continues from `pos` assuming everything before was accepted or retried:
                    # sometimes the write half is polled by a second task (another waker)
                    ops.append(f"tx {'writeposb' if r.random() < 0.25 else 'writepos'} {ln}")
                elif k < 0.55:
                    ops.append(f"tx trunc {r.choice([0, 1, 2, r.randrange(0, cap + 2)])}")
                    if r.random() < 0.7:
                        ops.append("tx takeww")
                elif k < 0.65:
                    ops.append(f"tx grow {mx}")
                    if r.random() < 0.5:
                        ops.append("tx takeww")
                elif k < 0.75:
                    ops.append("tx regdisp")
                elif k < 0.82:
                    ops.append("tx flushb" if r.random() < 0.25 else "tx flush")
                elif k < 0.87:
                    # a flush/shutdown re-issued from another task (the first future dropped) must register the NEW waker
                    ops.append("tx shutdownb" if r.random() < 0.3 else "tx shutdown")
                    if r.random() < 0.4:
                        ops.append(r.choice(["tx shutdownb", "tx shutdown", "tx flushb"]))
                        ops.append("tx takeww")
                elif k < 0.90:
                    ops.append("tx close")
                elif k < 0.92:
                    ops.append("tx dropw")
                elif k < 0.98:
                    ops.append(f"tx peek {r.randrange(0, cap + 2)} {r.randrange(0, cap + 2)}")
                else:
                    ops.append("tx flags")
            cases.append(ops)
        # C19 "growth never loses bytes" against a real second thread (the harness runs a writer thread against
        # thousands of grow() calls; the model answers "ok" by theorem grow_content): stand-alone cases
        for _ in range(P.scale(tier, 3, 40)):
            cases.append(["tx new 64", f"tx race {P.scale(tier, 20, 60)}"])
        return cases
    return gen


def parse(out):
    t = out.split()
    kv = {}
    for x in t[1:]:
        if "=" in x:
            a, b = x.split("=", 1)
            kv[a] = b
    return t[0], kv


def oracle_txring(P):
    def orc(case, impl):
        hits = []
        written = 0       # bytes accepted so far (the stream is position-coded, so content = positions)
        removed = 0
        caps = []
        maxes = []
        pending_write_waiting = False
        pending_fs_waiting = False
        last_poller = None
        dead = False
        for op, out in zip(case, impl):
            t = op.split()
            if t[0] != "tx":
                continue
            if t[1] == "race":
                if out != "ok":
                    hits.append({"sig": {"oracle": "txring", "what": "bytes_lost_while_growing_under_a_concurrent_writer"},
                                 "text": f"`{op}`: a writer thread kept calling poll_write while this thread grew and drained the buffer; {out}: bytes the writer was told were accepted did not come out (in order)"})
                continue
            if out.startswith("PANIC") or out == "bad-op":
                if out.startswith("PANIC"):
                    hits.append({"sig": {"oracle": "txring", "what": "panic"}, "text": f"{op} -> {out}"})
                if t[1] == "dropw" or out.startswith("PANIC"):
                    pass
                continue
            res, kv = parse(out)
            if t[1] == "new":
                caps = [int(t[2])]
                written = removed = 0
                pending_write_waiting = False
                pending_fs_waiting = False
                last_poller = None
            elif t[1] in ("writepos", "writeposb"):
                if res == "pending" and kv.get("wb" if t[1] == "writeposb" else "ww", "0") == "0":
                    # (a Pending that comes with a self-wake is the cooperative yield: nothing was registered)
                    last_poller = "b" if t[1] == "writeposb" else "a"
                if res.startswith("ready:"):
                    n = int(res.split(":")[1])
                    if n == 0 or n > int(t[2]):
                        hits.append({"sig": {"oracle": "txring", "what": "write_count"}, "text": f"{op} -> {out}"})
                    written += n
                elif res == "pending" and kv.get("ww") == "0" and kv.get("wb", "0") == "0":
                    pending_write_waiting = True
            elif t[1] in ("flush", "shutdown", "flushb", "shutdownb"):
                me = "b" if t[1].endswith("b") else "a"
                if res == "pending" and kv.get("wb" if me == "b" else "ww", "0") == "0":
                    last_poller = me          # polled by this task: its waker replaces whatever was stored
                    pending_fs_waiting = True
            elif t[1] == "trunc":
                if res == "ok":
                    removed += int(t[2])
                else:
                    removed = written   # bug path: everything that could be skipped is gone
            elif t[1] == "grow":
                maxes.append(int(t[2]))
            elif t[1] == "takeww":
                tot = int(kv.get("ww", 0)) + int(kv.get("wb", 0))
                if (pending_write_waiting or pending_fs_waiting) and tot == 1 and last_poller is not None and kv.get("wb" if last_poller == "b" else "ww") != "1":
                    hits.append({"sig": {"oracle": "txring", "what": "stale_waker_woken"},
                                 "text": f"the write half was last polled (Pending) by task {last_poller.upper()}, but `{op}` woke the other task: {out}: the task actually waiting in write/flush/shutdown is never woken"})
                if pending_write_waiting and tot != 1:
                    hits.append({"sig": {"oracle": "txring", "what": "writer_not_woken"},
                                 "text": f"a write that found the buffer full returned Pending but no writer waker was registered: `{op}` -> {out}"})
                pending_write_waiting = False
                pending_fs_waiting = False
            elif t[1] in ("close",):
                pending_write_waiting = False
            elif t[1] == "peek" and res == "ok":
                off, ln = int(t[2]), int(t[3])
                want = hx([pos_byte(removed + off + j) for j in range(ln)])
                got = out.split()[1]
                if got != want:
                    hits.append({"sig": {"oracle": "txring", "what": "content"},
                                 "text": f"ring content differs from the bytes accepted by write: `{op}` -> {got}, expected {want} (accepted {written}, acked {removed})"})
            if "len" in kv:
                ln, cap = int(kv["len"]), int(kv["cap"])
                bound = max(caps + maxes) if caps else cap
                if ln != written - removed:
                    hits.append({"sig": {"oracle": "txring", "what": "accounting"},
                                 "text": f"after `{op}`: ring holds {ln} bytes but accepted-acked = {written}-{removed}"})
                if ln > cap or cap > bound:
                    hits.append({"sig": {"oracle": "txring", "what": "bound"},
                                 "text": f"after `{op}`: len={ln} cap={cap} exceeds the configured limit {bound}"})
            if len(hits) >= 3:
                break
        return hits[:3]
    return orc


def stats_txring(case, impl, dist):
    full = grew = wrapped = False
    for op, out in zip(case, impl):
        t = op.split()
        if t[0] != "tx":
            continue
        dist["tx_" + t[1]] = dist.get("tx_" + t[1], 0) + 1
        res = out.split()[0] if out else ""
        dist["txres_" + res.split(":")[0]] = dist.get("txres_" + res.split(":")[0], 0) + 1
        if t[1] in ("writepos", "writeposb") and res == "pending":
            full = True
        if t[1] == "grow" and res not in ("-", "bad-op"):
            grew = True
    return full or grew


def register(P):
    P.GENERATORS["txring"] = gen_txring(P)
    P.STATS["txring"] = stats_txring
    P.ORACLE_COMPONENT["txring"] = "txring"
    P.PROPS["C19"] = {
        "lean": ["UtpVerif.Props.C19"],
        "components": ["txring"],
        "oracles": {"txring": oracle_txring(P)},
        "directed": {"txring": lambda seed: gen_txring(P)(seed, "quick")},
        "rule": "UserTx + UtpStreamWriteHalf driven with position-coded writes of all sizes (incl. 0, > capacity, > 8192 without yield), truncations (incl. too long), growth steps, flush/shutdown/close/drop and wire reads through prepare_2_ioslices, capacities 1..300 so the real ring wraps; non-trivial if the buffer got full or grew",
        "assumptions": ["ringbuf::SharedRb is a bounded FIFO of bytes (checked by the differential incl. wrap-around, not proved)"],
        "trusted": ["model of stream_tx.rs (Model/TxRing.lean) - validated by this differential"],
    }
