"""Scenario generator + oracles for the socket dispatcher (socket.rs) in lockstep: C12, C13.

The generator plays applications (connect()/accept() calls, their cancellation) and several remote peers
AGAINST THE REAL DISPATCHER (interactive harness): it reads the SYNs the dispatcher sends and answers them,
sends SYNs of its own (duplicates, clashing ids, floods past the backlog), datagrams for live and dead keys,
and releases connections - with small id spaces so that clashes and limits are actually hit."""
import os
import re

from gens.vsock import Impl, mk_dgram, parse_dgram, HBIN, HERE

ST_DATA, ST_FIN, ST_STATE, ST_RESET, ST_SYN = 0, 1, 2, 3, 4


def fp_of(out):
    m = re.search(r"fp=(.*)$", out)
    if not m:
        return None
    d = {}
    for k, v in re.findall(r"(\w+)=(\[[^\]]*\]|\S+)", m.group(1)):
        d[k] = v
    def lst(x):
        x = x.strip("[]")
        return [e for e in x.split(",") if e]
    return {
        "streams": lst(d.get("streams", "[]")),
        "connecting": lst(d.get("connecting", "[]")),
        "syns": lst(d.get("syns", "[]")),
        "next_acc": int(d.get("next_acc", 0)), "acc_q": int(d.get("acc_q", 0)), "ctl_q": int(d.get("ctl_q", 0)),
        "next_cid": int(d.get("next_cid", 0)),
    }


def outs_of(out):
    m = re.search(r"out=\[([^\]]*)\]", out)
    if not m or not m.group(1):
        return []
    res = []
    for e in m.group(1).split(","):
        port, hx = e.split(":")
        res.append((int(port), hx))
    return res


class SockScenario:
    def __init__(self, r, impl, style=None):
        self.r = r
        self.impl = impl
        self.ops = []
        self.max = r.choice([1, 2, 3, 4, 6, 128])
        self.peers = r.sample([2, 3, 4, 5, 6], r.choice([1, 2, 3]))
        self.ids = r.sample([0, 1, 2, 3, 4, 5, 6, 7, 100, 101, 65534, 65535], r.choice([2, 3, 5]))
        self.nconn = 0
        self.nacc = 0
        self.conn_open = []      # connect ids not yet resolved/dropped
        self.acc_open = []
        self.syns_seen = []      # (peer, conn_id, seq) of SYNs the dispatcher sent
        self.fp = None
        self.style = style or r.choice(["mixed", "mixed", "server", "client", "flood", "limit"])

    def do(self, line):
        self.ops.append(line)
        out = self.impl.op(line)
        f = fp_of(out)
        if f:
            self.fp = f
        for port, hx in outs_of(out):
            try:
                d = parse_dgram(hx)
                if d["type"] == ST_SYN:
                    self.syns_seen.append((port, d["cid"], d["seq"]))
            except Exception:
                pass
        return out

    def rand_list(self, n):
        r = self.r
        return ",".join(str(r.choice(self.ids + [r.randrange(65536)])) for _ in range(n))

    def run_some(self, n=None):
        for _ in range(n if n is not None else self.r.choice([1, 1, 2, 3])):
            out = self.do("sock run")
            if out.startswith("idle"):
                break

    def drain(self):
        for _ in range(80):
            out = self.do("sock run")
            if out.startswith("idle"):
                break

    def act_connect(self):
        self.nconn += 1
        self.conn_open.append(self.nconn)
        self.do(f"sock connect {self.nconn} {self.r.choice(self.peers)}")

    def act_accept(self):
        self.nacc += 1
        self.acc_open.append(self.nacc)
        out = self.do(f"sock accept {self.nacc}")
        if out.startswith("blocked"):
            self.acc_open.remove(self.nacc)
            self.do(f"sock dropacc {self.nacc}")

    def act_syn(self, peer=None, cid=None):
        r = self.r
        peer = peer if peer is not None else r.choice(self.peers)
        cid = cid if cid is not None else r.choice(self.ids + [r.randrange(65536)])
        self.do(f"sock inject {peer} {mk_dgram(ST_SYN, cid, r.randrange(2**32), 0, 0, r.randrange(65536), 0).hex()}")

    def act_synack(self):
        r = self.r
        if not self.syns_seen:
            return self.act_other()
        peer, cid, seq = r.choice(self.syns_seen[-6:])
        k = r.random()
        if k < 0.7:
            pass
        elif k < 0.8:
            seq = (seq + r.choice([1, -1, 7])) % 65536          # wrong ack_nr
        elif k < 0.9:
            peer = r.choice(self.peers + [9])                    # from another address
        else:
            cid = r.choice(self.ids)                             # answered under another connection id
        self.do(f"sock inject {peer} {mk_dgram(ST_STATE, cid, 1, 2, 1 << 20, r.randrange(65536), seq).hex()}")

    def act_other(self):
        r = self.r
        k = r.random()
        if self.fp and self.fp["streams"] and k < 0.6:
            a, i = r.choice(self.fp["streams"]).split("/")[:2]
            peer, cid = int(a.split(":")[1]), int(i)
        else:
            peer, cid = r.choice(self.peers + [9]), r.choice(self.ids)
        ty = r.choice([ST_DATA, ST_FIN, ST_RESET, ST_STATE, ST_DATA])
        if r.random() < 0.1:
            self.do(f"sock inject {peer} {r.choice(['-', '00', '41', '51' + '00' * 19, '01' * 10, '4100' + 'ff' * 18 + '00'])}")
        else:
            self.do(f"sock inject {peer} {mk_dgram(ty, cid, 1, 2, 1000, r.randrange(65536), r.randrange(65536), payload=bytes(r.randrange(0, 4))).hex()}")

    def act_shutdown(self):
        r = self.r
        if self.fp and self.fp["streams"] and r.random() < 0.85:
            a, i = r.choice(self.fp["streams"]).split("/")[:2]
            self.do(f"sock shutdown {a.split(':')[1]} {i}")
        else:
            self.do(f"sock shutdown {r.choice(self.peers)} {r.choice(self.ids)}")

    def act_poll(self):
        r = self.r
        if self.conn_open and r.random() < 0.5:
            i = r.choice(self.conn_open)
            out = self.do(f"sock pollconn {i}")
            if not out.startswith("pending"):
                self.conn_open.remove(i)
        elif self.acc_open:
            i = r.choice(self.acc_open)
            out = self.do(f"sock pollacc {i}")
            if not out.startswith("pending"):
                self.acc_open.remove(i)

    def act_drop(self):
        r = self.r
        if self.conn_open and r.random() < 0.5:
            i = r.choice(self.conn_open)
            self.conn_open.remove(i)
            self.do(f"sock dropconn {i}")
        elif self.acc_open:
            i = r.choice(self.acc_open)
            self.acc_open.remove(i)
            self.do(f"sock dropacc {i}")
        elif self.nconn and r.random() < 0.3:
            self.do(f"sock dropconn {r.randrange(1, self.nconn + 1)}")

    def act_race(self):
        """leave the dispatcher waiting inside select!, make several sources ready at once, let it pick"""
        r = self.r
        out = self.do("sock park")
        if not out.startswith("parked"):
            return
        for _ in range(r.choice([1, 2, 2, 3])):
            if r.random() < 0.5:
                self.nacc += 1
                self.acc_open.append(self.nacc)
                self.do(f"sock accept {self.nacc}")
            else:
                self.act_syn() if r.random() < 0.7 else self.act_other()
        for _ in range(3):
            out = self.do("sock resume")
            if not out.startswith("parked"):
                return
            self.act_syn()

    def run(self):
        r = self.r
        self.do(f"sock new max={self.max} r={self.rand_list(r.choice([0, 3, 40]))}")
        w = {"mixed": dict(connect=3, accept=3, syn=3, synack=3, other=2, shutdown=2, poll=3, drop=1.5, run=8, rand=0.5, tmode=0.2, flood=0.1, race=1.5),
             "server": dict(connect=0.2, accept=4, syn=5, synack=0.2, other=2, shutdown=2, poll=3, drop=1.5, run=7, rand=0.5, tmode=0.1, flood=0.3, race=2),
             "client": dict(connect=5, accept=0.2, syn=0.3, synack=5, other=2, shutdown=2, poll=3, drop=1.5, run=8, rand=0.5, tmode=0.4, flood=0, race=0.3),
             "flood": dict(connect=0.5, accept=1, syn=4, synack=0.5, other=1, shutdown=1, poll=2, drop=1, run=4, rand=0.3, tmode=0.1, flood=2, race=1),
             "limit": dict(connect=3, accept=4, syn=4, synack=4, other=1, shutdown=1.2, poll=3, drop=0.8, run=9, rand=0.5, tmode=0.1, flood=0.1, race=1.5)}[self.style]
        names = list(w)
        weights = [w[n] for n in names]
        for _ in range(r.randrange(10, 90)):
            a = r.choices(names, weights)[0]
            if a == "connect":
                self.act_connect()
            elif a == "accept":
                self.act_accept()
            elif a == "syn":
                self.act_syn()
                if r.random() < 0.15:          # duplicate of the same SYN
                    self.ops.append(self.ops[-1]); self.impl.op(self.ops[-1])
            elif a == "synack":
                self.act_synack()
            elif a == "other":
                self.act_other()
            elif a == "shutdown":
                self.act_shutdown()
            elif a == "poll":
                self.act_poll()
            elif a == "drop":
                self.act_drop()
            elif a == "run":
                self.run_some()
            elif a == "rand":
                self.do(f"sock rand {self.rand_list(r.choice([1, 5]))}")
            elif a == "tmode":
                self.do(f"sock tmode {r.choice(['ok', 'ok', 'fail', 'short'])}")
            elif a == "race":
                self.act_race()
            elif a == "flood":
                peer = r.choice(self.peers)
                for j in range(r.choice([5, 33, 36])):
                    self.act_syn(peer=peer, cid=(1000 + 2 * j) % 65536)
                    if r.random() < 0.9:
                        self.run_some(1)
                for _ in range(r.choice([0, 3, 40])):
                    self.act_accept()
                    self.run_some(1)
        self.drain()
        for i in list(self.conn_open):
            self.do(f"sock pollconn {i}")
        for i in list(self.acc_open):
            self.do(f"sock pollacc {i}")
        return self.ops


def _cache_key(seed, tier):
    import hashlib
    h = hashlib.sha1()
    with open(HBIN, "rb") as f:
        h.update(f.read())
    with open(os.path.abspath(__file__), "rb") as f:
        h.update(f.read())
    h.update(f"{seed}/{tier}".encode())
    return h.hexdigest()


def gen_sock(P):
    def gen(seed, tier):
        import json
        cdir = os.path.normpath(os.path.join(HERE, "..", "..", ".cache"))
        cpath = os.path.join(cdir, f"sock-{_cache_key(seed, tier)}.json")
        if os.path.exists(cpath):
            try:
                return json.load(open(cpath))
            except Exception:
                pass
        r = P.rng_for(seed, "sock")
        impl = Impl()
        cases = []
        try:
            for _ in range(P.scale(tier, 600, 12000)):
                cases.append(SockScenario(r, impl).run())
            cases += directed_race(P)(seed)
        finally:
            impl.close()
        try:
            os.makedirs(cdir, exist_ok=True)
            for fn in os.listdir(cdir):
                if fn.startswith("sock-") and len([x for x in os.listdir(cdir) if x.startswith("sock-")]) > 3:
                    os.unlink(os.path.join(cdir, fn))
            tmp = cpath + f".{os.getpid()}"
            json.dump(cases, open(tmp, "w"))
            os.replace(tmp, cpath)
        except OSError:
            pass
        return cases
    return gen


def augment_line(line, impl_out):
    if line.startswith("sock resume"):
        b = impl_out.split(" ", 1)[0]
        return "sock resume b=" + b if b in ("recv", "acc", "parked") else "sock resume"
    if line.startswith(("sock run", "sock park")):
        b = impl_out.split(" ", 1)[0]
        op = line.split()[1]
        if b in ("ctl", "recv", "acc", "idle"):
            return f"sock {op} b=" + b
        return f"sock {op}"
    return line


# ------------------------------------------------------------------ oracles (implementation side)

def _key_of_stream(e):
    a, i = e.split("/")[:2]
    return (int(a.split(":")[1]), int(i))


def _syn_of(e):
    a, cid, seq = e.split("/")
    return (int(a.split(":")[1]), int(cid), int(seq))


class SockTrace:
    """Replays a case against the implementation's outputs: the transport inbox, the table after every op."""

    def __init__(self, case, impl):
        self.steps = []
        inbox = []
        fp = None
        maxv = None
        for op, out in zip(case, impl):
            t = op.split()
            if len(t) < 2 or t[0] != "sock":
                continue
            st = {"op": t[1], "args": t[2:], "out": out, "line": op, "fp_before": fp}
            if t[1] == "new":
                inbox = []
                kv = dict(x.split("=", 1) for x in t[2:] if "=" in x)
                maxv = int(kv.get("max", 128))
            st["max"] = maxv
            if t[1] == "inject" and out.startswith("ok"):
                inbox.append((int(t[2]), t[3]))
            head = out.split(" ", 1)[0]
            if t[1] in ("run", "resume", "park") and head == "recv" and inbox:
                st["dgram"] = inbox.pop(0)
            st["head"] = head
            f = fp_of(out) if "fp=-" not in out else None
            if f:
                fp = f
            st["fp"] = f
            st["outs"] = outs_of(out)
            self.steps.append(st)


def oracle_tables(P):
    """C12: no more live connections than the limit, unique keys, nothing evicted except by its own release;
    C13: bounded backlog and per-address connecting slots; RST only when the backlog is full."""
    def orc(case, impl):
        tr = SockTrace(case, impl)
        hits = []
        slot_cid = {}     # (port, slot position) -> connection id of the pending connect holding that slot
        for st in tr.steps:
            if st["op"] == "new":
                slot_cid = {}
            # connection ids chosen for outgoing connects: unique among pending connects and live connections of that peer
            if st["fp"]:
                def slots_of(fp):
                    r = {}
                    for c in (fp["connecting"] if fp else []):
                        port = int(c.split("=")[0].split(":")[1])
                        r[port] = c.split("=")[1].split(":")[0].split(".")
                    return r
                now_slots, old_slots = slots_of(st["fp"]), slots_of(st["fp_before"])
                # slots that were freed
                for (port, pos) in list(slot_cid):
                    if now_slots.get(port, ["-"] * 4)[pos] == "-":
                        del slot_cid[(port, pos)]
                for port, hx in st["outs"]:
                    try:
                        d = parse_dgram(hx)
                    except Exception:
                        continue
                    if d["type"] != ST_SYN:
                        continue
                    before = st["fp_before"]["streams"] if st["fp_before"] else []
                    if f"127.0.0.1:{port}/{d['cid']}" in [x.replace("/dead", "") for x in before]:
                        hits.append({"sig": {"oracle": "sock_tables", "what": "conn_id_of_live_connection_reused"},
                                     "text": f"`{st['line'][:50]}`: SYN to {port} uses connection id {d['cid']} which a live connection with that peer already uses"})
                    if d["cid"] in [c for (p2, _), c in slot_cid.items() if p2 == port]:
                        hits.append({"sig": {"oracle": "sock_tables", "what": "conn_id_of_pending_connect_reused"},
                                     "text": f"`{st['line'][:50]}`: SYN to {port} uses connection id {d['cid']}, the id of another connect to that peer that is still pending"})
                    # which slot did this connect get (none if all four were busy: the request is dropped)
                    o, n = old_slots.get(port, ["-"] * 4), now_slots.get(port, ["-"] * 4)
                    for pos in range(4):
                        if o[pos] == "-" and n[pos] != "-" and (port, pos) not in slot_cid:
                            slot_cid[(port, pos)] = d["cid"]
                            break
            # a pending connect leaves its slot only through its own SYN-ACK (a datagram acknowledging its SYN's
            # sequence number) or its own cancellation (a control request): no other datagram may disturb it
            if st["fp"] and st["fp_before"] and st["head"] == "recv" and "dgram" in st:
                def seqs(fp):
                    r = {}
                    for c in fp["connecting"]:
                        port = int(c.split("=")[0].split(":")[1])
                        r[port] = [x.rstrip("x") for x in c.split("=")[1].split(":")[0].split(".")]
                    return r
                b4, aft = seqs(st["fp_before"]), seqs(st["fp"])
                port, hx = st["dgram"]
                try:
                    dd = parse_dgram(hx) if len(hx) >= 40 and (bytes.fromhex(hx)[0] & 0xF) == 1 else None
                except Exception:
                    dd = None
                for p2, slots in b4.items():
                    now_slots = aft.get(p2, ["-"] * 4)
                    gone = [s for i, s in enumerate(slots) if s != "-" and now_slots[i] == "-"]
                    for g in gone:
                        legit = dd is not None and dd["type"] == ST_STATE and p2 == port and str(dd["ack"]) == g
                        if not legit:
                            hits.append({"sig": {"oracle": "sock_tables", "what": "pending_connect_dropped_by_unrelated_datagram"},
                                         "text": f"`{st['line'][:40]}`: the datagram from {port} (type {dd['type'] if dd else '?'}, ack_nr {dd['ack'] if dd else '?'}) removed the pending connect to {p2} whose SYN has sequence number {g}: a stray or hostile packet disturbed the connect service"})
            if st["out"].startswith("PANIC"):
                hits.append({"sig": {"oracle": "sock_tables", "what": "panic"}, "text": f"`{st['line'][:80]}` -> {st['out'][:160]}"})
                break
            f, b = st["fp"], st["fp_before"]
            if not f:
                continue
            keys = [_key_of_stream(e) for e in f["streams"]]
            if st["max"] is not None and len(keys) > st["max"]:
                hits.append({"sig": {"oracle": "sock_tables", "what": "limit_exceeded"},
                             "text": f"after `{st['line'][:60]}`: {len(keys)} live connections, limit {st['max']}"})
            if len(set(keys)) != len(keys):
                hits.append({"sig": {"oracle": "sock_tables", "what": "duplicate_key"}, "text": f"after `{st['line'][:60]}`: {f['streams']}"})
            if len(f["syns"]) > 32:
                hits.append({"sig": {"oracle": "sock_tables", "what": "backlog_exceeded"}, "text": f"after `{st['line'][:60]}`: {len(f['syns'])} cached SYNs"})
            for c in f["connecting"]:
                slots = c.split("=")[1].split(":")[0].split(".")
                n = int(c.rsplit(":", 1)[1])
                if len(slots) != 4 or n != sum(1 for s in slots if s != "-") or n == 0:
                    hits.append({"sig": {"oracle": "sock_tables", "what": "connecting_slots"}, "text": f"after `{st['line'][:60]}`: {c}"})
            if b is not None and st["op"] != "new":
                gone = set(b["streams"]) - set(f["streams"])
                gone = {g for g in gone if not g.endswith("/dead")} - {g + "/dead" for g in f["streams"]}
                gone = {g for g in gone if (g + "/dead") not in f["streams"]}
                if gone:
                    # legitimate removals: a Shutdown control request for that key
                    ok = st["head"] == "ctl"
                    if not ok:
                        hits.append({"sig": {"oracle": "sock_tables", "what": "evicted"},
                                     "text": f"`{st['line'][:60]}` ({st['head']}) removed live connection(s) {sorted(gone)} from the table without their release"})
            # a RESET is sent only for a SYN that found the backlog full
            for port, hx in st["outs"]:
                try:
                    d = parse_dgram(hx)
                except Exception:
                    continue
                if d["type"] == ST_RESET:
                    # C11: the RESET refusing a SYN names the SYN's own connection id and acknowledges its sequence number
                    if "dgram" in st:
                        try:
                            sd = parse_dgram(st["dgram"][1])
                        except Exception:
                            sd = None
                        if sd and sd["type"] == ST_SYN and (d["cid"] != sd["cid"] or d["ack"] != sd["seq"] or port != st["dgram"][0]):
                            hits.append({"sig": {"oracle": "sock_tables", "what": "reset_names_wrong_connection"},
                                         "text": f"`{st['line'][:40]}`: the RESET refusing the SYN from {st['dgram'][0]} (connection id {sd['cid']}, seq {sd['seq']}) was sent to {port} with connection id {d['cid']} and ack_nr {d['ack']}: it does not carry the id owed to that direction"})
                    if b is None or len(b["syns"]) < 32:
                        hits.append({"sig": {"oracle": "sock_tables", "what": "reset_with_room"},
                                     "text": f"`{st['line'][:60]}`: RESET sent to {port} although only {len(b['syns']) if b else '?'} SYNs were cached"})
        return hits[:3]
    return orc


def oracle_accept_order(P):
    """C13: connection requests are handed to accept calls in arrival order: a SYN that has just arrived is never
    matched while an earlier, still valid SYN stays in the backlog."""
    def orc(case, impl):
        tr = SockTrace(case, impl)
        hits = []
        for st in tr.steps:
            f, b = st["fp"], st["fp_before"]
            if not f or b is None or "dgram" not in st:
                continue
            port, hx = st["dgram"]
            try:
                d = parse_dgram(hx) if len(hx) >= 40 else None
            except Exception:
                d = None
            if not d or d["type"] != ST_SYN or (bytes.fromhex(hx)[0] & 0xF) != 1:
                continue
            key = f"127.0.0.1:{port}/{(d['cid'] + 1) % 65536}"
            from_queue = any(s.split("/")[0] == f"127.0.0.1:{port}" and int(s.split("/")[1]) == d["cid"] for s in b["syns"])
            if key in f["streams"] and key not in b["streams"] and not from_queue:
                me = f"127.0.0.1:{port}/{d['cid']}/{d['seq']}"
                older = [s for s in f["syns"] if s in b["syns"] and s != me]
                live = set(x.replace("/dead", "") for x in f["streams"])
                older_valid = [s for s in older if f"{s.split('/')[0]}/{(int(s.split('/')[1]) + 1) % 65536}" not in live]
                if older_valid:
                    hits.append({"sig": {"oracle": "accept_order", "what": "newer_syn_overtakes"},
                                 "text": f"`{st['line'][:40]}`: the SYN that just arrived from {port} (id {d['cid']}) was handed to an accept call while the earlier SYN {older_valid[0]} is still waiting in the backlog"})
        # the backlog is a FIFO: between two observations its order never changes - elements leave, and at most the
        # SYN processed in this step joins at the back
        for st in tr.steps:
            f, b = st["fp"], st["fp_before"]
            if hits or not f or b is None or st["op"] == "new":
                continue
            L, L2 = list(b["syns"]), list(f["syns"])
            i = k = 0
            while k < len(L2):
                j = i
                while j < len(L) and L[j] != L2[k]:
                    j += 1
                if j == len(L):
                    break
                i, k = j + 1, k + 1
            rest = L2[k:]
            arrived = None
            if "dgram" in st:
                port, hx = st["dgram"]
                try:
                    d = parse_dgram(hx) if len(hx) >= 40 else None
                except Exception:
                    d = None
                if d and d["type"] == ST_SYN:
                    arrived = f"127.0.0.1:{port}/{d['cid']}/{d['seq']}"
            if rest and rest != [arrived]:
                hits.append({"sig": {"oracle": "accept_order", "what": "backlog_reordered"},
                             "text": f"`{st['line'][:40]}`: the backlog of pending connection requests changed order: before {L}, after {L2} (a request that was waiting is now behind one that arrived later): accept calls will be served out of arrival order"})
        return hits[:2]
    return orc


def oracle_release(P):
    """C13 "abandoned connect or accept calls release whatever they reserved": when the application drops a call
    that had already been handed its connection (the table entry turns dead: nobody holds the stream any more), the
    request that frees the entry must be on its way in the same step - otherwise the entry, and its share of the
    connection limit, stays for ever."""
    def orc(case, impl):
        tr = SockTrace(case, impl)
        hits = []
        for st in tr.steps:
            f, b = st["fp"], st["fp_before"]
            if not f or b is None or st["op"] not in ("dropacc", "dropconn"):
                continue
            newly_dead = [x for x in f["streams"] if x.endswith("/dead") and x not in b["streams"] and x[:-5] in b["streams"]]
            if newly_dead and int(f.get("ctl_q", 0)) <= int(b.get("ctl_q", 0)):
                hits.append({"sig": {"oracle": "sock_release", "what": "abandoned_call_leaks_its_table_entry"},
                             "text": f"`{st['line']}`: the call had been handed connection {newly_dead[0][:-5]}; dropping it left the table entry in place and queued no request to remove it (control queue {b.get('ctl_q')} -> {f.get('ctl_q')}): the entry and its share of the connection limit are never released"})
                break
        return hits
    return orc


def oracle_calls(P):
    """C10/C13: the accept service survives whatever arrives: on a live socket (the harness never shuts it down) a
    pending accept() is never failed - it waits or returns a connection."""
    def orc(case, impl):
        tr = SockTrace(case, impl)
        hits = []
        for st in tr.steps:
            if st["op"] == "pollacc" and st["head"].startswith("err"):
                hits.append({"sig": {"oracle": "sock_calls", "what": "accept_failed_on_live_socket"},
                             "text": f"`{st['line']}` -> {st['head']}: a pending accept() call failed although the socket is alive (the dispatcher dropped the call instead of keeping it for the next connection request)"})
                break
        return hits
    return orc


def stats_sock(case, impl, dist):
    kinds = set()
    for op, out in zip(case, impl):
        t = op.split()
        if t[0] != "sock":
            continue
        head = out.split(" ", 1)[0].split(":")[0]
        if t[1] in ("run", "resume"):
            dist["branch_" + head] = dist.get("branch_" + head, 0) + 1
        elif t[1] in ("pollconn", "pollacc"):
            k = t[1] + "_" + (out.split(" ", 1)[0][:28])
            dist[k] = dist.get(k, 0) + 1
            kinds.add(k)
        else:
            dist["op_" + t[1]] = dist.get("op_" + t[1], 0) + 1
        for port, hx in outs_of(out):
            ty = int(hx[0], 16) if hx and hx != "-" else -1
            dist["sent_type_%d" % ty] = dist.get("sent_type_%d" % ty, 0) + 1
        f = fp_of(out) if "fp=-" not in out else None
        if f:
            if len(f["syns"]) >= 32:
                dist["backlog_full_steps"] = dist.get("backlog_full_steps", 0) + 1
    return any(k.startswith(("pollconn_ok", "pollacc_ok")) for k in kinds)


def directed_race(P):
    """The `select!` race: an accept call and a new SYN become ready while the dispatcher waits with an older
    SYN cached.  Which branch tokio picks is random; repeated so that both orders are seen."""
    def fam(seed):
        cases = []
        syn = lambda cid, seq: mk_dgram(ST_SYN, cid, 0, 0, 0, seq, 0).hex()
        for i in range(24):
            ops = [f"sock new max=8 r={10 + i},20,30,40",
                   f"sock inject 3 {syn(5, 111)}", "sock run", "sock park",
                   "sock accept 1", f"sock inject 4 {syn(7, 222)}", "sock resume",
                   "sock run", "sock run", "sock pollacc 1", "sock accept 2", "sock run", "sock run", "sock pollacc 2"]
            cases.append(ops)
        return cases
    return fam


def register(P):
    P.GENERATORS["sock"] = gen_sock(P)
    P.STATS["sock"] = stats_sock
    for o in ("sock_tables", "accept_order", "sock_calls", "sock_release"):
        P.ORACLE_COMPONENT[o] = "sock"
    common_trust = ["model of socket.rs Dispatcher (Model/Sock.lean) - validated by the lockstep differential: branch taken, datagrams sent (SYN, RESET), results of every connect()/accept() call, and the tables after every operation (streams, connecting slots, SYN backlog, acceptor queue, next connection id)",
                    "the world around the dispatcher in lockstep runs (tokio mpsc/oneshot semantics: FIFO, bounded acceptor channel with FIFO permit hand-over, a dropped receiver makes send fail) is modelled in the Lean driver and validated by the same differential, not proved",
                    "connection tasks spawned by the dispatcher are not run in lockstep; their only inputs to the dispatcher (Shutdown(key) when a task ends, a closed channel) are injected as events"]
    common_assume = ["which ready branch tokio's select! takes is outside the model: the implementation's choice is adopted per step and every choice is covered by the theorems",
                     "generator reach bounds what the correspondence sees (distribution in evidence)"]
    rule = "scenarios played by scripted applications (connect/accept calls, their cancellation) and scripted peers against the real Dispatcher driven one loop iteration at a time (small id spaces, limits 1..6 and 128, SYN floods past the backlog, duplicates, clashing ids, transport failures), replayed on implementation and model; non-trivial if at least one connect() or accept() call succeeded"
    P.PROPS["C12"] = {
        "lean": ["UtpVerif.Props.C12"],
        "components": ["sock"],
        "oracles": {"sock_tables": oracle_tables(P)},
        "directed": {"race": directed_race(P)},
        "rule": rule, "assumptions": common_assume, "trusted": common_trust,
    }
    P.PROPS["C13"] = {
        "lean": ["UtpVerif.Props.C13"],
        "components": ["sock"],
        "oracles": {"sock_tables": oracle_tables(P), "accept_order": oracle_accept_order(P), "sock_calls": oracle_calls(P), "sock_release": oracle_release(P)},
        "directed": {"race": directed_race(P)},
        "rule": rule, "assumptions": common_assume, "trusted": common_trust,
    }


def register_late(P):
    """after every property is registered: C10's socket-level clause (hostile traffic cannot disturb the
    accept/connect service or another connection) is judged on the dispatcher lockstep too"""
    P.PROPS["C10"]["components"].append("sock")
    P.PROPS["C10"]["oracles"]["sock_tables"] = oracle_tables(P)
    P.PROPS["C10"]["oracles"]["sock_calls"] = oracle_calls(P)
    # C11 "every emitted datagram carries the connection id owed to that direction": the dispatcher's own datagrams
    # (SYN, RESET) are compared byte for byte in the sock lockstep, the connection's in the vs lockstep
    for comp in ("sock", "vsock"):
        if comp not in P.PROPS["C11"]["components"]:
            P.PROPS["C11"]["components"].append(comp)
    P.PROPS["C11"]["oracles"]["sock_tables"] = oracle_tables(P)
    from gens import vsock_oracles as _VO
    P.PROPS["C11"]["oracles"]["wire_wellformed"] = _VO.ALL["wire_wellformed"]
    P.ORACLE_COMPONENT["wire_wellformed"] = "vsock"
