"""Scenario generator + oracles for the socket dispatcher (socket.rs) in lockstep: C12, C13.

The generator plays applications (connect()/accept() calls, their cancellation) and several remote peers
AGAINST THE REAL DISPATCHER (interactive harness): it reads the SYNs the dispatcher sends and answers them,
sends SYNs of its own (duplicates, clashing ids, floods past the backlog), datagrams for live and dead keys,
and releases connections - with small id spaces so that clashes and limits are actually hit."""
import os
import re

from gens.vsock import Impl, mk_dgram, parse_dgram, HBIN, HERE

ST_DATA, ST_FIN, ST_STATE, ST_RESET, ST_SYN = 0, 1, 2, 3, 4


def fp_of(out):
    m = re.search(r"fp=(.*)$", out)
    if not m:
        return None
    d = {}
    for k, v in re.findall(r"(\w+)=(\[[^\]]*\]|\S+)", m.group(1)):
        d[k] = v
    def lst(x):
        x = x.strip("[]")
        return [e for e in x.split(",") if e]
    return {
        "streams": lst(d.get("streams", "[]")),
        "connecting": lst(d.get("connecting", "[]")),
        "syns": lst(d.get("syns", "[]")),
        "next_acc": int(d.get("next_acc", 0)), "acc_q": int(d.get("acc_q", 0)), "ctl_q": int(d.get("ctl_q", 0)),
        "next_cid": int(d.get("next_cid", 0)),
    }


def outs_of(out):
    m = re.search(r"out=\[([^\]]*)\]", out)
    if not m or not m.group(1):
        return []
    res = []
    for e in m.group(1).split(","):
        port, hx = e.split(":")
        res.append((int(port), hx))
    return res


class SockScenario:
    def __init__(self, r, impl, style=None):
        self.r = r
        self.impl = impl
        self.ops = []
        self.max = r.choice([1, 2, 3, 4, 6, 128])
        self.peers = r.sample([2, 3, 4, 5, 6], r.choice([1, 2, 3]))
        self.ids = r.sample([0, 1, 2, 3, 4, 5, 6, 7, 100, 101, 65534, 65535], r.choice([2, 3, 5]))
        self.nconn = 0
        self.nacc = 0
        self.conn_open = []      # connect ids not yet resolved/dropped
        self.acc_open = []
        self.syns_seen = []      # (peer, conn_id, seq) of SYNs the dispatcher sent
        self.fp = None
        self.style = style or r.choice(["mixed", "mixed", "server", "client", "flood", "limit"])

    def do(self, line):
        self.ops.append(line)
        out = self.impl.op(line)
        f = fp_of(out)
        if f:
            self.fp = f
        for port, hx in outs_of(out):
            try:
                d = parse_dgram(hx)
                if d["type"] == ST_SYN:
                    self.syns_seen.append((port, d["cid"], d["seq"]))
            except Exception:
                pass
        return out

    def rand_list(self, n):
        r = self.r
        return ",".join(str(r.choice(self.ids + [r.randrange(65536)])) for _ in range(n))

    def run_some(self, n=None):
        for _ in range(n if n is not None else self.r.choice([1, 1, 2, 3])):
            out = self.do("sock run")
            if out.startswith("idle"):
                break

    def drain(self):
        for _ in range(80):
            out = self.do("sock run")
            if out.startswith("idle"):
                break

    def act_connect(self):
        self.nconn += 1
        self.conn_open.append(self.nconn)
        self.do(f"sock connect {self.nconn} {self.r.choice(self.peers)}")

    def act_accept(self):
        self.nacc += 1
        self.acc_open.append(self.nacc)
        out = self.do(f"sock accept {self.nacc}")
        if out.startswith("blocked"):
            self.acc_open.remove(self.nacc)
            self.do(f"sock dropacc {self.nacc}")

    def act_syn(self, peer=None, cid=None):
        r = self.r
        peer = peer if peer is not None else r.choice(self.peers)
        cid = cid if cid is not None else r.choice(self.ids + [r.randrange(65536)])
        self.do(f"sock inject {peer} {mk_dgram(ST_SYN, cid, r.randrange(2**32), 0, 0, r.randrange(65536), 0).hex()}")

    def act_synack(self):
        r = self.r
        if not self.syns_seen:
            return self.act_other()
        peer, cid, seq = r.choice(self.syns_seen[-6:])
        k = r.random()
        if k < 0.7:
            pass
        elif k < 0.8:
            seq = (seq + r.choice([1, -1, 7])) % 65536          # wrong ack_nr
        elif k < 0.9:
            peer = r.choice(self.peers + [9])                    # from another address
        else:
            cid = r.choice(self.ids)                             # answered under another connection id
        self.do(f"sock inject {peer} {mk_dgram(ST_STATE, cid, 1, 2, 1 << 20, r.randrange(65536), seq).hex()}")

    def act_other(self):
        r = self.r
        k = r.random()
        if self.fp and self.fp["streams"] and k < 0.6:
            a, i = r.choice(self.fp["streams"]).split("/")[:2]
            peer, cid = int(a.split(":")[1]), int(i)
        else:
            peer, cid = r.choice(self.peers + [9]), r.choice(self.ids)
        ty = r.choice([ST_DATA, ST_FIN, ST_RESET, ST_STATE, ST_DATA])
        if r.random() < 0.1:
            self.do(f"sock inject {peer} {r.choice(['-', '00', '41', '51' + '00' * 19, '01' * 10, '4100' + 'ff' * 18 + '00'])}")
        else:
            self.do(f"sock inject {peer} {mk_dgram(ty, cid, 1, 2, 1000, r.randrange(65536), r.randrange(65536), payload=bytes(r.randrange(0, 4))).hex()}")

    def act_shutdown(self):
        r = self.r
        if self.fp and self.fp["streams"] and r.random() < 0.85:
            a, i = r.choice(self.fp["streams"]).split("/")[:2]
            self.do(f"sock shutdown {a.split(':')[1]} {i}")
        else:
            self.do(f"sock shutdown {r.choice(self.peers)} {r.choice(self.ids)}")

    def act_poll(self):
        r = self.r
        if self.conn_open and r.random() < 0.5:
            i = r.choice(self.conn_open)
            out = self.do(f"sock pollconn {i}")
            if not out.startswith("pending"):
                self.conn_open.remove(i)
        elif self.acc_open:
            i = r.choice(self.acc_open)
            out = self.do(f"sock pollacc {i}")
            if not out.startswith("pending"):
                self.acc_open.remove(i)

    def act_drop(self):
        r = self.r
        if self.conn_open and r.random() < 0.5:
            i = r.choice(self.conn_open)
            self.conn_open.remove(i)
            self.do(f"sock dropconn {i}")
        elif self.acc_open:
            i = r.choice(self.acc_open)
            self.acc_open.remove(i)
            self.do(f"sock dropacc {i}")
        elif self.nconn and r.random() < 0.3:
            self.do(f"sock dropconn {r.randrange(1, self.nconn + 1)}")

    def run(self):
        r = self.r
        self.do(f"sock new max={self.max} r={self.rand_list(r.choice([0, 3, 40]))}")
        w = {"mixed": dict(connect=3, accept=3, syn=3, synack=3, other=2, shutdown=2, poll=3, drop=1.5, run=8, rand=0.5, tmode=0.2, flood=0.1),
             "server": dict(connect=0.2, accept=4, syn=5, synack=0.2, other=2, shutdown=2, poll=3, drop=1.5, run=7, rand=0.5, tmode=0.1, flood=0.3),
             "client": dict(connect=5, accept=0.2, syn=0.3, synack=5, other=2, shutdown=2, poll=3, drop=1.5, run=8, rand=0.5, tmode=0.4, flood=0),
             "flood": dict(connect=0.5, accept=1, syn=4, synack=0.5, other=1, shutdown=1, poll=2, drop=1, run=4, rand=0.3, tmode=0.1, flood=2),
             "limit": dict(connect=3, accept=4, syn=4, synack=4, other=1, shutdown=1.2, poll=3, drop=0.8, run=9, rand=0.5, tmode=0.1, flood=0.1)}[self.style]
        names = list(w)
        weights = [w[n] for n in names]
        for _ in range(r.randrange(10, 90)):
            a = r.choices(names, weights)[0]
            if a == "connect":
                self.act_connect()
            elif a == "accept":
                self.act_accept()
            elif a == "syn":
                self.act_syn()
                if r.random() < 0.15:          # duplicate of the same SYN
                    self.ops.append(self.ops[-1]); self.impl.op(self.ops[-1])
            elif a == "synack":
                self.act_synack()
            elif a == "other":
                self.act_other()
            elif a == "shutdown":
                self.act_shutdown()
            elif a == "poll":
                self.act_poll()
            elif a == "drop":
                self.act_drop()
            elif a == "run":
                self.run_some()
            elif a == "rand":
                self.do(f"sock rand {self.rand_list(r.choice([1, 5]))}")
            elif a == "tmode":
                self.do(f"sock tmode {r.choice(['ok', 'ok', 'fail', 'short'])}")
            elif a == "flood":
                peer = r.choice(self.peers)
                for j in range(r.choice([5, 33, 36])):
                    self.act_syn(peer=peer, cid=(1000 + 2 * j) % 65536)
                    if r.random() < 0.9:
                        self.run_some(1)
                for _ in range(r.choice([0, 3, 40])):
                    self.act_accept()
                    self.run_some(1)
        self.drain()
        for i in list(self.conn_open):
            self.do(f"sock pollconn {i}")
        for i in list(self.acc_open):
            self.do(f"sock pollacc {i}")
        return self.ops


def _cache_key(seed, tier):
    import hashlib
    h = hashlib.sha1()
    with open(HBIN, "rb") as f:
        h.update(f.read())
    with open(os.path.abspath(__file__), "rb") as f:
        h.update(f.read())
    h.update(f"{seed}/{tier}".encode())
    return h.hexdigest()


def gen_sock(P):
    def gen(seed, tier):
        import json
        cdir = os.path.normpath(os.path.join(HERE, "..", "..", ".cache"))
        cpath = os.path.join(cdir, f"sock-{_cache_key(seed, tier)}.json")
        if os.path.exists(cpath):
            try:
                return json.load(open(cpath))
            except Exception:
                pass
        r = P.rng_for(seed, "sock")
        impl = Impl()
        cases = []
        try:
            for _ in range(P.scale(tier, 600, 12000)):
                cases.append(SockScenario(r, impl).run())
        finally:
            impl.close()
        try:
            os.makedirs(cdir, exist_ok=True)
            for fn in os.listdir(cdir):
                if fn.startswith("sock-") and len([x for x in os.listdir(cdir) if x.startswith("sock-")]) > 3:
                    os.unlink(os.path.join(cdir, fn))
            tmp = cpath + f".{os.getpid()}"
            json.dump(cases, open(tmp, "w"))
            os.replace(tmp, cpath)
        except OSError:
            pass
        return cases
    return gen


def augment_line(line, impl_out):
    if line.startswith("sock run"):
        b = impl_out.split(" ", 1)[0]
        if b in ("ctl", "recv", "acc", "idle"):
            return "sock run b=" + b
        return "sock run"
    return line
