"""Implementation-side property oracles over connection traces (`vs` ops + the real code's outputs).

Each oracle looks only at what a peer / application could observe: datagrams on the scripted wire, return
values of the stream calls, wake events, virtual time.  They are used (i) on every correspondence run,
(ii) to turn a model/implementation disagreement or a broken proof obligation into a concrete replay."""
from gens.vsock import parse_dgram, fp_fields, pos_byte


def _md(a, b):
    d = (a - b) % 65536
    return d if d <= 32768 else d - 65536


def _sack_beyond(d, highest_sent):
    """does the selective ACK claim a sequence number that was never transmitted?"""
    if d.get("sack") is None:
        return False
    raw = (bytes(d["sack"]) + bytes(8))[:8]
    for b in range(64):
        if raw[b // 8] >> (b % 8) & 1 and _md((d["ack"] + 2 + b) % 65536, highest_sent) > 0:
            return True
    return False


class Trace:
    """Replays a case and exposes the observable history."""

    def __init__(self, case, impl):
        self.events = []      # dicts
        now = 0
        accepted = 0          # bytes accepted by write so far
        opts = {}
        for op, out in zip(case, impl):
            t = op.split()
            if len(t) < 2 or t[0] != "vs":
                continue
            ev = {"op": t[1], "args": t[2:], "out": out, "t": now, "line": op}
            if " now=" in out:
                try:
                    now = int(out.split("now=")[1].split()[0])
                except ValueError:
                    pass
                ev["t_after"] = now
            if t[1] == "new":
                opts = dict(x.split("=") for x in t[3:] if "=" in x)
                opts["dir"] = t[2]
                ev["opts"] = opts
                now = ev.get("t_after", now)
                ev["t"] = now
            if t[1] == "write" and out.startswith("ready:"):
                n = int(out.split()[0].split(":")[1])
                ev["accepted_from"] = accepted
                accepted += n
                ev["accepted"] = n
            if t[1] == "poll" and "out=[" in out:
                body = out.split("out=[", 1)[1].split("]", 1)[0]
                ev["dgrams"] = []
                for hx in [x for x in body.split(",") if x]:
                    d = parse_dgram(hx)
                    d["len"] = len(hx) // 2
                    b = bytes.fromhex(hx)
                    d["payload"] = b[len(b) - d["plen"]:] if d["plen"] else b""
                    ev["dgrams"].append(d)
                ev["res"] = out.split()[0]
                ev["fp"] = fp_fields(out)
            if t[1] == "inject" and out.startswith("ok"):
                ev["dgram"] = parse_dgram(t[2])
                b = bytes.fromhex(t[2])
                ev["dgram"]["payload"] = b[len(b) - ev["dgram"]["plen"]:] if ev["dgram"]["plen"] else b""
            ev["accepted_total"] = accepted
            self.events.append(ev)
        self.opts = opts


def oracle_stream_content(case, impl):
    """C01/C06/C17 sender side: every ST_DATA carries the stream bytes owed to its sequence number (same bytes on
    every transmission, contiguous positions for new numbers), the FIN comes only after every accepted byte was
    transmitted, carries last data seq + 1, and no new payload follows it."""
    tr = Trace(case, impl)
    hits = []
    seq_start = {}       # seq -> (stream start, len)
    prev_max_ss = None
    next_pos = 0
    last_data_seq = None
    fin_seq = None
    popped_ok = set()    # sequence numbers that may legitimately be re-segmented (never acknowledged probes)
    acked_upto = None
    probe_sizes = {}
    mss_floor = None
    highest_sent = None
    popped_after_wire = set()    # numbers that were transmitted, then released by a probe pop (last_sent rewound below them)
    resplit_acked = False        # ... and the peer acknowledged one of them afterwards: its old copy was delivered

    def classify(h):
        if resplit_acked and h["sig"]["what"] in ("wrong_bytes", "retransmission_differs", "seq_gap", "resegmented_wrong_bytes", "fin_seq", "fin_before_data"):
            h["sig"] = {"oracle": "stream", "what": "diverged_after_delivered_probe_was_resplit"}
            h["text"] = "the peer acknowledged a size probe whose sequence number had already been re-segmented after expiry (its first copy was delivered, the ACK came late): sender and receiver now disagree about which bytes that number carried; then: " + h["text"]
        return h

    for ev in tr.events:
        if ev["op"] == "new":
            seq_start, next_pos, last_data_seq, fin_seq = {}, 0, None, None
            highest_sent = (int(ev["opts"].get("our", 101)) - 1) % 65536
            popped_after_wire, resplit_acked = set(), False
        if ev["op"] == "poll" and "fp" in ev and highest_sent is not None:
            try:
                lss = int(ev["fp"].get("lss"))
                ms = int(ev["fp"].get("ss", "min_ss=0:max_ss=0").split("max_ss=")[1])
                if _md(highest_sent, lss) > 0 and ev["fp"].get("rtor", "0") == "0" or (prev_max_ss is not None and ms < prev_max_ss):
                    for q in list(seq_start):
                        if _md(q, lss) > 0:
                            popped_after_wire.add(q)
                prev_max_ss = ms
            except (TypeError, ValueError, IndexError):
                pass
        if ev["op"] == "inject" and "dgram" in ev and ev["dgram"]["type"] in (0, 1, 2) and popped_after_wire:
            if any(_md(ev["dgram"]["ack"], q) >= 0 for q in popped_after_wire):
                resplit_acked = True
        if ev["op"] == "chanclose":
            break          # the socket removed the connection: abnormal path, not judged
        if ev["op"] == "inject" and "dgram" in ev and ev["dgram"]["type"] in (0, 1, 2):
            if highest_sent is not None and 0 < _md(ev["dgram"]["ack"], highest_sent):
                break      # the peer acknowledged data that was never sent: it broke its own connection
            if highest_sent is not None and _sack_beyond(ev["dgram"], highest_sent):
                break
        if ev["op"] != "poll" or "dgrams" not in ev:
            continue
        for d in ev["dgrams"]:
            if d["type"] in (0, 1) and highest_sent is not None and _md(d["seq"], highest_sent) > 0:
                highest_sent = d["seq"]
            if d["type"] == 0:
                seq, n = d["seq"], d["plen"]
                if fin_seq is not None and seq not in seq_start:
                    hits.append({"sig": {"oracle": "stream", "what": "data_after_fin"},
                                 "text": f"new payload (seq {seq}) transmitted after our FIN (seq {fin_seq})"})
                if seq in seq_start:
                    st, ln = seq_start[seq]
                    if ln != n:
                        # re-segmentation: allowed only for a probe that was popped; the bytes must still start where the old ones did
                        want = bytes(pos_byte(st + j) for j in range(n))
                        if d["payload"] != want:
                            hits.append({"sig": {"oracle": "stream", "what": "resegmented_wrong_bytes"},
                                         "text": f"seq {seq} was re-segmented ({ln}->{n} bytes) and now carries other stream bytes than those starting at {st}"})
                        # following numbers are re-assigned: forget them
                        for q in list(seq_start):
                            if _md(q, seq) > 0:
                                del seq_start[q]
                        seq_start[seq] = (st, n)
                        next_pos = st + n
                        last_data_seq = seq
                    else:
                        want = bytes(pos_byte(st + j) for j in range(n))
                        if d["payload"] != want:
                            hits.append({"sig": {"oracle": "stream", "what": "retransmission_differs"},
                                         "text": f"a retransmission of seq {seq} carries different bytes than its first transmission (stream position {st}, {n} bytes)"})
                else:
                    if last_data_seq is not None and seq != (last_data_seq + 1) % 65536 and _md(seq, last_data_seq) > 0:
                        hits.append({"sig": {"oracle": "stream", "what": "seq_gap"}, "text": f"first transmission of seq {seq} after {last_data_seq}"})
                    want = bytes(pos_byte(next_pos + j) for j in range(n))
                    if d["payload"] != want:
                        hits.append({"sig": {"oracle": "stream", "what": "wrong_bytes"},
                                     "text": f"seq {seq} ({n} bytes) does not carry the stream bytes at position {next_pos} (bytes lost, duplicated or reordered by the sender)"})
                    seq_start[seq] = (next_pos, n)
                    next_pos += n
                    last_data_seq = seq
            elif d["type"] == 1:
                if fin_seq is None:
                    fin_seq = d["seq"]
                    res_err = ev.get("res", "").startswith("ready:err")
                    own_initiative = ev["fp"].get("st", "").startswith("FinWait1")
                    if not own_initiative:
                        return [classify(h) for h in hits[:3]]    # FIN in answer to the peer's FIN / on the death path: what follows is not judged
                    if not res_err and own_initiative:
                        if next_pos != ev["accepted_total"]:
                            hits.append({"sig": {"oracle": "stream", "what": "fin_before_data"},
                                         "text": f"FIN (seq {fin_seq}) sent on the endpoint's own initiative while {ev['accepted_total'] - next_pos} accepted bytes had not been transmitted yet"})
                        if last_data_seq is not None and fin_seq != (last_data_seq + 1) % 65536:
                            hits.append({"sig": {"oracle": "stream", "what": "fin_seq"},
                                         "text": f"FIN carries seq {fin_seq}, last data segment was {last_data_seq}"})
                elif d["seq"] != fin_seq:
                    hits.append({"sig": {"oracle": "stream", "what": "fin_seq_changed"}, "text": f"FIN retransmitted with seq {d['seq']} (was {fin_seq})"})
                elif ev["fp"].get("st", "").startswith("FinWait1") and not ev.get("res", "").startswith("ready:err") \
                        and next_pos != ev["accepted_total"]:
                    # a segment before the FIN was re-split after the FIN had been numbered (D27): the tail of its bytes
                    # is owed to no sequence number any more
                    hits.append({"sig": {"oracle": "stream", "what": "fin_resent_while_resplit_bytes_are_owed"},
                                 "text": f"FIN (seq {fin_seq}) re-sent on the endpoint's own initiative while {ev['accepted_total'] - next_pos} accepted bytes are carried by no sequence number any more (the segment before the FIN was re-segmented, its tail would need the FIN's number)"})
        if len(hits) >= 3:
            break
    return [classify(h) for h in hits[:3]]


def oracle_datagram_sizes(case, impl):
    """C14: no datagram larger than the link MTU allows."""
    tr = Trace(case, impl)
    hits = []
    for ev in tr.events:
        if ev["op"] == "new":
            o = ev["opts"]
            v4 = o.get("v4", "1") == "1"
            link = int(o.get("mtu", 1500))
            iph = 20 if v4 else 40
            link = max(link, iph + 8 + 20 + 1)
            limit = link - iph - 8          # UDP payload = uTP header + payload
        if ev["op"] == "poll" and "dgrams" in ev:
            for d in ev["dgrams"]:
                if d["len"] > limit:
                    hits.append({"sig": {"oracle": "dgram", "what": "above_link_mtu"},
                                 "text": f"datagram of {d['len']} bytes emitted, the configured link MTU allows {limit}"})
    return hits[:2]


def oracle_ack_timeliness(case, impl):
    """C07 (observable part): whenever, after a poll, the endpoint has consumed in-order data it has not yet
    acknowledged (last consumed != last sent ack), a re-poll must be requested no later than 40 ms after the
    poll in which that started, and a poll at/after that time must have emitted the ACK."""
    tr = Trace(case, impl)
    hits = []
    owed_since = None
    prev_lsa = None
    if any(l.startswith("vs tmode") for l in case):
        return []            # a transport that cannot send is judged by the model comparison only
    for ev in tr.events:
        if ev["op"] == "new":
            owed_since = None
            prev_lsa = None
        if ev["op"] != "poll" or "fp" not in ev:
            continue
        if ev["res"].startswith("ready"):
            break
        fp = ev["fp"]
        if not fp.get("st", "").startswith(("Established", "FinWait")):
            owed_since = None
            continue
        owed = fp.get("lc") != fp.get("lsa")
        lsa_moved = prev_lsa is not None and fp.get("lsa") != prev_lsa
        prev_lsa = fp.get("lsa")
        if not owed:
            owed_since = None
            continue
        if owed_since is None or lsa_moved:
            # (an ACK went out in this poll: it covered everything consumed before it; what is owed now was
            # consumed in this poll, after that ACK)
            owed_since = ev["t"]
        if ev["t"] >= owed_since + 40_000_000:
            hits.append({"sig": {"oracle": "ack", "what": "late"},
                         "text": f"in-order data consumed at t={owed_since} is still unacknowledged after a poll at t={ev['t']} (40 ms later or more)"})
            owed_since = None
            continue
        sl = int(fp.get("sleep", "0"))
        if sl > owed_since + 40_000_000 or (sl <= ev["t"] and "dw=1" not in ev["out"]):
            hits.append({"sig": {"oracle": "ack", "what": "no_repoll"},
                         "text": f"in-order data consumed at t={owed_since} is unacknowledged and the re-poll is requested for t={sl}: not within 40 ms"})
            owed_since = None
        if len(hits) >= 2:
            break
    return hits[:2]


def oracle_calls_resolve(case, impl):
    """C03 (c): once poll returned Ready (the connection is gone) no stream call is left Pending."""
    tr = Trace(case, impl)
    hits = []
    dead = False
    for ev in tr.events:
        if ev["op"] == "new":
            dead = False
        if ev["op"] == "poll" and ev["out"].startswith("ready"):
            dead = True
            continue
        if dead and ev["op"] in ("read", "write", "flush", "shutdown") and ev["out"].startswith("pending"):
            if ev["op"] == "read" and ev["args"] == ["0"]:
                continue
            if ev["op"] == "write" and (ev["args"] == ["0"] or "ww=1" in ev["out"]):
                continue       # empty write / cooperative yield (self-woken)
            hits.append({"sig": {"oracle": "calls", "what": "pending_after_death"},
                         "text": f"`{ev['line']}` returned Pending after the connection task had finished"})
    return hits[:2]


def oracle_bug_errors(case, impl):
    """C10: no panic and no internal 'bug:' error, whatever the peer sends. (A scripted transport that rejects
    datagrams below the protocol minimum size is the harness's doing, not the peer's: excluded.)"""
    hits = []
    hostile_transport = any(l.startswith("vs tmode limit") or l.startswith("vs tmode fail") for l in case)
    for op, out in zip(case, impl):
        if out.startswith("PANIC"):
            hits.append({"sig": {"oracle": "bug", "what": "panic"}, "text": f"`{op[:80]}` -> {out[:200]}"})
        elif "ready:err:bug" in out and not hostile_transport:
            hits.append({"sig": {"oracle": "bug", "what": "bug_error"}, "text": f"`{op[:80]}` -> {out.split()[0]}"})
    return hits[:2]


def oracle_window(case, impl):
    """C05 (first clause): a first transmission outside recovery never brings the outstanding bytes above the window
    the peer advertised last; nothing new is sent into a zero window."""
    tr = Trace(case, impl)
    hits = []
    pending = []
    wnd = None
    outstanding = {}      # seq -> len, first-transmitted and not yet acked by a processed packet
    highest = None
    if any(l.startswith(("vs tmode", "vs chanclose")) for l in case):
        return []
    for ev in tr.events:
        if ev["op"] == "new":
            o = ev["opts"]
            wnd = int(o.get("rwnd", 1 << 20)) if o["dir"] == "out" else 0
            pending, outstanding = [], {}
            highest = (int(o.get("our", 101)) - 1) % 65536
        if ev["op"] == "inject" and "dgram" in ev:
            pending.append(ev["dgram"])
        if ev["op"] != "poll" or "dgrams" not in ev:
            continue
        if ev["res"].startswith("ready"):
            break
        if not ev["fp"].get("st", "").startswith(("Established", "FinWait1", "SynAckSent")):
            pending = []
            continue
        recovering = ev["fp"].get("rec") == "recovering"
        broke = False
        for d in pending:
            if d["type"] in (3, 4):
                continue
            if highest is not None and (_md(d["ack"], highest) > 0 or _sack_beyond(d, highest)):
                broke = True
            wnd = d["wnd"]
            for q in list(outstanding):
                if _md(d["ack"], q) >= 0:
                    del outstanding[q]
            if d["sack"] is not None:
                raw = (bytes(d["sack"]) + bytes(8))[:8]
                for b in range(64):
                    if raw[b // 8] >> (b % 8) & 1:
                        outstanding.pop((d["ack"] + 2 + b) % 65536, None)
        pending = []
        if broke:
            break
        # the window the endpoint itself recorded (packets it drops as invalid do not update it)
        try:
            wnd = int(ev["fp"].get("lrw", wnd))
        except (TypeError, ValueError):
            pass
        for d in ev["dgrams"]:
            if d["type"] in (0, 1) and (highest is None or _md(d["seq"], highest) > 0):
                highest = d["seq"]
            if d["type"] == 0 and d["seq"] in outstanding:
                outstanding[d["seq"]] = d["plen"]        # re-segmented probe: the number now covers fewer bytes
            elif d["type"] == 0:
                first = all(_md(d["seq"], q) > 0 for q in outstanding) if outstanding else True
                outstanding[d["seq"]] = d["plen"]
                if first and not recovering and ev["fp"].get("rtor", "0") == "0":
                    tot = sum(outstanding.values())
                    if tot > wnd:
                        hits.append({"sig": {"oracle": "window", "what": "exceeds_peer_window"},
                                     "text": f"first transmission of seq {d['seq']} brings outstanding bytes to {tot}, the peer's last advertised window is {wnd}"})
        if len(hits) >= 2:
            break
    return hits[:2]


def oracle_retx_cap(case, impl):
    """C06: no sequence number is put on the wire more than 1 + max_retransmissions times (re-segmented probes
    restart the count)."""
    tr = Trace(case, impl)
    hits = []
    count = {}
    size = {}
    cap = 5
    for ev in tr.events:
        if ev["op"] == "new":
            cap = int(ev["opts"].get("retx", 5))
            count, size = {}, {}
        if ev["op"] == "poll" and "dgrams" in ev:
            for d in ev["dgrams"]:
                if d["type"] != 0:
                    continue
                if size.get(d["seq"]) not in (None, d["plen"]):
                    count[d["seq"]] = 0          # re-segmented
                size[d["seq"]] = d["plen"]
                count[d["seq"]] = count.get(d["seq"], 0) + 1
                if count[d["seq"]] > cap + 1:
                    hits.append({"sig": {"oracle": "retx", "what": "cap_exceeded"},
                                 "text": f"seq {d['seq']} transmitted {count[d['seq']]} times with max_retransmissions={cap}"})
                    return hits
    return hits


def oracle_ack_honesty(case, impl):
    """C04/C03 at the connection level: no emitted ack_nr is ahead of the highest sequence number received in
    order from the scripted peer (data or in-sequence FIN)."""
    tr = Trace(case, impl)
    hits = []
    have = set()
    expected = None
    for ev in tr.events:
        if ev["op"] == "new":
            o = ev["opts"]
            rem = int(o.get("rem", 1))
            expected = rem if o["dir"] == "out" else (rem + 1) % 65536
            have = set()
        if ev["op"] == "inject" and "dgram" in ev and ev["dgram"]["type"] in (0, 1):
            have.add(ev["dgram"]["seq"])
        if ev["op"] == "poll" and "dgrams" in ev and expected is not None:
            while expected in have:
                expected = (expected + 1) % 65536
            for d in ev["dgrams"]:
                if _md(d["ack"], (expected - 1) % 65536) > 0:
                    hits.append({"sig": {"oracle": "ackhonest", "what": "ack_overstates"},
                                 "text": f"emitted ack_nr {d['ack']} but the highest sequence number received in order is {(expected - 1) % 65536}"})
                    return hits
    return hits


def oracle_rtx_timer(case, impl):
    """C02: after a poll on a writable transport, data the peer has not acknowledged implies an armed
    retransmission timer (otherwise nothing will ever resend it)."""
    tr = Trace(case, impl)
    hits = []
    if any(l.startswith(("vs tmode", "vs chanclose")) for l in case):
        return []
    outstanding = {}
    pending = []
    highest = None
    for ev in tr.events:
        if ev["op"] == "new":
            outstanding, pending = {}, []
            highest = (int(ev["opts"].get("our", 101)) - 1) % 65536
        if ev["op"] == "inject" and "dgram" in ev:
            pending.append(ev["dgram"])
        if ev["op"] != "poll" or "dgrams" not in ev:
            continue
        if ev["res"].startswith("ready"):
            break
        st = ev["fp"].get("st", "")
        if not st.startswith(("Established", "FinWait1", "LastAck")):
            pending = []
            continue
        for d in pending:
            if d["type"] in (3, 4):
                continue
            if highest is not None and (_md(d["ack"], highest) > 0 or _sack_beyond(d, highest)):
                return hits
            for q in list(outstanding):
                if _md(d["ack"], q) >= 0:
                    del outstanding[q]
            if d["sack"] is not None:
                raw = (bytes(d["sack"]) + bytes(8))[:8]
                for b in range(64):
                    if raw[b // 8] >> (b % 8) & 1:
                        outstanding.pop((d["ack"] + 2 + b) % 65536, None)
        pending = []
        for d in ev["dgrams"]:
            if d["type"] in (0, 1):
                outstanding[d["seq"]] = d["plen"]
                if highest is None or _md(d["seq"], highest) > 0:
                    highest = d["seq"]
        # a popped probe releases its number: nothing beyond last_sent_seq_nr is in flight
        try:
            lss = int(ev["fp"].get("lss"))
            for q in list(outstanding):
                if _md(q, lss) > 0:
                    del outstanding[q]
        except (TypeError, ValueError):
            pass
        if outstanding and ev["fp"].get("t_rtx") == "-":
            hits.append({"sig": {"oracle": "rtx_timer", "what": "idle_with_outstanding"},
                         "text": f"after the poll at t={ev['t']} sequence numbers {sorted(outstanding)[:4]} are unacknowledged but the retransmission timer is idle (rto_retransmissions={ev['fp'].get('rtor')}): nothing will resend them"})
            return hits
    return hits


def oracle_task_ends(case, impl):
    """C08: once our FIN is out (FinWait1/FinWait2/LastAck) the connection's task ends within a bounded time under
    any network behaviour: every Pending poll in those states leaves the inactivity timer armed; with the peer silent
    the deadline is never pushed out, and a poll at or after it ends the task."""
    tr = Trace(case, impl)
    hits = []
    deadline = None        # inactivity deadline after the previous poll (a local-FIN-or-later state), peer silent since
    transport_ok = True
    dropped = set()
    for ev in tr.events:
        if ev["op"] == "new":
            deadline = None
            transport_ok = True
            dropped = set()
        if ev["op"] in ("dropw", "dropr") and ev["out"].startswith("ok"):
            dropped.add(ev["op"])
        # the application has let go of both halves: whatever the state, a Pending poll must leave SOME timer armed,
        # otherwise the task can only end if the peer speaks again
        if (ev["op"] == "poll" and "fp" in ev and transport_ok and dropped == {"dropw", "dropr"} and ev["res"].startswith("pending")
                and all(ev["fp"].get(k, "-") == "-" for k in ("t_rtx", "t_inact", "t_ack", "t_pipe", "t_syn"))):
            hits.append({"sig": {"oracle": "task_ends", "what": "no_timer_after_application_let_go"},
                         "text": f"poll at t={ev['t']} ns: both stream halves are dropped, state {ev['fp'].get('st', '')}, and no timer is armed: if the peer stays silent (e.g. it advertises a zero window because its reader is gone too) the task never ends and its table entry is never released"})
            return hits
        if ev["op"] == "tmode":
            # a poll that stops early on a blocked local transport has not reached the arming code; it is polled
            # again when the transport wakes it (local condition, not network behaviour): not judged
            transport_ok = ev["args"][:1] == ["ok"]
            deadline = None
        if not transport_ok:
            continue
        if ev["op"] in ("inject", "chanclose"):
            deadline = None            # a packet from the peer legitimately restarts the timer
        if ev["op"] != "poll" or "fp" not in ev:
            continue
        st = ev["fp"].get("st", "")
        closing = st.startswith(("FinWait1", "FinWait2", "LastAck"))
        if ev["res"].startswith("ready"):
            deadline = None
            continue
        now = ev["t"]
        if deadline is not None and now >= deadline:
            hits.append({"sig": {"oracle": "task_ends", "what": "alive_past_deadline"},
                         "text": f"poll at t={now} ns in {st.split(';')[0]} returned Pending although the inactivity deadline {deadline} had passed with the peer silent"})
            deadline = None
        if not closing:
            deadline = None
            continue
        ti = ev["fp"].get("t_inact", "-")
        if ti == "-":
            hits.append({"sig": {"oracle": "task_ends", "what": "no_timer_after_local_fin"},
                         "text": f"poll at t={now} ns left the connection in {st.split(';')[0]} with no inactivity timer armed: if the peer stays silent the task never ends"})
            deadline = None
            continue
        ti = int(ti)
        if deadline is not None and ti > deadline:
            hits.append({"sig": {"oracle": "task_ends", "what": "deadline_extended"},
                         "text": f"poll at t={now} ns in {st.split(';')[0]} moved the inactivity deadline from {deadline} to {ti} although the peer was silent"})
        deadline = ti
    return hits[:2]


def _shift_hex(hx, dseq, dack):
    if hx == "-" or len(hx) < 40:
        return hx
    b = bytearray(bytes.fromhex(hx))
    b[16:18] = ((int.from_bytes(b[16:18], "big") + dseq) % 65536).to_bytes(2, "big")
    b[18:20] = ((int.from_bytes(b[18:20], "big") + dack) % 65536).to_bytes(2, "big")
    return b.hex()


def _unshift_out(line, d1, d2):
    """Map an output line of the relabelled run back to the original labels."""
    import re

    def dg(m):
        body = m.group(1)
        return "out=[" + ",".join(_shift_hex(h, -d1, -d2) for h in body.split(",") if h) + "]"
    line = re.sub(r"out=\[([^\]]*)\]", dg, line)

    def fld(name, d):
        nonlocal line
        line = re.sub(r"(;|=)" + name + r"=(\d+)", lambda m: f"{m.group(1)}{name}={(int(m.group(2)) - d) % 65536}", line)
    for n in ("seq", "lss"):
        fld(n, d1)
    for n in ("lc", "lsa"):
        fld(n, d2)
    line = re.sub(r"our_fin:;(\d+)", lambda m: f"our_fin:;{(int(m.group(1)) - d1) % 65536}", line)
    line = re.sub(r"remote_fin:;(\d+)", lambda m: f"remote_fin:;{(int(m.group(1)) - d2) % 65536}", line)
    return line


def oracle_tx_outstanding(case, impl):
    """C09: "ordering and distance of two sequence numbers agree with true modular distance for every distance the
    configured windows allow". The sender compares `last_sent_seq_nr`, `snd_una` and segment numbers with 16-bit
    arithmetic that is true modular distance only up to WRAP_TOLERANCE = 32767: so the configured windows must never
    allow more than that many segments to be outstanding. The oracle counts, in unbounded integers, the data
    segments transmitted for the first time and the ones the peer has acknowledged."""
    tr = Trace(case, impl)
    hits = []
    nxt = una = None            # unbounded: next never-used number, first unacknowledged number
    pending = []
    for ev in tr.events:
        if ev["op"] == "new":
            if ev["opts"]["dir"] != "out":
                return []
            nxt = una = int(ev["opts"].get("our", 101))
            pending = []
        if nxt is None:
            continue
        if ev["op"] == "inject" and "dgram" in ev:
            pending.append(ev["dgram"])
        if ev["op"] != "poll" or "dgrams" not in ev:
            continue
        for d in pending:
            if d["type"] in (3, 4):
                continue
            # the representative of ack+1 within [una, nxt]; anything else is a stale or bogus acknowledgement
            cand = una + ((d["ack"] + 1 - una) % 65536)
            if cand <= nxt:
                una = cand
        pending = []
        for d in ev["dgrams"]:
            if d["type"] == 0 and d["seq"] == nxt % 65536:
                nxt += 1
        if nxt - una > 32767:
            hits.append({"sig": {"oracle": "tx_outstanding", "what": "more_segments_outstanding_than_the_wrap_tolerance"},
                         "text": f"poll at t={ev['t']} ns: {nxt - una} data segments are outstanding (first transmitted, not acknowledged): beyond 32767 the 16-bit distance last_sent_seq_nr - snd_una is no longer the true distance (result of this poll: {ev['res']}; last_sent_seq_nr={ev['fp'].get('lss')})"})
            break
    return hits


def oracle_isn_relabel(case, impl):
    """C09 (whole connection): the same scenario with both initial sequence numbers moved (so that the 16-bit
    wrap falls inside it) produces the same packet trace and stream-call results up to that relabelling."""
    import hashlib
    import re
    import subprocess
    from gens.vsock import HBIN
    if not case or not case[0].startswith("vs new"):
        return []
    m1, m2 = re.search(r"our=(\d+)", case[0]), re.search(r"rem=(\d+)", case[0])
    our = int(m1.group(1)) if m1 else 101
    rem = int(m2.group(1)) if m2 else 1
    h = int(hashlib.sha1("\n".join(case).encode()).hexdigest(), 16)
    # land our/their numbering a few packets below the wrap
    d1 = (65535 - (h % 23) - our) % 65536
    d2 = (65535 - ((h >> 8) % 23) - rem) % 65536
    if d1 == 0 and d2 == 0:
        d1 = 1
    shifted = []
    for l in case:
        t = l.split()
        if t[:2] == ["vs", "new"]:
            l = re.sub(r"our=\d+", f"our={(our + d1) % 65536}", l) if m1 else l + f" our={(our + d1) % 65536}"
            l = re.sub(r"rem=\d+", f"rem={(rem + d2) % 65536}", l) if m2 else l + f" rem={(rem + d2) % 65536}"
        elif t[:2] == ["vs", "inject"] and len(t) == 3:
            l = f"vs inject {_shift_hex(t[2], d2, d1)}"
        shifted.append(l)
    try:
        p = subprocess.run([HBIN], input="\n".join(shifted) + "\n", capture_output=True, text=True, timeout=120)
    except Exception:
        return []
    out2 = p.stdout.split("\n")[:len(case)]
    hits = []
    for i, (l, a, b) in enumerate(zip(case, impl, out2)):
        if a.startswith("PANIC") and b.startswith("PANIC"):
            continue
        b2 = _unshift_out(b, d1, d2)
        if a != b2:
            hits.append({"sig": {"oracle": "isn_relabel", "what": "trace_differs"},
                         "text": f"op {i} `{l[:60]}`: with initial sequence numbers moved by (+{d1}, +{d2}) (ours {our}->{(our + d1) % 65536}, theirs {rem}->{(rem + d2) % 65536}) the outcome differs beyond relabelling: original `{a[:160]}` relabelled run `{b2[:160]}`"})
            break
    return hits


def oracle_nagle(case, impl):
    """C18: with Nagle on, a NEW data segment smaller than the segment size is not put on the wire while earlier
    data is unacknowledged - unless the peer's window is what limits it (the segment exactly fills what the window
    leaves) - and no segment ever exceeds the window that was left for it."""
    tr = Trace(case, impl)
    hits = []
    if any(l.startswith(("vs tmode", "vs chanclose")) for l in case):
        return []
    pending, outstanding, highest, nagle, wnd = [], {}, None, True, 0
    wnd_hist, created, mss_min = [], [], None
    for ev in tr.events:
        if ev["op"] == "new":
            wnd_hist, created, mss_min = [], [], None
            o = ev["opts"]
            nagle = o.get("nagle", "1") != "0"
            wnd = int(o.get("rwnd", 1 << 20)) if o["dir"] == "out" else 0
            pending, outstanding = [], {}
            highest = (int(o.get("our", 101)) - 1) % 65536
        if ev["op"] == "inject" and "dgram" in ev:
            pending.append(ev["dgram"])
        if ev["op"] != "poll" or "dgrams" not in ev:
            continue
        if ev["res"].startswith("ready"):
            break
        for d in pending:
            if d["type"] in (3, 4):
                continue
            if highest is not None and (_md(d["ack"], highest) > 0 or _sack_beyond(d, highest)):
                return hits            # the peer acknowledges data never sent: it broke its own connection
            for q in list(outstanding):
                if _md(d["ack"], q) >= 0:
                    del outstanding[q]
            if d["sack"] is not None:
                raw = (bytes(d["sack"]) + bytes(8))[:8]
                for b in range(64):
                    if raw[b // 8] >> (b % 8) & 1:
                        outstanding.pop((d["ack"] + 2 + b) % 65536, None)
        pending = []
        if not ev["fp"].get("st", "").startswith(("Established", "FinWait1")):
            continue
        try:
            wnd = int(ev["fp"].get("lrw", wnd))
            mss = int(ev["fp"].get("ss", "min_ss=0:").split("min_ss=")[1].split(":")[0])
        except (TypeError, ValueError, IndexError):
            continue
        wnd_hist.append(wnd)
        # segments are sized when they are created: full size under the segment size of that time
        mss_min = mss if mss_min is None else min(mss_min, mss)
        mss = mss_min
        for d in ev["dgrams"]:
            if d["type"] != 0:
                if d["type"] == 1 and (highest is None or _md(d["seq"], highest) > 0):
                    highest = d["seq"]
                continue
            new_seq = highest is None or _md(d["seq"], highest) > 0
            if new_seq:
                highest = d["seq"]
                in_flight = sum(outstanding.values())
                if nagle and outstanding and 0 < d["plen"] < mss and ev["fp"].get("rtor", "0") == "0":
                    # window-limited in the code's sense: one segmentation pass hands out at most the peer's window;
                    # this segment, together with the j segments created just before it, exactly uses up a window
                    # value the peer has advertised at some point
                    ok = False
                    tot = d["plen"]
                    for j in range(0, len(created) + 1):
                        if j > 0:
                            tot += created[-j][1]
                        # the run may have been created in any pass since the segment before it went out
                        idx = 0      # a segment may wait arbitrarily long between its creation and its first transmission
                        if tot in wnd_hist[idx:]:
                            ok = True
                            break
                        if tot > max(wnd_hist[idx:] + [0]):
                            break
                    if not ok:
                        hits.append({"sig": {"oracle": "nagle", "what": "small_segment_with_data_in_flight"},
                                     "text": f"new segment seq {d['seq']} carries {d['plen']} bytes (segment size {mss}) while {in_flight} earlier bytes are unacknowledged, and it does not use up the peer's window ({wnd}) either alone or together with the segments created just before it: the window is not what limits it (Nagle is on)"})
                created.append((d["seq"], d["plen"], len(wnd_hist) - 1))
            else:
                # a popped probe is re-segmented under the same number with a new size
                created = [(q, d["plen"] if q == d["seq"] else ln, ix) for (q, ln, ix) in created]
            outstanding[d["seq"]] = d["plen"]
        if len(hits) >= 2:
            break
    return hits[:2]


def oracle_fin_sent(case, impl):
    """C17/C03/C02: after closing on its own initiative (FinWait1) with every data packet acknowledged, the
    endpoint puts its FIN on the wire (a poll with a working transport may not end Pending with the FIN never sent)."""
    import re
    tr = Trace(case, impl)
    hits = []
    if any(l.startswith(("vs tmode", "vs chanclose")) for l in case):
        return []
    pending, acked_upto, fin_sent, highest_data = [], None, set(), None
    for ev in tr.events:
        if ev["op"] == "new":
            pending, acked_upto, fin_sent, highest_data = [], None, set(), None
        if ev["op"] == "inject" and "dgram" in ev:
            pending.append(ev["dgram"])
        if ev["op"] != "poll" or "dgrams" not in ev:
            continue
        for d in pending:
            if d["type"] in (3, 4):
                continue
            if acked_upto is None or _md(d["ack"], acked_upto) > 0:
                acked_upto = d["ack"]
        pending = []
        for d in ev["dgrams"]:
            if d["type"] == 1:
                fin_sent.add(d["seq"])
            if d["type"] == 0 and (highest_data is None or _md(d["seq"], highest_data) > 0):
                highest_data = d["seq"]
        if not ev["res"].startswith("pending"):
            break
        m = re.search(r"st=FinWait1;\{;our_fin:;(\d+)", ev["out"])
        if not m:
            continue
        fin = int(m.group(1))
        # "its FIN carries the sequence number following the last data segment": the number scheduled for the FIN may
        # not be one a data segment has already been transmitted with (D26: seq_nr set back by re-sends after an RTO)
        if highest_data is not None and _md(fin, highest_data) <= 0:
            hits.append({"sig": {"oracle": "fin_sent", "what": "fin_number_already_used_by_a_data_segment"},
                         "text": f"poll at t={ev['t']} ns: state FinWait1 with our FIN = {fin}, but data segments up to {highest_data} have been transmitted: the FIN's number does not follow the last data segment (last_sent_seq_nr={ev['fp'].get('lss')})"})
            break
        if fin in fin_sent or acked_upto is None:
            continue
        if _md(acked_upto, (fin - 1) % 65536) >= 0:
            hits.append({"sig": {"oracle": "fin_sent", "what": "fin_withheld_after_all_data_acked"},
                         "text": f"poll at t={ev['t']} ns: state FinWait1 with our FIN = {fin}, the peer has acknowledged everything up to {acked_upto}, yet no FIN was ever sent (last_sent_seq_nr={ev['fp'].get('lss')}): the peer never learns the stream ended"})
            break
    return hits


def oracle_fin_answered(case, impl):
    """C17: "a peer's FIN ... is acknowledged and answered with the endpoint's own FIN". Once the endpoint is in
    LastAck (the peer's FIN was accepted in sequence), on a working transport: a poll may not end Pending with the
    endpoint's FIN never transmitted while no retransmission timer is armed - nothing is in flight then, no ACK
    can arrive and no timer will fire, so the FIN would never be sent."""
    import re
    tr = Trace(case, impl)
    hits = []
    if any(l.startswith(("vs tmode", "vs chanclose")) for l in case):
        return []
    fin_sent = set()
    for ev in tr.events:
        if ev["op"] == "new":
            fin_sent = set()
        if ev["op"] != "poll" or "dgrams" not in ev:
            continue
        for d in ev["dgrams"]:
            if d["type"] == 1:
                fin_sent.add(d["seq"])
        if not ev["res"].startswith("pending"):
            continue
        m = re.search(r"st=LastAck;\{;our_fin:;(\d+)", ev["out"])
        if not m:
            continue
        fin = int(m.group(1))
        if fin in fin_sent:
            continue
        if ev["fp"].get("t_rtx") == "-":
            hits.append({"sig": {"oracle": "fin_answered", "what": "fin_never_sent_in_last_ack_nothing_in_flight"},
                         "text": f"poll at t={ev['t']} ns: state LastAck with our FIN = {fin}: the peer's FIN was accepted, yet our FIN was never transmitted, and no retransmission timer is armed (last_sent_seq_nr={ev['fp'].get('lss')}): nothing will ever send it"})
            break
    return hits


def oracle_zero_window_probe(case, impl):
    """C02: progress does not hinge on one datagram: when accepted bytes wait behind a zero peer window with nothing
    in flight, SOME timer must be armed that will make the sender probe the window - otherwise the loss of the single
    window-reopening ACK stalls the connection forever (the property's own example)."""
    tr = Trace(case, impl)
    hits = []
    if any(l.startswith(("vs tmode", "vs chanclose")) for l in case):
        return []
    pending, outstanding, sent_seqs = [], {}, {}
    for ev in tr.events:
        if ev["op"] == "new":
            pending, outstanding, sent_seqs = [], {}, {}
        if ev["op"] == "inject" and "dgram" in ev:
            pending.append(ev["dgram"])
        if ev["op"] != "poll" or "dgrams" not in ev:
            continue
        for d in pending:
            if d["type"] in (3, 4):
                continue
            for q in list(outstanding):
                if _md(d["ack"], q) >= 0:
                    del outstanding[q]
        pending = []
        for d in ev["dgrams"]:
            if d["type"] == 0:
                outstanding[d["seq"]] = d["plen"]
                sent_seqs[d["seq"]] = d["plen"]
        if not ev["res"].startswith("pending") or not ev["fp"].get("st", "").startswith("Established"):
            continue
        unsent = ev["accepted_total"] - sum(sent_seqs.values())
        fp = ev["fp"]
        if unsent > 0 and not outstanding and fp.get("lrw") == "0" and all(fp.get(k, "-") == "-" for k in ("t_rtx", "t_inact", "t_ack", "t_pipe", "t_syn")):
            hits.append({"sig": {"oracle": "zero_window", "what": "no_timer_armed_while_data_waits_behind_zero_window"},
                         "text": f"poll at t={ev['t']} ns: {unsent} accepted bytes wait behind a zero peer window, nothing is in flight and no timer is armed: if the peer's single window-reopening ACK is lost the connection never resumes (no persist timer / window probe)"})
            break
    return hits


def _ack_tracker():
    """shared helper: which data numbers are outstanding given the packets the endpoint has processed"""
    return {"pending": [], "outstanding": {}, "highest": None}


def oracle_probe_discipline(case, impl):
    """C14: ordinary segments never exceed the largest size proven deliverable; at most one oversized probe is
    outstanding and it is the newest segment: while a data segment larger than the proven size (min_ss when it was
    first sent) is unacknowledged, no newer data segment is put on the wire."""
    tr = Trace(case, impl)
    hits = []
    if any(l.startswith(("vs tmode", "vs chanclose")) for l in case):
        return []
    pending, outstanding, highest, oversized, mss_prev = [], {}, None, None, None
    over_count, probe_retx, rto_only = 0, 1, True
    for ev in tr.events:
        if ev["op"] == "new":
            pending, outstanding, oversized, mss_prev = [], {}, None, None
            highest = (int(ev["opts"].get("our", 101)) - 1) % 65536
            over_count, rto_only = 0, True
            try:
                probe_retx = int(ev["opts"].get("probe_retx", 1))
            except ValueError:
                probe_retx = 1
        if ev["op"] == "inject" and "dgram" in ev:
            pending.append(ev["dgram"])
        if ev["op"] != "poll" or "dgrams" not in ev:
            continue
        for d in pending:
            if d["type"] in (3, 4):
                continue
            if highest is not None and (_md(d["ack"], highest) > 0 or _sack_beyond(d, highest)):
                return hits
            for q in list(outstanding):
                if _md(d["ack"], q) >= 0:
                    del outstanding[q]
            if d["sack"] is not None:
                rto_only = False
                raw = (bytes(d["sack"]) + bytes(8))[:8]
                for b in range(64):
                    if raw[b // 8] >> (b % 8) & 1:
                        outstanding.pop((d["ack"] + 2 + b) % 65536, None)
        pending = []
        if oversized is not None and oversized not in outstanding:
            oversized = None
        if oversized is None:
            over_count = 0
        if ev["fp"].get("rec", "no") != "no":
            rto_only = False
        try:
            mss_now = int(ev["fp"].get("ss", "min_ss=0:").split("min_ss=")[1].split(":")[0])
        except (IndexError, ValueError):
            continue
        proven = mss_prev if mss_prev is not None else mss_now      # the proven size when this poll started
        for d in ev["dgrams"]:
            if d["type"] != 0:
                if d["type"] == 1 and (highest is None or _md(d["seq"], highest) > 0):
                    highest = d["seq"]
                continue
            if highest is None or _md(d["seq"], highest) > 0:
                if oversized is not None and oversized in outstanding and _md(d["seq"], oversized) > 0:
                    hits.append({"sig": {"oracle": "probe", "what": "segment_sent_past_outstanding_oversized_segment"},
                                 "text": f"data seq {d['seq']} first sent while seq {oversized} ({outstanding[oversized]} bytes, larger than the proven segment size) is still unacknowledged: an oversized segment must be a probe, and a probe is the newest segment"})
                    return hits
                highest = d["seq"]
                if d["plen"] > max(proven, mss_now):
                    oversized = d["seq"]
                    over_count = 1
            elif d["seq"] == oversized and d["plen"] <= max(proven, mss_now):
                oversized = None            # popped and re-segmented at a proven size
                over_count = 0
            elif d["seq"] == oversized:
                # the oversized segment again, at the same size: only the retransmission timer resends it in a history
                # without loss recovery, and a probe is given up (popped, re-segmented at a proven size) after
                # `mtu_probe_max_retransmissions` of those
                over_count += 1
                # (once the remote has closed - LastAck - nothing is segmented any more, by design; an outstanding
                # probe can then no longer be re-segmented: not judged)
                if rto_only and over_count > 1 + probe_retx and ev["fp"].get("st", "").startswith(("Established", "FinWait1")):
                    hits.append({"sig": {"oracle": "probe", "what": "oversized_segment_retransmitted_like_an_ordinary_one"},
                                 "text": f"data seq {d['seq']} ({d['plen']} bytes, larger than the proven segment size {max(proven, mss_now)}) is on the wire for the {over_count}th time at that size: a segment above the proven size must be a probe, and a probe is re-segmented after {probe_retx} retransmission(s) - on a path that does not carry this size the data is never delivered"})
                    return hits
            outstanding[d["seq"]] = d["plen"]
        mss_prev = mss_now
    return hits


def oracle_reset(case, impl):
    """C17: a RESET aborts the connection at once, with an error unless the close handshake was already answered
    (LastAck and the RESET acknowledges our FIN)."""
    import re
    tr = Trace(case, impl)
    hits = []
    if any(l.startswith(("vs tmode", "vs chanclose")) for l in case):
        return []
    rst = None
    prev_state = ""
    n_inj = 0
    for ev in tr.events:
        if ev["op"] == "new":
            n_inj = 0
            rst, prev_state = None, ev["out"].split("fp=st=")[1].split(";seq=")[0] if "fp=st=" in ev["out"] else ""
        if ev["op"] == "inject" and ev["out"].startswith("ok"):
            n_inj += 1
            if "dgram" in ev and ev["dgram"]["type"] == 3 and rst is None:
                rst = ev["dgram"]
        if ev["op"] != "poll" or "fp" not in ev:
            continue
        if rst is not None and n_inj != 1:
            return hits          # other packets are processed in the same poll and may move the state first: not judged
        n_inj = 0
        if rst is not None:
            m = re.match(r"LastAck;\{;our_fin:;(\d+)", prev_state)
            answered = m is not None and int(m.group(1)) == rst["ack"]
            if ev["res"].startswith("pending"):
                if not prev_state.startswith(("SynReceived", "Closed")):
                    hits.append({"sig": {"oracle": "reset", "what": "reset_did_not_abort"},
                                 "text": f"a RESET was delivered in state {prev_state.split(';')[0]} but the poll that processed it returned Pending"})
            elif ev["res"].startswith("ready:ok") and not answered and not prev_state.startswith("Closed"):
                # a FIN processed in the same poll before the RESET may have moved the state on: only judge when the
                # RESET was the only packet
                hits.append({"sig": {"oracle": "reset", "what": "reset_reported_as_clean_close"},
                             "text": f"a RESET (ack_nr {rst['ack']}) delivered in state {prev_state.replace(';', ' ')} ended the connection with Ok(()): a clean close is only right when the close handshake was already answered (LastAck and the RESET acknowledges our FIN)"})
            return hits
        prev_state = ev["out"].split("fp=st=")[1].split(";seq=")[0] if "fp=st=" in ev["out"] else prev_state
    return hits


def oracle_slow_start(case, impl):
    """C05 (second clause): before the first loss signal the bytes outstanding never exceed two segments plus the
    bytes the peer has acknowledged (cumulatively or selectively) so far - slow start grows the window by at most
    what was acknowledged."""
    tr = Trace(case, impl)
    hits = []
    if any(l.startswith(("vs tmode", "vs chanclose")) for l in case):
        return []
    pending, outstanding, highest, acked_total, mss0, ok = [], {}, None, 0, None, False
    for ev in tr.events:
        if ev["op"] == "new":
            pending, outstanding, acked_total, mss0 = [], {}, 0, None
            highest = (int(ev["opts"].get("our", 101)) - 1) % 65536
            ok = ev["opts"]["dir"] == "out"
        if not ok:
            continue
        if ev["op"] == "inject" and "dgram" in ev:
            pending.append(ev["dgram"])
        if ev["op"] != "poll" or "dgrams" not in ev:
            continue
        for d in pending:
            if d["type"] in (3, 4):
                continue
            if highest is not None and (_md(d["ack"], highest) > 0 or _sack_beyond(d, highest)):
                return hits
            for q in list(outstanding):
                if _md(d["ack"], q) >= 0:
                    acked_total += outstanding.pop(q)
            if d["sack"] is not None:
                raw = (bytes(d["sack"]) + bytes(8))[:8]
                for b in range(64):
                    if raw[b // 8] >> (b % 8) & 1:
                        acked_total += outstanding.pop((d["ack"] + 2 + b) % 65536, 0)
        pending = []
        fp = ev["fp"]
        if fp.get("rec") == "recovering" or fp.get("rtor", "0") != "0" or not fp.get("st", "").startswith("Established"):
            return hits          # first loss signal (or teardown): slow start is over
        try:
            mss = int(fp.get("ss", "min_ss=0:").split("min_ss=")[1].split(":")[0])
            max_ss = int(fp.get("ss", "max_ss=0").split("max_ss=")[1].split(";")[0])
        except (IndexError, ValueError):
            continue
        mss0 = mss if mss0 is None else mss0
        sent_new = False
        for d in ev["dgrams"]:
            if d["type"] == 0:
                if highest is None or _md(d["seq"], highest) > 0:
                    highest = d["seq"]
                    sent_new = True
                outstanding[d["seq"]] = d["plen"]
        if sent_new:
            tot = sum(outstanding.values())
            allowed = max(2 * mss, 2 * mss0 + acked_total) + max_ss       # one segment (a probe at most) of slack
            if tot > allowed:
                hits.append({"sig": {"oracle": "slow_start", "what": "window_grew_by_more_than_acknowledged"},
                             "text": f"before any loss: {tot} bytes outstanding after this poll, but only 2 segments ({2 * mss0}) + {acked_total} acknowledged bytes (+ one segment of slack = {allowed}) are allowed in slow start"})
                return hits
    return hits


def oracle_cc_accounting(case, impl):
    """C05/C15 glue: the congestion controller is told about every acknowledged byte at most once. The sum of
    the byte counts passed to `on_ack` never exceeds the payload bytes of the distinct sequence numbers the
    peer has acknowledged so far (cumulatively or selectively) - otherwise the window grows by more than was
    acknowledged, whatever the controller does with it."""
    import re
    tr = Trace(case, impl)
    hits = []
    if any(l.startswith(("vs tmode", "vs chanclose")) for l in case):
        return []
    pending, outstanding, highest, acked_total, told, ok = [], {}, None, 0, 0, False
    for ev in tr.events:
        if ev["op"] == "new":
            pending, outstanding, acked_total, told = [], {}, 0, 0
            highest = (int(ev["opts"].get("our", 101)) - 1) % 65536
            ok = ev["opts"]["dir"] == "out"
        if not ok:
            continue
        if ev["op"] == "inject" and "dgram" in ev:
            pending.append(ev["dgram"])
        if ev["op"] != "poll" or "dgrams" not in ev:
            continue
        for d in pending:
            if d["type"] in (3, 4):
                continue
            if highest is not None and (_md(d["ack"], highest) > 0 or _sack_beyond(d, highest)):
                return hits
            for q in list(outstanding):
                if _md(d["ack"], q) >= 0:
                    acked_total += outstanding.pop(q)
            if d["sack"] is not None:
                raw = (bytes(d["sack"]) + bytes(8))[:8]
                for b in range(64):
                    if raw[b // 8] >> (b % 8) & 1:
                        acked_total += outstanding.pop((d["ack"] + 2 + b) % 65536, 0)
        pending = []
        for m in re.finditer(r"on_ack\((\d+),", ev["out"]):
            told += int(m.group(1))
        if told > acked_total:
            hits.append({"sig": {"oracle": "cc_accounting", "what": "controller_told_more_than_acknowledged"},
                         "text": f"after the poll at t={ev['t']} ns the congestion controller has been told about {told} acknowledged bytes in total, but the peer has acknowledged only {acked_total} bytes of distinct sequence numbers (cumulative + selective): some bytes were counted twice"})
            return hits
        if not ev["fp"].get("st", "").startswith(("Established", "FinWait")):
            return hits
        for d in ev["dgrams"]:
            if d["type"] == 0:
                if highest is None or _md(d["seq"], highest) > 0:
                    highest = d["seq"]
                outstanding[d["seq"]] = d["plen"]
    return hits


def oracle_inactivity_discipline(case, impl):
    """C08: only progress moves the remote-inactivity deadline. A poll whose whole input is data packets at or
    below the consumed point (old duplicates), carrying an acknowledgement number the connection has processed
    before and no selective ACK, must not leave the inactivity deadline later than it was: otherwise a peer that
    keeps resending old data (its own ACK path is dead) keeps a closing connection, its table entry and its
    share of the connection limit alive for ever (`Props/C08.stale_data_keeps_timers`)."""
    tr = Trace(case, impl)
    hits = []
    batch, seen_acks, lc, prev_inact, alive, prev_st = [], set(), None, None, False, ""
    for ev in tr.events:
        if ev["op"] == "new":
            batch, seen_acks, prev_inact, alive = [], set(), None, True
            prev_st = "Established" if "st=Established" in ev["out"] else ""
            try:
                lc = int(ev["out"].split(";lc=")[1].split(";")[0])
            except (IndexError, ValueError):
                lc = None
        if not alive:
            continue
        if ev["op"] == "inject":
            batch.append(ev.get("dgram") if ev["out"].startswith("ok") else None)
        if ev["op"] in ("chanclose", "cancel"):
            alive = False
        if ev["op"] != "poll" or "fp" not in ev:
            continue
        fp = ev["fp"]
        stale = bool(batch) and lc is not None and all(
            d is not None and d["type"] == 0 and d["plen"] > 0 and d["sack"] is None and d["ack"] in seen_acks
            and -1024 <= _md(d["seq"], (lc + 1) % 65536) < 0 for d in batch)
        st = fp.get("st", "")
        stale = stale and st == prev_st
        for d in batch:
            # (only packets the state table certainly lets through to acknowledgement processing count as "seen")
            if d is not None and d["type"] in (0, 2) and prev_st.startswith(("Established", "FinWait")):
                seen_acks.add(d["ack"])
        batch = []
        prev_st = st
        if any(d["type"] in (0, 1, 4) for d in ev.get("dgrams", [])):
            # something (possibly new) went out after this poll's input was processed: an acknowledgement number
            # seen so far may acknowledge it next time
            seen_acks = set()
        if not ev["res"].startswith("pending"):
            alive = False
            continue
        new_inact = fp.get("t_inact", "-")
        if stale and prev_inact not in (None, "-") and new_inact != "-" and int(new_inact) > int(prev_inact):
            hits.append({"sig": {"oracle": "inactivity", "what": "stale_data_extends_inactivity_deadline"},
                         "text": f"poll at t={ev['t']} ns processed only old duplicate data packets (nothing consumed, nothing newly acknowledged) and moved the remote-inactivity deadline from {prev_inact} to {new_inact} ns: a peer resending old data keeps the connection alive indefinitely"})
            return hits
        prev_inact = new_inact
        try:
            lc = int(fp.get("lc", lc))
        except (TypeError, ValueError):
            pass
    return hits


def oracle_completion_honest(case, impl):
    """C03 (first clause): `flush` / `shutdown` report success only when every byte accepted by `write` before the
    call has been cumulatively acknowledged by the peer (in a datagram the connection has processed). Judged on
    the wire: bytes of the distinct data sequence numbers the scripted peer acknowledged vs bytes accepted."""
    tr = Trace(case, impl)
    hits = []
    if any(l.startswith(("vs tmode", "vs chanclose")) for l in case):
        return []
    pending, outstanding, highest, acked_total, ok = [], {}, None, 0, False
    for ev in tr.events:
        if ev["op"] == "new":
            pending, outstanding, acked_total = [], {}, 0
            highest = (int(ev["opts"].get("our", 101)) - 1) % 65536
            ok = True
        if not ok:
            continue
        if ev["op"] == "inject" and "dgram" in ev:
            pending.append(ev["dgram"])
        if ev["op"] in ("flush", "shutdown") and ev["out"].startswith("ok") and ev["accepted_total"] > acked_total:
            hits.append({"sig": {"oracle": "completion", "what": f"{ev['op']}_ok_before_all_bytes_acknowledged"},
                         "text": f"`vs {ev['op']}` returned Ok although only {acked_total} of the {ev['accepted_total']} bytes accepted by write so far have been acknowledged by the peer"})
            return hits
        if ev["op"] != "poll" or "dgrams" not in ev:
            continue
        for d in pending:
            if d["type"] in (3, 4):
                continue
            if highest is not None and _md(d["ack"], highest) > 0:
                ok = False          # the peer acknowledges what was never sent: not judged
                break
            for q in list(outstanding):
                if _md(d["ack"], q) >= 0:
                    acked_total += outstanding.pop(q)
        pending = []
        for d in ev["dgrams"]:
            if d["type"] == 0:
                if highest is None or _md(d["seq"], highest) > 0:
                    highest = d["seq"]
                outstanding[d["seq"]] = d["plen"]
            elif d["type"] == 1 and (highest is None or _md(d["seq"], highest) > 0):
                highest = d["seq"]
    return hits


def oracle_idle_promptness(case, impl):
    """C02 (promptness clause): "a write on an idle connection is transmitted at once, and a shutdown on an idle
    connection emits its FIN at once". Judged on outgoing connections with a working transport and an open peer
    window, before any loss signal: when every byte accepted so far has been sent and acknowledged and the
    application writes (or shuts down), that call wakes the connection task (if the task has been polled since it
    last found the ring empty, i.e. has registered for it) and the very next poll puts data (the FIN) on the wire."""
    tr = Trace(case, impl)
    hits = []
    if any(l.startswith(("vs tmode", "vs chanclose", "vs cancel")) for l in case):
        return []
    ok, polled, expect, pending, outstanding, highest, sent_first = False, False, None, [], {}, None, 0
    for ev in tr.events:
        op = ev["op"]
        if op == "new":
            try:
                ok = ev["opts"]["dir"] == "out" and int(ev["opts"].get("rwnd", 0)) >= 3000
            except ValueError:
                ok = False
            polled, expect, pending, outstanding, sent_first = False, None, [], {}, 0
            highest = (int(ev["opts"].get("our", 101)) - 1) % 65536
        if not ok:
            continue
        if op == "inject":
            pending.append(ev.get("dgram"))
        if op in ("dropw", "dropr", "flush"):
            ok = False
        if op == "write" and ev["out"].startswith("ready:") and ev.get("accepted", 0) > 0:
            if expect is None and not outstanding and sent_first == ev["accepted_from"]:
                expect = ("data", ev["line"], " dw=1" in ev["out"], polled)
            polled_since_write = False
        if op == "shutdown":
            if expect is None and not outstanding and sent_first == ev["accepted_total"]:
                expect = ("fin", ev["line"], " dw=1" in ev["out"], polled)
            elif expect is None:
                ok = False
        if op != "poll" or "dgrams" not in ev:
            continue
        fp = ev["fp"]
        for d in pending:
            if d is None or d["type"] in (1, 3, 4) or (highest is not None and _md(d["ack"], highest) > 0) \
                    or d["wnd"] < 3000 or d["sack"] is not None:
                ok = False
                break
            for q in list(outstanding):
                if _md(d["ack"], q) >= 0:
                    del outstanding[q]
        pending = []
        if not ok or not ev["res"].startswith("pending") or fp.get("rtor", "0") != "0" or fp.get("rec", "no") != "no":
            ok = False
            continue
        if expect is not None:
            kind, line, woke, was_polled = expect
            want = 0 if kind == "data" else 1
            if not any(d["type"] == want and (want == 1 or d["plen"] > 0) for d in ev["dgrams"]):
                hits.append({"sig": {"oracle": "promptness", "what": f"idle_{kind}_not_sent_at_once"},
                             "text": f"`{line}` on an idle connection (everything accepted so far sent and acknowledged, peer window open): the poll that follows at t={ev['t']} ns puts no {'data' if kind == 'data' else 'FIN'} on the wire"})
                return hits
            if was_polled and not woke:
                hits.append({"sig": {"oracle": "promptness", "what": f"idle_{kind}_does_not_wake_the_connection"},
                             "text": f"`{line}` on an idle connection did not wake the connection task (which had registered for it when it found the ring empty): the bytes wait for an unrelated event"})
                return hits
            expect = None
        polled = True
        for d in ev["dgrams"]:
            if d["type"] in (0, 1):
                if highest is None or _md(d["seq"], highest) > 0:
                    highest = d["seq"]
                    sent_first += d["plen"]
                outstanding[d["seq"]] = d["plen"]
        if any(d["type"] == 1 for d in ev["dgrams"]):
            ok = False
    return hits


def oracle_read_content(case, impl):
    """C01/C03, receive side of one connection: what the application reads is a prefix of the byte stream the
    scripted peer sent (payloads in sequence-number order, each number once), and a clean end-of-stream comes only
    after every byte that preceded the peer's FIN has been read."""
    tr = Trace(case, impl)
    hits = []
    payloads, fins, start, got, judged = {}, set(), None, b"", True
    for ev in tr.events:
        if ev["op"] == "new":
            o = ev["opts"]
            rem = int(o.get("rem", 1))
            start = rem if o["dir"] == "out" else (rem + 1) % 65536
            payloads, fins, got, judged = {}, set(), b"", True
        if not judged or start is None:
            continue
        if ev["op"] == "inject" and "dgram" in ev:
            d = ev["dgram"]
            if d["type"] == 0 and d["plen"] > 0:
                if d["seq"] in payloads and payloads[d["seq"]] != d["payload"]:
                    judged = False          # the peer sent two different payloads under one number: not judged
                payloads.setdefault(d["seq"], d["payload"])
            elif d["type"] == 1 and d["plen"] == 0:
                fins.add(d["seq"])
            if fins & set(payloads):
                judged = False              # one number used for data and for a FIN: which one counts depends on order
                continue
        if ev["op"] != "read" or ev["args"] == ["0"]:
            continue
        stream, q = b"", start
        while q in payloads and len(stream) < len(got) + (1 << 22) and q not in fins:
            stream += payloads[q]
            q = (q + 1) % 65536
        out = ev["out"].split()[0] if ev["out"] else ""
        if out.startswith("data:"):
            got += bytes.fromhex(out[5:])
            if not stream.startswith(got):
                k = next((i for i in range(min(len(got), len(stream))) if got[i] != stream[i]), min(len(got), len(stream)))
                hits.append({"sig": {"oracle": "read_content", "what": "reader_got_bytes_the_peer_did_not_send_there"},
                             "text": f"`{ev['line']}`: after {len(got)} bytes read, the reader's stream differs from the peer's at offset {k} (the peer's in-order stream so far has {len(stream)} bytes)"})
                return hits
        elif out == "eof":
            if q in fins and len(got) < len(stream):
                hits.append({"sig": {"oracle": "read_content", "what": "eof_before_all_bytes"},
                             "text": f"`{ev['line']}` returned end-of-stream after {len(got)} bytes although {len(stream)} bytes preceded the peer's FIN (seq {q})"})
                return hits
    return hits


def oracle_rx_honesty(case, impl):
    """C04 at the connection level: every selective-ACK bit names a packet the peer really sent, and the advertised
    window never exceeds the receive buffer minus the bytes this endpoint has itself acknowledged in order and the
    application has not read yet."""
    tr = Trace(case, impl)
    hits = []
    have, plen_of, start, read_total, rx, fin_seqs = set(), {}, None, 0, 1 << 20, set()
    for ev in tr.events:
        if ev["op"] == "new":
            o = ev["opts"]
            rem = int(o.get("rem", 1))
            start = rem if o["dir"] == "out" else (rem + 1) % 65536
            have, plen_of, read_total, fin_seqs = set(), {}, 0, set()
            try:
                rx = int(o.get("rx", 1 << 20))
            except ValueError:
                rx = 1 << 20
        if start is None:
            continue
        if ev["op"] == "inject" and "dgram" in ev and ev["dgram"]["type"] in (0, 1):
            d = ev["dgram"]
            have.add(d["seq"])
            if d["type"] == 0 and d["seq"] in plen_of and plen_of[d["seq"]] != d["plen"]:
                return hits             # same number, different sizes: not judged
            if d["type"] == 0:
                plen_of[d["seq"]] = d["plen"]
            else:
                fin_seqs.add(d["seq"])
            if fin_seqs & set(plen_of):
                return hits             # one number used for data and for a FIN: not judged
        if ev["op"] == "read" and ev["out"].startswith("data:"):
            read_total += (len(ev["out"].split()[0]) - 5) // 2
        if ev["op"] != "poll" or "dgrams" not in ev:
            continue
        if ev["fp"].get("st", "").startswith(("LastAck", "Closed")):
            # the remote's FIN has been consumed: a well-behaved peer has sent nothing numbered beyond it, and for
            # bogus data beyond a FIN the bitmap is not meaningful (DESIGN 11): not judged
            return hits
        for d in ev["dgrams"]:
            if d["sack"] is not None:
                raw = (bytes(d["sack"]) + bytes(8))[:8]
                for b in range(64):
                    if raw[b // 8] >> (b % 8) & 1 and (d["ack"] + 2 + b) % 65536 not in have:
                        hits.append({"sig": {"oracle": "rxhonest", "what": "sack_bit_for_packet_never_sent"},
                                     "text": f"emitted selective ACK (ack_nr {d['ack']}) sets bit {b}: sequence number {(d['ack'] + 2 + b) % 65536}, which the peer never sent"})
                        return hits
            # bytes acknowledged in order by this very datagram and not read yet are certainly held
            held, q, n = 0, start, 0
            while _md(d["ack"], q) >= 0 and n < 70000:
                held += plen_of.get(q, 0)
                q = (q + 1) % 65536
                n += 1
            # (the message the application is in the middle of reading has left the buffer's accounting as a whole:
            # up to one message of slack)
            held = max(0, held - read_total - (max(plen_of.values()) if plen_of else 0))
            if d["type"] != 4 and d["wnd"] > max(0, rx - held):
                hits.append({"sig": {"oracle": "rxhonest", "what": "window_overstates_free_space"},
                             "text": f"datagram with ack_nr {d['ack']} advertises a window of {d['wnd']} bytes, but the receive buffer is {rx} bytes and {held} acknowledged bytes have not been read by the application yet"})
                return hits
    return hits


def oracle_rto_backoff(case, impl):
    """C06/C16 at the connection level: each retransmission timeout of an ordinary segment doubles the RTO (up to
    60 s) as long as no new RTT sample arrives."""
    tr = Trace(case, impl)
    hits = []
    prev, mss_before, probes, seen, first_tx = None, None, set(), set(), set()
    for ev in tr.events:
        first_tx = set()
        if ev["op"] == "new":
            prev, probes, seen = None, set(), set()
            try:
                mss_before = int(ev["out"].split("min_ss=")[1].split(":")[0])
            except (IndexError, ValueError):
                mss_before = None
        if ev["op"] != "poll" or "fp" not in ev:
            continue
        fp = ev["fp"]
        try:
            cur = (int(fp.get("rtor", 0)), int(fp.get("rto", 0)), fp.get("rtt"), int(fp.get("ss", "min_ss=0:").split("min_ss=")[1].split(":")[0]))
        except (ValueError, IndexError):
            prev = None
            continue
        # a segment is a size probe (its timeouts do not count as real ones) if it was larger than the proven size
        # when it was created
        # (the flag is set when the segment is CREATED, which may be long before its first transmission; the proven
        # size only grows, so a segment no larger than the size proven at connection start is certainly ordinary)
        for d in ev.get("dgrams", []):
            if d["type"] == 0 and d["seq"] not in seen:
                seen.add(d["seq"])
                first_tx.add(d["seq"])
                if mss_before is None or d["plen"] > mss_before:
                    probes.add(d["seq"])
        if prev is not None and ev["res"].startswith("pending") and cur[0] == prev[0] + 1 and cur[2] == prev[2]:
            resent = [d for d in ev.get("dgrams", []) if d["type"] == 0]
            if resent and not any(d["seq"] in probes or d["seq"] in first_tx for d in resent) and not any(d["type"] == 1 for d in ev.get("dgrams", [])):
                want = min(2 * prev[1], 60_000_000_000)
                if cur[1] != want:
                    hits.append({"sig": {"oracle": "rto_backoff", "what": "timeout_did_not_double_the_rto"},
                                 "text": f"poll at t={ev['t']} ns: retransmission timeout #{cur[0]} of an ordinary segment left the RTO at {cur[1]} ns; it was {prev[1]} ns, so {want} ns is owed"})
                    return hits
        prev = cur
    return hits


def oracle_karn(case, impl):
    """C06/C16 at the connection level (Karn's rule): an acknowledgement that newly acknowledges only segments that
    were transmitted more than once yields no RTT sample - the smoothed RTT is the same after the poll."""
    tr = Trace(case, impl)
    hits = []
    if any(l.startswith(("vs tmode", "vs chanclose")) for l in case):
        return []
    count, pending, highest, prev_rtt, plen_seen, sacked = {}, [], None, None, {}, set()
    prev_ms = None
    for ev in tr.events:
        if ev["op"] == "new":
            count, pending, plen_seen, sacked = {}, [], {}, set()
            prev_ms = None
            highest = (int(ev["opts"].get("our", 101)) - 1) % 65536
            prev_rtt = None
        if ev["op"] == "inject" and "dgram" in ev:
            pending.append(ev["dgram"])
        if ev["op"] != "poll" or "dgrams" not in ev:
            continue
        fp = ev["fp"]
        newly, clean = set(), True
        for d in pending:
            if d["type"] in (3, 4):
                continue
            if highest is not None and (_md(d["ack"], highest) > 0 or _sack_beyond(d, highest)):
                return hits
            # (the implementation takes a sample from EVERY segment a cumulative ACK drains - also from one that a
            # selective ACK had marked delivered before - and from every newly SACKed one)
            for q in list(count):
                if _md(d["ack"], q) >= 0:
                    newly.add((q, count.pop(q)))
                    sacked.discard(q)
            if d["sack"] is not None:
                raw = (bytes(d["sack"]) + bytes(8))[:8]
                for b in range(64):
                    if raw[b // 8] >> (b % 8) & 1:
                        q = (d["ack"] + 2 + b) % 65536
                        if q in count and q not in sacked:
                            newly.add((q, count[q]))
                            sacked.add(q)
        pending = []
        if newly and all(n > 1 for _, n in newly) and prev_rtt is not None and ev["res"].startswith("pending") \
                and fp.get("rec", "no") == "no" and fp.get("rtt") != prev_rtt:
            hits.append({"sig": {"oracle": "karn", "what": "rtt_sample_from_retransmitted_segment"},
                         "text": f"poll at t={ev['t']} ns: the acknowledgements processed newly cover only sequence numbers {sorted(q for q, _ in newly)[:4]}, each transmitted more than once, yet the smoothed RTT moved from {prev_rtt} to {fp.get('rtt')} ns (Karn's rule: a retransmitted segment gives no sample)"})
            return hits
        prev_rtt = fp.get("rtt")
        # (a size probe that expired in this poll - the proven maximum went down - was popped: its number, the newest
        # one, was released and whatever is sent under it now is a new segment, also when it has the same size)
        try:
            ms = int(fp.get("ss", "").split("max_ss=")[1].split(";")[0])
        except (IndexError, ValueError):
            ms = None
        if ms is not None and prev_ms is not None and ms < prev_ms and highest in count:
            count[highest] = 0
            plen_seen.pop(highest, None)
        prev_ms = ms if ms is not None else prev_ms
        for d in ev["dgrams"]:
            if d["type"] == 0:
                # (a number that comes back with a different size was released by a probe pop: a new segment)
                if plen_seen.get(d["seq"]) not in (None, d["plen"]):
                    count[d["seq"]] = 0
                plen_seen[d["seq"]] = d["plen"]
                count[d["seq"]] = count.get(d["seq"], 0) + 1
                if highest is None or _md(d["seq"], highest) > 0:
                    highest = d["seq"]
            elif d["type"] == 1 and (highest is None or _md(d["seq"], highest) > 0):
                highest = d["seq"]
    return hits


def oracle_acked_not_resent(case, impl):
    """C06: a data sequence number the peer has acknowledged - cumulatively or selectively, in a datagram the
    connection has processed - is never put on the wire again."""
    tr = Trace(case, impl)
    hits = []
    if any(l.startswith(("vs tmode", "vs chanclose")) for l in case):
        return []
    acked, pending, highest, cum, plen_seen = set(), [], None, None, {}
    for ev in tr.events:
        if ev["op"] == "new":
            acked, pending, plen_seen = set(), [], {}
            highest = (int(ev["opts"].get("our", 101)) - 1) % 65536
            cum = highest
        if ev["op"] == "inject" and "dgram" in ev:
            pending.append(ev["dgram"])
        if ev["op"] != "poll" or "dgrams" not in ev:
            continue
        for d in pending:
            if d["type"] in (1, 3, 4):
                continue             # (a FIN out of sequence is dropped whole, its acknowledgement with it: not counted)
            if highest is not None and (_md(d["ack"], highest) > 0 or _sack_beyond(d, highest)):
                return hits
            if _md(d["ack"], cum) > 0:
                cum = d["ack"]
            if d["sack"] is not None:
                raw = (bytes(d["sack"]) + bytes(8))[:8]
                for b in range(64):
                    if raw[b // 8] >> (b % 8) & 1:
                        acked.add((d["ack"] + 2 + b) % 65536)
        pending = []
        if not ev["fp"].get("st", "").startswith(("Established", "FinWait1")):
            return hits          # (a packet the state table drops is not processed: judged only in the plain states)
        for d in ev["dgrams"]:
            if d["type"] != 0:
                if d["type"] == 1 and (highest is None or _md(d["seq"], highest) > 0):
                    highest = d["seq"]
                continue
            if (_md(d["seq"], cum) <= 0 or d["seq"] in acked) and plen_seen.get(d["seq"]) not in (None, d["plen"]):
                # the number comes back with a different size: it was a size probe that was popped after expiry,
                # re-segmented, and whose first copy had been delivered after all - the known finding D2
                hits.append({"sig": {"oracle": "stream", "what": "diverged_after_delivered_probe_was_resplit"},
                             "text": f"poll at t={ev['t']} ns re-sends seq {d['seq']} with {d['plen']} bytes; it was first sent as a {plen_seen[d['seq']]}-byte size probe that expired, was re-segmented, and has meanwhile been acknowledged: sender and receiver disagree about the bytes of that number (D2)"})
                return hits
            if _md(d["seq"], cum) <= 0 or d["seq"] in acked:
                hits.append({"sig": {"oracle": "acked_not_resent", "what": "acknowledged_segment_retransmitted"},
                             "text": f"poll at t={ev['t']} ns puts data seq {d['seq']} on the wire although the peer had acknowledged it ({'cumulatively, ack_nr ' + str(cum) if _md(d['seq'], cum) <= 0 else 'selectively'})"})
                return hits
            plen_seen.setdefault(d["seq"], d["plen"])
            if highest is None or _md(d["seq"], highest) > 0:
                highest = d["seq"]
    return hits


def oracle_wire_wellformed(case, impl):
    """C11 on the connection's own output: every emitted datagram is a well-formed version-1 uTP packet - known
    type, extension chain that terminates exactly inside the datagram, selective-ACK extension of at least 4 bytes
    and a multiple of 4, payload on ST_DATA only (and at least one byte there) - and all of them carry one and the
    same connection id (the id owed to that direction)."""
    import re
    hits = []
    cid = None
    for op, out in zip(case, impl):
        t = op.split()
        if len(t) >= 2 and t[0] == "vs" and t[1] == "new":
            cid = None
        if len(t) < 2 or t[0] != "vs" or t[1] != "poll" or "out=[" not in out:
            continue
        for hx in [x for x in out.split("out=[", 1)[1].split("]", 1)[0].split(",") if x]:
            b = bytes.fromhex(hx)
            why = None
            if len(b) < 20:
                why = f"only {len(b)} bytes"
            elif b[0] & 0xF != 1:
                why = f"version {b[0] & 0xF}"
            elif b[0] >> 4 > 4:
                why = f"type {b[0] >> 4}"
            else:
                pos, ext = 20, b[1]
                while ext != 0 and why is None:
                    if pos + 2 > len(b):
                        why = "extension chain runs past the end"
                        break
                    nxt, ln = b[pos], b[pos + 1]
                    if pos + 2 + ln > len(b):
                        why = "extension longer than the datagram"
                    elif ext == 1 and (ln < 4 or ln % 4 != 0):
                        why = f"selective-ACK extension of {ln} bytes"
                    pos += 2 + ln
                    ext = nxt
                if why is None:
                    plen = len(b) - pos
                    if b[0] >> 4 == 0 and plen == 0:
                        why = "ST_DATA without payload"
                    elif b[0] >> 4 != 0 and plen != 0:
                        why = f"{plen} payload bytes on a packet of type {b[0] >> 4}"
            if why is None:
                c = int.from_bytes(b[2:4], "big")
                if cid is None:
                    cid = c
                elif c != cid:
                    why = f"connection id {c}, earlier datagrams of this connection carried {cid}"
            if why:
                hits.append({"sig": {"oracle": "wire_out", "what": "malformed_datagram_emitted"},
                             "text": f"`{op}` emitted {hx[:60]}…: {why}"})
                return hits
    return hits


def oracle_nagle_off(case, impl):
    """C18, Nagle disabled: nothing is held back. After a poll on a working transport (Established, no loss recovery,
    no RTO mode) bytes that were buffered before the poll and have never been transmitted mean that the sender is
    limited by something: the peer's window, the congestion window it read during that poll, or an outstanding
    size probe (a segment larger than the proven size blocks segmentation until it is resolved)."""
    import re
    tr = Trace(case, impl)
    hits = []
    if any(l.startswith(("vs tmode", "vs chanclose")) for l in case):
        return []
    ok, pending, outstanding, highest, sent_first, mss0 = False, [], {}, None, 0, None
    for ev in tr.events:
        if ev["op"] == "new":
            ok = ev["opts"].get("nagle") == "0" and ev["opts"]["dir"] == "out"
            pending, outstanding, sent_first = [], {}, 0
            highest = (int(ev["opts"].get("our", 101)) - 1) % 65536
            try:
                mss0 = int(ev["out"].split("min_ss=")[1].split(":")[0])
            except (IndexError, ValueError):
                ok = False
        if not ok:
            continue
        if ev["op"] == "inject":
            pending.append(ev.get("dgram"))
        if ev["op"] in ("shutdown", "dropw"):
            ok = False
        if ev["op"] != "poll" or "dgrams" not in ev:
            continue
        fp = ev["fp"]
        for d in pending:
            if d is None or d["type"] in (1, 3, 4) or (highest is not None and (_md(d["ack"], highest) > 0 or _sack_beyond(d, highest))):
                ok = False
                break
            for q in list(outstanding):
                if _md(d["ack"], q) >= 0:
                    del outstanding[q]
            if d["sack"] is not None:
                ok = False           # (selective ACKs: the pipe accounting is recovery's business, not judged here)
                break
        pending = []
        if not ok or not ev["res"].startswith("pending") or fp.get("st") != "Established" \
                or fp.get("rtor", "0") != "0" or fp.get("rec", "no") != "no":
            ok = False
            continue
        for d in ev["dgrams"]:
            if d["type"] == 0:
                if highest is None or _md(d["seq"], highest) > 0:
                    highest = d["seq"]
                    sent_first += d["plen"]
                outstanding[d["seq"]] = d["plen"]
        unsent = ev["accepted_total"] - sent_first
        if unsent <= 0:
            continue
        try:
            lrw = int(fp.get("lrw"))
            mss = int(fp.get("ss", "").split("min_ss=")[1].split(":")[0])
            max_ss = int(fp.get("ss", "").split("max_ss=")[1].split(";")[0])
        except (TypeError, ValueError, IndexError):
            continue
        wins = [int(x) for x in re.findall(r"window=(\d+)", ev["out"])]
        if not wins:
            continue
        flight = sum(outstanding.values())
        probe_out = any(pl > mss0 for pl in outstanding.values())
        room = min(lrw, min(wins)) - flight
        # the next segment may be a size probe: up to the next probe size (the binary-search step above the proven size)
        nxt = min(mss + (max_ss - mss) // 2 + 1, max_ss)
        if not probe_out and room >= min(unsent, nxt):
            hits.append({"sig": {"oracle": "nagle_off", "what": "bytes_held_back_with_nagle_disabled"},
                         "text": f"poll at t={ev['t']} ns (Nagle disabled): {unsent} buffered bytes have never been transmitted although {flight} bytes are in flight, the peer's window is {lrw}, the congestion window read in this poll was {min(wins)} and no size probe is outstanding: the next segment (at most {min(unsent, nxt)} bytes) would have fitted"})
            return hits
    return hits


def oracle_stuck(case, impl):
    """C02: no silent dead end. After a poll on a working transport in Established, with the peer's window wide open:
    if bytes accepted by write have never been transmitted, nothing at all is in flight and neither the
    retransmission nor any other sending-side timer is armed, then nothing will ever send them (no ACK can arrive,
    no timer will fire): the connection has stalled for good although it could send."""
    tr = Trace(case, impl)
    hits = []
    if any(l.startswith(("vs tmode", "vs chanclose")) for l in case):
        return []
    ok, pending, outstanding, highest, sent_first = False, [], {}, None, 0
    for ev in tr.events:
        if ev["op"] == "new":
            ok = ev["opts"]["dir"] == "out"
            pending, outstanding, sent_first = [], {}, 0
            highest = (int(ev["opts"].get("our", 101)) - 1) % 65536
        if not ok:
            continue
        if ev["op"] == "inject":
            pending.append(ev.get("dgram"))
        if ev["op"] != "poll" or "dgrams" not in ev:
            continue
        fp = ev["fp"]
        for d in pending:
            if d is None or d["type"] in (1, 3, 4) or (highest is not None and (_md(d["ack"], highest) > 0 or _sack_beyond(d, highest))):
                ok = False
                break
            for q in list(outstanding):
                if _md(d["ack"], q) >= 0:
                    del outstanding[q]
            if d["sack"] is not None:
                raw = (bytes(d["sack"]) + bytes(8))[:8]
                for b in range(64):
                    if raw[b // 8] >> (b % 8) & 1:
                        outstanding.pop((d["ack"] + 2 + b) % 65536, None)
        pending = []
        if not ok or not ev["res"].startswith("pending") or fp.get("st") != "Established":
            ok = ok and ev["res"].startswith("pending")
            continue
        for d in ev["dgrams"]:
            if d["type"] == 0:
                if highest is None or _md(d["seq"], highest) > 0:
                    highest = d["seq"]
                    sent_first += d["plen"]
                elif d["seq"] in outstanding and outstanding[d["seq"]] != d["plen"]:
                    # a re-segmented number (popped probe): it now carries more or fewer of the stream's bytes
                    sent_first += d["plen"] - outstanding[d["seq"]]
                outstanding[d["seq"]] = d["plen"]
        # a popped probe releases its number and its bytes: they count as never transmitted again
        try:
            lss = int(fp.get("lss"))
            for q in list(outstanding):
                if _md(q, lss) > 0:
                    sent_first -= outstanding.pop(q)
                    highest = lss
        except (TypeError, ValueError):
            pass
        unsent = ev["accepted_total"] - sent_first
        try:
            lrw = int(fp.get("lrw"))
            max_ss = int(fp.get("ss", "").split("max_ss=")[1].split(";")[0])
        except (TypeError, ValueError, IndexError):
            continue
        if unsent > 0 and not outstanding and lrw >= 2 * max_ss and fp.get("t_rtx") == "-" and fp.get("t_ack") == "-" \
                and fp.get("t_pipe", "-") == "-" and fp.get("rec", "no") == "no":
            hits.append({"sig": {"oracle": "stuck", "what": "unsent_data_nothing_in_flight_no_timer_window_open"},
                         "text": f"poll at t={ev['t']} ns: {unsent} accepted bytes have never been transmitted, nothing is in flight, the peer's window is {lrw} and no sending-side timer is armed (rto_retransmissions={fp.get('rtor')}): nothing will ever send them"})
            return hits
    return hits


def oracle_eof_honest(case, impl):
    """C03: a reader sees a clean end-of-stream only after the peer's FIN: never when no FIN was ever received
    (connection aborted, channel from the socket lost, cancelled): then reads must report an error."""
    tr = Trace(case, impl)
    hits = []
    fin_injected = False
    for ev in tr.events:
        if ev["op"] == "new":
            fin_injected = False
        if ev["op"] == "inject" and "dgram" in ev and ev["dgram"]["type"] == 1:
            fin_injected = True
        if ev["op"] == "read" and ev["out"].startswith("eof") and ev["args"] != ["0"] and not fin_injected:
            hits.append({"sig": {"oracle": "eof", "what": "clean_eof_without_fin"},
                         "text": f"`{ev['line']}` returned a clean end-of-stream although the peer never sent a FIN (the connection ended some other way): the reader cannot tell a truncated stream from a complete one"})
            break
    return hits


def oracle_ack_forcing(case, impl):
    """C07: (a) after a poll with a working transport the receiver never sits on two segment sizes or more of consumed,
    unacknowledged bytes; (b) a duplicate or out-of-order data packet is answered with an ACK in the poll that processes
    it - or, if the local transport was blocked then, in the first poll after it works again."""
    tr = Trace(case, impl)
    hits = []
    transport_ok = True
    owed = None          # text of the forcing event whose ACK could not be sent yet
    injected = []
    lc = None
    big_rx = True
    prev_established = False
    for ev in tr.events:
        if ev["op"] == "new":
            transport_ok, owed, injected = True, None, []
            prev_established = False
            big_rx = int(ev["opts"].get("rx", 1 << 20)) >= 65536
            try:
                lc = int(ev["out"].split(";lc=")[1].split(";")[0])
            except (IndexError, ValueError):
                lc = None
        if ev["op"] == "tmode":
            transport_ok = ev["args"][:1] == ["ok"]
        if ev["op"] == "chanclose":
            return hits
        if ev["op"] == "inject" and ev["out"].startswith("ok"):
            injected.append(ev.get("dgram"))
        if ev["op"] != "poll" or "fp" not in ev:
            continue
        fp = ev["fp"]
        established = fp.get("st", "").startswith(("Established", "FinWait"))
        if not ev["res"].startswith("pending") or not established:
            owed, injected = None, []
            prev_established = False
            try:
                lc = int(fp.get("lc", lc))
            except (TypeError, ValueError):
                pass
            continue
        emitted = len(ev["dgrams"]) > 0
        forced = None
        if len(injected) == 1 and injected[0] is not None and injected[0]["type"] == 0 and injected[0]["plen"] > 0 and lc is not None:
            d = injected[0]
            off = _md(d["seq"], (lc + 1) % 65536)
            if off < 0:
                forced = f"duplicate data packet seq {d['seq']} (already consumed up to {lc})"
            elif 0 < off <= 8 and big_rx:
                # (a packet beyond the reassembly window cannot be held and is ignored: not judged)
                forced = f"out-of-order data packet seq {d['seq']} (next expected {(lc + 1) % 65536})"
        elif len(injected) == 1 and injected[0] is not None and injected[0]["type"] == 1 and injected[0]["plen"] == 0 \
                and lc is not None and prev_established and injected[0]["seq"] == (lc + 1) % 65536:
            forced = f"FIN in sequence (seq {injected[0]['seq']})"
        elif len(injected) > 1 and lc is not None and prev_established and all(
                d is not None and d["type"] in (0, 2) and (d["type"] == 2 or d["plen"] > 0) for d in injected):
            # a batch of data / state packets processed by one poll: a packet that was a duplicate before the batch
            # still is one whatever the others did, and its forced ACK must survive the rest of the batch
            for d in injected:
                if d["type"] == 0 and -64 <= _md(d["seq"], (lc + 1) % 65536) < 0:
                    forced = f"duplicate data packet seq {d['seq']} (already consumed up to {lc}) in a batch of {len(injected)} packets"
                    break
        injected = []
        if transport_ok:
            if (forced or owed) and not emitted:
                hits.append({"sig": {"oracle": "ack_forcing", "what": "forced_ack_not_sent"},
                             "text": f"poll at t={ev['t']} ns emitted nothing although an immediate ACK is owed for a {forced or owed}" + (" (the transport was blocked when it arrived and works again now)" if not forced else "")})
                return hits
            owed = None
            try:
                cbu, mss = int(fp.get("cbu", 0)), int(fp.get("ss", "min_ss=0:").split("min_ss=")[1].split(":")[0])
            except (IndexError, ValueError):
                cbu, mss = 0, 0
            if mss and 2 * mss <= cbu < (1 << 62):
                hits.append({"sig": {"oracle": "ack_forcing", "what": "two_segments_unacknowledged"},
                             "text": f"after the poll at t={ev['t']} ns {cbu} consumed bytes are unacknowledged (segment size {mss}): from two segment sizes on an ACK must go out in that poll"})
                return hits
        else:
            if forced and not emitted:
                owed = forced
            elif emitted:
                owed = None
        try:
            lc = int(fp.get("lc", lc))
        except (TypeError, ValueError):
            pass
        prev_established = True
    return hits


def oracle_window_reopen(case, impl):
    """C07/C02: after the receiver told its peer "window 0", the first read that takes bytes out of the reader's queue
    wakes the connection task (so that the poll which follows announces the re-opened window without waiting for
    any timer). Judged only on simple histories - working transport, Established, every injected data packet in
    sequence and consumed - where a zero advertised window implies the reader's queue itself is what is full
    (`Props/C02.flush_registers_when_window_low` then says the waker is registered)."""
    tr = Trace(case, impl)
    hits = []
    clean, armed, expect = False, False, None
    for ev in tr.events:
        op = ev["op"]
        if op == "new":
            clean, armed = True, False
            try:
                expect = (int(ev["out"].split(";lc=")[1].split(";")[0]) + 1) % 65536
            except (IndexError, ValueError):
                clean = False
        elif op == "tmode":
            if ev["args"][:1] != ["ok"]:
                clean = False
        elif op in ("chanclose", "dropr", "cancel"):
            clean = False
        elif op == "inject":
            d = ev.get("dgram")
            if d is None:
                clean = False
            elif d["type"] == 2 and d["plen"] == 0:
                pass
            elif d["type"] == 0 and d["plen"] > 0 and d["seq"] == expect:
                expect = (expect + 1) % 65536
            else:
                clean = False
        elif op == "poll" and "fp" in ev:
            fp = ev["fp"]
            armed = False
            try:
                if int(fp.get("lc", -1)) != (expect - 1) % 65536:
                    clean = False
            except (TypeError, ValueError):
                clean = False
            if clean and ev["res"].startswith("pending") and fp.get("st", "") == "Established" and fp.get("lsw") == "0":
                armed = True
        elif op == "read":
            if armed and ev["out"].startswith("data:") and len(ev["out"].split()[0]) > len("data:"):
                armed = False
                if " dw=1" not in ev["out"]:
                    hits.append({"sig": {"oracle": "window_reopen", "what": "read_after_zero_window_wakes_nobody"},
                                 "text": f"`{ev['line']}` took bytes out of the reader's queue after the endpoint had advertised a zero window, and did not wake the connection task: the re-opened window is not announced until something else polls the connection"})
                    return hits
    return hits


ALL = {
    "stuck": oracle_stuck,
    "nagle_off": oracle_nagle_off,
    "wire_wellformed": oracle_wire_wellformed,
    "karn": oracle_karn,
    "acked_not_resent": oracle_acked_not_resent,
    "read_content": oracle_read_content,
    "rx_honesty": oracle_rx_honesty,
    "rto_backoff": oracle_rto_backoff,
    "idle_promptness": oracle_idle_promptness,
    "completion_honest": oracle_completion_honest,
    "inactivity_discipline": oracle_inactivity_discipline,
    "cc_accounting": oracle_cc_accounting,
    "window_reopen": oracle_window_reopen,
    "ack_forcing": oracle_ack_forcing,
    "eof_honest": oracle_eof_honest,
    "probe_discipline": oracle_probe_discipline,
    "reset": oracle_reset,
    "slow_start": oracle_slow_start,
    "zero_window_probe": oracle_zero_window_probe,
    "fin_sent": oracle_fin_sent,
    "fin_answered": oracle_fin_answered,
    "nagle": oracle_nagle,
    "isn_relabel": oracle_isn_relabel,
    "tx_outstanding": oracle_tx_outstanding,
    "task_ends": oracle_task_ends,
    "retx_cap": oracle_retx_cap,
    "ack_honesty": oracle_ack_honesty,
    "rtx_timer": oracle_rtx_timer,
    "stream_content": oracle_stream_content,
    "datagram_sizes": oracle_datagram_sizes,
    "ack_timeliness": oracle_ack_timeliness,
    "calls_resolve": oracle_calls_resolve,
    "bug_errors": oracle_bug_errors,
    "window": oracle_window,
}
