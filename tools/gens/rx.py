"""Generator + oracle for the receive side (stream_rx.rs): C04, parts of C01/C02/C03."""


def pos_byte(i):
    return (i * 7 + 3) % 251


def hx(b):
    return bytes(b).hex() if b else "-"


def make_case(r, n_pkts_max=40):
    max_payload = r.choice([1, 2, 3, 4, 8, 16])
    slots = r.choice([1, 2, 3, 4, 6, 8, 70])
    max_rx = max_payload * slots + r.choice([0, 0, 1, max_payload - 1])
    if r.random() < 0.1:
        max_rx = r.randrange(1, max_payload + 1)      # capacity 0 -> 64 slots fallback
    n = r.randrange(1, n_pkts_max)
    sizes = []
    for _ in range(n):
        k = r.random()
        sizes.append(max_payload if k < 0.5 else (r.randrange(1, max_payload + 1) if k < 0.95 else r.randrange(1, 3 * max_payload + 2)))
    starts = [0]
    for s in sizes:
        starts.append(starts[-1] + s)
    fin_idx = n if r.random() < 0.5 else None
    ops = [f"rx new {max_rx} {max_payload}"]
    frontier = 0
    have = set()
    style = r.random()
    steps = r.randrange(5, 120)
    dead = False
    two_readers = r.random() < 0.3
    for _ in range(steps):
        k = r.random()
        if dead:
            # after the death path (just_before_death) nothing more is delivered; the app may keep reading
            ops.append(f"rx read {r.choice([0, 1, 3, 1000])}" if r.random() < 0.9 else "rx dropr")
            continue
        if k < 0.55:
            if style < 0.3:
                idx = frontier        # mostly in order
                if r.random() < 0.15:
                    idx = max(0, frontier + r.randrange(-2, 4))
            else:
                idx = max(0, frontier + r.choice([0, 0, 0, 1, 1, 2, 3, 5, -1, -3, slots - 1, slots, slots + 1, 64, 65, 66, 70]))
            if idx < n:
                pl = [pos_byte(starts[idx] + j) for j in range(sizes[idx])]
                ops.append(f"rx arrive {idx} 0 {hx(pl)}")
                have.add(idx)
                while frontier in have:
                    frontier += 1
            elif fin_idx is not None and idx == n:
                ops.append(f"rx arrive {idx} 1 -")
            if r.random() < 0.02:
                ops.append(f"rx arrive {idx} {r.choice([0, 2, 3, 4])} -")      # zero payload data / wrong types
        elif k < 0.72:
            ops.append("rx flush")
        elif k < 0.93:
            # (now and then the read half is polled by a second task: waker B)
            ops.append(f"rx {'readb' if two_readers and r.random() < 0.4 else 'read'} {r.choice([0, 1, 2, 3, max_payload, 2 * max_payload, 1000])}")
        elif k < 0.95:
            ops.append("rx dropr")
        elif k < 0.97:
            ops.append("rx close")
            dead = True
        else:
            ops.append("rx error boom")
            ops.append("rx close")
            dead = True
    meta = {"sizes": sizes, "starts": starts, "fin": fin_idx, "max_rx": max_rx}
    return ops, meta


def gen_rx(P):
    def gen(seed, tier):
        r = P.rng_for(seed, "rx")
        return [make_case(r)[0] for _ in range(P.scale(tier, 1500, 40000))]
    return gen


def parse(out):
    t = out.split()
    kv = {}
    for x in t[1:]:
        if "=" in x:
            a, b = x.split("=", 1)
            kv[a] = b
    return (t[0] if t else ""), kv


def sack_bits(s):
    if s == "none":
        return None
    hexs, ln = s.split("/")
    b = bytes.fromhex(hexs) if hexs != "-" else b""
    bits = set()
    for i in range(len(b) * 8):
        if b[i // 8] >> (i % 8) & 1:
            bits.add(i)
    return bits


def oracle_rx(P):
    def orc(case, impl):
        hits = []
        cap = None
        stored = {}        # ghost index -> payload bytes (hex) held by the receiver (accepted, maybe consumed)
        consumed = 0       # sequence numbers the receiver reported consumed (what it would acknowledge)
        read = []          # bytes read by the app
        stream = {}        # ghost index -> bytes sent
        fin_at = None
        reader_waiting = False   # a read returned Pending (reader waker registered) and no reader wake since
        last_reader = None
        got_eof = False
        respecting = True        # every arrival so far fitted the window advertised just before it
        last_win = None
        errored = False
        mss = None
        flushed_total = 0
        expect_dw = False        # flush recorded less than one MSS of window: the connection task's waker is registered

        def popped_bytes():
            popped = 0
            for i in sorted(stored):
                if popped >= len(read):
                    break
                popped += len(stored[i]) // 2 if stored[i] != "-" else 0
            return popped

        def hit(what, text):
            hits.append({"sig": {"oracle": "rx", "what": what}, "text": text})

        for op, out in zip(case, impl):
            t = op.split()
            if t[0] != "rx":
                continue
            if out.startswith("PANIC"):
                hit("panic", f"{op} -> {out}")
                break
            res, kv = parse(out)
            if res == "bad-op":
                continue
            if errored:
                break
            if t[1] == "new":
                cap = int(t[2])
                last_win = cap
                mss = int(t[3]) if len(t) > 3 else None
                flushed_total, expect_dw = 0, False
            elif t[1] == "flush" and res.startswith("flushed:"):
                flushed_total += int(res.split(":")[1])
                if mss is not None and cap - (flushed_total - popped_bytes()) < mss:
                    expect_dw = True
            elif t[1] == "dropr":
                if expect_dw and int(kv.get("dw", 0)) == 0:
                    hit("dispatcher_lost_wakeup", f"`{op}`: the reader went away after a window below one segment was recorded, but the connection task was not woken")
                expect_dw = False
            elif t[1] == "arrive":
                idx, ty = int(t[2]), int(t[3])
                if ty == 0 and idx not in stored and last_win is not None and (len(t[4]) // 2 if t[4] != "-" else 0) > last_win:
                    respecting = False
                if res.startswith("consumed:"):
                    _, n, b = res.split(":")
                    if ty == 0:
                        stored[idx] = t[4]
                        consumed += int(n)
                    elif ty == 1:
                        fin_at = idx
                        consumed = idx + 1
                elif res.startswith("bug:") and ty in (0, 1):
                    hit("bug_error", f"internal bug error on a data/fin packet: {op} -> {out}")
                # receiver honesty: what it would acknowledge = contiguous prefix of what it stored
                want = 0
                while want in stored or (fin_at is not None and want == fin_at):
                    want += 1
                if fin_at is None and consumed != want:
                    hit("ack_overstates" if consumed > want else "ack_understates",
                        f"after `{op[:60]}` the receiver has consumed {consumed} sequence numbers but holds the contiguous prefix {want}")
                if int(kv.get("rw", 0)) == 0 and reader_waiting and False:
                    pass
            elif t[1] in ("read", "readb"):
                if reader_waiting and int(t[2]) > 0 and res != "pending":
                    hit("reader_lost_wakeup", f"a reader that was told Pending was never woken although `{op}` now returns `{res[:40]}`")
                    reader_waiting = False
                if res.startswith("err:"):
                    errored = True
                if res.startswith("data:"):
                    if expect_dw and int(kv.get("dw", 0)) == 0:
                        hit("dispatcher_lost_wakeup", f"`{op}` freed receive buffer space after a window below one segment ({mss}) had been recorded, but the connection task was not woken: no window update will be sent")
                    expect_dw = False
                    read += list(bytes.fromhex(res[5:]))
                    want = [pos_byte(i) for i in range(len(read))]
                    if read != want:
                        hit("content", f"bytes read are not the in-order stream: got …{bytes(read[-8:]).hex()} at {len(read)}")
                elif res == "eof":
                    if int(t[2]) > 0:
                        got_eof = True
                        # every byte before the FIN must have been read
                        total = sum(len(bytes.fromhex(v)) if v != "-" else 0 for i, v in stored.items() if fin_at is not None and i < fin_at)
                        if fin_at is None:
                            hit("eof_without_fin", f"`{op}` -> eof but no FIN was accepted")
                        elif len(read) != total or any(i not in stored for i in range(fin_at)):
                            hit("eof_with_bytes_missing", f"`{op}` -> eof after {len(read)} bytes; stream before FIN has {total}")
                elif res == "pending" and int(t[2]) > 0:
                    reader_waiting = True
                if got_eof and res.startswith("data:"):
                    hit("data_after_eof", f"{op} -> {out}")
            # the task that polled last and was told Pending is the one that must be woken
            if t[1] in ("read", "readb") and res == "pending" and int(t[2]) > 0:
                last_reader = "rwb" if t[1] == "readb" else "rw"
            elif t[1] in ("read", "readb") and res.startswith("data:"):
                # (a read that copies data and then finds the queue empty registers its waker too; whether it did
                # is not visible from outside: whose turn it is is then unknown, and not judged)
                last_reader = None
            nrw, nrwb = int(kv.get("rw", "0")), int(kv.get("rwb", "0"))
            if (nrw or nrwb) and last_reader and int(kv.get(last_reader, "0")) == 0:
                hit("stale_reader_woken", f"`{op[:50]}` woke a reader task that is no longer waiting (rw={nrw} rwb={nrwb}) instead of the task that polled last and was told Pending ({'B' if last_reader == 'rwb' else 'A'}): that task sleeps on although its data has arrived")
            if nrw or nrwb:
                last_reader = None
            if int(kv.get("rw", "0")) > 0 or int(kv.get("rwb", "0")) > 0:
                reader_waiting = False
            # window honesty and SACK exactness on every line that reports them
            if "win" in kv and cap is not None:
                # bytes the receiver still buffers: everything stored minus the packets the reader has popped
                # (a partially read packet is in the reader's hands, not in the receive buffer)
                popped = 0
                for i in sorted(stored):
                    if popped >= len(read):
                        break
                    popped += len(stored[i]) // 2 if stored[i] != "-" else 0
                held = sum((len(v) // 2 if v != "-" else 0) for v in stored.values()) - popped
                last_win = int(kv["win"])
                if respecting and int(kv["win"]) + held > cap:
                    hit("window_overstates", f"after `{op[:60]}`: advertised {kv['win']} + held {held} > buffer {cap}")
                bits = sack_bits(kv["sack"])
                ooo = {i - (consumed + 1) for i in stored if i > consumed}
                if fin_at is None:
                    if bits is None:
                        if any(0 <= b for b in ooo) and False:
                            pass
                    else:
                        want_bits = {b for b in ooo if 0 <= b < 64}
                        if bits != want_bits:
                            hit("sack_bits", f"after `{op[:60]}`: SACK bits {sorted(bits)} but packets held out of order are at {sorted(want_bits)} (consumed {consumed})")
            if len(hits) >= 3:
                break
        return hits[:3]
    return orc


def stats_rx(case, impl, dist):
    ooo = full = False
    for op, out in zip(case, impl):
        t = op.split()
        if t[0] != "rx":
            continue
        res = out.split()[0] if out else ""
        key = t[1] + ":" + res.split(":")[0]
        dist["rx_" + key] = dist.get("rx_" + key, 0) + 1
        if "sack=" in out and "sack=none" not in out:
            ooo = True
        if res == "unavail":
            full = True
    return ooo or full


def register(P):
    P.GENERATORS["rx"] = gen_rx(P)
    P.STATS["rx"] = stats_rx
    P.ORACLE_COMPONENT["rx"] = "rx"
    P.PROPS["C04"] = {
        "lean": ["UtpVerif.Props.C04"],
        "components": ["rx"],
        "oracles": {"rx": oracle_rx(P)},
        "directed": {"rx": lambda seed: gen_rx(P)(seed, "quick")},
        "rule": "UserRx/OutOfOrderQueue/ReadHalf driven with position-coded packets arriving in order, out of order, duplicated, beyond the window, after FIN, of all sizes (incl. larger than the segment size), with fast/slow/stopped/dropped readers, buffer sizes 1..1120 bytes and 1..70 slots; non-trivial if a packet was held out of order or the queue overflowed",
        "assumptions": [],
        "trusted": ["model of stream_rx.rs (Model/Rx.lean) - validated by this differential"],
    }
