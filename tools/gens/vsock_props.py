"""Registration of the connection-level (L2) properties: lockstep correspondence + trace oracles."""
import os
from gens import vsock_oracles as VO

COMMON_TRUST = ["model of stream_dispatch.rs VirtualSocket::poll and everything below it (Model/VSock.lean, Recovery, Segments, Rx, TxRing, Mtu, Rtte, Wire, SeqNr) - validated by the lockstep differential: byte-exact datagrams, poll results, wake events, congestion-controller call log and state fingerprint after every operation",
                "congestion controller return values (window/sshthresh/smss) are adopted from the implementation in lockstep runs and universally quantified in theorems"]
COMMON_ASSUME = ["tokio: a woken task is polled again; Sleep fires at its deadline (1 ms wheel); mpsc channel FIFO and lossless",
                 "scripted transport/peer generator reach bounds what the correspondence sees (distribution in evidence)"]
RULE = ("scenarios played by an adaptive scripted peer + application against the real VirtualSocket (random personas plus directed families: bulk transfer with loss patterns, RTO-then-SACK, path-MTU blackhole, handshake/teardown matrix, receiver timing, window/Nagle), then replayed in batch on implementation and model; non-trivial if the connection visited at least two states or emitted at least two packet types")


def reg(P, pid, lean, oracles, extra_components=()):
    P.PROPS[pid] = {
        "lean": lean,
        "components": ["vsock"] + list(extra_components),
        "oracles": {k: VO.ALL[k] for k in oracles},
        "directed": {"vsock": lambda seed: P.GENERATORS["vsock"](seed, "quick")},
        "rule": RULE,
        "assumptions": COMMON_ASSUME,
        "trusted": COMMON_TRUST,
    }
    for k in oracles:
        P.ORACLE_COMPONENT[k] = "vsock"


def _demo_d2(P):
    def demo():
        import json as _json
        import check
        ops = [l.strip() for l in open(os.path.join(os.path.dirname(os.path.abspath(__file__)), "..", "..", "corpus", "vsock") + "/known_d2_probe_resplit_after_delivery.ops") if l.strip()]
        (res,), _tr = check.run_cases([ops])
        return any(h["sig"].get("what") == "diverged_after_delivered_probe_was_resplit" for h in VO.oracle_stream_content(ops, res[0]))
    return demo


def _demo_d18(P):
    def demo():
        import check
        ops = [l.strip() for l in open(os.path.join(os.path.dirname(os.path.abspath(__file__)), "..", "..", "corpus", "vsock") + "/known_d18_zero_window_no_probe.ops") if l.strip()]
        (res,), _tr = check.run_cases([ops])
        # still silent an hour later: the last poll emits nothing and ends Pending
        still_silent = res[0][-1].startswith("pending out=[]")
        return still_silent and any(h["sig"].get("oracle") == "zero_window" for h in VO.oracle_zero_window_probe(ops, res[0]))
    return demo


def register(P):
    import json as _json
    P.KNOWN_DEMOS[_json.dumps({"oracle": "zero_window", "what": "no_timer_armed_while_data_waits_behind_zero_window"}, sort_keys=True)] = _demo_d18(P)
    P.ORACLE_COMPONENT["zero_window_probe"] = "vsock"
    P.ORACLE_COMPONENT["fin_sent"] = "vsock"
    P.ORACLE_COMPONENT["fin_answered"] = "vsock"
    P.ORACLE_COMPONENT["nagle"] = "vsock"
    P.KNOWN_DEMOS[_json.dumps({"oracle": "stream", "what": "diverged_after_delivered_probe_was_resplit"}, sort_keys=True)] = _demo_d2(P)
    reg(P, "C18", ["UtpVerif.Props.C18"], ["stream_content", "nagle", "nagle_off"])
    reg(P, "C05", ["UtpVerif.Props.C05"], ["window", "slow_start", "cc_accounting"])
    reg(P, "C07", ["UtpVerif.Props.C07"], ["ack_timeliness", "ack_forcing", "window_reopen"])
    reg(P, "C17", ["UtpVerif.Props.C17", "UtpVerif.Props.C17Fin"], ["stream_content", "fin_sent", "fin_answered", "reset", "rtx_timer"])
    reg(P, "C01", ["UtpVerif.Props.C01", "UtpVerif.Props.C01E2E"], ["stream_content", "read_content"], ["segs", "txring", "rx"])
    reg(P, "C02", ["UtpVerif.Props.C02"], ["calls_resolve", "ack_timeliness", "rtx_timer", "zero_window_probe", "window_reopen", "idle_promptness", "stuck"], ["txring", "rx"])
    reg(P, "C03", ["UtpVerif.Props.C03"], ["calls_resolve", "stream_content", "ack_honesty", "fin_sent", "eof_honest", "completion_honest", "read_content"], ["txring", "rx"])
    reg(P, "C06", ["UtpVerif.Props.C06"], ["stream_content", "retx_cap", "rto_backoff", "karn", "acked_not_resent"], ["segs"])
    reg(P, "C08", ["UtpVerif.Props.C08"], ["calls_resolve", "task_ends", "inactivity_discipline"])
    reg(P, "C10", ["UtpVerif.Props.C10", "UtpVerif.Props.C10Inv"], ["bug_errors"], ["segs", "rx", "wire"])
    # component oracles of the extra components
    P.PROPS["C01"]["oracles"]["segs"] = lambda case, impl: P.SEGS_ORACLE(case, impl)
    P.PROPS["C06"]["oracles"]["segs"] = lambda case, impl: P.SEGS_ORACLE(case, impl)
    P.PROPS["C10"]["oracles"]["segs"] = lambda case, impl: P.SEGS_ORACLE(case, impl)
    for pid in ("C01", "C02", "C03"):
        P.PROPS[pid]["oracles"]["txring"] = P.PROPS["C19"]["oracles"]["txring"]
        P.PROPS[pid]["oracles"]["rx"] = P.PROPS["C04"]["oracles"]["rx"]
    P.PROPS["C10"]["oracles"]["rx"] = P.PROPS["C04"]["oracles"]["rx"]
    P.PROPS["C10"]["oracles"]["wire"] = P.PROPS["C11"]["oracles"]["wire"]
    # connection-level parts of component properties
    P.PROPS["C14"]["components"].append("vsock")
    P.PROPS["C14"]["oracles"]["datagram_sizes"] = VO.ALL["datagram_sizes"]
    P.PROPS["C14"]["oracles"]["stream_content"] = VO.ALL["stream_content"]
    P.PROPS["C14"]["oracles"]["probe_discipline"] = VO.ALL["probe_discipline"]
    for _o in ("probe_discipline", "reset", "slow_start", "eof_honest", "ack_forcing", "window_reopen", "cc_accounting", "inactivity_discipline", "completion_honest", "idle_promptness", "read_content", "rx_honesty", "rto_backoff", "karn", "acked_not_resent", "nagle_off", "stuck"):
        P.ORACLE_COMPONENT[_o] = "vsock"
    P.ORACLE_COMPONENT["datagram_sizes"] = "vsock"
    P.PROPS["C04"]["components"].append("vsock")
    P.PROPS["C04"]["oracles"]["ack_honesty"] = VO.ALL["ack_honesty"]
    P.PROPS["C04"]["oracles"]["rx_honesty"] = VO.ALL["rx_honesty"]
    P.ORACLE_COMPONENT["ack_honesty"] = "vsock"
    P.PROPS["C19"]["components"].append("vsock")
    # C09 at connection level: lockstep (the model uses wrap-aware comparison everywhere) + relabelling metamorphic run
    P.PROPS["C09"]["components"].append("vsock")
    P.PROPS["C09"]["oracles"]["isn_relabel"] = VO.ALL["isn_relabel"]
    P.ORACLE_COMPONENT["isn_relabel"] = "vsock"
    P.PROPS["C09"]["oracles"]["tx_outstanding"] = VO.ALL["tx_outstanding"]
    P.ORACLE_COMPONENT["tx_outstanding"] = "vsock"
    P.ORACLE_COMPONENT["task_ends"] = "vsock"
