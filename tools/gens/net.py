"""Integration scenarios + oracles over REAL sockets, dispatchers and connection tasks joined by a scripted lossy
network (harness component `net`; implementation-side oracle only - there is no model of the tokio tasks).
Serves the `observe_at` of C12/C13/C08: per-connection stream integrity with distinct tagged payloads on many
simultaneous connections, pairing, the connection limit with real tasks, release of table entries."""
import os
import re

from gens.vsock import Impl, HBIN, HERE


def pay(tag, pos):
    return (pos * 7 + 3 + tag * 37) % 251


def tag_of_first_byte(b):
    for t in range(251):
        if (3 + t * 37) % 251 == b:
            return t
    return None


class NetScenario:
    def __init__(self, r, impl):
        self.r = r
        self.impl = impl
        self.ops = []
        self.calls = {}          # name -> dict(kind, sock, peer_sock, state)
        self.nc = 0
        self.na = 0

    def do(self, line):
        self.ops.append(line)
        return self.impl.op(line)

    def state(self, name):
        out = self.do(f"net state {name}")
        c = self.calls[name]
        if out.startswith("ok:"):
            c["state"] = "open"
        elif out.startswith("err:"):
            c["state"] = "failed"
        elif out in ("open", "closed", "pending"):
            if c["state"] != "failed":
                c["state"] = out
        return out

    def net_params(self):
        r = self.r
        return self.loss, self.dup, self.reorder

    def pump(self, k=None, clean=False):
        r = self.r
        k = k if k is not None else r.choice([1, 2, 5, 10, 30])
        if clean:
            return self.do(f"net pump {k}")
        return self.do(f"net pump {k} loss={self.loss} dup={self.dup} reorder={self.reorder}")

    def run(self):
        r = self.r
        self.socks = r.choice([2, 2, 3])
        self.max = r.choice([1, 2, 3, 128])
        style = r.choice(["clean", "lossy", "lossy", "hostile"])
        self.loss = {"clean": 0, "lossy": r.choice([3, 10]), "hostile": r.choice([20, 35])}[style]
        self.dup = {"clean": 0, "lossy": r.choice([0, 5]), "hostile": 15}[style]
        self.reorder = {"clean": 0, "lossy": r.choice([0, 20]), "hostile": 50}[style]
        self.do(f"net new seed={r.randrange(1, 1 << 30)} max={self.max} socks={self.socks} rx={r.choice([4096, 65536])} tx0={r.choice([2048, 8192])} inact_ms={r.choice([3000, 10000])}")
        target = r.choice([1, 2, 3, 4, 6, 8])
        # --- set-up: accepts and connects in any order, in both directions, some beyond the limit
        todo = []
        for _ in range(target):
            src = r.randrange(1, self.socks + 1)
            dst = r.choice([p for p in range(1, self.socks + 1) if p != src])
            todo.append(("c", src, dst))
            if r.random() < 0.9:
                todo.append(("a", dst, None))
        r.shuffle(todo)
        for kind, a, b in todo:
            if kind == "c":
                self.nc += 1
                self.calls[f"c{self.nc}"] = {"kind": "c", "sock": a, "peer_sock": b, "state": "pending"}
                self.do(f"net connect {self.nc} {a} {b}")
            else:
                self.na += 1
                self.calls[f"a{self.na}"] = {"kind": "a", "sock": a, "state": "pending"}
                self.do(f"net accept {self.na} {a}")
            if r.random() < 0.5:
                self.pump()
        for _ in range(r.choice([2, 4, 8])):
            self.pump(r.choice([5, 20]))
            self.do(f"net adv {r.choice([1_000_000, 45_000_000, 300_000_000])}")
            for name, c in self.calls.items():
                if c["state"] == "pending":
                    self.state(name)
        # --- transfer: every open stream writes its own tagged bytes, the network misbehaves, readers read
        for _ in range(r.randrange(10, 80)):
            openc = [n for n, c in self.calls.items() if c["state"] == "open"]
            a = r.random()
            if a < 0.35 and openc:
                self.do(f"net write {r.choice(openc)} {r.choice([1, 10, 100, 1000, 3000, 9000, 20000])}")
            elif a < 0.60 and openc:
                self.do(f"net read {r.choice(openc)} {r.choice([1, 64, 1000, 20000])}")
            elif a < 0.80:
                self.pump()
            elif a < 0.90:
                self.do(f"net adv {r.choice([1_000_000, 20_000_000, 45_000_000, 250_000_000, 1_100_000_000])}")
            elif a < 0.93 and openc:
                self.do(f"net {r.choice(['shutdown', 'flush', 'flush'])} {r.choice(openc)}")
            elif a < 0.95 and openc:
                n = r.choice(openc)
                self.do(f"net {r.choice(['close', 'close', 'closewr'])} {n}")
                self.calls[n]["state"] = "closed"
            elif a < 0.97:
                pend = [n for n, c in self.calls.items() if c["state"] == "pending"]
                if pend:
                    n = r.choice(pend)
                    if self.state(n) == "pending" and r.random() < 0.5:
                        self.do(f"net abort {n}")
                        self.calls[n]["state"] = "closed"
            elif a < 0.985 and self.nc < target + 3:
                src = r.randrange(1, self.socks + 1)
                dst = r.choice([p for p in range(1, self.socks + 1) if p != src])
                self.nc += 1
                self.calls[f"c{self.nc}"] = {"kind": "c", "sock": src, "peer_sock": dst, "state": "pending"}
                self.do(f"net connect {self.nc} {src} {dst}")
            else:
                self.do("net tables")
        # quiet down: a loss-free network, everything that is open is read to the end - for as long as bytes keep
        # arriving (at least 14 rounds, and until 4 rounds in a row brought nothing)
        quiet, rnd = 0, 0
        while rnd < 14 or (quiet < 4 and rnd < 400):
            rnd += 1
            self.pump(200, clean=True)
            got = False
            for name, c in self.calls.items():
                if c["state"] == "pending":
                    self.state(name)
                if c["state"] == "open":
                    if self.do(f"net read {name} 65536").startswith("data:"):
                        got = True
            quiet = 0 if got else quiet + 1
            self.do(f"net adv {r.choice([45_000_000, 300_000_000])}")
        self.do("net adv 7")          # marker: end of the quiet-down phase (the progress oracle judges here)
        self.do("net tables")
        for name, c in self.calls.items():
            if c["state"] == "pending":
                self.do(f"net abort {name}")
            elif c["state"] == "open":
                if r.random() < 0.5:
                    self.do(f"net shutdown {name}")
                self.do(f"net {r.choice(['close', 'closewr'])} {name}")
        for rnd in range(16):
            self.pump(200, clean=True)
            self.do(f"net adv {r.choice([500_000_000, 1_000_000_000])}")
        self.do("net tables")
        # worst case for a task to end on its own: retransmission limit with exponential back-off (5 doublings up to
        # 60 s each) or the inactivity timeout - wait well beyond both
        for rnd in range(12):
            self.pump(200, clean=True)
            self.do("net adv 30000000000")
        self.pump(50, clean=True)
        self.do("net tables")
        return self.ops


def stale_shutdown_cases(P, seed, n=24):
    """A connection's task ends (its Shutdown request is queued) while a datagram for its key and a SYN that re-uses
    the key (a late duplicate of the original SYN, or a peer that restarted) are already waiting: which the
    dispatcher takes first is tokio's choice - repeated so that every order is seen."""
    from gens.vsock import mk_dgram
    impl = Impl()
    cases = []
    try:
        for k in range(n):
            ops = []

            def do(l):
                ops.append(l)
                return impl.op(l)
            do(f"net new seed={seed * 1000 + k + 1} max=8 socks=2")
            do("net accept 1 2")
            do("net connect 1 1 2")
            out = do("net pump 10")
            m = re.search(r"1>2:t4:c(\d+)", out)
            if not m:
                continue
            cid = int(m.group(1))
            for l in ("net state c1", "net state a1", "net write c1 100", "net close a1", "net accept 2 2",
                      f"net raw 1 2 {mk_dgram(4, cid, 0, 0, 0, 777, 0).hex()}", "net stage 2 to=2", "net adv 1000000000",
                      "net state a2", "net tables", "net pump 50", "net adv 45000000", "net tables"):
                do(l)
            cases.append(ops)
    finally:
        impl.close()
    return cases


def slow_reader_cases(P, seed, n=12):
    """Bulk transfer over a loss-free network to a reader that lets its (small) buffer fill up, then drains it:
    flow control has to close the window and re-open it, with real tasks and wakers (C02 progress, C07 window update).
    Ends with the same marker as the random scenarios so that the progress oracle judges it."""
    import random
    impl = Impl()
    cases = []
    try:
        for k in range(n):
            r = random.Random(seed * 7919 + k)
            ops = []

            def do(l):
                ops.append(l)
                return impl.op(l)
            do(f"net new seed={seed * 1000 + 500 + k} max=8 socks=2 rx={r.choice([2048, 4096, 16384])} tx0={r.choice([2048, 8192])} inact_ms=10000")
            do("net accept 1 2")
            do("net connect 1 1 2")
            for _ in range(3):
                do("net pump 20")
                do("net adv 1000000")
            if not (do("net state c1").startswith("ok:") and do("net state a1").startswith("ok:")):
                continue
            total = r.choice([20000, 60000, 150000])
            # the sender keeps its buffer full; the reader reads rarely and little, then everything
            written, rnd = 0, 0
            while rnd < 400:
                rnd += 1
                if written < total:
                    out = do(f"net write c1 {min(r.choice([1400, 3000, 9000]), total - written)}")
                    if out.startswith("ready:"):
                        written += int(out.split(":")[1])
                do("net pump 50")
                if r.random() < 0.25:
                    do(f"net read a1 {r.choice([1, 100, 700, 1500])}")
                do(f"net adv {r.choice([1000000, 5000000, 45000000])}")
                if written >= total and rnd > 30:
                    break
            quiet, rnd = 0, 0
            want_shut, shut = r.random() < 0.7, False
            while rnd < 8 or (quiet < 4 and rnd < 600):
                rnd += 1
                if want_shut and not shut:
                    shut = do("net shutdown c1") == "ok"
                do("net pump 200")
                got = do("net read a1 65536").startswith("data:")
                quiet = 0 if got else quiet + 1
                do(f"net adv {r.choice([45000000, 300000000])}")
            do("net read a1 65536")
            do("net adv 7")
            do("net tables")
            cases.append(ops)
    finally:
        impl.close()
    return cases


def cancel_cases(P, seed, n=10):
    """C08, last sentence: the socket's cancellation token is cancelled in the middle of traffic - connections in
    every stage (handshake, transfer, closing), calls pending."""
    import random
    impl = Impl()
    cases = []
    try:
        for k in range(n):
            r = random.Random(seed * 104729 + k)
            ops = []

            def do(l):
                ops.append(l)
                return impl.op(l)
            do(f"net new seed={seed * 1000 + 700 + k} max=8 socks=2 rx={r.choice([4096, 65536])} tx0=8192 inact_ms={r.choice([3000, 10000])}")
            nconn = r.choice([1, 2, 3])
            for i in range(1, nconn + 1):
                a, b = (1, 2) if r.random() < 0.7 else (2, 1)
                do(f"net accept {i} {b}")
                do(f"net connect {i} {a} {b}")
                if r.random() < 0.7:
                    do("net pump 20")
            for _ in range(r.randrange(0, 4)):
                do("net pump 20")
                do(f"net adv {r.choice([1000000, 45000000])}")
            names = [f"c{i}" for i in range(1, nconn + 1)] + [f"a{i}" for i in range(1, nconn + 1)]
            for nme in names:
                do(f"net state {nme}")
            for _ in range(r.randrange(0, 12)):
                nme = r.choice(names)
                do(r.choice([f"net write {nme} {r.choice([10, 1000, 6000])}", f"net read {nme} {r.choice([100, 5000])}", "net pump 20",
                             f"net adv {r.choice([1000000, 45000000])}", f"net shutdown {nme}", f"net flush {nme}"]))
            victim = r.choice([1, 2])
            do(f"net cancel {victim}")
            do("net tables")
            do("net pump 200")                 # whatever was on the wire before the cancellation is delivered here
            do("net adv 8")                    # marker: from here on the cancelled socket must be silent and its calls resolved
            for rnd in range(3):
                for nme in names:
                    do(f"net state {nme}")
                    do(f"net read {nme} 100000")
                    do(f"net write {nme} 10")
                    do(f"net flush {nme}")
                do("net pump 50")
                do(f"net adv {r.choice([1000000000, 4000000000])}")
            do("net pump 50")
            do("net tables")
            cases.append(ops)
    finally:
        impl.close()
    return cases


def oracle_cancel(P):
    """C08: cancelling a socket's token ends its dispatcher and connection tasks promptly (the socket reports it has
    ended, and once what was already on the wire is delivered it never emits another datagram), and every call on a
    stream of that socket resolves - data that was already buffered, then an error; writes fail - instead of hanging."""
    def orc(case, impl):
        hits = []
        try:
            ci = next(i for i, l in enumerate(case) if l.startswith("net cancel "))
            end = case.index("net adv 8")
        except (StopIteration, ValueError):
            return []
        victim = int(case[ci].split()[2])
        tr = NetTrace(case, impl)
        if ci + 1 < len(case) and case[ci + 1] == "net tables" and f"{victim}:{{dispatcher-ended}}" not in impl[ci + 1]:
            hits.append({"sig": {"oracle": "net_cancel", "what": "dispatcher_still_running_after_cancel"},
                         "text": f"after `{case[ci]}` socket {victim} still reports a live dispatcher: {impl[ci + 1][:160]}"})
        mine = {n for n, c in tr.calls.items() if c["sock"] == victim}
        yielded = set()
        for i in range(end, len(case)):
            op, out = case[i], impl[i]
            t = op.split()
            if t[1] == "pump":
                m = re.search(r"d=\[([^\]]*)\]", out)
                for ent in (m.group(1).split(",") if m and m.group(1) else []):
                    if ent.startswith(f"{victim}>"):
                        hits.append({"sig": {"oracle": "net_cancel", "what": "datagram_after_cancel"},
                                     "text": f"socket {victim} was cancelled (and the wire drained) but later emitted {ent} (`{op}`)"})
                        return hits[:2]
            if t[1] == "write" and t[2] in mine and out == "pending" and t[2] not in yielded:
                # (poll_write returns Pending once every 8 KiB as a cooperative yield - it wakes itself at once -
                # before it looks at anything else: the first Pending of a writer is not a hang)
                yielded.add(t[2])
                continue
            if t[1] in ("read", "write", "flush") and t[2] in mine and out == "pending":
                hits.append({"sig": {"oracle": "net_cancel", "what": "call_hangs_after_cancel"},
                             "text": f"`{op}` on a stream of the cancelled socket {victim} is still Pending"})
                return hits[:2]
            if t[1] == "write" and t[2] in mine and out.startswith("ready"):
                hits.append({"sig": {"oracle": "net_cancel", "what": "write_accepted_after_cancel"},
                             "text": f"`{op}` on a stream of the cancelled socket {victim} accepted bytes ({out})"})
                return hits[:2]
        return hits[:2]
    return orc


def _cache_key(seed, tier):
    import hashlib
    h = hashlib.sha1()
    with open(HBIN, "rb") as f:
        h.update(f.read())
    with open(os.path.abspath(__file__), "rb") as f:
        h.update(f.read())
    h.update(f"{seed}/{tier}".encode())
    return h.hexdigest()


def gen_net(P):
    def gen(seed, tier):
        import json
        cdir = os.path.normpath(os.path.join(HERE, "..", "..", ".cache"))
        cpath = os.path.join(cdir, f"net-{_cache_key(seed, tier)}.json")
        if os.path.exists(cpath):
            try:
                return json.load(open(cpath))
            except Exception:
                pass
        r = P.rng_for(seed, "net")
        impl = Impl()
        cases = []
        try:
            for _ in range(P.scale(tier, 120, 2500)):
                cases.append(NetScenario(r, impl).run())
        finally:
            impl.close()
        cases += stale_shutdown_cases(P, seed, P.scale(tier, 24, 200))
        cases += slow_reader_cases(P, seed, P.scale(tier, 12, 150))
        cases += cancel_cases(P, seed, P.scale(tier, 10, 150))
        try:
            os.makedirs(cdir, exist_ok=True)
            for fn in os.listdir(cdir):
                if fn.startswith("net-") and len([x for x in os.listdir(cdir) if x.startswith("net-")]) > 3:
                    os.unlink(os.path.join(cdir, fn))
            tmp = cpath + f".{os.getpid()}"
            json.dump(cases, open(tmp, "w"))
            os.replace(tmp, cpath)
        except OSError:
            pass
        return cases
    return gen


class NetTrace:
    def __init__(self, case, impl):
        self.calls = {}       # name -> dict
        self.max = 128
        self.tables = []      # (op index, {port: [stream keys]})
        self.steps = list(zip(case, impl))
        for i, (op, out) in enumerate(self.steps):
            t = op.split()
            if len(t) < 2 or t[0] != "net":
                continue
            if t[1] == "new":
                kv = dict(x.split("=", 1) for x in t[2:] if "=" in x)
                self.max = int(kv.get("max", 128))
            elif t[1] == "connect" and out == "ok":
                self.calls[f"c{t[2]}"] = {"kind": "c", "tag": int(t[2]) % 100, "sock": int(t[3]), "to": int(t[4]), "w": 0, "read": bytearray(), "res": None, "eof": False, "closed": False, "shut": False, "first": i}
            elif t[1] == "accept" and out == "ok":
                self.calls[f"a{t[2]}"] = {"kind": "a", "tag": 100 + int(t[2]) % 100, "sock": int(t[3]), "w": 0, "read": bytearray(), "res": None, "eof": False, "closed": False, "shut": False, "first": i}
            elif t[1] in ("state", "write", "read", "shutdown", "flush", "close", "closewr", "abort") and t[2] in self.calls:
                c = self.calls[t[2]]
                if t[1] == "state" and (out.startswith("ok:") or out.startswith("err:")):
                    c["res"] = out
                    if out.startswith("ok:"):
                        c.setdefault("ok_at", i)           # the FIRST observation of the resolved call
                elif t[1] == "state" and "ok_at" not in c:
                    c["pend_at"] = i                       # last observation of the call still pending
                if t[1] == "write" and out.startswith("ready:"):
                    c["w"] += int(out.split(":")[1])
                if t[1] in ("write", "flush", "shutdown") and out.startswith("err"):
                    c["werr"] = out
                if t[1] == "read":
                    if out.startswith("data:"):
                        c["read"] += bytes.fromhex(out[5:])
                    elif out == "eof":
                        c["eof"] = True
                    elif out.startswith("err:"):
                        c["rerr"] = out
                if t[1] == "shutdown" and out == "ok":
                    c["shut"] = True          # the writer was TOLD its shutdown succeeded
                if t[1] in ("close", "closewr", "abort"):
                    c["closed"] = True
                    c.setdefault("closed_at", i)
            elif t[1] == "tables":
                tabs = {}
                for m in re.finditer(r"(\d+):\{([^}]*)\}", out):
                    body = m.group(2)
                    sm = re.search(r"streams=\[([^\]]*)\]", body)
                    tabs[int(m.group(1))] = [x for x in sm.group(1).split(",") if x] if sm else None
                wm = re.search(r"wire=(\d+)", out)
                self.tables.append((i, tabs, int(wm.group(1)) if wm else 0))


def oracle_streams(P):
    """C12/C13/C01 with real tasks: every stream read is the in-order, tagged stream of exactly one peer call
    (never a mix, never another connection's bytes, never more than was written), connector and acceptor are wired
    to each other, each connector is paired with at most one accepted stream."""
    def orc(case, impl):
        tr = NetTrace(case, impl)
        hits = []
        for op, out in tr.steps:
            if out.startswith("PANIC"):
                return [{"sig": {"oracle": "net_streams", "what": "panic"}, "text": f"`{op}` -> {out[:200]}"}]
        peer_of = {}
        for name, c in tr.calls.items():
            data = bytes(c["read"])
            if not data:
                continue
            t = tag_of_first_byte(data[0])
            want_kind = "a" if c["kind"] == "c" else "c"
            peer = None
            for n2, c2 in tr.calls.items():
                if c2["tag"] == t and c2["kind"] == want_kind:
                    peer = n2
            if peer is None:
                hits.append({"sig": {"oracle": "net_streams", "what": "bytes_of_no_peer"},
                             "text": f"{name} read a stream whose first byte {data[0]} is not the start of any {('accept' if want_kind == 'a' else 'connect')} call's payload"})
                continue
            peer_of[name] = peer
            bad = next((i for i, b in enumerate(data) if b != pay(t, i)), None)
            if bad is not None:
                hits.append({"sig": {"oracle": "net_streams", "what": "stream_corrupted"},
                             "text": f"{name} reads {peer}'s stream but byte {bad} is {data[bad]} instead of {pay(t, bad)} (bytes lost, duplicated, reordered or from another connection)"})
            if len(data) > tr.calls[peer]["w"]:
                hits.append({"sig": {"oracle": "net_streams", "what": "read_more_than_written"},
                             "text": f"{name} read {len(data)} bytes of {peer}'s stream, which accepted only {tr.calls[peer]['w']}"})
            if c["eof"] and len(data) < tr.calls[peer]["w"] and tr.calls[peer].get("shut"):
                hits.append({"sig": {"oracle": "net_streams", "what": "eof_before_all_bytes"},
                             "text": f"{name} saw a clean end-of-stream after {len(data)} bytes although {peer} had written {tr.calls[peer]['w']} and was told its shutdown succeeded"})
        # wired to each other / one-to-one
        seen = {}
        for name, peer in peer_of.items():
            if peer in peer_of and peer_of[peer] != name:
                hits.append({"sig": {"oracle": "net_streams", "what": "not_wired_to_each_other"},
                             "text": f"{name} reads {peer}'s bytes but {peer} reads {peer_of[peer]}'s"})
            if peer in seen and seen[peer] != name:
                hits.append({"sig": {"oracle": "net_streams", "what": "one_stream_two_readers"},
                             "text": f"{peer}'s stream is read by both {seen[peer]} and {name}"})
            seen[peer] = name
            c, c2 = tr.calls[name], tr.calls[peer]
            if c["kind"] == "c" and c2["sock"] != c["to"]:
                hits.append({"sig": {"oracle": "net_streams", "what": "wrong_listener"}, "text": f"{name} connected to socket {c['to']} but is wired to {peer} on socket {c2['sock']}"})
        return hits[:3]
    return orc


def oracle_progress(P):
    """C02 with real tasks, loss-free runs only: on a network that never loses, duplicates or reorders anything, with
    every reader reading, every byte accepted by write is readable at the peer once the traffic has died down (the
    generator keeps pumping and reading until four rounds in a row bring no byte). A shortfall means the transfer
    stalled although nothing was ever lost."""
    def orc(case, impl):
        for l in case:
            if l.startswith("net pump"):
                kv = dict(x.split("=", 1) for x in l.split()[3:] if "=" in x)
                if any(int(kv.get(k, 0)) != 0 for k in ("loss", "dup", "reorder")):
                    return []
        try:
            end = case.index("net adv 7")
        except ValueError:
            return []
        tr = NetTrace(case[:end], impl[:end])
        hits = []
        peer_by_tag = {c["tag"]: n for n, c in tr.calls.items()}
        for name, c in tr.calls.items():
            if c["closed"] or c.get("rerr") or not (c["res"] or "").startswith("ok:"):
                continue
            data = bytes(c["read"])
            # the peer: the call whose tag this stream carries, or - nothing read yet - unknown
            if not data:
                continue
            peer = peer_by_tag.get(tag_of_first_byte(data[0]))
            if peer is None:
                continue
            c2 = tr.calls[peer]
            if c2["closed"] or c2.get("rerr") or c2.get("werr") or not (c2["res"] or "").startswith("ok:"):
                continue
            # the reader really did keep reading while nothing arrived: its last four reads before the marker brought
            # no data, with the network pumped in between (the oracle does not take the generator's word for it -
            # and a shrunk replay cannot drop those rounds)
            reads = [i for i, (op, out) in enumerate(zip(case[:end], impl[:end])) if op.startswith(f"net read {name} ")]
            if len(reads) < 5 or any(impl[i].startswith("data:") for i in reads[-4:]) \
                    or any(not any(case[j].startswith("net pump") for j in range(a, b)) for a, b in zip(reads[-4:], reads[-3:] + [end])):
                continue
            if len(data) < c2["w"]:
                hits.append({"sig": {"oracle": "net_progress", "what": "stalled_on_a_loss_free_network"},
                             "text": f"{name} has read {len(data)} of the {c2['w']} bytes {peer} wrote; nothing was ever lost, duplicated or reordered, both ends are open and the reader kept reading until four rounds in a row brought nothing"})
        return hits[:2]
    return orc


def oracle_completion(P):
    """C03 with real tasks: a writer that was TOLD its shutdown succeeded has had every byte acknowledged by the
    peer's stack, so a peer application that keeps reading gets all of them and then a clean end-of-stream - whatever
    the network did before (judged at the end of the loss-free quiet-down phase, during which every open stream is
    read until nothing arrives any more)."""
    def orc(case, impl):
        try:
            end = case.index("net adv 7")
        except ValueError:
            return []
        tr = NetTrace(case[:end], impl[:end])
        hits = []
        peer_by_tag = {c["tag"]: n for n, c in tr.calls.items()}
        for name, c in tr.calls.items():
            if c["closed"] or c.get("rerr") or not (c["res"] or "").startswith("ok:"):
                continue
            data = bytes(c["read"])
            if not data:
                continue
            peer = peer_by_tag.get(tag_of_first_byte(data[0]))
            if peer is None or not tr.calls[peer].get("shut"):
                continue
            c2 = tr.calls[peer]
            reads = [i for i, (op, out) in enumerate(zip(case[:end], impl[:end])) if op.startswith(f"net read {name} ")]
            if len(reads) < 5 or any(impl[i].startswith("data:") for i in reads[-4:]) \
                    or any(not any(case[j].startswith("net pump") for j in range(a, b)) for a, b in zip(reads[-4:], reads[-3:] + [end])):
                continue
            if len(data) < c2["w"]:
                hits.append({"sig": {"oracle": "net_completion", "what": "shutdown_ok_but_bytes_never_reach_the_reader"},
                             "text": f"{peer} was told its shutdown succeeded after writing {c2['w']} bytes, but {name}, which kept reading over a loss-free network until nothing arrived any more, got only {len(data)}"})
            elif len(data) == c2["w"] and not c["eof"]:
                hits.append({"sig": {"oracle": "net_completion", "what": "no_end_of_stream_after_peer_shutdown"},
                             "text": f"{peer}'s shutdown succeeded and {name} has read all {c2['w']} bytes, but its reads never return end-of-stream"})
        return hits[:2]
    return orc


def oracle_limit_release(P):
    """C12 limit and C08 release with real tasks: never more table entries than the limit; once every stream is
    dropped and the timeouts have passed, the tables are empty and the wire stays silent."""
    def orc(case, impl):
        tr = NetTrace(case, impl)
        hits = []
        for i, tabs, wire in tr.tables:
            for port, keys in tabs.items():
                if keys is not None and len(keys) > tr.max:
                    hits.append({"sig": {"oracle": "net_tables", "what": "limit_exceeded"}, "text": f"socket {port} holds {len(keys)} connections, limit {tr.max}"})
                # a stream whose call has JUST resolved Ok (no time has passed, no datagram was delivered since) is alive:
                # its socket's table must have an entry for it
                # ("just": first seen resolved after the last delivery/advance, AND no time passed between the last
                # observation of the call still pending - or its creation - and that first sight: a stream that was
                # handed over earlier may have died of its own timers since, and its entry is then rightly gone)
                quiet_from = max([j for j, (op, _o) in enumerate(tr.steps[:i]) if op.startswith(("net adv", "net pump", "net stage"))] + [-1])
                fresh = [n for n, c in tr.calls.items() if c["sock"] == port and quiet_from < c.get("ok_at", -1) < i
                         and not any(op.startswith("net adv") for op, _o in tr.steps[c.get("pend_at", c["first"]):c["ok_at"]])]
                if keys is not None and len(fresh) > len(keys):
                    hits.append({"sig": {"oracle": "net_tables", "what": "held_stream_not_in_table"},
                                 "text": f"socket {port}: {', '.join(fresh)} has just been handed to the application, but the connection table has only {len(keys)} entries {keys}: the new connection was evicted from the table (datagrams for it are no longer delivered, its share of the limit is not counted)"})
        all_let_go = all(c["closed"] or (c["res"] or "").startswith("err") for c in tr.calls.values())
        if tr.tables and all_let_go:
            i, tabs, wire = tr.tables[-1]
            left = {p: k for p, k in tabs.items() if k}
            if left:
                hits.append({"sig": {"oracle": "net_tables", "what": "entries_not_released"},
                             "text": f"every stream was dropped and more than 6 minutes passed, yet the connection tables still hold {left}"})
            elif wire > 0:
                hits.append({"sig": {"oracle": "net_tables", "what": "datagrams_after_release"},
                             "text": f"all connections are released but {wire} datagram(s) were emitted afterwards"})
        return hits[:2]
    return orc


def stats_net(case, impl, dist):
    tr = NetTrace(case, impl)
    ok = 0
    for name, c in tr.calls.items():
        k = "call_" + (c["res"].split(":")[0] if c["res"] else "unresolved") + "_" + c["kind"]
        dist[k] = dist.get(k, 0) + 1
        if c["read"]:
            ok += 1
            dist["streams_with_bytes_read"] = dist.get("streams_with_bytes_read", 0) + 1
            dist["bytes_read"] = dist.get("bytes_read", 0) + len(c["read"])
    for op, out in tr.steps:
        if op.startswith("net pump"):
            m = re.search(r"delivered=(\d+) dropped=(\d+) dup=(\d+)", out)
            if m:
                for k, v in zip(("delivered", "dropped", "dup"), m.groups()):
                    dist["dgrams_" + k] = dist.get("dgrams_" + k, 0) + int(v)
    return ok >= 1


def register(P):
    P.GENERATORS["net"] = gen_net(P)
    P.STATS["net"] = stats_net
    P.CMP["net"] = lambda a, b: True          # oracle-only component: there is no model of the tokio tasks
    P.ORACLE_COMPONENT["net_streams"] = "net"
    P.ORACLE_COMPONENT["net_tables"] = "net"
    for pid in ("C12", "C13"):
        P.PROPS[pid]["components"].append("net")
        P.PROPS[pid]["oracles"]["net_streams"] = oracle_streams(P)
        P.PROPS[pid]["oracles"]["net_tables"] = oracle_limit_release(P)
        P.PROPS[pid]["trusted"] = P.PROPS[pid]["trusted"] + ["component `net` (several real sockets with real dispatcher and connection tasks over a scripted lossy network) has NO model: it is an implementation-side oracle run only (tagged per-stream payload integrity, pairing, limit, release); it supports the search for failing inputs and the validation of what the dispatcher model leaves out, it proves nothing"]
    P.ORACLE_COMPONENT["net_progress"] = "net"
    P.ORACLE_COMPONENT["net_completion"] = "net"
    P.PROPS["C03"]["components"].append("net")
    P.PROPS["C03"]["oracles"]["net_completion"] = oracle_completion(P)
    P.PROPS["C03"]["oracles"]["net_streams"] = oracle_streams(P)
    P.PROPS["C03"]["trusted"] = P.PROPS["C03"].get("trusted", []) + ["component `net` (real sockets, dispatcher and connection tasks over a scripted network) has no model: oracle-only"]
    P.PROPS["C02"]["components"].append("net")
    P.PROPS["C02"]["oracles"]["net_progress"] = oracle_progress(P)
    P.PROPS["C02"]["trusted"] = P.PROPS["C02"].get("trusted", []) + ["component `net` (real sockets, dispatcher and connection tasks over a scripted network) has no model: oracle-only"]
    P.ORACLE_COMPONENT["net_cancel"] = "net"
    P.PROPS["C08"]["oracles"]["net_cancel"] = oracle_cancel(P)
    P.PROPS["C08"]["components"].append("net")
    P.PROPS["C08"]["oracles"]["net_tables"] = oracle_limit_release(P)
