import UtpVerif.Gen.Constants
import UtpVerif.Model.SeqNr
import UtpVerif.Model.Rtte
import UtpVerif.Props.C09
import UtpVerif.Props.C16
import UtpVerif.Props.C11
import UtpVerif.Props.C14
import UtpVerif.Props.C19
