import UtpVerif.Gen.Constants
/-!
Model of `src/congestion/cubic.rs` over extended rationals with an explicit rounding operator.

`XR` = IEEE-754 value classes: NaN, ±∞, finite (an exact rational).  Every arithmetic result is passed
through `rnd : Rat → Rat`; theorems quantify over every `rnd` satisfying `Rounding` (what IEEE
round-to-nearest guarantees: monotone, exact on small integers, sign-preserving) and over every `cbrt`.
The executable instance (`rnd53`, integer cube root) is what the correspondence run uses.
-/
namespace UtpVerif.Model
open UtpVerif.Gen

inductive XR where
  | nan | pinf | ninf
  | fin (q : Rat)
deriving Repr, DecidableEq

namespace XR
def ofNat (rnd : Rat → Rat) (n : Nat) : XR := .fin (rnd n)

def neg : XR → XR
  | nan => nan | pinf => ninf | ninf => pinf | fin q => fin (-q)

def add (rnd : Rat → Rat) : XR → XR → XR
  | nan, _ | _, nan => nan
  | pinf, ninf | ninf, pinf => nan
  | pinf, _ | _, pinf => pinf
  | ninf, _ | _, ninf => ninf
  | fin a, fin b => fin (rnd (a + b))

def sub (rnd : Rat → Rat) (a b : XR) : XR := add rnd a (neg b)

def sign (q : Rat) : Int := if q > 0 then 1 else if q < 0 then -1 else 0

def mul (rnd : Rat → Rat) : XR → XR → XR
  | nan, _ | _, nan => nan
  | fin a, fin b => fin (rnd (a * b))
  | fin a, pinf | pinf, fin a => if a > 0 then pinf else if a < 0 then ninf else nan
  | fin a, ninf | ninf, fin a => if a > 0 then ninf else if a < 0 then pinf else nan
  | pinf, pinf | ninf, ninf => pinf
  | pinf, ninf | ninf, pinf => ninf

def div (rnd : Rat → Rat) : XR → XR → XR
  | nan, _ | _, nan => nan
  | fin a, fin b => if b = 0 then (if a > 0 then pinf else if a < 0 then ninf else nan) else fin (rnd (a / b))
  | fin _, pinf | fin _, ninf => fin 0
  | pinf, fin b => if b ≥ 0 then pinf else ninf
  | ninf, fin b => if b ≥ 0 then ninf else pinf
  | pinf, pinf | pinf, ninf | ninf, pinf | ninf, ninf => nan

/-- `a < b` (false if either is NaN). -/
def lt : XR → XR → Bool
  | nan, _ | _, nan => false
  | pinf, _ => false
  | _, ninf => false
  | ninf, _ => true
  | _, pinf => true
  | fin a, fin b => a < b

def ge (a b : XR) : Bool :=
  match a, b with
  | nan, _ | _, nan => false
  | _, _ => !(lt a b)

/-- Rust `f64::max`: NaN is ignored. -/
def max (a b : XR) : XR :=
  match a, b with
  | nan, x | x, nan => x
  | _, _ => if lt a b then b else a

def min (a b : XR) : XR :=
  match a, b with
  | nan, x | x, nan => x
  | _, _ => if lt b a then b else a

def U64MAX : Nat := 18446744073709551615

/-- `x as usize` (saturating, NaN → 0, truncation toward zero). -/
def toUsize : XR → Nat
  | nan | ninf => 0
  | pinf => U64MAX
  | fin q => if q < 0 then 0 else Nat.min q.floor.toNat U64MAX

end XR

structure Cubic where
  cwnd : XR
  ssthresh : XR
  k : XR
  wMax : XR
  wMaxLast : XR
  mss : Nat
  lastCongestionEvent : Nat      -- ns
  rwnd : XR
  rwndBytes : Nat
deriving Repr

/-- Parameters the float model is relative to. -/
structure FEnv where
  rnd : Rat → Rat
  cbrt : Rat → Rat

namespace Cubic
open XR

def beta (e : FEnv) : XR := .fin (e.rnd ((BETA_CUBIC_NUM : Rat) / BETA_CUBIC_DEN))
def cC (e : FEnv) : XR := .fin (e.rnd ((CUBIC_C_NUM : Rat) / CUBIC_C_DEN))
def two : XR := .fin 2
def one : XR := .fin 1

def new (now mss : Nat) : Cubic :=
  { cwnd := .fin CUBIC_INITIAL_CWND, ssthresh := .pinf, k := .fin 0, wMax := .fin 0, wMaxLast := .fin 0,
    mss := mss, lastCongestionEvent := now, rwnd := .fin 0, rwndBytes := 0 }

def mssF (e : FEnv) (c : Cubic) : XR := XR.ofNat e.rnd c.mss

/-- `window()` -/
def window (e : FEnv) (c : Cubic) : Nat :=
  Nat.min (XR.toUsize (XR.mul e.rnd (XR.max c.cwnd two) (c.mssF e))) c.rwndBytes

/-- `sshthresh()` -/
def sshthresh (e : FEnv) (c : Cubic) : Nat := XR.toUsize (XR.mul e.rnd c.ssthresh (c.mssF e))

/-- `on_retransmission_timeout` -/
def onRto (e : FEnv) (c : Cubic) : Cubic :=
  { c with ssthresh := XR.max (XR.mul e.rnd c.cwnd (beta e)) two, wMax := c.cwnd, cwnd := .fin CUBIC_RTO_CWND }

/-- `calc_k`: `(w_max * FACTOR).cbrt()` with `FACTOR = (1 - BETA)/C` folded in f64. -/
def factorK (e : FEnv) : XR := XR.div e.rnd (XR.sub e.rnd one (beta e)) (cC e)
def cbrtX (e : FEnv) : XR → XR
  | .fin q => .fin (e.cbrt q)
  | x => x
def calcK (e : FEnv) (wMax : XR) : XR := cbrtX e (XR.mul e.rnd wMax (factorK e))

/-- `on_enter_recovery(now)` -/
def onEnterRecovery (e : FEnv) (c : Cubic) (now : Nat) : Cubic :=
  let wMax := c.cwnd
  let cwnd := XR.mul e.rnd c.cwnd (beta e)
  let ssthresh := XR.max cwnd two
  let fastConv := XR.div e.rnd (XR.add e.rnd one (beta e)) two
  let (wMax', wMaxLast') :=
    if XR.lt wMax c.wMaxLast then (XR.mul e.rnd wMax fastConv, wMax) else (wMax, wMax)
  { c with wMax := wMax', wMaxLast := wMaxLast', cwnd := cwnd, ssthresh := ssthresh, lastCongestionEvent := now,
           k := calcK e wMax' }

/-- `on_recovered(new_cwnd_bytes, new_sshthresh)` -/
def onRecovered (e : FEnv) (c : Cubic) (cwndBytes ssth : Nat) : Cubic :=
  let rec_ := XR.div e.rnd (XR.ofNat e.rnd cwndBytes) (c.mssF e)
  { c with cwnd := XR.max (XR.min rec_ c.rwnd) two, ssthresh := XR.div e.rnd (XR.ofNat e.rnd ssth) (c.mssF e) }

/-- `Duration::as_secs_f64()` of `ns` nanoseconds. -/
def secsF (e : FEnv) (ns : Nat) : XR :=
  XR.add e.rnd (XR.ofNat e.rnd (ns / 1000000000)) (XR.div e.rnd (XR.ofNat e.rnd (ns % 1000000000)) (XR.ofNat e.rnd 1000000000))

def cube (e : FEnv) (x : XR) : XR := XR.mul e.rnd (XR.mul e.rnd x x) x     -- `powf(x, 3.)`

def wCubic (e : FEnv) (tNs : Nat) (k wMax : XR) : XR :=
  XR.add e.rnd (XR.mul e.rnd (cC e) (cube e (XR.sub e.rnd (secsF e tNs) k))) wMax

def factorEst (e : FEnv) : XR :=
  XR.div e.rnd (XR.mul e.rnd (.fin 3) (XR.sub e.rnd one (beta e))) (XR.add e.rnd one (beta e))

def wEst (e : FEnv) (tNs rttNs : Nat) (wMax : XR) : XR :=
  XR.add e.rnd (XR.mul e.rnd wMax (beta e)) (XR.mul e.rnd (factorEst e) (XR.div e.rnd (secsF e tNs) (secsF e rttNs)))

/-- `on_ack(now, len, rtt)`, with the comparison that selects the TCP-friendly region as a parameter
(the driver uses it to report both outcomes when `w_cubic` and `w_est` are within rounding noise of each
other; `onAck` is the real comparison). -/
def onAckWith (friendly : XR → XR → Bool) (e : FEnv) (c : Cubic) (now len rttNs : Nat) : Cubic :=
  if len = 0 then c else
  if XR.ge c.cwnd c.rwnd then c else
  let cwnd :=
    if XR.lt c.cwnd c.ssthresh then
      XR.add e.rnd c.cwnd (XR.div e.rnd (XR.ofNat e.rnd len) (c.mssF e))
    else
      let t := now - c.lastCongestionEvent
      let wc := wCubic e t c.k c.wMax
      let we := wEst e t rttNs c.wMax
      if friendly wc we then we
      else XR.add e.rnd c.cwnd (XR.div e.rnd (XR.sub e.rnd (wCubic e (t + rttNs) c.k c.wMax) c.cwnd) c.cwnd)
  { c with cwnd := XR.max (XR.min cwnd c.rwnd) two }

def onAck (e : FEnv) (c : Cubic) (now len rttNs : Nat) : Cubic := onAckWith XR.lt e c now len rttNs

/-- `set_remote_window(win)` -/
def setRemoteWindow (e : FEnv) (c : Cubic) (win : Nat) : Cubic :=
  { c with rwnd := XR.div e.rnd (XR.ofNat e.rnd win) (c.mssF e), rwndBytes := win }

/-- `set_mss(mss)` -/
def setMss (e : FEnv) (c : Cubic) (m : Nat) : Cubic :=
  if c.mss = m then c else
  let rescale := XR.div e.rnd (c.mssF e) (XR.ofNat e.rnd m)
  { c with cwnd := XR.mul e.rnd c.cwnd rescale, ssthresh := XR.mul e.rnd c.ssthresh rescale,
           wMax := XR.mul e.rnd c.wMax rescale, wMaxLast := XR.mul e.rnd c.wMaxLast rescale, mss := m }

end Cubic

/-! ### Executable rounding: IEEE binary64 round-to-nearest-even on rationals (normal range) -/

/-- Round a positive rational to 53 significant bits, ties to even. -/
def rnd53pos (q : Rat) : Rat :=
  let n := q.num.toNat
  let d := q.den
  -- find e with 2^52 ≤ q / 2^e < 2^53
  let e0 : Int := (Nat.log2 n : Int) - (Nat.log2 d : Int) - 52
  let scaled (e : Int) : Nat × Nat := if e ≥ 0 then (n, d * 2 ^ e.toNat) else (n * 2 ^ (-e).toNat, d)
  let pick (e : Int) : Int :=
    let (a, b) := scaled e
    if a / b ≥ 2 ^ 53 then e + 1 else if a / b < 2 ^ 52 then e - 1 else e
  let e := pick (pick e0)
  let (a, b) := scaled e
  let m := a / b
  let r := a % b
  let m' := if 2 * r > b then m + 1 else if 2 * r < b then m else (if m % 2 = 0 then m else m + 1)
  if e ≥ 0 then (m' : Rat) * (2 ^ e.toNat : Nat) else (m' : Rat) / (2 ^ (-e).toNat : Nat)

def rnd53 (q : Rat) : Rat := if q = 0 then 0 else if q > 0 then rnd53pos q else - rnd53pos (-q)

/-- Integer Newton cube root to ~2^-60 relative, then rounded. -/
def cbrtRat (q : Rat) : Rat :=
  if q = 0 then 0 else
  let neg := q < 0
  let a := if neg then -q else q
  -- cube root of a = (a * 2^(3s))^(1/3) / 2^s with integer root
  let s : Nat := 60
  let big : Nat := (a * (2 ^ (3 * s) : Nat)).floor.toNat
  let rec go (fuel : Nat) (x : Nat) : Nat :=
    match fuel with
    | 0 => x
    | fuel + 1 => if x = 0 then 0 else
      let y := (2 * x + big / (x * x)) / 3
      if y ≥ x then x else go fuel y
  let x0 : Nat := 2 ^ ((Nat.log2 big) / 3 + 1)
  let r : Rat := (go 200 x0 : Nat) / (2 ^ s : Nat)
  rnd53 (if neg then -r else r)

def fenv53 : FEnv := { rnd := rnd53, cbrt := cbrtRat }

end UtpVerif.Model
