import UtpVerif.Gen.Constants
import UtpVerif.Model.Wire
/-!
Model of the socket dispatcher (`src/socket.rs`: `Dispatcher`, `AcceptQueue`, `ConnectingPerAddr`):
the demultiplexing table `streams`, pending connects, the SYN backlog, acceptors, control requests.

Addresses are `Nat` (the harness uses 127.0.0.1:port).  A requester (the oneshot a `connect()` or
`accept()` call waits on) is `alive` until that call's future is dropped.  `run_once` = clean up the accept
queue, then take ONE event (tokio's `select!`): an acceptor from the channel, a control request, or a datagram.
-/
namespace UtpVerif.Model
open UtpVerif.Gen

structure Key where
  addr : Nat
  id : Nat
deriving Repr, DecidableEq

structure Syn where
  remote : Nat
  h : Header
deriving Repr

structure Connecting where
  token : Nat
  seqNr : Nat
deriving Repr, DecidableEq

structure Acceptor where
  id : Nat
deriving Repr, DecidableEq

inductive Ctl where
  | connectRequest (addr token : Nat)
  | connectDropped (addr token : Nat)
  | shutdown (k : Key) (owner : Option Nat)    -- `owner`: the stream instance that is shutting down (none: untagged)
deriving Repr

inductive ConnErr where
  | tooMany | sendingSyn | dispatcherDead
deriving Repr, DecidableEq

/-- Observable effects of one dispatcher step. -/
inductive Eff where
  | sent (to : Nat) (bytes : List Nat)
  | connectOk (token : Nat) (k : Key) (inst : Nat)   -- stream created for an outgoing connect
  | connectErr (token : Nat) (e : ConnErr)
  | accepted (acc : Nat) (k : Key) (remote : Nat) (inst : Nat)  -- stream created for an accept call
  | delivered (k : Key) (h : Header)               -- datagram handed to the stream registered under `k`
deriving Repr, DecidableEq

inductive SendMode where
  | ok | fail | short
deriving Repr, DecidableEq

structure Disp where
  maxActive : Nat
  streams : List (Key × Nat) := []               -- the demultiplexing table: key ↦ stream instance (a map: no duplicate keys)
  deadStreams : List Nat := []                   -- instances whose task (channel receiver) is gone
  nextInst : Nat := 0
  connecting : List (Nat × List (Option Connecting)) := []   -- addr ↦ MAX_CONNECTING_PER_ADDR slots
  syns : List Syn := []
  nextAcceptor : Option Acceptor := none
  accChan : List Acceptor := []                  -- acceptors waiting in the mpsc channel
  nextConnId : Nat := 0
  rnd : List Nat := []                           -- what `env.random_u16()` will return
  deadReq : List Nat := []                       -- tokens of connect() calls whose future was dropped
  deadAcc : List Nat := []                       -- ids of accept() calls whose future was dropped
  sendMode : SendMode := .ok
deriving Repr

namespace Disp

def w16 (n : Nat) : Nat := n % 65536

def random (d : Disp) : Nat × Disp :=
  match d.rnd with
  | [] => (0, d)
  | r :: rest => (w16 r, { d with rnd := rest })

def streamsFull (d : Disp) : Bool := d.streams.length ≥ d.maxActive

def keys (d : Disp) : List Key := d.streams.map (·.1)

def hasKey (d : Disp) (k : Key) : Bool := d.keys.contains k

def instOf (d : Disp) (k : Key) : Option Nat := (d.streams.find? (·.1 == k)).map (·.2)

def removeKey (d : Disp) (k : Key) : Disp :=
  { d with streams := d.streams.filter (·.1 != k) }

/-- `HashMap::insert` of a fresh stream instance (replaces an existing entry). -/
def insertKey (d : Disp) (k : Key) : Disp × Nat :=
  ({ d with streams := d.streams.filter (·.1 != k) ++ [(k, d.nextInst)], nextInst := d.nextInst + 1 }, d.nextInst)

def tryNextAcceptor (d : Disp) : Option Acceptor × Disp :=
  match d.nextAcceptor with
  | some a => (some a, { d with nextAcceptor := none })
  | none =>
    match d.accChan with
    | a :: rest => (some a, { d with accChan := rest })
    | [] => (none, d)

inductive MatchRes where
  | matched
  | full (s : Syn) (a : Acceptor)
  | synInvalid (a : Acceptor)
  | receiverDead (s : Syn)
deriving Repr

/-- `match_syn_with_accept` -/
def matchSynWithAccept (d : Disp) (s : Syn) (a : Acceptor) : MatchRes × Disp × List Eff :=
  if d.streamsFull then (.full s a, d, []) else
  let k : Key := { addr := s.remote, id := w16 (s.h.connId + 1) }
  if d.hasKey k then (.synInvalid a, d, []) else
  let (_seq, d) := d.random
  if d.deadAcc.contains a.id then (.receiverDead s, d, [])      -- inserted, send failed, removed again
  else let (d', inst) := d.insertKey k; (.matched, d', [.accepted a.id k s.remote inst])

/-- `cleanup_accept_queue` -/
def cleanupLoop : Nat → Disp → List Eff → Disp × List Eff
  | 0, d, effs => (d, effs)
  | fuel + 1, d, effs =>
    match d.syns with
    | [] => (d, effs)
    | s :: rest =>
      let d0 := { d with syns := rest }
      match d0.tryNextAcceptor with
      | (none, _) => (d, effs)
      | (some a, d1) =>
        match d1.matchSynWithAccept s a with
        | (.matched, d2, e) => cleanupLoop fuel d2 (effs ++ e)
        | (.synInvalid a', d2, e) => cleanupLoop fuel { d2 with nextAcceptor := some a' } (effs ++ e)
        | (.receiverDead s', d2, e) => cleanupLoop fuel { d2 with syns := s' :: d2.syns } (effs ++ e)
        | (.full s' a', d2, e) => ({ d2 with syns := s' :: d2.syns, nextAcceptor := some a' }, effs ++ e)

def acceptorsWaiting (d : Disp) : Nat := d.accChan.length + (if d.nextAcceptor.isSome then 1 else 0)

def cleanupAcceptQueue (d : Disp) : Disp × List Eff :=
  if d.streamsFull then (d, []) else cleanupLoop (d.syns.length + d.acceptorsWaiting + 1) d []

/-- `get_next_free_conn_id` (the loop is bounded by the 32768 ids of one parity). -/
def nextFreeConnIdLoop : Nat → Disp → Nat → Disp
  | 0, d, _ => d
  | fuel + 1, d, addr =>
    if d.hasKey { addr := addr, id := d.nextConnId } then
      nextFreeConnIdLoop fuel { d with nextConnId := w16 (d.nextConnId + 2) } addr
    else d

def getNextFreeConnId (d : Disp) (addr : Nat) : Disp := nextFreeConnIdLoop 32768 d addr

def synHeader (connId seqNr : Nat) : Header :=
  { htype := TYPE_ST_SYN, connId := connId, ts := 0, tsDiff := 0, wnd := 0, seqNr := seqNr, ackNr := 0 }

def rstHeader (s : Syn) : Header :=
  { htype := TYPE_ST_RESET, connId := s.h.connId, ts := 0, tsDiff := 0, wnd := 0, seqNr := 0, ackNr := s.h.seqNr }

def ser (h : Header) : List Nat := (h.serialize 20).getD []

def slotsOf (d : Disp) (addr : Nat) : Option (List (Option Connecting)) :=
  (d.connecting.find? (·.1 = addr)).map (·.2)

def setSlots (d : Disp) (addr : Nat) (slots : Option (List (Option Connecting))) : Disp :=
  let others := d.connecting.filter (·.1 ≠ addr)
  match slots with
  | none => { d with connecting := others }
  | some s => { d with connecting := others ++ [(addr, s)] }

def emptySlots : List (Option Connecting) := List.replicate MAX_CONNECTING_PER_ADDR none

/-- `ConnectingPerAddr::insert`: first free slot. -/
def slotInsert : List (Option Connecting) → Connecting → Option (List (Option Connecting))
  | [], _ => none
  | none :: rest, c => some (some c :: rest)
  | some x :: rest, c => (slotInsert rest c).map (some x :: ·)

/-- `ConnectingPerAddr::pop` / `pop_by_token`: first slot satisfying `p`. -/
def slotPop (p : Connecting → Bool) : List (Option Connecting) → Option (Connecting × List (Option Connecting))
  | [] => none
  | none :: rest => (slotPop p rest).map (fun (c, r) => (c, none :: r))
  | some x :: rest => if p x then some (x, none :: rest) else (slotPop p rest).map (fun (c, r) => (c, some x :: r))

def slotsEmpty (s : List (Option Connecting)) : Bool := s.all (·.isNone)

/-- `on_control` -/
def onControl (d : Disp) : Ctl → Disp × List Eff
  | .connectRequest addr token =>
    if d.streamsFull then (d, [.connectErr token .tooMany]) else
    let d := d.getNextFreeConnId addr
    let connId := d.nextConnId
    let (seq, d) := d.random
    let bytes := ser (synHeader connId seq)
    match d.sendMode with
    | .short => (d, [.connectErr token .dispatcherDead])       -- request dropped without an answer
    | .fail => (d, [.connectErr token .sendingSyn])
    | .ok =>
      let slots := (d.slotsOf addr).getD emptySlots
      match slotInsert slots { token := token, seqNr := seq } with
      | some slots' =>
        ({ (d.setSlots addr (some slots')) with nextConnId := w16 (d.nextConnId + 2) }, [.sent addr bytes])
      | none =>
        -- all slots busy: the SYN went out, the request is dropped
        (d.setSlots addr (some slots), [.sent addr bytes, .connectErr token .dispatcherDead])
  | .connectDropped addr token =>
    match d.slotsOf addr with
    | none => (d, [])
    | some slots =>
      match slotPop (·.token = token) slots with
      | none => (d, [])
      | some (_, slots') => (d.setSlots addr (if slotsEmpty slots' then none else some slots'), [])
  | .shutdown k owner =>
    -- only the stream that is shutting down may remove the entry: the key may belong to a successor by now
    match owner with
    | none => (d.removeKey k, [])
    | some inst => if d.instOf k = some inst then (d.removeKey k, []) else (d, [])

/-- `on_maybe_connect_ack` -/
def onMaybeConnectAck (d : Disp) (addr : Nat) (h : Header) : Disp × List Eff :=
  if d.streamsFull then (d, []) else
  match d.slotsOf addr with
  | none => (d, [])
  | some slots =>
    match slotPop (·.seqNr = h.ackNr) slots with
    | none => (d, [])
    | some (c, slots') =>
      let d := d.setSlots addr (if slotsEmpty slots' then none else some slots')
      let k : Key := { addr := addr, id := h.connId }
      if d.deadReq.contains c.token then (d.removeKey k, [])     -- inserted, hand-over failed, removed
      else let (d', inst) := d.insertKey k; (d', [.connectOk c.token k inst])

/-- the `while let Some(acceptor)` loop of `on_syn`; returns the SYN if it is still unmatched -/
def onSynLoop : Nat → Disp → Syn → List Eff → Disp × Option Syn × List Eff
  | 0, d, s, effs => (d, some s, effs)
  | fuel + 1, d, s, effs =>
    match d.tryNextAcceptor with
    | (none, _) => (d, some s, effs)
    | (some a, d1) =>
      match d1.matchSynWithAccept s a with
      | (.matched, d2, e) => (d2, none, effs ++ e)
      | (.synInvalid a', d2, e) => ({ d2 with nextAcceptor := some a' }, none, effs ++ e)
      | (.receiverDead s', d2, e) => onSynLoop fuel d2 s' (effs ++ e)
      | (.full s' a', d2, e) => ({ d2 with nextAcceptor := some a' }, some s', effs ++ e)

/-- `on_syn`: a SYN is matched directly only when no earlier SYN is cached (arrival order) -/
def onSyn (d : Disp) (remote : Nat) (h : Header) : Disp × List Eff :=
  match (if d.syns.isEmpty then onSynLoop (d.acceptorsWaiting + 1) d { remote := remote, h := h } []
         else (d, some { remote := remote, h := h }, [])) with
  | (d, none, effs) => (d, effs)
  | (d, some s, effs) =>
    if d.syns.length < ACCEPT_QUEUE_MAX_SYNS then ({ d with syns := d.syns ++ [s] }, effs)
    else
      match d.sendMode with
      | .ok => (d, effs ++ [.sent s.remote (ser (rstHeader s))])
      | _ => (d, effs)          -- the RESET is best effort: send errors and short sends are ignored

/-- `on_recv` for a datagram that parsed -/
def onRecv (d : Disp) (addr : Nat) (h : Header) : Disp × List Eff :=
  let k : Key := { addr := addr, id := h.connId }
  if d.hasKey k then
    if (d.instOf k).any d.deadStreams.contains then (d.removeKey k, []) else (d, [.delivered k h])
  else if h.htype = TYPE_ST_STATE then d.onMaybeConnectAck addr h
  else if h.htype = TYPE_ST_SYN then d.onSyn addr h
  else (d, [])

/-- The event `select!` picked in one `run_once`. -/
inductive Event where
  | idle
  | acceptor                         -- `accept_queue.rx.recv()` (only when no acceptor is cached)
  | control (c : Ctl)
  | datagram (addr : Nat) (bytes : List Nat)
deriving Repr

/-- what `run_once` does with the event `select!` picked -/
def handle (d : Disp) (ev : Event) : Disp × List Eff :=
  match ev with
  | .idle => (d, [])
  | .acceptor =>
    match d.nextAcceptor, d.accChan with
    | none, a :: rest => ({ d with nextAcceptor := some a, accChan := rest }, [])
    | _, _ => (d, [])
  | .control c => d.onControl c
  | .datagram addr bytes =>
    match Message.deserialize bytes with
    | none => (d, [])
    | some (h, _) => d.onRecv addr h

/-- `run_once` -/
def runOnce (d : Disp) (ev : Event) : Disp × List Eff :=
  let (d, e0) := d.cleanupAcceptQueue
  let (d, e) := d.handle ev
  (d, e0 ++ e)

end Disp
end UtpVerif.Model
