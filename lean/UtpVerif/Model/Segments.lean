import UtpVerif.Model.SeqNr
import UtpVerif.Model.Wire
/-!
Model of `src/stream_tx_segments.rs`: metadata of the pre-segmented TX stream.
Times (`Instant`) are `Nat` nanoseconds; `Instant - Instant` saturates at zero (Rust ≥ 1.60).
Operations whose Rust code can panic (`-=` underflow in debug builds, `checked_sub().unwrap()`,
`range_mut(..take)` past the end) return `Option`, `none` = panic.
-/
namespace UtpVerif.Model
open UtpVerif.Gen

inductive SentStatus where
  | notSent
  | sentTime (t : Nat)
  | retransmitted (count : Nat) (lastSendTs : Nat)
deriving Repr, DecidableEq

structure Segment where
  payloadSize : Nat
  offsetAbs : Nat              -- payload_offset_absolute
  isDelivered : Bool := false
  sent : SentStatus := .notSent
  isMtuProbe : Bool := false
  isLost : Bool := false
  isExpired : Bool := false
  hasSacksAfterIt : Bool := false
deriving Repr, DecidableEq

namespace Segment
def retransmitCount (s : Segment) : Nat :=
  match s.sent with | .retransmitted c _ => c | _ => 0
def sendCount (s : Segment) : Nat :=
  match s.sent with | .notSent => 0 | .sentTime _ => 1 | .retransmitted c _ => c + 1
def lastSent (s : Segment) : Option Nat :=
  match s.sent with | .notSent => none | .sentTime t => some t | .retransmitted _ t => some t
/-- `on_sent(now)` -/
def onSent (s : Segment) (now : Nat) : Segment :=
  { s with sent := match s.sent with
      | .notSent => .sentTime now
      | .sentTime _ => .retransmitted 1 now
      | .retransmitted c _ => .retransmitted (c + 1) now }
end Segment

def rttMin (a b : Option Nat) : Option Nat :=
  match a, b with
  | none, none => none
  | none, some r => some r
  | some r, none => some r
  | some r1, some r2 => some (min r1 r2)

/-- `Segment::update_rtt(now, &mut rtt)`: only never-retransmitted segments give a sample (Karn). -/
def Segment.updateRtt (s : Segment) (now : Nat) (rtt : Option Nat) : Option Nat :=
  match s.sent with
  | .sentTime ts => rttMin rtt (some (now - ts))
  | _ => rtt

structure Segments where
  segs : List Segment := []
  lenBytes : Nat := 0
  offset : Nat := 0
  removedOffset : Nat := 0
  sackDepth : Nat := 0
  lastSackEmpty : Bool := false
  sndUna : Nat                 -- u16
deriving Repr, DecidableEq

structure OnAckResult where
  ackedSegmentsCount : Nat := 0
  ackedBytes : Nat := 0
  maxAckedPayloadSize : Nat := 0
  newlySackedSegmentCount : Nat := 0
  newlySackedByteCount : Nat := 0
  newRtt : Option Nat := none
deriving Repr, DecidableEq

inductive PopExpired where
  | expired (rewindTo : Nat) (payloadSize : Nat)
  | notExpired
  | empty
deriving Repr, DecidableEq

structure Pipe where
  pipe : Nat
  recalcTimer : Option Nat
deriving Repr, DecidableEq

/-- What `iter_mut_for_sending` yields for one segment. -/
structure SegView where
  idx : Nat                    -- index into `segs`
  seqNr : Nat
  payloadOffset : Nat
  seg : Segment
deriving Repr, DecidableEq

namespace Segments

def new (sndUna : Nat) : Segments := { sndUna := sndUna }

def firstSeqNr (s : Segments) : Option Nat := if s.segs.isEmpty then none else some s.sndUna

/-- `enqueue(payload_len, is_mtu_probe)` (always returns true). -/
def enqueue (s : Segments) (len : Nat) (probe : Bool) : Segments :=
  { s with segs := s.segs ++ [{ payloadSize := len, offsetAbs := s.offset, isMtuProbe := probe }],
           offset := s.offset + len, lenBytes := s.lenBytes + len }

/-- Sequence number of the last segment: `snd_una + len as u16 - 1` (wrapping). -/
def lastSegSeqNr (s : Segments) : Nat := wsub (wadd s.sndUna (s.segs.length % 65536)) 1

/-- `pop_mtu_probe(seq_nr)`: pops the last segment iff it is the undelivered probe `seq_nr`,
giving its bytes back to the unsegmented part of the stream. `none` = arithmetic underflow panic. -/
def popMtuProbe (s : Segments) (seqNr : Nat) : Option (Segments × Bool) :=
  match s.segs.getLast? with
  | none => some (s, false)
  | some last =>
    if s.lastSegSeqNr = seqNr ∧ last.isMtuProbe ∧ !last.isDelivered then
      if s.offset < last.payloadSize ∨ s.lenBytes < last.payloadSize then none else
      some ({ s with segs := s.segs.dropLast, offset := s.offset - last.payloadSize,
                     lenBytes := s.lenBytes - last.payloadSize }, true)
    else some (s, false)

/-- number of segments at the back of the queue that were never transmitted -/
def trailingUnsent : List Segment → Nat
  | [] => 0
  | g :: rest => if rest.all (fun x => x.sent = .notSent) ∧ g.sent = .notSent then rest.length + 1 else trailingUnsent rest

/-- `discard_unsent()`: the never-transmitted segments at the back go back to the unsegmented part of the stream. -/
def discardUnsent (s : Segments) : Segments :=
  let t := trailingUnsent s.segs
  let dropped := s.segs.drop (s.segs.length - t)
  let bytes := (dropped.map (·.payloadSize)).sum
  { s with segs := s.segs.take (s.segs.length - t), offset := s.offset - bytes, lenBytes := s.lenBytes - bytes }

/-- `pop_expired_mtu_probe(retransmit_timed_out, max_probe_retransmissions)`. -/
def popExpiredMtuProbe (s : Segments) (timedOut : Bool) (maxRetx : Nat) : Option (Segments × PopExpired) :=
  match s.segs.getLast? with
  | none => some (s, .empty)
  | some last =>
    if last.isDelivered then some (s, .empty)
    else if timedOut ∧ last.isMtuProbe ∧ last.retransmitCount ≥ maxRetx then
      if s.offset < last.payloadSize ∨ s.lenBytes < last.payloadSize then none else
      let s' := { s with segs := s.segs.dropLast, offset := s.offset - last.payloadSize,
                         lenBytes := s.lenBytes - last.payloadSize }
      some (s', .expired (wsub (wadd s'.sndUna (s'.segs.length % 65536)) 1) last.payloadSize)
    else if last.isMtuProbe then some (s, .notExpired)
    else some (s, .empty)

/-- Accumulator of `remove_up_to_ack`. -/
structure AckAcc where
  removed : Nat := 0
  payloadSize : Nat := 0
  newlySackedSegs : Nat := 0
  newlySackedBytes : Nat := 0
  maxAcked : Nat := 0
  newRtt : Option Nat := none
deriving Repr

/-- The cumulative drain: remove the first `n` segments. `none` = `len_bytes -=` underflow. -/
def drainFront (now : Nat) : Nat → Segments → AckAcc → Option (Segments × AckAcc)
  | 0, s, a => some (s, a)
  | n + 1, s, a =>
    match s.segs with
    | [] => some (s, a)
    | seg :: rest =>
      if s.lenBytes < seg.payloadSize then none else
      drainFront now n
        { s with segs := rest, sndUna := wadd s.sndUna 1, lenBytes := s.lenBytes - seg.payloadSize }
        { a with removed := a.removed + 1, payloadSize := a.payloadSize + seg.payloadSize,
                 maxAcked := max a.maxAcked seg.payloadSize, newRtt := seg.updateRtt now a.newRtt }

/-- `process_sack` zipped over segments and bits. -/
def markSacked (now : Nat) : List Segment → List Bool → AckAcc → List Segment × AckAcc
  | [], _, a => ([], a)
  | segs, [], a => (segs, a)
  | seg :: rest, bit :: bits, a =>
    if !seg.isDelivered ∧ bit then
      let a' := { a with newRtt := seg.updateRtt now a.newRtt, maxAcked := max a.maxAcked seg.payloadSize,
                         newlySackedSegs := a.newlySackedSegs + 1,
                         newlySackedBytes := a.newlySackedBytes + seg.payloadSize }
      let r := markSacked now rest bits a'
      ({ seg with isDelivered := true } :: r.1, r.2)
    else
      let r := markSacked now rest bits a
      (seg :: r.1, r.2)

/-- The front clean-up loop: pop delivered segments. `none` = underflow panic. -/
def cleanupFront : Nat → Segments → AckAcc → Option (Segments × AckAcc)
  | 0, s, a => some (s, a)
  | n + 1, s, a =>
    match s.segs with
    | [] => some (s, a)
    | seg :: rest =>
      if !seg.isDelivered then some (s, a) else
      if s.lenBytes < seg.payloadSize then none else
      cleanupFront n
        { s with segs := rest, sndUna := wadd s.sndUna 1, lenBytes := s.lenBytes - seg.payloadSize }
        { a with removed := a.removed + 1, payloadSize := a.payloadSize + seg.payloadSize }

def sackBits (sk : Sack) : List Bool := (List.range 64).map sk.bit

/-- `remove_up_to_ack(now, ack_header)`. -/
def removeUpToAck (s : Segments) (now : Nat) (ackNr : Nat) (sack : Option Sack) : Option (Segments × OnAckResult) :=
  let offset := seqSub ackNr s.sndUna
  let r1 := if offset ≥ 0 then drainFront now (min (offset.toNat + 1) s.segs.length) s {} else some (s, {})
  match r1 with
  | none => none
  | some (s1, a1) =>
    let (s2, a2) :=
      match s1.firstSeqNr, sack with
      | some first, some sk =>
        if seqGt first ackNr then
          let sackStart := wadd ackNr 2
          let sso := seqSub sackStart first
          let bits := sackBits sk
          let (segs', a) :=
            if sso ≥ 0 then
              let r := markSacked now (s1.segs.drop sso.toNat) bits a1
              (s1.segs.take sso.toNat ++ r.1, r.2)
            else
              markSacked now s1.segs (bits.drop (-sso).toNat) a1
          ({ s1 with segs := segs', sackDepth := sk.len, lastSackEmpty := sk.countOnes = 0 }, a)
        else (s1, a1)
      | _, _ => (s1, a1)
    match cleanupFront (s2.segs.length + 1) s2 a2 with
    | none => none
    | some (s3, a3) =>
      some ({ s3 with removedOffset := s3.removedOffset + a3.payloadSize },
        { ackedSegmentsCount := a3.removed, ackedBytes := a3.payloadSize, maxAckedPayloadSize := a3.maxAcked,
          newlySackedSegmentCount := a3.newlySackedSegs, newlySackedByteCount := a3.newlySackedBytes,
          newRtt := a3.newRtt })

/-- `calc_flight_size(last_sent_seq_nr)`. -/
def calcFlightSize (s : Segments) (lastSentSeqNr : Nat) : Nat :=
  let take := (seqSub lastSentSeqNr s.sndUna + 1).toNat
  ((s.segs.take take).map (fun g => if g.isDelivered then 0 else g.payloadSize)).sum

structure PipeAcc where
  pipe : Nat := 0
  deliveredSegs : Nat := 0
  recalcTimer : Option Nat := none

/-- One step of the reversed loop in `calc_pipe` for the segment at index `off`. -/
def pipeStep (s : Segments) (highRxt thr now : Nat) (off : Nat) (seg : Segment) (a : PipeAcc) : Segment × PipeAcc :=
  match seg.lastSent with
  | none => (seg, a)                                     -- filter_map drops never-sent segments
  | some lastSent =>
    if seg.isDelivered then (seg, { a with deliveredSegs := a.deliveredSegs + 1 }) else
    let seqNr := wadd s.sndUna (off % 65536)
    let hasSacks := a.deliveredSegs > 0 || s.lastSackEmpty
    let pipe1 := if seqLe seqNr highRxt then a.pipe + seg.payloadSize else a.pipe
    let expired := decide (now - lastSent ≥ thr)
    let lost := if off > s.sackDepth + 1 then expired else (decide (a.deliveredSegs ≥ 3) || expired)
    let pipe2 := if !lost then pipe1 + seg.payloadSize else pipe1
    let timer := if !expired ∧ !lost then some (lastSent + thr) else a.recalcTimer
    ({ seg with hasSacksAfterIt := hasSacks, isExpired := expired, isLost := lost },
     { a with pipe := pipe2, recalcTimer := timer })

/-- Process `segs[0..n)` from the highest index down. -/
def pipeLoop (s : Segments) (highRxt thr now : Nat) : List (Nat × Segment) → PipeAcc → List Segment × PipeAcc
  | [], a => ([], a)
  | (off, seg) :: rest, a =>
    -- `rest` holds the lower indices; they are processed after this one (reverse order)
    let (seg', a') := pipeStep s highRxt thr now off seg a
    let r := pipeLoop s highRxt thr now rest a'
    (seg' :: r.1, r.2)

/-- `calc_pipe(high_rxt, high_data, rtt, now)`; `none` = `range_mut(..take)` out of range. -/
def calcPipe (s : Segments) (highRxt highData rtt now : Nat) : Option (Segments × Pipe) :=
  let take := (seqSub highData s.sndUna).toNat
  if take > s.segs.length then none else
  let thr := rtt * PIPE_EXPIRY_NUM / PIPE_EXPIRY_DEN
  let indexed := ((s.segs.take take).zipIdx).map (fun p => (p.2, p.1))
  let (revSegs, a) := pipeLoop s highRxt thr now indexed.reverse {}
  some ({ s with segs := revSegs.reverse ++ s.segs.drop take }, { pipe := a.pipe, recalcTimer := a.recalcTimer })

def mkView (s : Segments) (offset : Nat) (p : Segment × Nat) : SegView :=
  { idx := offset + p.2, seqNr := wadd s.sndUna ((offset + p.2) % 65536),
    payloadOffset := p.1.offsetAbs - s.removedOffset, seg := p.1 }

/-- `iter_mut_for_sending(start)`: views of the undelivered segments from `start`; `none` = the
`checked_sub(removed_abs).unwrap()` panic. -/
def iterForSending (s : Segments) (start : Option Nat) : Option (List SegView) :=
  let offset := match start with
    | some st => (seqSub st s.sndUna).toNat
    | none => 0
  let offset := if offset ≥ s.segs.length then s.segs.length else offset
  let views := ((s.segs.drop offset).zipIdx).map (fun p =>
    if p.1.offsetAbs < s.removedOffset then none else some (s.mkView offset p))
  if views.any Option.isNone then none else
  some ((views.filterMap id).filter (fun v => !v.seg.isDelivered))

/-- `SegmentForSending::on_sent(now)` applied to the segment at `idx`. -/
def onSent (s : Segments) (idx now : Nat) : Segments :=
  match s.segs[idx]? with
  | none => s
  | some g => { s with segs := s.segs.set idx (g.onSent now) }

/-- Write back flags changed through a view (the recovery loop does not change any). -/
def totalLenPackets (s : Segments) : Nat := s.segs.length

end Segments
end UtpVerif.Model
