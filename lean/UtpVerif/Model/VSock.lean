import UtpVerif.Model.SeqNr
import UtpVerif.Model.Wire
import UtpVerif.Model.Rtte
import UtpVerif.Model.Mtu
import UtpVerif.Model.TxRing
import UtpVerif.Model.Rx
import UtpVerif.Model.Segments
import UtpVerif.Model.Recovery
/-!
Model of `src/stream_dispatch.rs`: one connection's state machine, `VirtualSocket::poll`, written
phase by phase in the order of the Rust function.

Environment of one poll (`Ctx`): the clock, the transport's scripted behaviour, the congestion
controller interaction (`Cc`), and the outputs: datagrams handed to the transport, wake events,
the re-poll request (`tokio::time::Sleep`).
-/
namespace UtpVerif.Model
open UtpVerif.Gen

inductive VState where
  | synReceived
  | synAckSent (count : Nat)
  | established
  | finWait1 (ourFin : Nat)
  | finWait2
  | lastAck (ourFin remoteFin : Nat)
  | closed
deriving Repr, DecidableEq

namespace VState
def isClosed (s : VState) (waitForLastAck : Bool) : Bool :=
  match s with
  | .closed => true
  | .lastAck _ _ => !waitForLastAck
  | _ => false
def isLocalFinOrLater : VState → Bool
  | .synReceived | .synAckSent _ | .established => false
  | _ => true
def ourFinIfUnacked : VState → Option Nat
  | .finWait1 f => some f
  | .lastAck f _ => some f
  | _ => none
def isRemoteFinOrLater : VState → Bool
  | .lastAck _ _ | .closed => true
  | _ => false
end VState

/-- `Timer::{Idle, Armed{expires_at}}` as `Option Nat`. -/
abbrev Timer := Option Nat

namespace Timer
def expired (t : Timer) (now : Nat) : Bool := match t with | none => false | some e => e ≤ now
/-- `arm(now, delay, restart)` -/
def arm (t : Timer) (now delay : Nat) (restart : Bool) : Timer :=
  match t with
  | none => some (now + delay)
  | some e => if restart then some (now + delay) else some (min e (now + delay))
end Timer

structure Timers where
  retransmit : Timer := none
  inactivity : Timer := none
  ackDelay : Timer := none
  pipeExpiry : Timer := none
  synAckResend : Timer := none
  sleep : Nat := 0                      -- deadline the `tokio::time::Sleep` was last reset to
  sleepRegistered : Bool := false       -- our waker is registered with it and it has not fired yet
deriving Repr, DecidableEq

structure Opts where
  maxRetx : Nat := DEFAULT_MAX_RETRANSMISSIONS
  inactivityTimeout : Nat := DEFAULT_REMOTE_INACTIVITY_TIMEOUT
  nagle : Bool := true
  waitForLastAck : Bool := true
  mtuProbeMaxRetx : Nat := DEFAULT_MTU_PROBE_MAX_RETRANSMISSIONS
  txMax : Nat := TX_BUF_SIZE_PER_VSOCK_MAX_DEFAULT
  rxBufSize : Nat := RX_BUF_SIZE_PER_VSOCK_DEFAULT
deriving Repr, DecidableEq

structure Msg where
  h : Header
  payload : List Nat := []
deriving Repr, DecidableEq

inductive VErr where
  | stResetReceived
  | remoteInactiveForTooLong
  | maxRetransmissionsReached
  | maxSynAckRetransmissionsReached
  | send (what : String)                       -- `Error::Send(io::Error)`; `what` = its text
  | zeroPayloadStData
  | serializeTooSmallBuffer
  | bug (name : String)                        -- one of the `Bug*` variants
  | panic (site : String)                      -- the real code would panic here
deriving Repr, DecidableEq

/-- `format!("{e:#}")` of the error, as enqueued for the reader. -/
def VErr.text : VErr → String
  | .stResetReceived => "ST_RESET received"
  | .remoteInactiveForTooLong => "remote was inactive for too long"
  | .maxRetransmissionsReached => "max number of retransmissions reached"
  | .maxSynAckRetransmissionsReached => "max syn-ack retransmissions reached"
  | .send w => s!"error sending UDP packet: {w}"
  | .zeroPayloadStData => "ST_DATA has zero payload"
  | .serializeTooSmallBuffer => "serialize: too small buffer"
  | .bug n => s!"bug: {n}"
  | .panic s => s!"panic: {s}"

def VErr.isBug : VErr → Bool
  | .bug _ | .panic _ => true
  | _ => false

/-- Scripted transport: what the `i`-th send attempt of this poll with a datagram of `len` bytes does. -/
inductive TransportMode where
  | ok
  | pendingAfter (k : Nat)        -- attempts `≥ k` return `Poll::Pending`
  | limit (maxLen : Nat)          -- datagrams longer than `maxLen` fail with EMSGSIZE
  | failAfter (k : Nat)           -- attempts `≥ k` fail with another I/O error
deriving Repr, DecidableEq

inductive SendOutcome where
  | sent | pending | emsgsize | error
deriving Repr, DecidableEq

def TransportMode.outcome (m : TransportMode) (i len : Nat) : SendOutcome :=
  match m with
  | .ok => .sent
  | .pendingAfter k => if i ≥ k then .pending else .sent
  | .limit l => if len > l then .emsgsize else .sent
  | .failAfter k => if i ≥ k then .error else .sent

structure Ctx where
  now : Nat
  transport : TransportMode := .ok
  sends : Nat := 0                      -- send attempts so far in this poll
  cc : Cc := {}
  out : List (List Nat) := []           -- datagrams accepted by the transport, in order
  wakes : List Wake := []
deriving Repr

def U64MAX : Nat := 18446744073709551615

structure VSock where
  state : VState
  opts : Opts
  socketCreated : Nat
  connIdSend : Nat
  timers : Timers := {}
  lastRemoteTimestamp : Nat
  lastRemoteWindow : Nat
  seqNr : Nat
  rtoRetransmissions : Nat := 0
  lastSentSeqNr : Nat
  lastConsumedRemoteSeqNr : Nat
  lastSentAckNr : Nat
  lastSentWindow : Nat
  consumedButUnackedBytes : Nat := 0
  -- the per-connection channel from the socket dispatcher
  rxQueue : List Msg := []
  rxClosed : Bool := false
  rxWakerRegistered : Bool := false
  rx : Rx
  tx : TxRing
  segs : Segments
  ss : SegSizes
  rtte : Rtte := Rtte.init
  recovery : Recovery := {}
  -- this_poll
  transportPending : Bool := false
  restart : Bool := false
  unsegmentedData : Nat := 0
  pollNow : Nat := 0
deriving Repr

/-- An error together with the state at the point where the Rust code returns it (`self` is mutated
in place, so everything done before the `?` persists into the death path). -/
structure Fail where
  e : VErr
  v : VSock
  c : Ctx

abbrev R (α : Type) := Except Fail α

namespace VSock

def stateIsClosed (v : VSock) : Bool := v.state.isClosed v.opts.waitForLastAck

def timestampMicros (v : VSock) (now : Nat) : Nat := ((now - v.socketCreated) / 1000) % 4294967296

def wsub32 (a b : Nat) : Nat := (a + 4294967296 - b % 4294967296) % 4294967296

/-- `rx_window()` -/
def rxWindow (v : VSock) : Nat :=
  let wnd := v.rx.remainingRxWindow % 4294967296
  let rmss := v.ss.mss
  if wnd < rmss then 0 else wnd - wnd % rmss

/-- `outgoing_header()` -/
def outgoingHeader (v : VSock) : Header :=
  let ts := v.timestampMicros v.pollNow
  { htype := TYPE_ST_STATE, connId := v.connIdSend, ts := ts, tsDiff := wsub32 ts v.lastRemoteTimestamp,
    wnd := v.rxWindow, seqNr := v.seqNr, ackNr := v.lastConsumedRemoteSeqNr }

/-- `on_packet_sent!` -/
def onPacketSent (v : VSock) (h : Header) : VSock :=
  { v with lastSentAckNr := h.ackNr, lastSentWindow := h.wnd, consumedButUnackedBytes := 0,
           timers := { v.timers with ackDelay := none } }

/-- Hand a datagram to the transport. -/
def transportSend (c : Ctx) (bytes : List Nat) : Ctx × SendOutcome :=
  let o := c.transport.outcome c.sends bytes.length
  let c := { c with sends := c.sends + 1 }
  match o with
  | .sent => ({ c with out := c.out ++ [bytes] }, o)
  | _ => (c, o)

/-- `send_control_packet(header)` → whether it was sent. -/
def sendControlPacket (v : VSock) (c : Ctx) (h : Header) : R (VSock × Ctx × Bool) :=
  if v.transportPending then pure (v, c, false) else
  match h.serialize (v.ss.maxSs + UTP_HEADER) with      -- tmp_buf has max_ss + 20 bytes (fixed at creation)
  | none => throw ⟨.serializeTooSmallBuffer, v, c⟩
  | some bytes =>
    let (c, o) := transportSend c bytes
    match o with
    | .sent => pure (v.onPacketSent h, c, true)
    | .pending => pure ({ v with transportPending := true }, c, false)
    | .emsgsize => throw ⟨(.send "Message too long (os error 90)"), v, c⟩
    | .error => throw ⟨(.send "scripted transport failure"), v, c⟩

/-- `send_ack()` -/
def sendAck (v : VSock) (c : Ctx) : R (VSock × Ctx × Bool) :=
  let h := { v.outgoingHeader with sack := v.rx.ooq.selectiveAck }
  v.sendControlPacket c h

inductive DataSend where
  | sent | pending | emsgsize
deriving Repr, DecidableEq

/-- The header `send_data!` puts on an ST_DATA: the reused `header` with type, sequence number and
fresh timestamps. -/
def dataHeader (v : VSock) (c : Ctx) (h : Header) (view : SegView) : Header :=
  { h with htype := TYPE_ST_DATA, seqNr := view.seqNr, ts := v.timestampMicros c.now,
           tsDiff := wsub32 (v.timestampMicros c.now) v.lastRemoteTimestamp }

/-- `send_data!(self, cx, header, segment)`; `view` is the segment, `h` the header being reused. -/
def sendData (v : VSock) (c : Ctx) (h : Header) (view : SegView) : R (VSock × Ctx × DataSend) :=
  if view.seg.retransmitCount = v.opts.maxRetx then throw ⟨.maxRetransmissionsReached, v, c⟩ else
  let h := v.dataHeader c h view
  match h.serialize UTP_HEADER with
  | none => throw ⟨.serializeTooSmallBuffer, v, c⟩
  | some hb =>
    match TxRing.prepare2 [] v.tx.ring view.payloadOffset view.seg.payloadSize with
    | .bugOffset => throw ⟨(.bug "offset beyond buffer bounds"), v, c⟩
    | .bugLength => throw ⟨(.bug "requested length exceeds buffer bounds"), v, c⟩
    | .ok payload =>
      let (c, o) := transportSend c (hb ++ payload)
      match o with
      | .error => throw ⟨(.send "scripted transport failure"), v, c⟩
      | .emsgsize => pure (v, c, .emsgsize)
      | .pending => pure ({ v with transportPending := true }, c, .pending)
      | .sent =>
        let v := { v with segs := v.segs.onSent view.idx c.now }
        let v := v.onPacketSent h
        let v := if seqGt view.seqNr v.lastSentSeqNr then
                   { v with lastSentSeqNr := view.seqNr, seqNr := wadd view.seqNr 1 } else v
        let v := { v with timers := { v.timers with
                     retransmit := Timer.arm v.timers.retransmit v.pollNow v.rtte.rto false,
                     inactivity := Timer.arm v.timers.inactivity v.pollNow v.opts.inactivityTimeout false } }
        pure (v, c, .sent)

/-- `maybe_send_fin()` -/
def maybeSendFin (v : VSock) (c : Ctx) : R (VSock × Ctx × Bool) :=
  if v.transportPending then pure (v, c, false) else
  match v.state.ourFinIfUnacked with
  | none => pure (v, c, false)
  | some fin =>
    if seqSub fin v.lastSentSeqNr ≠ 1 then pure (v, c, false) else
    let h := { v.outgoingHeader with htype := TYPE_ST_FIN, seqNr := fin }
    match v.sendControlPacket c h with
    | .error e => throw e
    | .ok (v, c, sent) =>
      if sent then
        pure ({ v with timers := { v.timers with retransmit := Timer.arm v.timers.retransmit v.pollNow v.rtte.rto false },
                       lastSentSeqNr := fin }, c, true)
      else pure (v, c, false)

def restartInactivity (v : VSock) : VSock :=
  { v with timers := { v.timers with inactivity := Timer.arm v.timers.inactivity v.pollNow v.opts.inactivityTimeout true } }

def immediateAckToTransmit (v : VSock) : Bool :=
  v.consumedButUnackedBytes ≥ IMMEDIATE_ACK_EVERY_RMSS * v.ss.mss

def forceImmediateAck (v : VSock) : VSock := { v with consumedButUnackedBytes := U64MAX }

def ackToTransmit (v : VSock) : Bool := seqGt v.lastConsumedRemoteSeqNr v.lastSentAckNr

def shouldSendWindowUpdate (v : VSock) : Bool :=
  if v.state.isRemoteFinOrLater then false else
  (v.rxWindow = 0) != (v.lastSentWindow = 0)

/-- the part of `send_tx_queue` that runs when the retransmit timer has expired.
Returns `true` in the last component if `send_tx_queue` must return right away. -/
def rtoPhase (v : VSock) (c : Ctx) (h : Header) : R (VSock × Ctx × Bool) :=
  match v.segs.iterForSending none with
  | none => throw ⟨(.panic "iter_mut_for_sending"), v, c⟩
  | some views =>
    match views.head? with
    | some seg =>
      match v.sendData c h seg with
      | .error e => throw e
      | .ok (v, c, .sent) =>
        let (v, c) :=
          if !seg.seg.isMtuProbe then
            let c := { c with cc := c.cc.call "on_retransmission_timeout" }
            ({ v with rtte := v.rtte.onRtoTimeout, recovery := v.recovery.onRtoTimeout v.lastSentSeqNr }, c)
          else (v, c)
        let v := { v with timers := { v.timers with retransmit := Timer.arm v.timers.retransmit v.pollNow v.rtte.rto true },
                          lastSentSeqNr := seg.seqNr, rtoRetransmissions := v.rtoRetransmissions + 1 }
        pure (v, c, false)
      | .ok (v, c, .pending) => pure (v, c, true)
      | .ok (_, _, .emsgsize) => throw ⟨(.send "Message too long (os error 90)"), v, c⟩
    | none =>
      match v.state.ourFinIfUnacked with
      | some fin =>
        if v.lastSentSeqNr = fin then
          let v := { v with lastSentSeqNr := wsub v.lastSentSeqNr 1 }
          match v.maybeSendFin c with
          | .error e => throw e
          | .ok (v, c, sent) =>
            if sent then
              let c := { c with cc := c.cc.call "on_retransmission_timeout" }
              let v := { v with rtte := v.rtte.onRtoTimeout, recovery := v.recovery.onRtoTimeout v.lastSentSeqNr }
              pure ({ v with timers := { v.timers with retransmit := Timer.arm v.timers.retransmit v.pollNow v.rtte.rto true } }, c, false)
            else pure (v, c, false)
        else pure ({ v with timers := { v.timers with retransmit := none } }, c, false)
      | none => pure ({ v with timers := { v.timers with retransmit := none } }, c, false)

structure RecLoop where
  st : Recovering
  cwnd : Nat
  sent : Nat

/-- The `while rec.total_retransmitted_segments() == 0 || cwnd > mss` loop of recovery.
Returns `none` for the early `return Ok(())` on a pending transport. -/
def recoveryLoop (h : Header) (mss : Nat) : List SegView → VSock → Ctx → RecLoop → R (VSock × Ctx × RecLoop × Bool)
  | [], v, c, l => pure (v, c, l, false)
  | seg :: rest, v, c, l =>
    if ¬ (l.st.totalRetransmittedSegments = 0 ∨ l.cwnd > mss) then pure (v, c, l, false) else
    if l.st.totalRetransmittedSegments > 0 ∧ !seg.seg.isLost then recoveryLoop h mss rest v c l else
    if l.st.totalRetransmittedSegments > 0 ∧ !seg.seg.hasSacksAfterIt then pure (v, c, l, false) else
    match v.sendData c h seg with
    | .error e => throw e
    | .ok (_, _, .emsgsize) => throw ⟨(.send "Message too long (os error 90)"), v, c⟩
    | .ok (v, c, .pending) => pure (v, c, l, true)
    | .ok (v, c, .sent) =>
      let rec' := { l.st with highRxt := seg.seqNr, totalRetransmittedSegments := l.st.totalRetransmittedSegments + 1,
                               pipe := { l.st.pipe with pipe := l.st.pipe.pipe + seg.seg.payloadSize } }
      recoveryLoop h mss rest v c { st := rec', cwnd := l.cwnd - seg.seg.payloadSize, sent := l.sent + 1 }

/-- The final loop of `send_tx_queue`: first transmissions up to the window. -/
def newDataLoop (h : Header) : List SegView → VSock → Ctx → Nat → R (VSock × Ctx × Option (Nat × Nat))
  | [], v, c, _ => pure (v, c, none)
  | item :: rest, v, c, remaining =>
    if remaining < item.seg.payloadSize then
      -- a size probe that was never sent and does not fit while nothing is in flight would wait for ever (no ACK is
      -- coming to open the window): the caller re-segments it; reported as size 0 (D23)
      if v.segs.calcFlightSize v.lastSentSeqNr = 0 ∧ item.seg.isMtuProbe ∧ item.seg.sendCount = 0
      then pure (v, c, some (item.seqNr, 0)) else pure (v, c, none)
    else
    match v.sendData c h item with
    | .error e => throw e
    | .ok (v, c, .sent) => newDataLoop h rest v c (remaining - item.seg.payloadSize)
    | .ok (v, c, .pending) => pure (v, c, none)
    | .ok (v, c, .emsgsize) => pure (v, c, some (item.seqNr, item.seg.payloadSize))

/-- `send_tx_queue()` -/
def sendTxQueue (v : VSock) (c : Ctx) : R (VSock × Ctx) := do
  if v.transportPending then return (v, c)
  let h := v.outgoingHeader
  let (v, c) ← if Timer.expired v.timers.retransmit v.pollNow then
      match v.rtoPhase c h with
      | .error e => throw e
      | .ok (v, c, true) => return (v, c)
      | .ok (v, c, false) => pure (v, c)
    else pure (v, c)
  if v.rtoRetransmissions > 0 then return (v, c)
  if v.segs.segs.isEmpty then return (v, c)
  -- recovery
  let (v, c) ← match v.recovery.phase with
    | .recovering rec =>
      match v.segs.iterForSending none with
      | none => throw ⟨(.panic "iter_mut_for_sending"), v, c⟩
      | some views =>
        let it := ((views.take (v.segs.sackDepth + 1)).dropWhile (fun s => seqLe s.seqNr rec.highRxt)).takeWhile
                    (fun s => seqLe s.seqNr rec.recoveryPoint)
        let mss := v.ss.mss
        match recoveryLoop h mss it v c { st := rec, cwnd := Recovery.Recovering.cwndLeft rec, sent := 0 } with
        | .error e => throw e
        | .ok (v, c, l, true) =>
          -- transport pending: `return Ok(())`; `rec` was updated in place by the sends that succeeded
          return ({ v with recovery := { v.recovery with phase := .recovering l.st } }, c)
        | .ok (v, c, l, false) =>
          let v := { v with recovery := { v.recovery with phase := .recovering l.st } }
          let armed := Timer.arm v.timers.pipeExpiry v.pollNow (v.rtte.roundtripTime * PIPE_EXPIRY_NUM / PIPE_EXPIRY_DEN) true
          let v := if l.cwnd < mss then
              match l.st.pipe.recalcTimer with
              | some t => { v with timers := { v.timers with pipeExpiry := some t } }
              | none => if l.sent > 0 then { v with timers := { v.timers with pipeExpiry := armed } } else v
            else v
          match v.state.ourFinIfUnacked with
          | some fin =>
            if l.st.highRxt = wsub fin 1 then
              let rec' := { l.st with highRxt := fin, totalRetransmittedSegments := l.st.totalRetransmittedSegments + 1 }
              return ({ v with lastSentSeqNr := wsub fin 1, recovery := { v.recovery with phase := .recovering rec' } }, c)
            else pure (v, c)
          | none => pure (v, c)
    | _ => pure (v, c)
  let (remaining, c) :=
    match v.recovery.remainingCwnd v.lastRemoteWindow with
    | some r => (r, c)
    | none =>
      let (w, cc) := c.cc.read "window"
      (min w v.lastRemoteWindow - v.segs.calcFlightSize v.lastSentSeqNr, { c with cc := cc })
  match v.segs.iterForSending (some (wadd v.lastSentSeqNr 1)) with
  | none => throw ⟨(.panic "iter_mut_for_sending"), v, c⟩
  | some views =>
    match newDataLoop h views v c remaining with
    | .error e => throw e
    | .ok (v, c, none) => return (v, c)
    | .ok (v, c, some (seqNr, size)) =>
      if size = 0 then
        -- the probe did not fit the window with nothing in flight: its bytes are segmented again at a proven size
        match v.segs.popMtuProbe seqNr with
        | none => throw ⟨(.panic "pop_mtu_probe underflow"), v, c⟩
        | some (segs', true) => return ({ v with segs := segs', ss := v.ss.skipNextProbe, restart := true }, c)
        | some (_, false) => return (v, c)
      else
      match v.segs.popMtuProbe seqNr with
      | none => throw ⟨(.panic "pop_mtu_probe underflow"), v, c⟩
      | some (segs', true) =>
        return ({ v with segs := segs', ss := (v.ss.onProbeFailed size).disarmCooldown, restart := true }, c)
      | some (_, false) => throw ⟨(.bug "got EMSGSIZE error, but the last message was not a matching MTU probe that we could pop."), v, c⟩

/-- `maybe_send_ack()` -/
def maybeSendAck (v : VSock) (c : Ctx) : R (VSock × Ctx × Bool) :=
  if v.immediateAckToTransmit then v.sendAck c
  else if v.shouldSendWindowUpdate then v.sendAck c
  else if Timer.expired v.timers.ackDelay v.pollNow then
    if v.ackToTransmit then v.sendAck c
    else pure ({ v with timers := { v.timers with ackDelay := none } }, c, false)
  else if v.consumedButUnackedBytes > 0 then
    pure ({ v with timers := { v.timers with ackDelay := Timer.arm v.timers.ackDelay v.pollNow ACK_DELAY false } }, c, false)
  else pure (v, c, false)

/-- The segmentation loop of `split_tx_queue_into_segments`. `fuel` bounds the iterations by the
bytes remaining (each iteration segments at least one byte). -/
def segmentLoop : Nat → VSock → Nat → Nat → VSock × Nat
  | 0, v, remaining, _ => (v, remaining)
  | fuel + 1, v, remaining, windowRemaining =>
    -- (the queue is capped in segments: 16-bit sequence arithmetic must hold however small the segments are - D25)
    if ¬ (remaining > 0 ∧ windowRemaining > 0 ∧ v.segs.segs.length < MAX_TX_SEGMENTS) then (v, remaining) else
    let (ss', ssz) := v.ss.nextSegmentSize
    let v := { v with ss := ss' }
    let minSs := v.ss.mss
    let maxPayload := min ssz windowRemaining
    let payload := min maxPayload remaining
    if v.opts.nagle ∧ payload ≠ maxPayload ∧ !v.segs.segs.isEmpty then (v, remaining) else
    let probe := decide (payload > minSs)
    let v := { v with segs := v.segs.enqueue payload probe }
    if probe then (v, remaining - payload)
    else segmentLoop fuel v (remaining - payload) (windowRemaining - payload)

/-- `split_tx_queue_into_segments()` -/
def splitTxQueue (v : VSock) (c : Ctx) : R (VSock × Ctx) :=
  let txLen := v.tx.ring.length
  if txLen = 0 then pure ({ v with tx := v.tx.registerDispatcher }, c) else
  let (w, cc) := c.cc.read "window"
  let c := { c with cc := cc }
  let growLimit := min (min w v.lastRemoteWindow) v.opts.txMax
  let cap := v.tx.cap
  let (v, c) :=
    if cap < growLimit ∧ txLen * 10 > cap * 9 then
      match v.tx.grow v.opts.txMax with
      | (tx', some _) =>
        let (tx'', ws) := tx'.takeWriterWaker
        ({ v with tx := tx'' }, { c with wakes := c.wakes ++ ws })
      | (tx', none) => ({ v with tx := tx' }, c)
    else (v, c)
  if v.state.isRemoteFinOrLater then pure (v, c) else
  match v.segs.popExpiredMtuProbe (Timer.expired v.timers.retransmit v.pollNow) v.opts.mtuProbeMaxRetx with
  | none => throw ⟨(.panic "pop_expired_mtu_probe underflow"), v, c⟩
  | some (_, .notExpired) => pure ({ v with unsegmentedData := txLen - v.segs.lenBytes }, c)
  | some (segs', res) =>
    let v := { v with segs := segs' }
    let v := match res with
      | .expired rewindTo payloadSize =>
        -- "not a real RTO" only if the probe was all that was outstanding
        let v := if v.segs.calcFlightSize rewindTo = 0 then
            { v with timers := { v.timers with retransmit := none }, rtoRetransmissions := 0 } else v
        let v := if seqGt v.lastSentSeqNr rewindTo then { v with lastSentSeqNr := rewindTo } else v
        { v with ss := v.ss.onProbeFailed payloadSize }
      | _ => v
    let segmentedLen := v.segs.lenBytes
    if txLen < segmentedLen then throw ⟨(.bug "bug in buffer computations"), v, c⟩ else
    let (v, remaining) := segmentLoop (txLen - segmentedLen + 1) v (txLen - segmentedLen) v.lastRemoteWindow
    pure ({ v with unsegmentedData := remaining }, c)

/-- `just_before_death(error)` -/
def justBeforeDeath (v : VSock) (c : Ctx) (err : Option VErr) : VSock × Ctx :=
  let (rx, ws1) := match err with
    | some e => v.rx.enqueueError e.text
    | none => (v.rx, [])
  let (rx, ws2) := rx.markVsockClosed
  let (tx, ws3) := v.tx.markVsockClosed
  let v := { v with rx := rx, tx := tx }
  let c := { c with wakes := c.wakes ++ ws1 ++ ws2 ++ ws3 }
  if err.isSome ∧ !v.state.isLocalFinOrLater then
    let h := { v.outgoingHeader with htype := TYPE_ST_FIN, seqNr := v.seqNr }
    let v := { v with seqNr := wadd v.seqNr 1 }
    match v.sendControlPacket c h with
    | .ok (v, c, _) => (v, c)
    | .error _ => (v, c)        -- "error sending FIN" is only traced; state changes of the failed send are none
  else (v, c)

/-- The FIN takes the number after the last queued segment (`next_seq_nr()`), not `seq_nr`: re-sending segments
after an RTO sets `seq_nr` back to one past the segment just re-sent (D26). -/
def transitionToFinWait1 (v : VSock) : VSock :=
  match v.state with
  | .established | .synReceived | .synAckSent _ =>
    let fin := wadd v.segs.sndUna (v.segs.segs.length % 65536)
    { v with state := .finWait1 fin, seqNr := wadd fin 1 }
  | _ => v

/-- Outcome of the per-(state, packet type) validation at the top of `process_incoming_message`
(stream_dispatch.rs:1069-1173). -/
inductive Gate where
  | dropPacket (v : VSock)        -- `return Ok(Default::default())`: ignored (possibly after a state change)
  | fail (e : VErr) (v : VSock)   -- `return Err(e)`
  | proceed (v : VSock)           -- fall through to acknowledgement / payload processing

def Gate.vsock : Gate → VSock
  | .dropPacket v | .fail _ v | .proceed v => v

/-- The state-transition table. -/
def stateGate (v : VSock) (hdr : Header) : Gate :=
  let ty := hdr.htype
  let isData := ty = TYPE_ST_DATA
  let isState := ty = TYPE_ST_STATE
  let isFin := ty = TYPE_ST_FIN
  match v.state with
  | .lastAck ourFin remoteFin =>
    if ty = TYPE_ST_RESET then
      if hdr.ackNr = ourFin then .dropPacket { v with state := .closed }
      else .fail .stResetReceived { v with state := .closed }
    else if ty = TYPE_ST_SYN then .dropPacket v
    else if hdr.ackNr = ourFin then .proceed { v.restartInactivity with state := .closed }
    else if seqGt hdr.seqNr remoteFin then
      if isData then .dropPacket v else .proceed v
    else .proceed v
  | st =>
    if ty = TYPE_ST_RESET then .fail .stResetReceived { v with state := .closed }
    else if ty = TYPE_ST_SYN then .dropPacket v
    else match st with
    | .closed => .dropPacket v          -- packet after Closed: ignored
    | .synReceived => .fail (.bug "unexpected packet in SynReceived state. We should have sent the SYN-ACK first.") v
    | .synAckSent _ =>
      if isData ∨ isState then
        if hdr.ackNr ≠ wsub v.seqNr 1 then .dropPacket v
        else .proceed { v.restartInactivity with state := .established }
      else if hdr.seqNr ≠ wadd v.lastConsumedRemoteSeqNr 1 then .dropPacket v   -- ST_FIN out of sequence
      else .proceed { v with state := .closed }       -- ST_FIN
    | .established =>
      if isFin then
        if hdr.seqNr ≠ wadd v.lastConsumedRemoteSeqNr 1 then .dropPacket v
        else
          -- nothing new is sent once the remote closed (D22); the FIN takes the number after the last segment that
          -- stays queued - `seq_nr` may be further ahead after a sent MTU probe was popped (D24)
          let segs := v.segs.discardUnsent
          let fin := wadd segs.sndUna (segs.segs.length % 65536)
          .proceed { v with state := .lastAck fin hdr.seqNr, seqNr := wadd fin 1, segs := segs }
      else .proceed v
    | .finWait1 ourFin =>
      if isFin then
        if hdr.seqNr ≠ wadd v.lastConsumedRemoteSeqNr 1 then .dropPacket v
        else if hdr.ackNr = ourFin then .proceed { v with state := .closed }
        else .proceed { v with state := .lastAck ourFin hdr.seqNr }
      else if hdr.ackNr = ourFin then
        let v := { v.restartInactivity with state := .finWait2 }
        if isState ∧ seqSub hdr.seqNr v.lastConsumedRemoteSeqNr = 1 then .proceed { v with state := .closed }
        else .proceed v
      else .proceed v
    | .finWait2 =>
      if isFin then
        if hdr.seqNr ≠ wadd v.lastConsumedRemoteSeqNr 1 then .dropPacket v
        else .proceed { v.restartInactivity with state := .closed }
      else .proceed v
    | .lastAck _ _ => .proceed v     -- unreachable (handled above)

/-- `last_sent_seq_nr` after acknowledgement processing: whatever is acknowledged was sent, so it is never
left below `snd_una - 1` (an RTO rewinds it; an ACK for the old copies must not leave it behind). -/
def clampLastSent (lastSent sndUna : Nat) : Nat :=
  if seqSub lastSent (wsub sndUna 1) < 0 then wsub sndUna 1 else lastSent

/-- First half of `process_incoming_message` for a packet that passed the table: acknowledgement processing
(`remove_up_to_ack`, the `last_sent_seq_nr` clamp, RTT sample, congestion controller, recovery). -/
def ackPart (v : VSock) (c : Ctx) (msg : Msg) : R (VSock × Ctx × OnAckResult) := do
  let hdr := msg.h
  -- ack processing
  let (segs1, res) ← match v.segs.removeUpToAck v.pollNow hdr.ackNr hdr.sack with
    | none => throw ⟨(.panic "remove_up_to_ack underflow"), v, c⟩
    | some r => pure r
  -- whatever is acknowledged was sent: `last_sent_seq_nr` is never left below `snd_una - 1`
  let lss := clampLastSent v.lastSentSeqNr segs1.sndUna
  let v := { v with segs := segs1, lastSentSeqNr := lss, ss := v.ss.onPayloadDelivered res.maxAckedPayloadSize }
  let c := { c with cc := c.cc.call s!"set_mss({v.ss.mss})" }
  let v := match v.recovery.isRecovering, res.newRtt with
    | false, some rtt => { v with rtte := v.rtte.sample rtt }
    | _, _ => v
  let c := { c with cc := (c.cc.call s!"set_remote_window({hdr.wnd})").call s!"on_ack({res.ackedBytes},{v.rtte.roundtripTime})" }
  let v := { v with lastRemoteTimestamp := hdr.ts, lastRemoteWindow := hdr.wnd }
  let (v, c) ← match v.recovery.onAck hdr v.segs v.lastSentSeqNr c.cc v.pollNow v.rtte.roundtripTime with
    | none => throw ⟨(.panic "calc_pipe out of range"), v, c⟩
    | some (rec', segs', cc') => pure ({ v with recovery := rec', segs := segs' }, { c with cc := cc' })
  return (v, c, res)

/-- Second half of `process_incoming_message`: the payload (ST_DATA), the FIN, forced ACKs. -/
def payloadPart (v : VSock) (c : Ctx) (msg : Msg) (res : OnAckResult) (previouslySeenRemoteFin : Bool) :
    R (VSock × Ctx × OnAckResult) := do
  let hdr := msg.h
  let ty := hdr.htype
  let isData := ty = TYPE_ST_DATA
  let isFin := ty = TYPE_ST_FIN
  let offset := seqSub hdr.seqNr (wadd v.lastConsumedRemoteSeqNr 1)
  if isData then
    if offset < 0 then return (v.forceImmediateAck, c, res)
    let assemblerWasEmpty := v.rx.ooq.isEmpty
    let v := { v with ss := v.ss.onPayloadDelivered msg.payload.length }
    let c := { c with cc := c.cc.call s!"set_mss({v.ss.mss})" }
    let (rx', ar, ws) ← match v.rx.addRemove ty msg.payload offset.toNat with
      | none => throw ⟨(.panic "flush unwrap"), v, c⟩
      | some r => pure r
    let v := { v with rx := rx' }
    let c := { c with wakes := c.wakes ++ ws }
    let v ← match ar with
      | .consumed seqs bytes =>
        let v := v.restartInactivity
        pure { v with lastConsumedRemoteSeqNr := wadd v.lastConsumedRemoteSeqNr (seqs % 65536),
                      consumedButUnackedBytes := min (v.consumedButUnackedBytes + bytes) U64MAX }
      | .unavailable | .alreadyPresent => pure v
      | .errZeroPayload => throw ⟨.zeroPayloadStData, v, c⟩
      | .bugInvalidMessage => throw ⟨(.bug "invalid message, expected ST_DATA or ST_FIN"), v, c⟩
      | .bugMissingSlot => throw ⟨(.bug "bug in assembler: slot should be there"), v, c⟩
    if !v.rx.ooq.isEmpty ∨ !assemblerWasEmpty then
      let v := v.forceImmediateAck
      match v.sendAck c with
      | .error e => throw e
      | .ok (v, c, _) => return (v, c, res)
    return (v, c, res)
  else if isFin then
    let v := v.forceImmediateAck
    if !previouslySeenRemoteFin ∧ offset ≥ 0 then
      let v := { v with lastConsumedRemoteSeqNr := hdr.seqNr }
      let (rx', ar, ws) ← match v.rx.addRemove ty msg.payload offset.toNat with
        | none => throw ⟨(.panic "flush unwrap"), v, c⟩
        | some r => pure r
      match ar with
      | .errZeroPayload => throw ⟨.zeroPayloadStData, v, c⟩
      | .bugInvalidMessage => throw ⟨(.bug "invalid message, expected ST_DATA or ST_FIN"), v, c⟩
      | .bugMissingSlot => throw ⟨(.bug "bug in assembler: slot should be there"), v, c⟩
      | _ => pure ()
      let (tx', ws2) := v.tx.markVsockClosed
      return ({ v with rx := rx', tx := tx' }, { c with wakes := c.wakes ++ ws ++ ws2 }, res)
    return (v, c, res)
  else return (v, c, res)

/-- The rest of `process_incoming_message` for a packet that passed the table: acknowledgement processing, then
the payload. -/
def processAccepted (v : VSock) (c : Ctx) (msg : Msg) (previouslySeenRemoteFin : Bool) : R (VSock × Ctx × OnAckResult) :=
  match v.ackPart c msg with
  | .error e => throw e
  | .ok (v, c, res) => v.payloadPart c msg res previouslySeenRemoteFin

/-- `process_incoming_message(msg)`; returns the `OnAckResult`. -/
def processIncomingMessage (v : VSock) (c : Ctx) (msg : Msg) : R (VSock × Ctx × OnAckResult) :=
  match v.stateGate msg.h with
  | .dropPacket v' => pure (v', c, {})
  | .fail e v' => throw ⟨e, v', c⟩
  | .proceed v' => v'.processAccepted c msg v.state.isRemoteFinOrLater

def OnAckResult.update (a b : OnAckResult) : OnAckResult :=
  { a with ackedSegmentsCount := a.ackedSegmentsCount + b.ackedSegmentsCount,
           ackedBytes := a.ackedBytes + b.ackedBytes,
           newRtt := rttMin a.newRtt b.newRtt,
           newlySackedSegmentCount := a.newlySackedSegmentCount + b.newlySackedSegmentCount,
           newlySackedByteCount := a.newlySackedByteCount + b.newlySackedByteCount }

inductive RecvLoop where
  | drained                   -- `poll_recv` returned Pending (waker registered)
  | stopped                   -- loop broke early (closed or transport pending)
  | channelClosed             -- `poll_recv` returned `None`

/-- The `while let Poll::Ready(msg) = self.rx.poll_recv(cx)` loop. -/
def recvLoop : Nat → VSock → Ctx → OnAckResult → R (VSock × Ctx × OnAckResult × RecvLoop)
  | 0, v, c, acc => pure (v, c, acc, .stopped)
  | fuel + 1, v, c, acc =>
    match v.rxQueue with
    | [] =>
      if v.rxClosed then pure (v, c, acc, .channelClosed)
      else pure ({ v with rxWakerRegistered := true }, c, acc, .drained)
    | msg :: rest =>
      let v := { v with rxQueue := rest }
      match v.processIncomingMessage c msg with
      | .error e => throw e
      | .ok (v, c, res) =>
        let acc := OnAckResult.update acc res
        if v.stateIsClosed ∨ v.transportPending then pure (v, c, acc, .stopped)
        else recvLoop fuel v c acc

/-- `process_all_incoming_messages()` -/
def processAllIncoming (v : VSock) (c : Ctx) : R (VSock × Ctx) := do
  let (v, c, res, how) ← recvLoop (v.rxQueue.length + 1) v c {}
  match how with
  | .channelClosed =>
    let v := v.transitionToFinWait1
    match v.maybeSendFin c with
    | .error e => throw e
    | .ok (v, c, _) => return ({ v with state := .closed }, c)
  | _ => pure ()
  let v :=
    if res.ackedSegmentsCount > 0 ∨ res.newlySackedSegmentCount > 0 then
      let v := { v with rtoRetransmissions := 0 }
      if v.segs.segs.isEmpty ∧ v.state.ourFinIfUnacked.isNone then
        { v with timers := { v.timers with retransmit := none, inactivity := none } }
      else
        { v with timers := { v.timers with retransmit := Timer.arm v.timers.retransmit v.pollNow v.rtte.rto true } }.restartInactivity
    else v
  let (v, c) ← if res.ackedSegmentsCount > 0 then
      let (tx', ok) := v.tx.truncateFront res.ackedBytes
      if !ok then throw ⟨(.bug "truncate_front"), v, c⟩ else
      let (tx'', ws) := tx'.takeWriterWaker
      pure ({ v with tx := tx'' }, { c with wakes := c.wakes ++ ws })
    else pure (v, c)
  match v.recovery.phase with
  | .recovering rec =>
    match v.segs.calcPipe rec.highRxt v.lastSentSeqNr v.rtte.roundtripTime v.pollNow with
    | none => throw ⟨(.panic "calc_pipe out of range"), v, c⟩
    | some (segs', pipe) =>
      return ({ v with segs := segs', recovery := { v.recovery with phase := .recovering { rec with pipe := pipe } } }, c)
  | _ => return (v, c)

/-- `maybe_send_syn_ack()` -/
def maybeSendSynAck (v : VSock) (c : Ctx) : R (VSock × Ctx) :=
  let go (sentCount : Nat) : R (VSock × Ctx) :=
    if sentCount = v.opts.maxRetx then throw ⟨.maxSynAckRetransmissionsReached, v, c⟩ else
    match v.sendAck c with
    | .error e => throw e
    | .ok (v, c, sent) =>
      if sent then
        pure ({ v with state := .synAckSent (sentCount + 1),
                       timers := { v.timers with synAckResend := Timer.arm v.timers.synAckResend v.pollNow SYNACK_RESEND_INTERNAL true } }, c)
      else pure (v, c)
  match v.state with
  | .synReceived => go 0
  | .synAckSent count => if Timer.expired v.timers.synAckResend v.pollNow then go count else pure (v, c)
  | _ => pure ({ v with timers := { v.timers with synAckResend := none } }, c)

/-- an unacknowledged MTU probe as the newest segment: it may still be popped and split (D27) -/
def probeOutstanding (v : VSock) : Bool :=
  match v.segs.segs.getLast? with
  | some g => g.isMtuProbe && !g.isDelivered
  | none => false

def unsentDataExists (v : VSock) (c : Ctx) : R Bool :=
  if v.unsegmentedData > 0 then pure true else
  if v.probeOutstanding then pure true else
  match v.segs.iterForSending none with
  | none => throw ⟨(.panic "iter_mut_for_sending"), v, c⟩
  | some views => pure (views.any (fun s => s.seg.sendCount = 0))

/-- `next_timer_to_poll()`: note the side effect — the recovery-pipe timer is taken. -/
def nextTimerToPoll (v : VSock) : VSock × Option Nat :=
  if v.transportPending then (v, v.timers.inactivity) else
  let ts := [v.timers.ackDelay, v.timers.retransmit, v.timers.inactivity, v.timers.pipeExpiry, v.timers.synAckResend]
  let v := { v with timers := { v.timers with pipeExpiry := none } }
  (v, (ts.filterMap id).foldl (fun acc t => match acc with | none => some t | some a => some (min a t)) none)

/-- "give the remote last chance": once we are past our own FIN the inactivity timer is (kept) armed,
at most `SHUTDOWN_FINAL_CHANCE_DELAY` ahead unless something restarts it. -/
def armFinalChance (v : VSock) : VSock :=
  if v.state.isLocalFinOrLater then
    { v with timers := { v.timers with inactivity := Timer.arm v.timers.inactivity v.pollNow SHUTDOWN_FINAL_CHANCE_DELAY false } }
  else if v.rx.readerDropped ∧ v.tx.writerDropped then
    -- the application is gone but the connection cannot finish yet: do not wait for the remote forever
    { v with timers := { v.timers with inactivity := Timer.arm v.timers.inactivity v.pollNow v.opts.inactivityTimeout false } }
  else v

inductive PollResult where
  | pending
  | readyOk
  | readyErr (e : VErr)
deriving Repr, DecidableEq

inductive Step where
  | continue_                 -- `continue` (restart requested)
  | done (r : PollResult)

/-- One iteration of the `while self.this_poll.restart` loop. -/
def pollIteration (v : VSock) (c : Ctx) : VSock × Ctx × Step :=
  let v := { v with transportPending := false, pollNow := c.now, restart := false }
  let die (v : VSock) (c : Ctx) (e : VErr) : VSock × Ctx × Step :=
    let (v, c) := v.justBeforeDeath c (some e)
    (v, c, .done (.readyErr e))
  -- pending_if_cannot_send!(maybe_send_syn_ack)
  match v.maybeSendSynAck c with
  | .error f => die f.v f.c f.e
  | .ok (v, c) =>
  if v.restart then (v, c, .continue_) else
  if v.transportPending then (v, c, .done .pending) else
  -- immediate ack retry
  match (if v.immediateAckToTransmit then (v.sendAck c).map (fun r => (r.1, r.2.1)) else pure (v, c)) with
  | .error f => die f.v f.c f.e
  | .ok (v, c) =>
  if v.restart then (v, c, .continue_) else
  if v.transportPending then (v, c, .done .pending) else
  match v.processAllIncoming c with
  | .error f => die f.v f.c f.e
  | .ok (v, c) =>
  if v.restart then (v, c, .continue_) else
  if v.transportPending then (v, c, .done .pending) else
  -- flush (the wake-up threshold follows the current segment size: `rx_window()` rounds with the same one)
  let v := if v.ss.mss > 0 then { v with rx := { v.rx with maxIncomingPayload := v.ss.mss } } else v
  match v.rx.flush with
  | none => die v c (.panic "flush unwrap")
  | some (rx', _, ws) =>
  let v := { v with rx := rx' }
  let c := { c with wakes := c.wakes ++ ws }
  if Timer.expired v.timers.inactivity v.pollNow then die v c .remoteInactiveForTooLong else
  match v.splitTxQueue c with
  | .error f => die f.v f.c f.e
  | .ok (v, c) =>
  if v.restart then (v, c, .continue_) else
  match v.sendTxQueue c with
  | .error f => die f.v f.c f.e
  | .ok (v, c) =>
  if v.restart then (v, c, .continue_) else
  if v.transportPending then (v, c, .done .pending) else
  match v.unsentDataExists c with
  | .error f => die f.v f.c f.e
  | .ok unsent =>
  let v := if ((v.rx.readerDropped ∧ v.tx.writerDropped) ∨ v.tx.writerShutdown) ∧ !unsent ∧ !v.state.isLocalFinOrLater
           then v.transitionToFinWait1 else v
  match v.maybeSendFin c with
  | .error f => die f.v f.c f.e
  | .ok (v, c, _) =>
  if v.restart then (v, c, .continue_) else
  if v.transportPending then (v, c, .done .pending) else
  match v.maybeSendAck c with
  | .error f => die f.v f.c f.e
  | .ok (v, c, _) =>
  if v.restart then (v, c, .continue_) else
  if v.transportPending then (v, c, .done .pending) else
  if v.stateIsClosed then
    let (v, c) := v.justBeforeDeath c none
    (v, c, .done .readyOk)
  else
  let v := v.armFinalChance
  let (v, next) := v.nextTimerToPoll
  match next with
  | some instant =>
    let duration := instant - v.pollNow
    if duration = 0 ∧ c.now % 1000000 = 0 then
      -- the deadline's 1 ms timer tick has already been reached: the Sleep is Ready at once, `arm_in` returns
      -- false and the task wakes itself; and resetting a Sleep that is still registered to such a deadline fires
      -- it on the spot, which wakes the waker stored by the earlier registration (a second wake-up)
      ({ v with timers := { v.timers with sleep := c.now, sleepRegistered := false } },
       { c with wakes := c.wakes ++ (if v.timers.sleepRegistered then [Wake.dispatcher, Wake.dispatcher] else [Wake.dispatcher]) }, .done .pending)
    -- (a zero duration off the tick boundary is rounded up to the next tick by the timer wheel: registered as usual)
    else ({ v with timers := { v.timers with sleep := c.now + duration, sleepRegistered := true } }, c, .done .pending)
  | none => (v, c, .done .pending)

/-- `VirtualSocket::poll`. `fuel` bounds the restarts (each restart pops an MTU probe). -/
def pollLoop : Nat → VSock → Ctx → VSock × Ctx × PollResult
  | 0, v, c => (v, c, .readyErr (.bug "unreachable"))
  | fuel + 1, v, c =>
    match v.pollIteration c with
    | (v, c, .done r) => (v, c, r)
    | (v, c, .continue_) => pollLoop fuel v c

/-- Each restart follows a failed probe, which at least halves `max_ss - min_ss` (a `u16`): at most 17
restarts; 40 is a safe bound. -/
def poll (v : VSock) (c : Ctx) : VSock × Ctx × PollResult :=
  pollLoop 40 v c

end VSock
end UtpVerif.Model
