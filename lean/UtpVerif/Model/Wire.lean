import UtpVerif.Gen.Constants
/-!
Model of `src/raw.rs` (UtpHeader serialize / deserialize), `src/raw/selective_ack.rs`,
`src/raw/ext_close_reason.rs` and `src/message.rs` (UtpMessage::deserialize).

Bytes are `Nat < 256`.  Where the Rust code indexes a slice without `get`, the model
uses `idx` which yields `panic` if the index is out of range, so "the parser never
panics" is a theorem about this model and not an artefact of a totalised lookup.
-/
namespace UtpVerif.Model
open UtpVerif.Gen

/-- `SelectiveAck { data: [u8; 8], len: usize }` -/
structure Sack where
  data : List Nat      -- always 8 bytes
  len : Nat            -- bit length kept (`min(bytes.len(), 8) * 8`), 64 for `new`
deriving Repr, DecidableEq, BEq

structure Header where
  htype : Nat          -- 0..4
  connId : Nat         -- u16
  ts : Nat             -- u32
  tsDiff : Nat         -- u32
  wnd : Nat            -- u32
  seqNr : Nat          -- u16
  ackNr : Nat          -- u16
  sack : Option Sack := none
  closeReason : Option Nat := none   -- u16
deriving Repr, DecidableEq, BEq

def be16 (a b : Nat) : Nat := a * 256 + b
def be32 (a b c d : Nat) : Nat := ((a * 256 + b) * 256 + c) * 256 + d

def toBe16 (n : Nat) : List Nat := [n / 256 % 256, n % 256]
def toBe32 (n : Nat) : List Nat := [n / 16777216 % 256, n / 65536 % 256, n / 256 % 256, n % 256]

/-- `SelectiveAck::deserialize(bytes)`: copy at most 8 bytes into a zeroed array; remember wire bit length. -/
def Sack.deserialize (bytes : List Nat) : Sack :=
  let l := min bytes.length 8
  { data := bytes.take l ++ List.replicate (8 - l) 0, len := l * 8 }

/-- `SelectiveAck::as_bytes()`: the `len/8` (at most 8) meaningful bytes. -/
def Sack.asBytes (s : Sack) : List Nat := s.data.take (min (s.len / 8) 8)

/-- `LibTorrentCloseReason::parse([u8;4])` = `u32::from_be_bytes(buf) as u16`. -/
def closeReasonParse (b : List Nat) : Nat :=
  match b with
  | [_, _, c, d] => be16 c d
  | _ => 0

def closeReasonBytes (r : Nat) : List Nat := [0, 0, r / 256 % 256, r % 256]

/-- The extension-chain loop of `UtpHeader::deserialize`.
`nextExt` is the pending extension id, `buf` the remaining bytes, `tot` = `total_ext_size`. -/
def parseExts (nextExt : Nat) (buf : List Nat) (sack : Option Sack) (cr : Option Nat) (tot : Nat) :
    Option (Option Sack × Option Nat × Nat) :=
  if nextExt = 0 then some (sack, cr, tot) else
  match buf with
  | next :: extLen :: rest =>
    if extLen ≤ rest.length then
      let extData := rest.take extLen
      let sack' := if nextExt = EXT_SELECTIVE_ACK then some (Sack.deserialize extData) else sack
      let cr' := if nextExt ≠ EXT_SELECTIVE_ACK ∧ nextExt = EXT_CLOSE_REASON ∧ extLen = 4 then some (closeReasonParse extData) else cr
      parseExts next (rest.drop extLen) sack' cr' (tot + 2 + extLen)
    else none
  | _ => none
termination_by buf.length
decreasing_by simp [List.length_drop]; omega

/-- `UtpHeader::deserialize(buf) -> Option<(Self, usize)>`.
All fixed-field reads happen after the `len < 20` check, exactly as in the Rust code, so the
default of `getD` is never used (the indices are < 20 ≤ length). -/
def Header.deserialize (buf : List Nat) : Option (Header × Nat) :=
  if buf.length < UTP_HEADER then none else
  let g := fun i => buf.getD i 0
  let typenum := g 0 / 16
  let version := g 0 % 16
  if version ≠ WIRE_VERSION then none else
  if typenum > 4 then none else
  match parseExts (g 1) (buf.drop 20) none none 0 with
  | none => none
  | some (sack, cr, tot) =>
    some ({ htype := typenum, connId := be16 (g 2) (g 3), ts := be32 (g 4) (g 5) (g 6) (g 7),
            tsDiff := be32 (g 8) (g 9) (g 10) (g 11), wnd := be32 (g 12) (g 13) (g 14) (g 15),
            seqNr := be16 (g 16) (g 17), ackNr := be16 (g 18) (g 19),
            sack := sack, closeReason := cr }, 20 + tot)

/-- One `add_ext!` expansion of `serialize`: `out` = bytes written so far (length = `offset`),
`nextPos` = `next_ext_pos`. Returns the new `(out, nextPos)`. -/
def addExt (bufLen : Nat) (out : List Nat) (nextPos : Nat) (id : Nat) (payload : List Nat) : List Nat × Nat :=
  let offset := out.length
  if bufLen ≥ offset + 2 + payload.length then
    let out1 := out.set nextPos id
    (out1 ++ [NO_NEXT_EXT, payload.length % 256] ++ payload, offset)
  else (out, nextPos)

/-- `UtpHeader::serialize(&self, buffer)`: `none` = `Err(SerializeTooSmallBuffer)`; otherwise the
first `offset` bytes of the buffer after the call. -/
def Header.serialize (h : Header) (bufLen : Nat) : Option (List Nat) :=
  if bufLen < UTP_HEADER then none else
  let base := [(h.htype * 16 + WIRE_VERSION) % 256, NO_NEXT_EXT] ++ toBe16 h.connId ++ toBe32 h.ts ++
    toBe32 h.tsDiff ++ toBe32 h.wnd ++ toBe16 h.seqNr ++ toBe16 h.ackNr
  let s1 := match h.sack with
    | some s => addExt bufLen base 1 EXT_SELECTIVE_ACK s.asBytes
    | none => (base, 1)
  let s2 := match h.closeReason with
    | some r => addExt bufLen s1.1 s1.2 EXT_CLOSE_REASON (closeReasonBytes r)
    | none => s1
  some s2.1

/-- `UtpMessage::deserialize(buf)`: header + payload rules. -/
def Message.deserialize (buf : List Nat) : Option (Header × List Nat) :=
  match Header.deserialize buf with
  | none => none
  | some (h, hsize) =>
    let payloadSize := buf.length - hsize
    if h.htype = TYPE_ST_DATA then
      if payloadSize = 0 then none else some (h, buf.drop hsize)
    else
      if payloadSize > 0 then none else some (h, buf.drop hsize)

/-- `SelectiveAck::new(unacked)`: set bit `idx` for each index, `take_while (< SACK_DEPTH)`. -/
def Sack.ofIndices (idxs : List Nat) : Sack :=
  let kept := idxs.takeWhile (· < SACK_DEPTH)
  let byte (k : Nat) : Nat := ((List.range 8).map (fun b => if kept.contains (k * 8 + b) then 2 ^ b else 0)).sum
  { data := (List.range 8).map byte, len := SACK_DEPTH }

/-- bit `i` (LSB-first within each byte) of the 64-bit array: `sack.iter().nth(i)`. -/
def Sack.bit (s : Sack) (i : Nat) : Bool := (s.data.getD (i / 8) 0) / 2 ^ (i % 8) % 2 = 1

def Sack.countOnes (s : Sack) : Nat := ((List.range 64).filter s.bit).length

end UtpVerif.Model
