import UtpVerif.Model.Segments
/-!
Model of `src/recovery.rs` (NewReno / RFC 6675-style duplicate counting and recovery phases).
The congestion controller is reached through `Cc`, an explicit record of the interaction:
reads (`window`, `sshthresh`, `smss`) take their value from `answers` (in lockstep runs these are
the real controller's return values; in theorems they are arbitrary), every call is appended to
`log` so that the call sequence itself is compared with the implementation.
-/
namespace UtpVerif.Model
open UtpVerif.Gen

/-- Interaction with `Box<dyn CongestionController>`. -/
structure Cc where
  answers : List Nat := []
  log : List String := []
  underflow : Bool := false      -- a read found no scripted answer (reported as a disagreement)
deriving Repr

namespace Cc
def read (c : Cc) (what : String) : Nat × Cc :=
  match c.answers with
  | a :: rest => (a, { c with answers := rest, log := c.log ++ [s!"{what}={a}"] })
  | [] => (0, { c with underflow := true, log := c.log ++ [s!"{what}=?"] })
def call (c : Cc) (what : String) : Cc := { c with log := c.log ++ [what] }
end Cc

structure Recovering where
  recoveryPoint : Nat
  highRxt : Nat
  totalRetransmittedSegments : Nat := 0
  pipe : Pipe
  cwnd : Nat
deriving Repr, DecidableEq

inductive RecPhase where
  | ignoringUntilRecoveryPoint (recoveryPoint : Nat)
  | countingDuplicates (dupAcks : Nat)
  | recovering (r : Recovering)
deriving Repr, DecidableEq

structure LastAck where
  window : Nat
  ackNr : Nat
deriving Repr, DecidableEq

structure Recovery where
  receiverSupportsSack : Bool := false
  lastAck : Option LastAck := none
  phase : RecPhase := .countingDuplicates 0
deriving Repr, DecidableEq

namespace Recovery

def isRecovering (r : Recovery) : Bool := match r.phase with | .recovering _ => true | _ => false

/-- `remaining_cwnd(last_remote_window)`. -/
def remainingCwnd (r : Recovery) (lastRemoteWindow : Nat) : Option Nat :=
  match r.phase with
  | .recovering rec => some (min rec.cwnd lastRemoteWindow - rec.pipe.pipe)
  | _ => none

/-- `Recovering::cwnd()` = `cwnd.saturating_sub(pipe)`. -/
def Recovering.cwndLeft (rec : Recovering) : Nat := rec.cwnd - rec.pipe.pipe

def countSackDuplicates (h : Header) (prev : Nat) : Nat :=
  match h.sack with
  | some sk => if sk.countOnes ≥ SACK_DUP_THRESH then SACK_DUP_THRESH else prev + 1
  | none => 0

def countNonSackDuplicates (h : Header) (prev : Nat) (last : Option LastAck) : Nat × Option LastAck :=
  let isWindowUpdate : Bool := match last with | some l => l.window != h.wnd | none => false
  match last with
  | some l =>
    if h.htype = TYPE_ST_STATE ∧ l.ackNr = h.ackNr ∧ isWindowUpdate = false then (min (prev + 1) 255, last)
    else (0, some { window := h.wnd, ackNr := h.ackNr })
  | none => (0, some { window := h.wnd, ackNr := h.ackNr })

/-- `Recovery::on_ack(...)`. Returns `none` if `calc_pipe` would panic. -/
def onAck (r : Recovery) (h : Header) (segs : Segments) (lastSentSeqNr : Nat) (cc : Cc) (now rtt : Nat) :
    Option (Recovery × Segments × Cc) :=
  let r := { r with receiverSupportsSack := r.receiverSupportsSack || h.sack.isSome }
  match r.phase with
  | .ignoringUntilRecoveryPoint rp =>
    if seqGe h.ackNr rp then some ({ r with phase := .countingDuplicates 0 }, segs, cc)
    else some (r, segs, cc)
  | .countingDuplicates d =>
    match segs.firstSeqNr with
    | none => some ({ r with phase := .countingDuplicates 0 }, segs, cc)
    | some first =>
      let highAck := wsub first 1
      let (d', last') :=
        if r.receiverSupportsSack then (countSackDuplicates h d, r.lastAck)
        else countNonSackDuplicates h d r.lastAck
      let r := { r with lastAck := last' }
      if d' < SACK_DUP_THRESH then some ({ r with phase := .countingDuplicates d' }, segs, cc)
      else
        let cc := cc.call s!"on_enter_recovery"
        match segs.calcPipe highAck lastSentSeqNr rtt now with
        | none => none
        | some (segs', pipe) =>
          let (cwnd, cc) := cc.read "sshthresh"
          some ({ r with phase := .recovering { recoveryPoint := lastSentSeqNr, highRxt := highAck, pipe := pipe, cwnd := cwnd } },
                segs', cc)
  | .recovering rec =>
    if seqGe h.ackNr rec.recoveryPoint then
      let (mss, cc) := cc.read "smss"
      let (ssth, cc) := cc.read "sshthresh"
      let cwnd := min ssth (max (segs.calcFlightSize lastSentSeqNr) mss + mss)
      let cc := cc.call s!"on_recovered({cwnd},{rec.cwnd})"
      some ({ r with phase := .countingDuplicates 0 }, segs, cc)
    else some (r, segs, cc)

/-- `on_rto_timeout(last_sent_seq_nr)`. -/
def onRtoTimeout (r : Recovery) (lastSentSeqNr : Nat) : Recovery :=
  match r.phase with
  | .recovering _ => { r with phase := .ignoringUntilRecoveryPoint lastSentSeqNr }
  | _ => r

end Recovery
end UtpVerif.Model
