import UtpVerif.Gen.Constants
/-!
Model of `src/stream_tx.rs`: the TX ring shared between `UtpStreamWriteHalf` (the application's
writer) and the connection task.  The `ringbuf` crate is modelled as a bounded FIFO of bytes
(`ring`, `cap`); wakers are booleans ("a waker is registered") and every call returns the list of
wake events it fired, so lost wake-ups are visible in the model.
-/
namespace UtpVerif.Model
open UtpVerif.Gen

inductive Wake where
  | dispatcher   -- the connection task's waker
  | writer       -- the application's writer task
  | reader       -- the application's reader task
deriving Repr, DecidableEq, BEq

structure TxRing where
  ring : List Nat := []
  cap : Nat
  vsockClosed : Bool := false
  writerDropped : Bool := false
  writerShutdown : Bool := false
  dispatcherWaker : Bool := false
  writerWaker : Bool := false
  writtenWithoutYield : Nat := 0
deriving Repr, DecidableEq

inductive WriteRes where
  | ready (n : Nat)
  | pending
  | errClosed          -- "socket closed"
  | errShutdown        -- "no writing after shutdown"
  | errDropped         -- "shutdown was initiated, can't write"
deriving Repr, DecidableEq

inductive FlushRes where
  | ok
  | pending
  | errDied            -- "socket died"
deriving Repr, DecidableEq

namespace TxRing

def new (capacity : Nat) : TxRing := { cap := capacity }

/-- `UtpStreamWriteHalf::poll_write(buf)`. -/
def pollWrite (t : TxRing) (buf : List Nat) : TxRing × WriteRes × List Wake :=
  if t.writtenWithoutYield > YIELD_EVERY then
    ({ t with writtenWithoutYield := 0 }, .pending, [.writer])   -- cx.waker().wake_by_ref()
  else if t.vsockClosed then (t, .errClosed, [])
  else if t.writerShutdown then (t, .errShutdown, [])
  else if t.writerDropped then (t, .errDropped, [])
  else
    let count := min buf.length (t.cap - t.ring.length)
    let t1 := { t with ring := t.ring ++ buf.take count, writtenWithoutYield := t.writtenWithoutYield + count }
    if count = 0 then
      ({ t1 with writerWaker := true, writtenWithoutYield := 0 }, .pending, [])
    else if t1.dispatcherWaker then
      ({ t1 with dispatcherWaker := false }, .ready count, [.dispatcher])
    else (t1, .ready count, [])

/-- `poll_flush`. -/
def pollFlush (t : TxRing) : TxRing × FlushRes :=
  if t.ring.isEmpty then (t, .ok)
  else if t.vsockClosed then (t, .errDied)
  else ({ t with writerWaker := true }, .pending)

/-- `poll_shutdown`. -/
def pollShutdown (t : TxRing) : TxRing × FlushRes × List Wake :=
  if !t.ring.isEmpty then
    if t.vsockClosed then (t, .errDied, [])
    else ({ t with writerWaker := true }, .pending, [])
  else if t.vsockClosed then (t, .ok, [])
  else
    let t1 := { t with writerShutdown := true, writerWaker := true }
    if t1.dispatcherWaker then ({ t1 with dispatcherWaker := false }, .pending, [.dispatcher])
    else (t1, .pending, [])

/-- `Drop for UtpStreamWriteHalf` → `mark_writer_dropped`. -/
def dropWriter (t : TxRing) : TxRing × List Wake :=
  if !t.writerDropped then
    if t.dispatcherWaker then ({ t with writerDropped := true, dispatcherWaker := false }, [.dispatcher])
    else ({ t with writerDropped := true }, [])
  else (t, [])

/-- `UserTx::mark_vsock_closed`. -/
def markVsockClosed (t : TxRing) : TxRing × List Wake :=
  if t.writerWaker then ({ t with vsockClosed := true, writerWaker := false }, [.writer])
  else ({ t with vsockClosed := true }, [])

/-- `UserTx::truncate_front(count)`: `consumer.skip(count)`; `false` = `Err(BugTruncateFront)`
(the bytes that could be skipped are gone either way). -/
def truncateFront (t : TxRing) (count : Nat) : TxRing × Bool :=
  let skipped := min count t.ring.length
  ({ t with ring := t.ring.drop skipped }, skipped = count)

/-- `UserTx::grow(max_size)`. -/
def grow (t : TxRing) (maxSize : Nat) : TxRing × Option Nat :=
  if t.cap ≥ maxSize then (t, none)
  else
    let newCap := min (t.cap * 2) maxSize
    -- `push_slice(first); push_slice(second)` into a ring of `newCap ≥ cap ≥ len`: everything fits
    ({ t with cap := newCap, ring := t.ring.take newCap }, some newCap)

/-- Take the writer waker (dispatcher does this after acks / growth). -/
def takeWriterWaker (t : TxRing) : TxRing × List Wake :=
  if t.writerWaker then ({ t with writerWaker := false }, [.writer]) else (t, [])

def registerDispatcher (t : TxRing) : TxRing := { t with dispatcherWaker := true }

inductive SliceRes where
  | ok (bytes : List Nat)
  | bugOffset       -- BugOffsetBeyondBufferBounds
  | bugLength       -- BugRequestedLengthExceedsBufferBounds
deriving Repr, DecidableEq

/-- `utils::prepare_2_ioslices(first, second, offset, len)` on the ring's two slices, with the
split point `k` of the ring's internal wrap (`first = ring.take k`, `second = ring.drop k`).
The concatenation of the two returned slices is what goes on the wire. -/
def prepare2 (first second : List Nat) (offset len : Nat) : SliceRes :=
  let firstOffset := min first.length offset
  let first' := first.drop firstOffset
  let secondOffset := offset - firstOffset
  if secondOffset > second.length then .bugOffset else
  let second' := second.drop secondOffset
  let firstLen := min first'.length len
  let secondLen := len - firstLen
  if secondLen > second'.length then .bugLength else
  .ok (first'.take firstLen ++ second'.take secondLen)

end TxRing
end UtpVerif.Model
