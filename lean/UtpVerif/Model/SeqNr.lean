import UtpVerif.Gen.Constants
/-!
Model of `src/utils.rs::seq_nr_offset` and `src/seq_nr.rs` (16-bit sequence
numbers).  A `u16` is a `Nat` that the caller keeps `< 65536`; every place
where Rust uses `wrapping_*` is an explicit `% 65536` here.
-/
namespace UtpVerif.Model

/-- `u16::wrapping_sub`. -/
def wsub (a b : Nat) : Nat := (a + 65536 - b % 65536) % 65536

/-- `u16::wrapping_add`. -/
def wadd (a b : Nat) : Nat := (a + b) % 65536

/-- `utils.rs::seq_nr_offset(new, old, wrap_tolerance)`, branch for branch. -/
def seqOffset (new old tol : Nat) : Int :=
  if new < old then
    if wsub new old ≤ tol then (wsub new old : Int)
    else - ((old - new : Nat) : Int)
  else if new = old then 0
  else
    if wsub old new ≤ tol then - (wsub old new : Int)
    else ((new - old : Nat) : Int)

/-- `impl Sub<SeqNr> for SeqNr` : uses the crate constant. -/
def seqSub (a b : Nat) : Int := seqOffset a b Gen.WRAP_TOLERANCE

/-- `impl Ord for SeqNr` as three-valued comparison of the offset with 0. -/
def seqLt (a b : Nat) : Bool := seqSub a b < 0
def seqLe (a b : Nat) : Bool := seqSub a b ≤ 0
def seqGt (a b : Nat) : Bool := seqSub a b > 0
def seqGe (a b : Nat) : Bool := seqSub a b ≥ 0

/-- True signed modular distance in `(-32768, 32768]`: the specification. -/
def modDist (a b : Nat) : Int :=
  let d := wsub a b
  if d ≤ 32768 then (d : Int) else (d : Int) - 65536

end UtpVerif.Model
