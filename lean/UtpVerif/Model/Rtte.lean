import UtpVerif.Gen.Constants
/-!
Model of `src/rtte.rs` (RFC 6298 estimator).  `Duration` is `Nat` nanoseconds;
`Duration * u32` and `Duration / u32` are exact integer operations with floor,
which is what `Nat` does.  Overflow of `Duration` (u64 seconds) is out of
range of any reachable value (samples are differences of `Instant`s).
-/
namespace UtpVerif.Model
open UtpVerif.Gen

inductive Rtte where
  | initial (rto : Nat)
  | subsequent (rto srtt rttvar : Nat)
deriving Repr, DecidableEq

namespace Rtte

def init : Rtte := .initial RTTE_INITIAL_RTT

/-- `Ord::clamp(min, max)`; Rust asserts `min <= max` (true of the constants, proved in Props.C16). -/
def clamp (rto : Nat) : Nat :=
  if rto < RTTE_MIN_RTO then RTTE_MIN_RTO else if rto > RTTE_MAX_RTO then RTTE_MAX_RTO else rto

def calcRto (srtt rttvar : Nat) : Nat :=
  clamp (srtt + max (rttvar * RTTE_K) CLOCK_GRANULARITY)

def absDiff (a b : Nat) : Nat := if b ≤ a then a - b else b - a

def roundtripTime : Rtte → Nat
  | .initial rto => rto
  | .subsequent _ srtt _ => srtt

def rto : Rtte → Nat
  | .initial rto => rto
  | .subsequent rto _ _ => rto

def sample : Rtte → Nat → Rtte
  | .initial _, r =>
      let srtt := r
      let rttvar := r / 2
      .subsequent (calcRto srtt rttvar) srtt rttvar
  | .subsequent _ srtt rttvar, r =>
      let rttvar' := rttvar * 3 / 4 + absDiff srtt r / 4
      let srtt' := (srtt * 7 + r) / 8
      .subsequent (calcRto srtt' rttvar') srtt' rttvar'

def onRtoTimeout : Rtte → Rtte
  | .initial rto => .initial (clamp (rto * 2))
  | .subsequent rto srtt rttvar => .subsequent (clamp (rto * 2)) srtt rttvar

end Rtte
end UtpVerif.Model
