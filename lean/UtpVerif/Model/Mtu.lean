import UtpVerif.Gen.Constants
/-!
Model of `src/mtu.rs` (`SegmentSizes`): payload-size binary search between the proven minimum
and the link ceiling, with a cooldown between probes.  `u16` values are `Nat`; the two places
where `u16` arithmetic could overflow/underflow (`max_ss - min_ss`, `min_ss + … + 1`) are shown
safe under the invariant in `Props/C14.lean`.
-/
namespace UtpVerif.Model
open UtpVerif.Gen

structure SegSizes where
  minSs : Nat
  maxSs : Nat
  cooldownRemaining : Nat
  cooldownMax : Nat
deriving Repr, DecidableEq

namespace SegSizes

def ipHeader (isV4 : Bool) : Nat := if isV4 then IPV4_HEADER else IPV6_HEADER

/-- Payload ceiling implied by a link MTU: `mtu - ip - utp - udp` after the clamp-up to 1 byte. -/
def ceiling (isV4 : Bool) (linkMtu : Nat) : Nat :=
  max linkMtu (ipHeader isV4 + UDP_HEADER + UTP_HEADER + 1) - ipHeader isV4 - UTP_HEADER - UDP_HEADER

/-- `SegmentSizes::new(config)`. -/
def new (isV4 : Bool) (linkMtu : Nat) (cooldown : Nat) : SegSizes :=
  let iph := ipHeader isV4
  let defaultMinMtu := if isV4 then MIN_MTU_V4 else MIN_MTU_V6
  let linkMtu := max linkMtu (iph + UDP_HEADER + UTP_HEADER + 1)
  let minMtu := min defaultMinMtu linkMtu
  { minSs := minMtu - iph - UTP_HEADER - UDP_HEADER
    maxSs := linkMtu - iph - UTP_HEADER - UDP_HEADER
    cooldownRemaining := MTU_INITIAL_COOLDOWN_REMAINING
    cooldownMax := cooldown }

/-- `on_payload_delivered(payload_size)`. -/
def onPayloadDelivered (s : SegSizes) (payloadSize : Nat) : SegSizes :=
  let p := min payloadSize s.maxSs
  let minSs := max s.minSs p
  { s with minSs := minSs, maxSs := max s.maxSs minSs }

def mss (s : SegSizes) : Nat := s.minSs

/-- `next_probe()`. -/
def nextProbe (s : SegSizes) : Nat := min (s.minSs + (s.maxSs - s.minSs) / 2 + 1) s.maxSs

def isProbing (s : SegSizes) : Bool := s.nextProbe > s.minSs

/-- `next_segment_size()` returns the new state and the size. -/
def nextSegmentSize (s : SegSizes) : SegSizes × Nat :=
  if s.cooldownRemaining = 0 then
    ({ s with cooldownRemaining := s.cooldownMax }, s.nextProbe)
  else
    ({ s with cooldownRemaining := s.cooldownRemaining - 1 }, s.minSs)

/-- `on_probe_failed(size)`: `size as u16` then `saturating_sub(1)`. -/
def onProbeFailed (s : SegSizes) (size : Nat) : SegSizes :=
  { s with maxSs := max (min s.maxSs (size % 65536 - 1)) s.minSs }

def disarmCooldown (s : SegSizes) : SegSizes := { s with cooldownRemaining := 0 }

/-- `skip_next_probe()`: the next segment is an ordinary one, whatever the configured cooldown. -/
def skipNextProbe (s : SegSizes) : SegSizes := { s with cooldownRemaining := max s.cooldownRemaining 1 }

/-- One probe outcome against a consistent path oracle "payload size ≤ P gets through":
the dispatcher's reaction to the probe of size `n` (`on_payload_delivered` when it is acked,
`on_probe_failed` when it is rejected or expires). -/
def outcome (P : Nat) (s : SegSizes) : SegSizes :=
  let n := s.nextProbe
  if n ≤ P then s.onPayloadDelivered n else s.onProbeFailed n

/-- One segment taken from `next_segment_size` on a path with oracle `P` (glue used by the
correspondence run): ordinary segments change nothing, probes get their outcome. -/
def pathStep (P : Nat) (s : SegSizes) : SegSizes × Nat :=
  let (s1, n) := s.nextSegmentSize
  if n > s1.minSs then
    (if n ≤ P then s1.onPayloadDelivered n else s1.onProbeFailed n, n)
  else (s1, n)

end SegSizes
end UtpVerif.Model
