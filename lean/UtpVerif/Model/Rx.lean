import UtpVerif.Model.TxRing
import UtpVerif.Model.Wire
/-!
Model of `src/stream_rx.rs`: `OutOfOrderQueue` (reassembly slots), `MsgQueue` (bytes handed to the
application but not yet read), `UserRx` (dispatcher side: flush, window), `UtpStreamReadHalf`
(application side: `poll_read`).  Locks are modelled as atomic sections; wakers as booleans plus
wake events (`Wake` from `Model/TxRing.lean`).
-/
namespace UtpVerif.Model
open UtpVerif.Gen

inductive OoqMsg where
  | payload (bytes : List Nat)     -- `Payload(vec![])` is the "empty slot" default
  | eof
deriving Repr, DecidableEq, BEq

def OoqMsg.lenBytes : OoqMsg → Nat
  | .payload b => b.length
  | .eof => 0

/-- `ooq_slot_is_default` -/
def OoqMsg.isDefault : OoqMsg → Bool
  | .payload b => b.isEmpty
  | .eof => false

def OoqMsg.default : OoqMsg := .payload []

structure Ooq where
  data : List OoqMsg
  filledFront : Nat := 0
  len : Nat := 0
  lenBytes : Nat := 0
  capacity : Nat
deriving Repr, DecidableEq

inductive AddRemove where
  | consumed (sequenceNumbers bytes : Nat)
  | alreadyPresent
  | unavailable
  | errZeroPayload            -- Err(ZeroPayloadStData)
  | bugInvalidMessage         -- Err(BugInvalidMessageExpectedStDataOrFin)
  | bugMissingSlot            -- Err(BugAssemblerMissingSlot)
deriving Repr, DecidableEq

namespace Ooq

def new (capacity : Nat) : Ooq := { data := List.replicate capacity OoqMsg.default, capacity := capacity }

def isEmpty (q : Ooq) : Bool := q.filledFront = q.len
def isFull (q : Ooq) : Bool := q.len = q.capacity

def filledFrontBytes (q : Ooq) : Nat := ((q.data.take q.filledFront).map OoqMsg.lenBytes).sum

/-- count and bytes of the contiguous non-default run at the head of `l` (the `take_while … fold`). -/
def contiguous : List OoqMsg → Nat × Nat
  | [] => (0, 0)
  | m :: t => if m.isDefault then (0, 0) else let r := contiguous t; (r.1 + 1, r.2 + m.lenBytes)

/-- Outcome of the checks at the top of `add_remove`, in the order of the Rust code. -/
inductive Verdict where
  | unavailable | errZeroPayload | bugInvalidMessage | bugMissingSlot | alreadyPresent
  | store (eff : Nat) (msg : OoqMsg)
deriving Repr, DecidableEq

def classify (q : Ooq) (htype : Nat) (payload : List Nat) (offset : Nat) : Verdict :=
  if q.isFull then .unavailable else
  if offset + q.filledFront ≥ q.data.length then .unavailable else
  if htype = TYPE_ST_DATA ∧ payload.isEmpty then .errZeroPayload else
  if htype ≠ TYPE_ST_DATA ∧ htype ≠ TYPE_ST_FIN then .bugInvalidMessage else
  match q.data[offset + q.filledFront]? with
  | none => .bugMissingSlot
  | some slot =>
    if !slot.isDefault then .alreadyPresent
    else .store (offset + q.filledFront) (if htype = TYPE_ST_DATA then OoqMsg.payload payload else OoqMsg.eof)

/-- The storing tail of `add_remove`: write the slot, advance `filled_front` over the contiguous run. -/
def store (q : Ooq) (eff : Nat) (msg : OoqMsg) : Ooq × Nat × Nat :=
  let data := q.data.set eff msg
  let r := contiguous (data.drop q.filledFront)
  ({ q with data := data, len := q.len + 1, lenBytes := q.lenBytes + msg.lenBytes,
            filledFront := q.filledFront + r.1 }, r.1, r.2)

/-- `OutOfOrderQueue::add_remove(msg, offset)`; `htype` and `payload` are the message's. -/
def addRemove (q : Ooq) (htype : Nat) (payload : List Nat) (offset : Nat) : Ooq × AddRemove :=
  match q.classify htype payload offset with
  | .unavailable => (q, .unavailable)
  | .errZeroPayload => (q, .errZeroPayload)
  | .bugInvalidMessage => (q, .bugInvalidMessage)
  | .bugMissingSlot => (q, .bugMissingSlot)
  | .alreadyPresent => (q, .alreadyPresent)
  | .store eff msg => let r := q.store eff msg; (r.1, .consumed r.2.1 r.2.2)

/-- `send_front_if_fits(window, send_fn)`; `accept` is whether `send_fn` returns `Ok`
(the reader is alive). Returns the message handed over and its length. -/
def sendFrontIfFits (q : Ooq) (window : Nat) (accept : Bool) : Ooq × Option OoqMsg :=
  if q.filledFront = 0 then (q, none) else
  match q.data with
  | [] => (q, none)           -- `self.data[0]` would panic; unreachable: filled_front ≤ data.len()
  | m :: rest =>
    if m.lenBytes > window then (q, none) else
    if !accept then (q, none) else
    ({ q with data := rest ++ [OoqMsg.default], filledFront := q.filledFront - 1, len := q.len - 1,
              lenBytes := q.lenBytes - m.lenBytes }, some m)

/-- `selective_ack()`: indices (relative to `filled_front + 1`) of occupied slots. -/
def selectiveAck (q : Ooq) : Option Sack :=
  if q.isEmpty then none else
  let start := q.filledFront + 1
  if start ≥ q.data.length then none else
  let idxs := ((q.data.drop start).zipIdx.filter (fun p => !p.1.isDefault)).map (·.2)
  some (Sack.ofIndices idxs)

end Ooq

inductive UserMsg where
  | payload (bytes : List Nat)
  | eof
  | error (msg : String)
deriving Repr, DecidableEq

def UserMsg.lenBytes : UserMsg → Nat
  | .payload b => b.length
  | _ => 0

structure Rx where
  ooq : Ooq
  queue : List UserMsg := []
  qLenBytes : Nat := 0
  qCapacity : Nat
  maxIncomingPayload : Nat
  lastRemainingRxWindow : Nat
  readerDropped : Bool := false
  vsockClosed : Bool := false
  dispatcherWaker : Bool := false
  readerWaker : Bool := false
  -- UtpStreamReadHalf
  current : Option (List Nat × Nat) := none     -- (payload, offset) of the partially read message
  isEof : Bool := false
deriving Repr, DecidableEq

inductive ReadRes where
  | data (bytes : List Nat)
  | eof                          -- Ok(0)
  | pending
  | err (msg : String)           -- queued error, or "dispatcher dead"
  | bugEmptyPayload
deriving Repr, DecidableEq

namespace Rx

/-- `UserRx::build(max_rx_bytes, max_incoming_payload)`. -/
def build (maxRxBytes maxIncomingPayload : Nat) : Rx :=
  let cap := maxRxBytes / maxIncomingPayload
  { ooq := Ooq.new (if cap = 0 then 64 else cap), qCapacity := maxRxBytes,
    maxIncomingPayload := maxIncomingPayload, lastRemainingRxWindow := maxRxBytes }

def queueWindow (r : Rx) : Nat := r.qCapacity - r.qLenBytes

/-- `remaining_rx_window()`. -/
def remainingRxWindow (r : Rx) : Nat :=
  if r.readerDropped then 0 else r.lastRemainingRxWindow - r.ooq.lenBytes

def toUser : OoqMsg → UserMsg
  | .payload b => .payload b
  | .eof => .eof

/-- The `while let Some(len) = send_front_if_fits(...)` loop of `flush`. Structural on `fuel`
(at most `filled_front` iterations). Returns `none` where `try_push_back(..).unwrap()` would panic. -/
def flushLoop : Nat → Rx → Nat → Nat → Nat → Option (Rx × Nat × Nat × Nat)
  | 0, r, win, flushed, pkts => some (r, win, flushed, pkts)
  | fuel + 1, r, win, flushed, pkts =>
    match r.ooq.sendFrontIfFits win (!r.readerDropped) with
    | (_, none) => some (r, win, flushed, pkts)
    | (ooq', some m) =>
      if r.qCapacity - r.qLenBytes < m.lenBytes then none    -- try_push_back → Err → unwrap panics
      else
        let r' := { r with ooq := ooq', queue := r.queue ++ [toUser m], qLenBytes := r.qLenBytes + m.lenBytes }
        flushLoop fuel r' (win - m.lenBytes) (flushed + m.lenBytes) (pkts + 1)

/-- `UserRx::flush(cx)`: `none` = panic; otherwise new state, flushed bytes, wake events. -/
def flush (r : Rx) : Option (Rx × Nat × List Wake) :=
  let ffb := r.ooq.filledFrontBytes
  let remaining := r.queueWindow
  let r1 := if remaining - ffb < r.maxIncomingPayload then { r with dispatcherWaker := true } else r
  match flushLoop (r1.ooq.filledFront + 1) r1 remaining 0 0 with
  | none => none
  | some (r2, win, flushed, pkts) =>
    let (r3, ws) := if pkts > 0 ∧ r2.readerWaker then ({ r2 with readerWaker := false }, [Wake.reader]) else (r2, [])
    some ({ r3 with lastRemainingRxWindow := win }, flushed, ws)

/-- `UserRx::add_remove(cx, msg, offset)`. -/
def addRemove (r : Rx) (htype : Nat) (payload : List Nat) (offset : Nat) : Option (Rx × AddRemove × List Wake) :=
  let (ooq', res) := r.ooq.addRemove htype payload offset
  let r1 := { r with ooq := ooq' }
  match res with
  | .consumed seqs _ =>
    if seqs > 0 ∧ ooq'.isFull then
      match r1.flush with
      | none => none
      | some (r2, _, ws) => some (r2, res, ws)
    else some (r1, res, [])
  | _ => some (r1, res, [])

/-- `enqueue_error(msg)`. -/
def enqueueError (r : Rx) (msg : String) : Rx × List Wake :=
  let r1 := { r with queue := r.queue ++ [UserMsg.error msg] }
  if r1.readerWaker then ({ r1 with readerWaker := false }, [.reader]) else (r1, [])

/-- `mark_vsock_closed()`. -/
def markVsockClosed (r : Rx) : Rx × List Wake :=
  if !r.vsockClosed then
    if r.readerWaker then ({ r with vsockClosed := true, readerWaker := false }, [.reader])
    else ({ r with vsockClosed := true }, [])
  else (r, [])

/-- `Drop for UtpStreamReadHalf`. -/
def dropReader (r : Rx) : Rx × List Wake :=
  if r.dispatcherWaker then ({ r with readerDropped := true, dispatcherWaker := false }, [.dispatcher])
  else ({ r with readerDropped := true }, [])

inductive LoopExit where
  | done | deadDispatcher | err (msg : String) | bug
deriving Repr, DecidableEq

/-- The `while let Some(current_buf)` loop of `poll_read_vectored` with one buffer of `room`
bytes left. `fuel` bounds the iterations (each consumes a queue item or fills the buffer). -/
def readLoop : Nat → Rx → Nat → List Nat → Rx × List Nat × LoopExit
  | 0, r, _, out => (r, out, .done)
  | fuel + 1, r, room, out =>
    if room = 0 then (r, out, .done) else
    match r.current with
    | some (payload, off) =>
      let rest := payload.drop off
      if rest.isEmpty then (r, out, .bug) else
      let n := min room rest.length
      let off' := off + n
      let r' := { r with current := if off' = payload.length then none else some (payload, off') }
      readLoop fuel r' (room - n) (out ++ rest.take n)
    | none =>
      if r.isEof then (r, out, .done) else
      match r.queue with
      | m :: q' =>
        let r' := { r with queue := q', qLenBytes := r.qLenBytes - m.lenBytes }
        match m with
        | .eof => ({ r' with isEof := true }, out, .done)
        | .payload p => readLoop fuel { r' with current := some (p, 0) } room out
        | .error msg => (r', out, .err msg)
      | [] =>
        if r.vsockClosed then (r, out, .deadDispatcher)
        else ({ r with readerWaker := true }, out, .done)

/-- `UtpStreamReadHalf::poll_read` with a buffer of `n` free bytes. -/
def pollRead (r : Rx) (n : Nat) : Rx × ReadRes × List Wake :=
  let (r1, out, ex) := readLoop (2 * (r.queue.length + 2) + 1) r n []
  match ex with
  | .err msg => (r1, .err msg, [])
  | .bug => (r1, .bugEmptyPayload, [])
  | _ =>
    if out.length > 0 then
      if r1.dispatcherWaker then ({ r1 with dispatcherWaker := false }, .data out, [.dispatcher])
      else (r1, .data out, [])
    else if r1.isEof then (r1, .eof, [])
    else if ex = .deadDispatcher then (r1, .err "dispatcher dead", [])
    else (r1, .pending, [])

end Rx
end UtpVerif.Model
