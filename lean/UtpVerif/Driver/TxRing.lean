import UtpVerif.Driver.Util
import UtpVerif.Model.TxRing
namespace UtpVerif.Driver
open UtpVerif.Model

def countWake (ws : List Wake) (w : Wake) : Nat := (ws.filter (· == w)).length

/-- `dw=<dispatcher wakes> ww=<writer wakes> len=<ring bytes> cap=<capacity>` -/
def showTx (t : TxRing) (ws : List Wake) : String :=
  s!"dw={countWake ws .dispatcher} ww={countWake ws .writer} len={t.ring.length} cap={t.cap}"

/-- The write half may be polled by two different tasks (wakers A = 1 and B = 2). The stored waker is the one of
the latest poll that registered (`update_optional_waker` replaces it); a self-wake goes to the current poller.
`who` = to whom this op's writer wake-ups go. -/
def showTx2 (t : TxRing) (ws : List Wake) (who : Nat) : String :=
  let n := countWake ws .writer
  s!"dw={countWake ws .dispatcher} ww={if who = 2 then 0 else n} wb={if who = 2 then n else 0} len={t.ring.length} cap={t.cap}"

def showFlush : FlushRes → String
  | .ok => "ok" | .pending => "pending" | .errDied => "err:socket-died"

def stepTxRing1 (t : TxRing) (pos : Nat) (args : List String) : TxRing × String :=
  -- a dropped write half cannot be called any more (Rust ownership): reject, never default
  if t.writerDropped ∧ (args.head? ∈ [some "write", some "writepos", some "flush", some "shutdown", some "dropw"]) then (t, "bad-op") else
  match args with
  | ["new", c] => match nat? c with
    | some c => if c = 0 then (t, "bad-op") else let t' := TxRing.new c; (t', showTx t' [])
    | none => (t, "bad-op")
  | ["write", hx] => match hex? hx with
    | some b =>
      let (t', r, ws) := t.pollWrite b
      let rs := match r with
        | .ready n => s!"ready:{n}" | .pending => "pending" | .errClosed => "err:socket-closed"
        | .errShutdown => "err:after-shutdown" | .errDropped => "err:dropped"
      (t', s!"{rs} {showTx t' ws}")
    | none => (t, "bad-op")
  | ["writepos", n] => match nat? n with
    | some n =>
      let b := (List.range n).map (fun j => ((pos + j) * 7 + 3) % 251)
      let (t', r, ws) := t.pollWrite b
      let rs := match r with
        | .ready k => s!"ready:{k}" | .pending => "pending" | .errClosed => "err:socket-closed"
        | .errShutdown => "err:after-shutdown" | .errDropped => "err:dropped"
      (t', s!"{rs} {showTx t' ws}")
    | none => (t, "bad-op")
  | ["flush"] => let (t', r) := t.pollFlush; (t', s!"{showFlush r} {showTx t' []}")
  | ["shutdown"] => let (t', r, ws) := t.pollShutdown; (t', s!"{showFlush r} {showTx t' ws}")
  | ["dropw"] => let (t', ws) := t.dropWriter; (t', s!"ok {showTx t' ws}")
  | ["close"] => let (t', ws) := t.markVsockClosed; (t', s!"ok {showTx t' ws}")
  | ["trunc", n] => match nat? n with
    | some n => let (t', ok) := t.truncateFront n; (t', s!"{if ok then "ok" else "bug:truncate"} {showTx t' []}")
    | none => (t, "bad-op")
  -- the harness runs a real writer thread against thousands of grow() calls and reports whether every accepted byte
  -- came out in order; the model's answer is the theorem `Props/C19.grow_content` (growth never loses bytes)
  | ["race", n] => match nat? n with
    | some n => if n = 0 ∨ n > 2000 then (t, "bad-op") else (t, "ok")
    | none => (t, "bad-op")
  | ["grow", m] => match nat? m with
    | some m => if m = 0 then (t, "bad-op") else
      let (t', r) := t.grow m; (t', s!"{optNat r} {showTx t' []}")
    | none => (t, "bad-op")
  | ["takeww"] => let (t', ws) := t.takeWriterWaker; (t', s!"ok {showTx t' ws}")
  | ["regdisp"] => let t' := t.registerDispatcher; (t', s!"ok {showTx t' []}")
  | ["peek", off, len] => match nat? off, nat? len with
    | some off, some len =>
      -- the wrap split point is invisible in the concatenated result: use k = 0
      match TxRing.prepare2 [] t.ring off len with
      | .ok b => (t, s!"ok {toHex b}")
      | .bugOffset => (t, "bug:offset")
      | .bugLength => (t, "bug:length")
    | _, _ => (t, "bad-op")
  | ["flags"] => (t, s!"dropped={bool01 t.writerDropped} shutdown={bool01 t.writerShutdown}")
  | _ => (t, "bad-op")

/-- wrapper tracking which task's waker is stored (driver-level: the model's `writerWaker` is a flag) -/
def stepTxRing (t : TxRing) (pos : Nat) (lastW : Nat) (args : List String) : TxRing × String × Nat :=
  match args with
  | ["new", _] => let (t', o) := stepTxRing1 t pos args; (t', o.replace " ww=0 " " ww=0 wb=0 ", 1)
  | ["writeposb", n] =>
    if t.writerDropped then (t, "bad-op", lastW) else
    match nat? n with
    | some n =>
      let b := (List.range n).map (fun j => ((pos + j) * 7 + 3) % 251)
      let (t', r, ws) := t.pollWrite b
      let rs := match r with
        | .ready k => s!"ready:{k}" | .pending => "pending" | .errClosed => "err:socket-closed"
        | .errShutdown => "err:after-shutdown" | .errDropped => "err:dropped"
      -- a Pending write registered (or kept) its waker: it is B's now
      (t', s!"{rs} {showTx2 t' ws 2}", if r = .pending ∧ t'.writerWaker then 2 else lastW)
    | none => (t, "bad-op", lastW)
  | _ =>
    -- `flushb` / `shutdownb`: the same call polled by the second task (waker B)
    let isPollB := args = ["flushb"] ∨ args = ["shutdownb"]
    let args := if args = ["flushb"] then ["flush"] else if args = ["shutdownb"] then ["shutdown"] else args
    let (t', o) := stepTxRing1 t pos args
    -- re-render the wake counts with the attribution; writer-side polls by A register A
    let isPollA := ¬ isPollB ∧ args.head? ∈ [some "write", some "writepos", some "flush", some "shutdown"]
    let lastW' := if (isPollA ∨ isPollB) ∧ t'.writerWaker ∧ (o.startsWith "pending") then (if isPollB then 2 else 1) else lastW
    let who := if isPollA then 1 else if isPollB then 2 else lastW
    let o' := if who = 2 then (o.replace " ww=1 " " ww=0 wb=1 ").replace " ww=2 " " ww=0 wb=2 " else
      ((o.replace " ww=0 " " ww=0 wb=0 ").replace " ww=1 " " ww=1 wb=0 ").replace " ww=2 " " ww=2 wb=0 "
    let o'' := if who = 2 then o'.replace " ww=0 len" " ww=0 wb=0 len" else o'
    (t', o'', lastW')

end UtpVerif.Driver
