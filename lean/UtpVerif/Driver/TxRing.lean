import UtpVerif.Driver.Util
import UtpVerif.Model.TxRing
namespace UtpVerif.Driver
open UtpVerif.Model

def countWake (ws : List Wake) (w : Wake) : Nat := (ws.filter (· == w)).length

/-- `dw=<dispatcher wakes> ww=<writer wakes> len=<ring bytes> cap=<capacity>` -/
def showTx (t : TxRing) (ws : List Wake) : String :=
  s!"dw={countWake ws .dispatcher} ww={countWake ws .writer} len={t.ring.length} cap={t.cap}"

def showFlush : FlushRes → String
  | .ok => "ok" | .pending => "pending" | .errDied => "err:socket-died"

def stepTxRing (t : TxRing) (pos : Nat) (args : List String) : TxRing × String :=
  -- a dropped write half cannot be called any more (Rust ownership): reject, never default
  if t.writerDropped ∧ (args.head? ∈ [some "write", some "writepos", some "flush", some "shutdown", some "dropw"]) then (t, "bad-op") else
  match args with
  | ["new", c] => match nat? c with
    | some c => if c = 0 then (t, "bad-op") else let t' := TxRing.new c; (t', showTx t' [])
    | none => (t, "bad-op")
  | ["write", hx] => match hex? hx with
    | some b =>
      let (t', r, ws) := t.pollWrite b
      let rs := match r with
        | .ready n => s!"ready:{n}" | .pending => "pending" | .errClosed => "err:socket-closed"
        | .errShutdown => "err:after-shutdown" | .errDropped => "err:dropped"
      (t', s!"{rs} {showTx t' ws}")
    | none => (t, "bad-op")
  | ["writepos", n] => match nat? n with
    | some n =>
      let b := (List.range n).map (fun j => ((pos + j) * 7 + 3) % 251)
      let (t', r, ws) := t.pollWrite b
      let rs := match r with
        | .ready k => s!"ready:{k}" | .pending => "pending" | .errClosed => "err:socket-closed"
        | .errShutdown => "err:after-shutdown" | .errDropped => "err:dropped"
      (t', s!"{rs} {showTx t' ws}")
    | none => (t, "bad-op")
  | ["flush"] => let (t', r) := t.pollFlush; (t', s!"{showFlush r} {showTx t' []}")
  | ["shutdown"] => let (t', r, ws) := t.pollShutdown; (t', s!"{showFlush r} {showTx t' ws}")
  | ["dropw"] => let (t', ws) := t.dropWriter; (t', s!"ok {showTx t' ws}")
  | ["close"] => let (t', ws) := t.markVsockClosed; (t', s!"ok {showTx t' ws}")
  | ["trunc", n] => match nat? n with
    | some n => let (t', ok) := t.truncateFront n; (t', s!"{if ok then "ok" else "bug:truncate"} {showTx t' []}")
    | none => (t, "bad-op")
  | ["grow", m] => match nat? m with
    | some m => if m = 0 then (t, "bad-op") else
      let (t', r) := t.grow m; (t', s!"{optNat r} {showTx t' []}")
    | none => (t, "bad-op")
  | ["takeww"] => let (t', ws) := t.takeWriterWaker; (t', s!"ok {showTx t' ws}")
  | ["regdisp"] => let t' := t.registerDispatcher; (t', s!"ok {showTx t' []}")
  | ["peek", off, len] => match nat? off, nat? len with
    | some off, some len =>
      -- the wrap split point is invisible in the concatenated result: use k = 0
      match TxRing.prepare2 [] t.ring off len with
      | .ok b => (t, s!"ok {toHex b}")
      | .bugOffset => (t, "bug:offset")
      | .bugLength => (t, "bug:length")
    | _, _ => (t, "bad-op")
  | ["flags"] => (t, s!"dropped={bool01 t.writerDropped} shutdown={bool01 t.writerShutdown}")
  | _ => (t, "bad-op")

end UtpVerif.Driver
