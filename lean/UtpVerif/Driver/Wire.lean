import UtpVerif.Driver.Util
import UtpVerif.Model.Wire
/-! Driver for the wire-format component. -/
namespace UtpVerif.Driver
open UtpVerif.Model

def showSack : Option Sack → String
  | none => "none"
  | some s => s!"{toHex s.asBytes}/{s.len}"

def showHeader (h : Header) : String :=
  s!"type={h.htype} cid={h.connId} ts={h.ts} tsd={h.tsDiff} wnd={h.wnd} seq={h.seqNr} ack={h.ackNr} sack={showSack h.sack} cr={optNat h.closeReason}"

def bytesOk (bs : List Nat) : Bool := bs.all (· < 256)

/-- `type cid ts tsd wnd seq ack sack cr` (sack: `none` or hex of the bytes given to
`SelectiveAck::deserialize`; cr: `-` or u16). -/
def parseHeaderArgs : List String → Option Header
  | [ty, cid, ts, tsd, wnd, seq, ack, sack, cr] => do
    let ty ← nat? ty; let cid ← nat? cid; let ts ← nat? ts; let tsd ← nat? tsd
    let wnd ← nat? wnd; let seq ← nat? seq; let ack ← nat? ack
    if ty > 4 ∨ cid ≥ 65536 ∨ seq ≥ 65536 ∨ ack ≥ 65536 ∨ ts ≥ 4294967296 ∨ tsd ≥ 4294967296 ∨ wnd ≥ 4294967296 then none
    let sack ← if sack = "none" then some none else (hex? sack).map (fun b => some (Sack.deserialize b))
    let cr ← if cr = "-" then some none else (nat? cr).bind (fun n => if n < 65536 then some (some n) else none)
    pure { htype := ty, connId := cid, ts := ts, tsDiff := tsd, wnd := wnd, seqNr := seq, ackNr := ack, sack := sack, closeReason := cr }
  | _ => none

def stepWire (args : List String) : String :=
  match args with
  | ["de", hx] =>
    match hex? hx with
    | some bs => match Header.deserialize bs with
      | none => "none"
      | some (h, n) => s!"ok {showHeader h} hsize={n}"
    | none => "bad-op"
  | ["msg", hx] =>
    match hex? hx with
    | some bs => match Message.deserialize bs with
      | none => "none"
      | some (h, p) => s!"ok {showHeader h} payload={toHex p}"
    | none => "bad-op"
  | "ser" :: buflen :: rest =>
    match nat? buflen, parseHeaderArgs rest with
    | some n, some h => match h.serialize n with
      | none => "err"
      | some bs => toHex bs
    | _, _ => "bad-op"
  | ["rt", hx] =>
    match hex? hx with
    | some bs => match Header.deserialize bs with
      | none => "none"
      | some (h, n) => match h.serialize 1024 with
        | none => "err"
        | some out => match Header.deserialize out with
          | none => s!"diff reparse-none first={showHeader h} hsize={n}"
          | some (h2, n2) => if h == h2 ∧ n2 = out.length then s!"same hsize={n} len={n2}" else s!"diff first={showHeader h} hsize={n} second={showHeader h2} hsize={n2} len={out.length}"
    | none => "bad-op"
  | "rts" :: buflen :: rest =>
    match nat? buflen, parseHeaderArgs rest with
    | some bl, some h => match h.serialize bl with
      | none => "err"
      | some out => match Header.deserialize out with
        | none => "diff reparse-none"
        | some (h2, n2) => if h == h2 ∧ n2 = out.length then s!"same len={n2}" else s!"diff second={showHeader h2} hsize={n2} len={out.length}"
    | _, _ => "bad-op"
  | "sacknew" :: idxs =>
    match idxs.mapM nat? with
    | some is => showSack (some (Sack.ofIndices is))
    | none => "bad-op"
  | _ => "bad-op"

end UtpVerif.Driver
