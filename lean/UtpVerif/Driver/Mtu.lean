import UtpVerif.Driver.Util
import UtpVerif.Model.Mtu
namespace UtpVerif.Driver
open UtpVerif.Model

def showMtu (s : SegSizes) : String :=
  s!"mss={s.mss} max={s.maxSs} probing={bool01 s.isProbing}"

def stepMtu (s : SegSizes) (args : List String) : SegSizes × String :=
  match args with
  | ["new", v4, mtu, cd] =>
    match nat? v4, nat? mtu, nat? cd with
    | some v, some m, some c =>
      if m < 65536 ∧ c < 65536 then let s' := SegSizes.new (v = 1) m c; (s', showMtu s') else (s, "bad-op")
    | _, _, _ => (s, "bad-op")
  | ["delivered", p] =>
    match nat? p with
    | some p => let s' := s.onPayloadDelivered p; (s', showMtu s')
    | none => (s, "bad-op")
  | ["next"] => let (s', n) := s.nextSegmentSize; (s', s!"ss={n} {showMtu s'}")
  | ["failed", p] =>
    match nat? p with
    | some p => let s' := s.onProbeFailed p; (s', showMtu s')
    | none => (s, "bad-op")
  | ["path", p] =>
    match nat? p with
    | some p => let (s', n) := s.pathStep p; (s', s!"ss={n} {showMtu s'}")
    | none => (s, "bad-op")
  | ["disarm"] => let s' := s.disarmCooldown; (s', showMtu s')
  | _ => (s, "bad-op")

end UtpVerif.Driver
