import UtpVerif.Driver.Util
import UtpVerif.Model.Sock
/-! Driver for the `sock` component: the dispatcher model plus the world around it (control channel,
transport inbox, the connect()/accept() calls in flight). -/
namespace UtpVerif.Driver
open UtpVerif.Model UtpVerif.Model.Disp

inductive CallSt where
  | waiting
  | blocked                       -- accept(): still waiting for room in the acceptor channel
  | readyOk (remote : Nat) (k : Key) (inst : Nat)
  | readyErr (text : String)
  | done
deriving Repr, DecidableEq

structure SockSt where
  d : Option Disp := none
  ctl : List Ctl := []
  inbox : List (Nat × List Nat) := []
  connects : List (Nat × Nat × CallSt) := []     -- id ↦ (addr, state)
  accepts : List (Nat × CallSt) := []
  -- tokio's bounded acceptor channel: free permits, and senders waiting for one (FIFO; a freed permit is
  -- handed to the first waiter, which enqueues its message when it is polled next)
  permits : Nat := Gen.ACCEPT_QUEUE_MAX_ACCEPTORS
  waiters : List (Nat × Bool) := []
  parked : Bool := false      -- a `run_once` is waiting inside `select!` (its clean-up already done)

def insSorted (s : String) : List String → List String
  | [] => [s]
  | x :: xs => if s < x then s :: x :: xs else x :: insSorted s xs

def sortStrs (l : List String) : List String := l.foldl (fun acc s => insSorted s acc) []

def addrStr (p : Nat) : String := s!"127.0.0.1:{p}"

def sockFp (s : SockSt) (d : Disp) : String :=
  let streams := sortStrs (d.streams.map (fun (k, inst) => s!"{addrStr k.addr}/{k.id}" ++ (if d.deadStreams.contains inst then "/dead" else "")))
  let connecting := sortStrs (d.connecting.map (fun (a, slots) =>
    let ss := slots.map (fun o => match o with
      | some c => toString c.seqNr ++ (if d.deadReq.contains c.token then "x" else "")
      | none => "-")
    s!"{addrStr a}={".".intercalate ss}:{(slots.filter (·.isSome)).length}"))
  let syns := d.syns.map (fun y => s!"{addrStr y.remote}/{y.h.connId}/{y.h.seqNr}")
  s!"streams=[{",".intercalate streams}] connecting=[{",".intercalate connecting}] syns=[{",".intercalate syns}] next_acc={if d.nextAcceptor.isSome then 1 else 0} acc_q={d.accChan.length} ctl_q={s.ctl.length} next_cid={d.nextConnId}"

def errText : ConnErr → String
  | .tooMany => "too_many_active_connections"
  | .sendingSyn => "error_sending_SYN:_scripted_transport_failure"
  | .dispatcherDead => "dispatcher_dead"

def setCall {α} (l : List (Nat × α)) (i : Nat) (v : α) : List (Nat × α) :=
  l.map (fun (j, x) => if j = i then (j, v) else (j, x))

def applyEff (s : SockSt) (e : Eff) : SockSt :=
  match e with
  | .connectOk token k inst =>
    { s with connects := s.connects.map (fun (j, a, st) => if j = token ∧ st = .waiting then (j, a, .readyOk k.addr k inst) else (j, a, st)) }
  | .connectErr token err =>
    { s with connects := s.connects.map (fun (j, a, st) => if j = token ∧ st = .waiting then (j, a, .readyErr (errText err)) else (j, a, st)) }
  | .accepted acc k remote inst =>
    { s with accepts := s.accepts.map (fun (j, st) => if j = acc ∧ st = .waiting then (j, .readyOk remote k inst) else (j, st)) }
  | _ => s

def effOut (effs : List Eff) : String :=
  let outs := effs.filterMap (fun e => match e with | .sent to b => some s!"{to}:{toHex b}" | _ => none)
  s!"out=[{",".intercalate outs}]"

/-- one permit comes back: to the first waiter that has none, else to the pool -/
def releasePermit (s : SockSt) : SockSt :=
  let rec go : List (Nat × Bool) → Option (List (Nat × Bool))
    | [] => none
    | (i, true) :: rest => (go rest).map ((i, true) :: ·)
    | (i, false) :: rest => some ((i, true) :: rest)
  match go s.waiters with
  | some w => { s with waiters := w }
  | none => { s with permits := s.permits + 1 }

def releaseN : Nat → SockSt → SockSt
  | 0, s => s
  | n + 1, s => releaseN n (releasePermit s)

def fpOrParked (s : SockSt) (d : Disp) : String := if s.parked then "-" else sockFp s d

def finish (s : SockSt) (d : Disp) (head : String) (effs : List Eff) : SockSt × String :=
  -- acceptors the dispatcher took out of the channel give their permits back
  let before := match s.d with | some d0 => d0.accChan.length | none => 0
  let s := releaseN (before - d.accChan.length) s
  let s := effs.foldl applyEff { s with d := some d }
  (s, s!"{head} {effOut effs} fp={fpOrParked s d}")

/-- the send completes: the acceptor is now in the channel (bypasses `finish`'s permit accounting) -/
def enqueueAcc (s : SockSt) (d : Disp) (i : Nat) : SockSt × String :=
  let d' := { d with accChan := d.accChan ++ [{ id := i }] }
  let s := { s with d := some d' }
  (s, s!"pending {effOut []} fp={fpOrParked s d'}")

def pollCall (st : CallSt) : CallSt × String :=
  match st with
  | .waiting => (.waiting, "pending")
  | .blocked => (.blocked, "pending")
  | .readyOk r _ _ => (.done, s!"ok remote={r}")
  | .readyErr t => (.done, s!"err:{t}")
  | .done => (.done, "done")

def parseNatList (s : String) : List Nat := (s.splitOn ",").filterMap String.toNat?

/-- one whole `run_once` iteration; `rest` may carry `b=<branch>` (the branch the implementation's select! took) -/
def stepRun (s : SockSt) (d : Disp) (rest : List String) : SockSt × String :=
  -- which sources are ready (after the clean-up, as `select!` sees them)
  let (dc, _) := d.cleanupAcceptQueue
  let accReady := dc.nextAcceptor.isNone ∧ ¬ dc.accChan.isEmpty
  let ctlReady := ¬ s.ctl.isEmpty
  let recvReady := ¬ s.inbox.isEmpty
  let branch := match rest with
    | [b] => (b.drop 2).toString
    | _ => if ctlReady then "ctl" else if recvReady then "recv" else if accReady then "acc" else "idle"
  match branch with
  | "ctl" =>
    match s.ctl with
    | c :: cs => let (d', effs) := d.runOnce (.control c); finish { s with ctl := cs } d' "ctl" effs
    | [] => (s, "bad-branch")
  | "recv" =>
    match s.inbox with
    | (a, b) :: rest => let (d', effs) := d.runOnce (.datagram a b); finish { s with inbox := rest } d' "recv" effs
    | [] => (s, "bad-branch")
  | "acc" =>
    if accReady then let (d', effs) := d.runOnce .acceptor; finish s d' "acc" effs else (s, "bad-branch")
  | "idle" =>
    if ctlReady ∨ recvReady ∨ accReady then (s, "bad-branch") else
    let (d', effs) := d.runOnce .idle; finish s d' "idle" effs
  | _ => (s, "bad-op")

def stepSock (s : SockSt) (args : List String) : SockSt × String :=
  match args with
  | "new" :: rest =>
    let kvs := rest.filterMap (fun a => match a.splitOn "=" with | [k, v] => some (k, v) | _ => none)
    let max := ((kvs.find? (·.1 = "max")).bind (·.2.toNat?)).getD 128
    let rnd := ((kvs.find? (·.1 = "r")).map (fun kv => parseNatList kv.2)).getD []
    if max = 0 then ({}, "bad-op") else
    let d0 : Disp := { maxActive := max, rnd := rnd }
    let (cid, d) := d0.random
    let d := { d with nextConnId := cid }
    let s : SockSt := { d := some d }
    (s, s!"ok fp={sockFp s d}")
  | _ =>
    match s.d with
    | none => (s, "bad-op")
    | some d =>
      let allowed : Bool := match args with
        | ["accept", _] | ["inject", _, _] => true
        | "resume" :: _ => s.parked
        | _ => !s.parked
      if !allowed then (s, "bad-op") else
      match args with
      | "park" :: rest =>
        let (dc, e0) := d.cleanupAcceptQueue
        let accReady := dc.nextAcceptor.isNone ∧ ¬ dc.accChan.isEmpty
        if ¬ s.ctl.isEmpty ∨ ¬ s.inbox.isEmpty ∨ accReady then stepRun s d rest     -- something is ready: an ordinary iteration
        else
          let (s', _) := finish s dc "parked" e0
          ({ s' with parked := true }, s!"parked {effOut e0} fp=-")
      | "resume" :: rest =>
        let accReady := d.nextAcceptor.isNone ∧ ¬ d.accChan.isEmpty
        let recvReady := ¬ s.inbox.isEmpty
        let branch := match rest with
          | [b] => (b.drop 2).toString
          | _ => if recvReady then "recv" else if accReady then "acc" else "parked"
        match branch with
        | "recv" =>
          match s.inbox with
          | (a, b) :: rest => let (d', effs) := d.handle (.datagram a b); finish { s with inbox := rest, parked := false } d' "recv" effs
          | [] => (s, "bad-branch")
        | "acc" =>
          if accReady then let (d', effs) := d.handle .acceptor; finish { s with parked := false } d' "acc" effs else (s, "bad-branch")
        | "parked" => if recvReady ∨ accReady then (s, "bad-branch") else (s, "parked out=[] fp=-")
        | _ => (s, "bad-op")
      | ["rand", l] => finish s { d with rnd := d.rnd ++ parseNatList l } "ok" []
      | ["tmode", m] =>
        match m with
        | "ok" => finish s { d with sendMode := .ok } "ok" []
        | "fail" => finish s { d with sendMode := .fail } "ok" []
        | "short" => finish s { d with sendMode := .short } "ok" []
        | _ => (s, "bad-op")
      | ["connect", i, port] =>
        match nat? i, nat? port with
        | some i, some port =>
          if port ≥ 65536 ∨ (s.connects.any (·.1 = i)) then (s, "bad-op") else
          finish { s with ctl := s.ctl ++ [.connectRequest port i], connects := s.connects ++ [(i, port, .waiting)] } d "pending" []
        | _, _ => (s, "bad-op")
      | ["accept", i] =>
        match nat? i with
        | some i =>
          if s.accepts.any (·.1 = i) then (s, "bad-op") else
          if s.permits = 0 then
            finish { s with accepts := s.accepts ++ [(i, .blocked)], waiters := s.waiters ++ [(i, false)] } d (if s.parked then "pending" else "blocked") []
          else
            enqueueAcc { s with accepts := s.accepts ++ [(i, .waiting)], permits := s.permits - 1 } d i
        | none => (s, "bad-op")
      | ["pollconn", i] =>
        match (nat? i).bind (fun i => s.connects.find? (·.1 = i)) with
        | some (i, a, st) =>
          let (st', out) := pollCall st
          -- `rx.await` failing (the request was dropped unanswered) returns through `?` with the drop guard still armed
          let extra := if st = .readyErr (errText .dispatcherDead) then [Ctl.connectDropped a i] else []
          finish { s with ctl := s.ctl ++ extra, connects := s.connects.map (fun (j, b, x) => if j = i then (j, a, st') else (j, b, x)) } d out []
        | none => (s, "bad-op")
      | ["pollacc", i] =>
        match (nat? i).bind (fun i => s.accepts.find? (·.1 = i)) with
        | some (i, st) =>
          if st = .blocked ∧ s.waiters.contains (i, true) then
            enqueueAcc { s with accepts := setCall s.accepts i .waiting, waiters := s.waiters.filter (·.1 ≠ i) } d i
          else
          let (st', out) := pollCall st
          finish { s with accepts := setCall s.accepts i st' } d out []
        | none => (s, "bad-op")
      | ["dropconn", i] =>
        match (nat? i).bind (fun i => s.connects.find? (·.1 = i)) with
        | some (i, a, st) =>
          let s' := { s with connects := s.connects.map (fun (j, b, x) => if j = i then (j, a, .done) else (j, b, x)) }
          if st = .done then finish s' d "ok" [] else
          -- the future is dropped before it saw an answer: its guard sends ConnectDropped
          finish { s' with ctl := s'.ctl ++ [.connectDropped a i] } { d with deadReq := d.deadReq ++ [i] } "ok" []
        | none => (s, "bad-op")
      | ["dropacc", i] =>
        match (nat? i).bind (fun i => s.accepts.find? (·.1 = i)) with
        | some (i, st) =>
          let s' := { s with accepts := setCall s.accepts i .done }
          match st with
          | .done => finish s' d "ok" []
          | .blocked =>
            let had := s'.waiters.contains (i, true)
            let s'' := { s' with waiters := s'.waiters.filter (·.1 ≠ i) }
            finish (if had then releasePermit s'' else s'') d "ok" []
          | .readyOk _ k inst =>
            -- the answer (a not yet started connection) is dropped with the future: its task state dies and its
            -- drop guard asks the dispatcher to forget the key
            finish { s' with ctl := s'.ctl ++ [.shutdown k (some inst)] } { d with deadStreams := d.deadStreams ++ [inst] } "ok" []
          | _ => finish s' { d with deadAcc := d.deadAcc ++ [i] } "ok" []
        | none => (s, "bad-op")
      | ["inject", port, hx] =>
        match nat? port, hex? hx with
        | some port, some b =>
          if port ≥ 65536 ∨ b.length > 16384 then (s, "bad-op") else
          finish { s with inbox := s.inbox ++ [(port, b)] } d "ok" []
        | _, _ => (s, "bad-op")
      | ["shutdown", port, id] =>
        match nat? port, nat? id with
        | some port, some id =>
          if port ≥ 65536 ∨ id ≥ 65536 then (s, "bad-op") else
          finish { s with ctl := s.ctl ++ [.shutdown { addr := port, id := id } none] } d "ok" []
        | _, _ => (s, "bad-op")
      | "run" :: rest => stepRun s d rest
      | ["fp"] => finish s d "ok" []
      | _ => (s, "bad-op")

end UtpVerif.Driver
