import UtpVerif.Driver.Util
import UtpVerif.Model.Sock
/-! Driver for the `sock` component: the dispatcher model plus the world around it (control channel,
transport inbox, the connect()/accept() calls in flight). -/
namespace UtpVerif.Driver
open UtpVerif.Model UtpVerif.Model.Disp

inductive CallSt where
  | waiting
  | blocked                       -- accept(): still waiting for room in the acceptor channel
  | readyOk (remote : Nat)
  | readyErr (text : String)
  | done
deriving Repr, DecidableEq

structure SockSt where
  d : Option Disp := none
  ctl : List Ctl := []
  inbox : List (Nat × List Nat) := []
  connects : List (Nat × Nat × CallSt) := []     -- id ↦ (addr, state)
  accepts : List (Nat × CallSt) := []

def insSorted (s : String) : List String → List String
  | [] => [s]
  | x :: xs => if s < x then s :: x :: xs else x :: insSorted s xs

def sortStrs (l : List String) : List String := l.foldl (fun acc s => insSorted s acc) []

def addrStr (p : Nat) : String := s!"127.0.0.1:{p}"

def sockFp (s : SockSt) (d : Disp) : String :=
  let streams := sortStrs (d.streams.map (fun k => s!"{addrStr k.addr}/{k.id}" ++ (if d.deadStreams.contains k then "/dead" else "")))
  let connecting := sortStrs (d.connecting.map (fun (a, slots) =>
    let ss := slots.map (fun o => match o with
      | some c => toString c.seqNr ++ (if d.deadReq.contains c.token then "x" else "")
      | none => "-")
    s!"{addrStr a}={".".intercalate ss}:{(slots.filter (·.isSome)).length}"))
  let syns := d.syns.map (fun y => s!"{addrStr y.remote}/{y.h.connId}/{y.h.seqNr}")
  s!"streams=[{",".intercalate streams}] connecting=[{",".intercalate connecting}] syns=[{",".intercalate syns}] next_acc={if d.nextAcceptor.isSome then 1 else 0} acc_q={d.accChan.length} ctl_q={s.ctl.length} next_cid={d.nextConnId}"

def errText : ConnErr → String
  | .tooMany => "too_many_active_connections"
  | .sendingSyn => "error_sending_SYN:_scripted_transport_failure"
  | .dispatcherDead => "dispatcher_dead"

def setCall {α} (l : List (Nat × α)) (i : Nat) (v : α) : List (Nat × α) :=
  l.map (fun (j, x) => if j = i then (j, v) else (j, x))

def applyEff (s : SockSt) (e : Eff) : SockSt :=
  match e with
  | .connectOk token k =>
    { s with connects := s.connects.map (fun (j, a, st) => if j = token ∧ st = .waiting then (j, a, .readyOk k.addr) else (j, a, st)) }
  | .connectErr token err =>
    { s with connects := s.connects.map (fun (j, a, st) => if j = token ∧ st = .waiting then (j, a, .readyErr (errText err)) else (j, a, st)) }
  | .accepted acc _ remote =>
    { s with accepts := s.accepts.map (fun (j, st) => if j = acc ∧ st = .waiting then (j, .readyOk remote) else (j, st)) }
  | _ => s

def effOut (effs : List Eff) : String :=
  let outs := effs.filterMap (fun e => match e with | .sent to b => some s!"{to}:{toHex b}" | _ => none)
  s!"out=[{",".intercalate outs}]"

def finish (s : SockSt) (d : Disp) (head : String) (effs : List Eff) : SockSt × String :=
  let s := effs.foldl applyEff { s with d := some d }
  (s, s!"{head} {effOut effs} fp={sockFp s d}")

def pollCall (st : CallSt) : CallSt × String :=
  match st with
  | .waiting => (.waiting, "pending")
  | .blocked => (.blocked, "pending")
  | .readyOk r => (.done, s!"ok remote={r}")
  | .readyErr t => (.done, s!"err:{t}")
  | .done => (.done, "done")

def parseNatList (s : String) : List Nat := (s.splitOn ",").filterMap String.toNat?

def stepSock (s : SockSt) (args : List String) : SockSt × String :=
  match args with
  | "new" :: rest =>
    let kvs := rest.filterMap (fun a => match a.splitOn "=" with | [k, v] => some (k, v) | _ => none)
    let max := ((kvs.find? (·.1 = "max")).bind (·.2.toNat?)).getD 128
    let rnd := ((kvs.find? (·.1 = "r")).map (fun kv => parseNatList kv.2)).getD []
    if max = 0 then ({}, "bad-op") else
    let d0 : Disp := { maxActive := max, rnd := rnd }
    let (cid, d) := d0.random
    let d := { d with nextConnId := cid }
    let s : SockSt := { d := some d }
    (s, s!"ok fp={sockFp s d}")
  | _ =>
    match s.d with
    | none => (s, "bad-op")
    | some d =>
      match args with
      | ["rand", l] => finish s { d with rnd := d.rnd ++ parseNatList l } "ok" []
      | ["tmode", m] =>
        match m with
        | "ok" => finish s { d with sendMode := .ok } "ok" []
        | "fail" => finish s { d with sendMode := .fail } "ok" []
        | "short" => finish s { d with sendMode := .short } "ok" []
        | _ => (s, "bad-op")
      | ["connect", i, port] =>
        match nat? i, nat? port with
        | some i, some port =>
          if port ≥ 65536 ∨ (s.connects.any (·.1 = i)) then (s, "bad-op") else
          finish { s with ctl := s.ctl ++ [.connectRequest port i], connects := s.connects ++ [(i, port, .waiting)] } d "pending" []
        | _, _ => (s, "bad-op")
      | ["accept", i] =>
        match nat? i with
        | some i =>
          if s.accepts.any (·.1 = i) then (s, "bad-op") else
          if d.accChan.length ≥ Gen.ACCEPT_QUEUE_MAX_ACCEPTORS then
            finish { s with accepts := s.accepts ++ [(i, .blocked)] } d "blocked" []
          else
            finish { s with accepts := s.accepts ++ [(i, .waiting)] } { d with accChan := d.accChan ++ [{ id := i }] } "pending" []
        | none => (s, "bad-op")
      | ["pollconn", i] =>
        match (nat? i).bind (fun i => s.connects.find? (·.1 = i)) with
        | some (i, a, st) =>
          let (st', out) := pollCall st
          finish { s with connects := s.connects.map (fun (j, b, x) => if j = i then (j, a, st') else (j, b, x)) } d out []
        | none => (s, "bad-op")
      | ["pollacc", i] =>
        match (nat? i).bind (fun i => s.accepts.find? (·.1 = i)) with
        | some (i, st) =>
          let (st', out) := pollCall st
          finish { s with accepts := setCall s.accepts i st' } d out []
        | none => (s, "bad-op")
      | ["dropconn", i] =>
        match (nat? i).bind (fun i => s.connects.find? (·.1 = i)) with
        | some (i, a, st) =>
          let s' := { s with connects := s.connects.map (fun (j, b, x) => if j = i then (j, a, .done) else (j, b, x)) }
          if st = .done then finish s' d "ok" [] else
          -- the future is dropped before it saw an answer: its guard sends ConnectDropped
          finish { s' with ctl := s'.ctl ++ [.connectDropped a i] } { d with deadReq := d.deadReq ++ [i] } "ok" []
        | none => (s, "bad-op")
      | ["dropacc", i] =>
        match (nat? i).bind (fun i => s.accepts.find? (·.1 = i)) with
        | some (i, st) =>
          let s' := { s with accepts := setCall s.accepts i .done }
          if st = .done ∨ st = .blocked then finish s' d "ok" [] else
          finish s' { d with deadAcc := d.deadAcc ++ [i] } "ok" []
        | none => (s, "bad-op")
      | ["inject", port, hx] =>
        match nat? port, hex? hx with
        | some port, some b =>
          if port ≥ 65536 ∨ b.length > 16384 then (s, "bad-op") else
          finish { s with inbox := s.inbox ++ [(port, b)] } d "ok" []
        | _, _ => (s, "bad-op")
      | ["shutdown", port, id] =>
        match nat? port, nat? id with
        | some port, some id =>
          if port ≥ 65536 ∨ id ≥ 65536 then (s, "bad-op") else
          finish { s with ctl := s.ctl ++ [.shutdown { addr := port, id := id }] } d "ok" []
        | _, _ => (s, "bad-op")
      | "run" :: rest =>
        -- which sources are ready (after the clean-up, as `select!` sees them)
        let (dc, _) := d.cleanupAcceptQueue
        let accReady := dc.nextAcceptor.isNone ∧ ¬ dc.accChan.isEmpty
        let ctlReady := ¬ s.ctl.isEmpty
        let recvReady := ¬ s.inbox.isEmpty
        let branch := match rest with
          | [b] => (b.drop 2).toString
          | _ => if ctlReady then "ctl" else if recvReady then "recv" else if accReady then "acc" else "idle"
        match branch with
        | "ctl" =>
          match s.ctl with
          | c :: cs => let (d', effs) := d.runOnce (.control c); finish { s with ctl := cs } d' "ctl" effs
          | [] => (s, "bad-branch")
        | "recv" =>
          match s.inbox with
          | (a, b) :: rest => let (d', effs) := d.runOnce (.datagram a b); finish { s with inbox := rest } d' "recv" effs
          | [] => (s, "bad-branch")
        | "acc" =>
          if accReady then let (d', effs) := d.runOnce .acceptor; finish s d' "acc" effs else (s, "bad-branch")
        | "idle" =>
          if ctlReady ∨ recvReady ∨ accReady then (s, "bad-branch") else
          let (d', effs) := d.runOnce .idle; finish s d' "idle" effs
        | _ => (s, "bad-op")
      | ["fp"] => finish s d "ok" []
      | _ => (s, "bad-op")

end UtpVerif.Driver
