import UtpVerif.Driver.Util
import UtpVerif.Model.SeqNr
import UtpVerif.Model.Rtte
/-! Driver for the pure components: `seqnr`, `rtte`. -/
namespace UtpVerif.Driver
open UtpVerif.Model

def seqCmp (a b : Nat) : Int :=
  let o := seqSub a b
  if o < 0 then -1 else if o = 0 then 0 else 1

def stepSeqNr (args : List String) : String :=
  match args with
  | ["so", a, b, t] =>
    match nat? a, nat? b, nat? t with
    | some a, some b, some t => if a < 65536 ∧ b < 65536 ∧ t < 65536 then toString (seqOffset a b t) else "bad-op"
    | _, _, _ => "bad-op"
  | ["sub", a, b] =>
    match nat? a, nat? b with
    | some a, some b => if a < 65536 ∧ b < 65536 then toString (seqSub a b) else "bad-op"
    | _, _ => "bad-op"
  | ["cmp", a, b] =>
    match nat? a, nat? b with
    | some a, some b => if a < 65536 ∧ b < 65536 then toString (seqCmp a b) else "bad-op"
    | _, _ => "bad-op"
  | _ => "bad-op"

def showRtte (s : Rtte) : String := s!"rto={s.rto} rtt={s.roundtripTime}"

def stepRtte (s : Rtte) (args : List String) : Rtte × String :=
  match args with
  | ["new"] => (Rtte.init, showRtte Rtte.init)
  | ["sample", r] =>
    match nat? r with
    | some r => let s' := s.sample r; (s', showRtte s')
    | none => (s, "bad-op")
  | ["timeout"] => let s' := s.onRtoTimeout; (s', showRtte s')
  | _ => (s, "bad-op")

end UtpVerif.Driver
