import UtpVerif.Driver.Util
import UtpVerif.Driver.Wire
import UtpVerif.Model.Segments
namespace UtpVerif.Driver
open UtpVerif.Model

def showView (v : SegView) : String :=
  s!"{v.seqNr}:{v.seg.payloadSize}:{v.payloadOffset}:{v.seg.sendCount}:{v.seg.retransmitCount}:{bool01 v.seg.isLost}{bool01 v.seg.isExpired}{bool01 v.seg.hasSacksAfterIt}{bool01 v.seg.isMtuProbe}"

/-- `| n=<pkts> bytes=<len_bytes> first=<seq|-> sd=<sack_depth> [seq:size:off:sends:retx:flags …]` -/
def dumpSegs (s : Segments) : String :=
  let views := match s.iterForSending none with
    | none => "PANIC-iter"
    | some vs => " ".intercalate (vs.map showView)
  s!"| n={s.segs.length} bytes={s.lenBytes} first={optNat s.firstSeqNr} sd={s.sackDepth} [{views}]"

def parseSackArg (a : String) : Option (Option Sack) :=
  if a = "none" then some none else (hex? a).map (fun b => some (Sack.deserialize b))

def stepSegs (s : Segments) (args : List String) : Segments × String :=
  match args with
  | ["new", u] => match nat? u with
    | some u => if u < 65536 then let s' := Segments.new u; (s', dumpSegs s') else (s, "bad-op")
    | none => (s, "bad-op")
  | ["enq", l, p] => match nat? l, nat? p with
    | some l, some p => let s' := s.enqueue l (p = 1); (s', s!"ok {dumpSegs s'}")
    | _, _ => (s, "bad-op")
  | ["popprobe", q] => match nat? q with
    | some q => if q ≥ 65536 then (s, "bad-op") else
      match s.popMtuProbe q with
      | none => (s, "PANIC")
      | some (s', b) => (s', s!"{bool01 b} {dumpSegs s'}")
    | none => (s, "bad-op")
  | ["popexp", t, m] => match nat? t, nat? m with
    | some t, some m => match s.popExpiredMtuProbe (t = 1) m with
      | none => (s, "PANIC")
      | some (s', r) =>
        let rs := match r with
          | .expired rw ps => s!"expired:{rw}:{ps}" | .notExpired => "notexpired" | .empty => "empty"
        (s', s!"{rs} {dumpSegs s'}")
    | _, _ => (s, "bad-op")
  | ["ack", now, a, sk] => match nat? now, nat? a, parseSackArg sk with
    | some now, some a, some sk => if a ≥ 65536 then (s, "bad-op") else
      match s.removeUpToAck now a sk with
      | none => (s, "PANIC")
      | some (s', r) =>
        (s', s!"acked={r.ackedSegmentsCount} bytes={r.ackedBytes} maxp={r.maxAckedPayloadSize} sacked={r.newlySackedSegmentCount} sbytes={r.newlySackedByteCount} rtt={optNat r.newRtt} {dumpSegs s'}")
    | _, _, _ => (s, "bad-op")
  | ["flight", l] => match nat? l with
    | some l => if l ≥ 65536 then (s, "bad-op") else (s, s!"{s.calcFlightSize l}")
    | none => (s, "bad-op")
  | ["pipe", hr, hd, rtt, now] => match nat? hr, nat? hd, nat? rtt, nat? now with
    | some hr, some hd, some rtt, some now => if hr ≥ 65536 ∨ hd ≥ 65536 then (s, "bad-op") else
      match s.calcPipe hr hd rtt now with
      | none => (s, "PANIC")
      | some (s', p) => (s', s!"pipe={p.pipe} timer={optNat p.recalcTimer} {dumpSegs s'}")
    | _, _, _, _ => (s, "bad-op")
  | ["sent", q, now] => match nat? q, nat? now with
    | some q, some now => match s.iterForSending none with
      | none => (s, "PANIC")
      | some vs => match vs.find? (fun v => v.seqNr = q) with
        | none => (s, "noseg")
        | some v => let s' := s.onSent v.idx now; (s', s!"ok {dumpSegs s'}")
    | _, _ => (s, "bad-op")
  | ["iter", st] =>
    let start := if st = "none" then some none else (nat? st).bind (fun n => if n < 65536 then some (some n) else none)
    match start with
    | none => (s, "bad-op")
    | some start => match s.iterForSending start with
      | none => (s, "PANIC")
      | some vs => (s, "[" ++ " ".intercalate (vs.map showView) ++ "]")
  | _ => (s, "bad-op")

end UtpVerif.Driver
