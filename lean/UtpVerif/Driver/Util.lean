/-! Parsing helpers shared by all component drivers (line protocol). -/
namespace UtpVerif.Driver

def toks (line : String) : List String :=
  (line.trimAscii.toString.splitOn " ").filter (· ≠ "")

def nat? (s : String) : Option Nat := s.toNat?

def int? (s : String) : Option Int := s.toInt?

def hexDigit? (c : Char) : Option Nat :=
  if '0' ≤ c ∧ c ≤ '9' then some (c.toNat - '0'.toNat)
  else if 'a' ≤ c ∧ c ≤ 'f' then some (c.toNat - 'a'.toNat + 10)
  else if 'A' ≤ c ∧ c ≤ 'F' then some (c.toNat - 'A'.toNat + 10)
  else none

/-- `"-"` is the empty byte string; otherwise lowercase hex pairs. -/
def hex? (s : String) : Option (List Nat) :=
  if s = "-" then some [] else
  let rec go : List Char → Option (List Nat)
    | [] => some []
    | [_] => none
    | a :: b :: t => do
        let x ← hexDigit? a
        let y ← hexDigit? b
        let r ← go t
        pure ((x * 16 + y) :: r)
  go s.toList

def hexChar (n : Nat) : Char :=
  if n < 10 then Char.ofNat ('0'.toNat + n) else Char.ofNat ('a'.toNat + n - 10)

def toHex (bs : List Nat) : String :=
  if bs.isEmpty then "-" else
  String.ofList (bs.foldr (fun b acc => hexChar (b / 16) :: hexChar (b % 16) :: acc) [])

def optNat (o : Option Nat) : String := match o with | none => "-" | some n => toString n

def bool01 (b : Bool) : String := if b then "1" else "0"

end UtpVerif.Driver
