import UtpVerif.Driver.Util
import UtpVerif.Driver.Wire
import UtpVerif.Driver.TxRing
import UtpVerif.Model.VSock
namespace UtpVerif.Driver
open UtpVerif.Model

structure VsSt where
  v : Option VSock := none
  now : Nat := 0
  transport : TransportMode := .ok
  wpos : Nat := 0
  dead : Bool := false
  chanOpen : Bool := true

def kvGet (kvs : List (String × String)) (k : String) (d : Nat) : Nat :=
  match kvs.find? (·.1 = k) with
  | some (_, v) => v.toNat?.getD d
  | none => d

def parseKvs (args : List String) : List (String × String) :=
  args.filterMap (fun a => match a.splitOn "=" with | [k, v] => some (k, v) | _ => none)

def showState : VState → String
  | .synReceived => "SynReceived"
  | .synAckSent c => "SynAckSent;{;count:;" ++ toString c ++ ";}"
  | .established => "Established"
  | .finWait1 f => "FinWait1;{;our_fin:;" ++ toString f ++ ";}"
  | .finWait2 => "FinWait2"
  | .lastAck f r => "LastAck;{;our_fin:;" ++ toString f ++ ",;remote_fin:;" ++ toString r ++ ";}"
  | .closed => "Closed"

def fingerprint (v : VSock) (sleepD : Nat) : String :=
  let t := v.timers
  s!"st={showState v.state};seq={v.seqNr};lss={v.lastSentSeqNr};lc={v.lastConsumedRemoteSeqNr};lsa={v.lastSentAckNr};lsw={v.lastSentWindow};cbu={v.consumedButUnackedBytes};rtor={v.rtoRetransmissions};lrw={v.lastRemoteWindow};t_rtx={optNat t.retransmit};t_inact={optNat t.inactivity};t_ack={optNat t.ackDelay};t_pipe={optNat t.pipeExpiry};t_syn={optNat t.synAckResend};sleep={sleepD};rto={v.rtte.rto};rtt={v.rtte.roundtripTime};ss=min_ss={v.ss.minSs}:max_ss={v.ss.maxSs};rec={if v.recovery.isRecovering then "recovering" else "no"}"

def wakeStr (ws : List Wake) : String :=
  s!"dw={countWake ws .dispatcher} ww={countWake ws .writer} rw={countWake ws .reader}"

/-- Mirrors `UtpStreamStarter::new` for the arguments the harness passes to `StreamArgs`. -/
def vsNew (dir : String) (kvs : List (String × String)) : VSock × Nat :=
  let g := kvGet kvs
  let v4 := g "v4" 1 = 1
  let our := g "our" 101 % 65536
  let rem := g "rem" 1 % 65536
  let cid := g "cid" 7 % 65536
  let rts := g "rts" 0 % 4294967296
  let opts : Opts := { maxRetx := g "retx" 5, inactivityTimeout := g "inact" 10000000000, nagle := g "nagle" 1 ≠ 0,
                       waitForLastAck := g "wla" 1 ≠ 0, mtuProbeMaxRetx := g "probe_retx" 1,
                       txMax := g "txmax" 1048576, rxBufSize := g "rx" 1048576 }
  let ss := SegSizes.new v4 (g "mtu" 1500) Gen.MTU_PROBE_COOLDOWN_DEFAULT
  let outgoing := dir = "out"
  let rtt := g "rtt" 1000000000
  let now := if outgoing then rtt else 0
  let rwnd := if outgoing then g "rwnd" 1048576 % 4294967296 else 0
  let v : VSock :=
    { state := if outgoing then .established else .synReceived
      opts := opts
      socketCreated := 0
      connIdSend := if outgoing then wadd cid 1 else cid
      timers := { inactivity := if outgoing then none else some (now + opts.inactivityTimeout), sleep := now }
      lastRemoteTimestamp := rts
      lastRemoteWindow := rwnd
      seqNr := our
      lastSentSeqNr := wsub our 1
      lastConsumedRemoteSeqNr := if outgoing then wsub rem 1 else rem
      lastSentAckNr := if outgoing then wsub rem 1 else rem
      lastSentWindow := if outgoing then opts.rxBufSize % 4294967296 else 0
      rx := Rx.build opts.rxBufSize ss.mss
      tx := TxRing.new (g "tx0" 32768)
      segs := Segments.new our
      ss := ss
      rtte := if outgoing then Rtte.init.sample rtt else Rtte.init
      pollNow := now }
  (v, now)

def showPollResult : VSock.PollResult → String
  | .pending => "pending"
  | .readyOk => "ready:ok"
  | .readyErr e => "ready:err:" ++ e.text.replace " " "_"

def parseAnswers (a : String) : List Nat :=
  -- `a=1,2,3`
  match a.splitOn "=" with
  | [_, vs] => (vs.splitOn ",").filterMap String.toNat?
  | _ => []

def stepVs (s : VsSt) (args : List String) : VsSt × String :=
  match args with
  | "new" :: dir :: rest =>
    if dir ≠ "out" ∧ dir ≠ "in" then (s, "bad-op") else
    let (v, now) := vsNew dir (parseKvs rest)
    ({ v := some v, now := now }, s!"ok now={now} fp={fingerprint v now}")
  | _ =>
    match s.v with
    | none => (s, "bad-op")
    | some v =>
      match args with
      | ["adv", ns] => match nat? ns with
        | some ns =>
          let now' := s.now + ns
          -- the registered Sleep fires when its deadline is reached
          let (v', ws) :=
            -- tokio's timer wheel fires at the first 1 ms tick at or after the deadline
            if ¬ s.dead ∧ v.timers.sleepRegistered ∧ (v.timers.sleep + 999999) / 1000000 * 1000000 ≤ now' then
              ({ v with timers := { v.timers with sleepRegistered := false } }, [Wake.dispatcher])
            else (v, [])
          ({ s with v := some v', now := now' }, s!"ok now={now'} {wakeStr ws}")
        | none => (s, "bad-op")
      | "tmode" :: m :: rest =>
        let n := rest.head?.bind String.toNat?
        match m, n with
        | "ok", _ => ({ s with transport := .ok }, "ok")
        | "pend", some k => ({ s with transport := .pendingAfter k }, "ok")
        | "limit", some l => ({ s with transport := .limit l }, "ok")
        | "fail", some k => ({ s with transport := .failAfter k }, "ok")
        | _, _ => (s, "bad-op")
      | ["inject", hx] => match hex? hx with
        | some bs =>
          match Message.deserialize bs with
          | none => (s, "unparseable")
          | some (h, p) =>
            if ¬ s.chanOpen then (s, "bad-op") else
            if s.dead then (s, s!"closed {wakeStr []}") else
            let ws := if v.rxWakerRegistered then [Wake.dispatcher] else []
            let v' := { v with rxQueue := v.rxQueue ++ [{ h := h, payload := p }], rxWakerRegistered := false }
            ({ s with v := some v' }, s!"ok {wakeStr ws}")
        | none => (s, "bad-op")
      | ["chanclose"] =>
        if ¬ s.chanOpen then (s, "bad-op") else
        let ws := if v.rxWakerRegistered ∧ ¬ s.dead then [Wake.dispatcher] else []
        ({ s with v := some { v with rxClosed := true, rxWakerRegistered := false }, chanOpen := false }, s!"ok {wakeStr ws}")
      | "poll" :: rest =>
        if s.dead then (s, "bad-op") else
        let answers := match rest with | [a] => parseAnswers a | _ => []
        let c : Ctx := { now := s.now, transport := s.transport, cc := { answers := answers } }
        let (v', c', res) := v.poll c
        let outs := ",".intercalate (c'.out.map toHex)
        let cclog := ",".intercalate c'.cc.log
        -- the Sleep's deadline as tokio reports it: the last value it was reset to
        let dead := res ≠ .pending
        let sleepShown := v'.timers.sleep
        ({ s with v := some v', dead := dead },
          s!"{showPollResult res} out=[{outs}] {wakeStr c'.wakes} cc=[{cclog}] fp={fingerprint v' sleepShown}{if c'.cc.underflow then " CC-UNDERFLOW" else ""}")
      | ["write", n] => match nat? n with
        | some n =>
          if v.tx.writerDropped then (s, "bad-op") else
          let b := (List.range n).map (fun j => ((s.wpos + j) * 7 + 3) % 251)
          let (tx', r, ws) := v.tx.pollWrite b
          let (rs, acc) := match r with
            | .ready k => (s!"ready:{k}", k) | .pending => ("pending", 0) | .errClosed => ("err:socket_closed", 0)
            | .errShutdown => ("err:no_writing_after_shutdown", 0) | .errDropped => ("err:shutdown_was_initiated,_can't_write", 0)
          ({ s with v := some { v with tx := tx' }, wpos := s.wpos + acc }, s!"{rs} {wakeStr ws}")
        | none => (s, "bad-op")
      | ["flush"] =>
        if v.tx.writerDropped then (s, "bad-op") else
        let (tx', r) := v.tx.pollFlush
        let rs := match r with | .ok => "ok" | .pending => "pending" | .errDied => "err:socket_died"
        ({ s with v := some { v with tx := tx' } }, s!"{rs} {wakeStr []}")
      | ["shutdown"] =>
        if v.tx.writerDropped then (s, "bad-op") else
        let (tx', r, ws) := v.tx.pollShutdown
        let rs := match r with | .ok => "ok" | .pending => "pending" | .errDied => "err:socket_died"
        ({ s with v := some { v with tx := tx' } }, s!"{rs} {wakeStr ws}")
      | ["read", n] => match nat? n with
        | some n =>
          if v.rx.readerDropped then (s, "bad-op") else
          let (rx', res, ws) := v.rx.pollRead n
          let rs := match res with
            | .data b => s!"data:{toHex b}" | .eof => "eof" | .pending => "pending"
            | .err m => s!"err:{m.replace " " "_"}" | .bugEmptyPayload => "err:bug_in_UtpStreamReadHalf:_payload_is_empty"
          ({ s with v := some { v with rx := rx' } }, s!"{rs} {wakeStr ws}")
        | none => (s, "bad-op")
      | ["dropw"] =>
        if v.tx.writerDropped then (s, "bad-op") else
        let (tx', ws) := v.tx.dropWriter
        ({ s with v := some { v with tx := tx' } }, s!"ok {wakeStr ws}")
      | ["dropr"] =>
        if v.rx.readerDropped then (s, "bad-op") else
        let (rx', ws) := v.rx.dropReader
        ({ s with v := some { v with rx := rx' } }, s!"ok {wakeStr ws}")
      | _ => (s, "bad-op")

end UtpVerif.Driver
