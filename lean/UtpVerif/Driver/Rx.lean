import UtpVerif.Driver.Util
import UtpVerif.Driver.Wire
import UtpVerif.Driver.TxRing
import UtpVerif.Model.Rx
namespace UtpVerif.Driver
open UtpVerif.Model

structure RxSt where
  rx : Rx := Rx.build 64 8
  consumed : Nat := 0        -- ghost: sequence numbers consumed so far (= last_consumed - a0)
  finSeen : Bool := false
  poisoned : Bool := false   -- the real code panicked: nothing after that is comparable
  lastR : Nat := 0           -- which of the two reader tasks (wakers A = 0, B = 1) registered last

def showRx (r : Rx) (ws : List Wake) : String :=
  s!"win={r.remainingRxWindow} sack={showSack r.ooq.selectiveAck} aempty={bool01 r.ooq.isEmpty} dw={countWake ws .dispatcher} rw={countWake ws .reader}"

def showAddRemove : AddRemove → String
  | .consumed s b => s!"consumed:{s}:{b}"
  | .alreadyPresent => "present"
  | .unavailable => "unavail"
  | .errZeroPayload => "err:zero"
  | .bugInvalidMessage => "bug:invalid"
  | .bugMissingSlot => "bug:slot"

def stepRx1 (s : RxSt) (args : List String) : RxSt × String :=
  match args with
  | ["new", a, b] => match nat? a, nat? b with
    | some a, some b => if a = 0 ∨ b = 0 then (s, "bad-op") else
      let r := Rx.build a b; ({ rx := r }, showRx r [])
    | _, _ => (s, "bad-op")
  | ["arrive", idx, ty, hx] => match nat? idx, nat? ty, hex? hx with
    | some idx, some ty, some p =>
      if ty > 4 then (s, "bad-op") else
      if idx < s.consumed then (s, s!"dup {showRx s.rx []}") else
      if ty = 1 ∧ (idx ≠ s.consumed ∨ s.finSeen) then (s, s!"fin-dropped {showRx s.rx []}") else
      match s.rx.addRemove ty p (idx - s.consumed) with
      | none => ({ s with poisoned := true }, "PANIC")
      | some (r', res, ws) =>
        let c' := if ty = 1 then idx + 1 else match res with
          | .consumed n _ => s.consumed + n
          | _ => s.consumed
        ({ s with rx := r', consumed := c', finSeen := s.finSeen || ty = 1 }, s!"{showAddRemove res} {showRx r' ws}")
    | _, _, _ => (s, "bad-op")
  | ["flush"] => match s.rx.flush with
    | none => ({ s with poisoned := true }, "PANIC")
    | some (r', n, ws) => ({ s with rx := r' }, s!"flushed:{n} {showRx r' ws}")
  | ["read", n] => match nat? n with
    | some n =>
      if s.rx.readerDropped then (s, "bad-op") else
      let (r', res, ws) := s.rx.pollRead n
      let rs := match res with
        | .data b => s!"data:{toHex b}" | .eof => "eof" | .pending => "pending"
        | .err m => s!"err:{m.replace " " "_"}" | .bugEmptyPayload => "bug:empty-payload"
      ({ s with rx := r' }, s!"{rs} {showRx r' ws}")
    | none => (s, "bad-op")
  | ["dropr"] =>
    if s.rx.readerDropped then (s, "bad-op") else
    let (r', ws) := s.rx.dropReader; ({ s with rx := r' }, s!"ok {showRx r' ws}")
  | ["error", m] => let (r', ws) := s.rx.enqueueError m; ({ s with rx := r' }, s!"ok {showRx r' ws}")
  | ["close"] => let (r', ws) := s.rx.markVsockClosed; ({ s with rx := r' }, s!"ok {showRx r' ws}")
  | _ => (s, "bad-op")


/-- Two reader tasks may poll the same read half (a read half handed from one task to another): `readb` is `read`
with the second waker. The model's reader waker is one flag; whose waker it is = who polled last and was left
registered (a read that ends Pending). A reader wake-up is attributed to that task: `rw=` / `rwb=`. -/
def stepRx (s : RxSt) (args : List String) : RxSt × String :=
  let (who, args1) := match args with
    | "readb" :: rest => (1, "read" :: rest)
    | _ => (0, args)
  let isRead := match args1 with | "read" :: _ => true | _ => false
  -- `poll_read` only ever SETS the reader-waker flag: run it with the flag cleared to see whether THIS call
  -- registered (it does whenever it finds the queue empty, also after having copied data), then restore it
  let s0 := if isRead then { s with rx := { s.rx with readerWaker := false } } else s
  let (s1, out) := stepRx1 s0 args1
  let registered := isRead ∧ s1.rx.readerWaker
  let s1 := if isRead then { s1 with rx := { s1.rx with readerWaker := s1.rx.readerWaker || s.rx.readerWaker } } else s1
  let out2 := match out.splitOn " rw=" with
    | [pre, k] => if s.lastR = 0 then s!"{pre} rw={k} rwb=0" else s!"{pre} rw=0 rwb={k}"
    | _ => out
  let s2 := match args with
    | "new" :: _ => { s1 with lastR := 0 }
    | _ => if registered then { s1 with lastR := who } else { s1 with lastR := s.lastR }
  (s2, out2)

end UtpVerif.Driver
