import UtpVerif.Driver.Util
import UtpVerif.Model.Cubic
/-! Driver for the `cubic` component.  The state may be re-synchronised from the implementation's
own previous state (`pre=` token: six f64 bit patterns, mss, rwnd_bytes, last_congestion_event) so that
every step is compared on its own and libm's `pow`/`cbrt` last-bit differences cannot accumulate. -/
namespace UtpVerif.Driver
open UtpVerif.Model

def pow2 (e : Int) : Rat := if e ≥ 0 then ((2 ^ e.toNat : Nat) : Rat) else 1 / ((2 ^ (-e).toNat : Nat) : Rat)

def f64OfBits (b : Nat) : XR :=
  let sign : Nat := b / 2 ^ 63 % 2
  let ex : Nat := b / 2 ^ 52 % 2048
  let man : Nat := b % 2 ^ 52
  if ex = 2047 then (if man = 0 then (if sign = 1 then .ninf else .pinf) else .nan) else
  let mag : Rat := if ex = 0 then (man : Rat) * pow2 (-1074) else (((2 ^ 52 + man : Nat)) : Rat) * pow2 ((ex : Int) - 1075)
  .fin (if sign = 1 then -mag else mag)

def hexNat? (s : String) : Option Nat :=
  s.toList.foldl (fun acc c => do let a ← acc; let d ← hexDigit? c; pure (a * 16 + d)) (some 0)

def showXR : XR → String
  | .nan => "nan" | .pinf => "inf" | .ninf => "-inf"
  | .fin q => s!"{q.num}/{q.den}"

def showCubic (c : Cubic) : String :=
  let e := fenv53
  s!"w={c.window e} ss={c.sshthresh e} cwnd={showXR c.cwnd} ssthresh={showXR c.ssthresh} k={showXR c.k} wmax={showXR c.wMax} wmaxlast={showXR c.wMaxLast} rwnd={showXR c.rwnd} mss={c.mss} rwndb={c.rwndBytes} lce={c.lastCongestionEvent}"

def parsePre (s : String) : Option Cubic :=
  match s.splitOn "," with
  | [a, b, c, d, e, f, mss, rb, lce] => do
    let a ← hexNat? a; let b ← hexNat? b; let c ← hexNat? c; let d ← hexNat? d; let e ← hexNat? e; let f ← hexNat? f
    let mss ← nat? mss; let rb ← nat? rb; let lce ← nat? lce
    pure { cwnd := f64OfBits a, ssthresh := f64OfBits b, k := f64OfBits c, wMax := f64OfBits d, wMaxLast := f64OfBits e,
           rwnd := f64OfBits f, mss := mss, rwndBytes := rb, lastCongestionEvent := lce }
  | _ => none

/-- `w_cubic` and `w_est` within rounding noise of each other (libm's pow/cbrt are not correctly rounded):
the comparison `w_cubic < w_est` may go either way in the implementation. -/
def nearTie (c : Cubic) (now rtt : Nat) : Bool :=
  let e := fenv53
  let t := now - c.lastCongestionEvent
  match Cubic.wCubic e t c.k c.wMax, Cubic.wEst e t rtt c.wMax with
  | .fin a, .fin b =>
    let d := if a ≤ b then b - a else a - b
    let m := max (if a < 0 then -a else a) (if b < 0 then -b else b)
    decide (d * (2 ^ 40 : Nat) ≤ m)
  | _, _ => false

def u64? (s : String) : Option Nat := match nat? s with
  | some n => if n < 2 ^ 64 then some n else none
  | none => none

def stepCubic (st : Option Cubic) (args : List String) : Option Cubic × String :=
  let pre := (args.find? (·.startsWith "pre=")).bind (fun t => parsePre ((t.drop 4).toString))
  let args := args.filter (fun a => ¬ a.startsWith "pre=")
  let e := fenv53
  match args with
  | ["new", now, mss] =>
    match u64? now, u64? mss with
    | some now, some mss => let c := Cubic.new now mss; (some c, showCubic c)
    | _, _ => (st, "bad-op")
  | _ =>
    match (match pre with | some c => some c | none => st) with
    | none => (st, "bad-op")
    | some c =>
      let r : Option Cubic := match args with
        | ["ack", now, len, rtt] =>
          match u64? now, u64? len, (if rtt = "-" then some Gen.RTTE_INITIAL_RTT else u64? rtt) with
          | some now, some len, some rtt => some (c.onAck e now len rtt)
          | _, _, _ => none
        | ["rto", now] => (u64? now).map (fun _ => c.onRto e)
        | ["enter", now] => (u64? now).map (fun now => c.onEnterRecovery e now)
        | ["recovered", cw, ss] =>
          match u64? cw, u64? ss with
          | some cw, some ss => some (c.onRecovered e cw ss)
          | _, _ => none
        | ["setmss", m] => (u64? m).map (fun m => c.setMss e m)
        | ["setrwnd", w] => (u64? w).map (fun w => c.setRemoteWindow e w)
        | ["show"] => some c
        | _ => none
      -- near-tie of the region test: also print the other branch's outcome
      let alt : Option Cubic := match args with
        | ["ack", now, len, rtt] =>
          match u64? now, u64? len, (if rtt = "-" then some Gen.RTTE_INITIAL_RTT else u64? rtt) with
          | some now, some len, some rtt =>
            if nearTie c now rtt then some (c.onAckWith (fun a b => !XR.lt a b) e now len rtt) else none
          | _, _, _ => none
        | _ => none
      match r with
      | some c' => (some c', showCubic c' ++ (match alt with | some a => " || " ++ showCubic a | none => ""))
      | none => (st, "bad-op")

end UtpVerif.Driver
