import UtpVerif.Model.Sock
/-! Structural lemmas about the dispatcher model: the table invariant (unique keys, limit), preserved by
every function of `Model/Sock.lean`. -/
namespace UtpVerif.Model.Disp
open UtpVerif.Model UtpVerif.Gen

/-- unique keys and the connection limit -/
structure TInv (m : Nat) (d : Disp) : Prop where
  nodup : d.keys.Nodup
  limit : d.streams.length ≤ d.maxActive
  max : d.maxActive = m

variable {m : Nat}

theorem filter_keys_sublist (l : List (Key × Nat)) (p : Key × Nat → Bool) :
    ((l.filter p).map (·.1)).Sublist (l.map (·.1)) :=
  List.Sublist.map _ List.filter_sublist

theorem removeKey_inv (d : Disp) (k : Key) (h : TInv m d) : TInv m (d.removeKey k) := by
  constructor
  · exact List.Nodup.sublist (filter_keys_sublist _ _) h.nodup
  · exact Nat.le_trans (List.length_filter_le _ _) h.limit
  · exact h.max

theorem not_mem_filter_keys (l : List (Key × Nat)) (k : Key) :
    k ∉ (l.filter (·.1 != k)).map (·.1) := by
  intro hm
  obtain ⟨x, hx, rfl⟩ := List.mem_map.mp hm
  have := (List.mem_filter.mp hx).2
  simp at this

theorem insertKey_inv (d : Disp) (k : Key) (hf : d.streamsFull = false) (h : TInv m d) : TInv m (d.insertKey k).1 := by
  have hlt : d.streams.length < d.maxActive := by
    simp only [streamsFull, ge_iff_le, decide_eq_false_iff_not, Nat.not_le] at hf; exact hf
  constructor
  · show ((d.streams.filter (·.1 != k) ++ [(k, d.nextInst)]).map (·.1)).Nodup
    rw [List.map_append, List.nodup_append]
    refine ⟨List.Nodup.sublist (filter_keys_sublist _ _) h.nodup, by simp, ?_⟩
    intro a ha b hb
    simp only [List.map_cons, List.map_nil, List.mem_singleton] at hb
    subst hb
    intro hab; subst hab
    exact not_mem_filter_keys _ _ ha
  · show (d.streams.filter (·.1 != k) ++ [(k, d.nextInst)]).length ≤ d.maxActive
    rw [List.length_append]
    have := List.length_filter_le (fun x : Key × Nat => x.1 != k) d.streams
    simp only [List.length_cons, List.length_nil]
    omega
  · exact h.max

/-- a step that leaves the table alone -/
def SameTable (d d' : Disp) : Prop := d'.streams = d.streams ∧ d'.maxActive = d.maxActive

theorem SameTable.inv {d d' : Disp} (h : SameTable d d') (hi : TInv m d) : TInv m d' := by
  obtain ⟨h1, h2⟩ := h
  constructor
  · show (d'.streams.map (·.1)).Nodup
    rw [h1]; exact hi.nodup
  · rw [h1, h2]; exact hi.limit
  · rw [h2]; exact hi.max

theorem SameTable.full {d d' : Disp} (h : SameTable d d') : d'.streamsFull = d.streamsFull := by
  simp only [streamsFull, h.1, h.2]

theorem random_same (d : Disp) : SameTable d d.random.2 := by
  unfold random; split <;> exact ⟨rfl, rfl⟩

theorem tryNextAcceptor_same (d : Disp) : SameTable d d.tryNextAcceptor.2 := by
  unfold tryNextAcceptor
  split
  · exact ⟨rfl, rfl⟩
  · split <;> exact ⟨rfl, rfl⟩

theorem matchSyn_inv (d : Disp) (s : Syn) (a : Acceptor) (h : TInv m d) : TInv m (d.matchSynWithAccept s a).2.1 := by
  unfold matchSynWithAccept
  split
  · exact h
  · rename_i hf
    dsimp only
    split
    · exact h
    · have hs := random_same d
      generalize hr : d.random = r at hs
      obtain ⟨sq, d'⟩ := r
      dsimp only at hs ⊢
      split
      · exact hs.inv h
      · exact insertKey_inv _ _ (by rw [hs.full]; simpa using hf) (hs.inv h)

theorem cleanupLoop_inv (fuel : Nat) (d : Disp) (effs : List Eff) (h : TInv m d) : TInv m (cleanupLoop fuel d effs).1 := by
  induction fuel generalizing d effs with
  | zero => exact h
  | succ n ih =>
    unfold cleanupLoop
    split
    · exact h
    · rename_i s rest hs
      dsimp only
      split
      · exact h
      · rename_i a d1 hta
        have h0 : TInv m { d with syns := rest } := SameTable.inv (d := d) ⟨rfl, rfl⟩ h
        have h1 : TInv m d1 := by
          have := tryNextAcceptor_same { d with syns := rest }
          rw [hta] at this
          exact this.inv h0
        have hm := matchSyn_inv d1 s a h1
        split
        · rename_i d2 e hm'
          rw [hm'] at hm; exact ih _ _ hm
        · rename_i a' d2 e hm'
          rw [hm'] at hm
          exact ih _ _ (SameTable.inv (d := d2) ⟨rfl, rfl⟩ hm)
        · rename_i s' d2 e hm'
          rw [hm'] at hm
          exact ih _ _ (SameTable.inv (d := d2) ⟨rfl, rfl⟩ hm)
        · rename_i s' a' d2 e hm'
          rw [hm'] at hm
          exact SameTable.inv (d := d2) ⟨rfl, rfl⟩ hm

theorem cleanup_inv (d : Disp) (h : TInv m d) : TInv m d.cleanupAcceptQueue.1 := by
  unfold cleanupAcceptQueue
  split
  · exact h
  · exact cleanupLoop_inv _ _ _ h

theorem nextFreeLoop_same (fuel : Nat) (d : Disp) (addr : Nat) : SameTable d (nextFreeConnIdLoop fuel d addr) := by
  induction fuel generalizing d with
  | zero => exact ⟨rfl, rfl⟩
  | succ n ih =>
    unfold nextFreeConnIdLoop
    split
    · have := ih { d with nextConnId := w16 (d.nextConnId + 2) }
      exact ⟨this.1, this.2⟩
    · exact ⟨rfl, rfl⟩

theorem setSlots_same (d : Disp) (addr : Nat) (s : Option (List (Option Connecting))) : SameTable d (d.setSlots addr s) := by
  unfold setSlots; split <;> exact ⟨rfl, rfl⟩

theorem onControl_inv (d : Disp) (c : Ctl) (h : TInv m d) : TInv m (d.onControl c).1 := by
  cases c with
  | connectRequest addr token =>
    simp only [onControl]
    split
    · exact h
    · have h1 := (nextFreeLoop_same 32768 d addr)
      have hr := random_same (d.getNextFreeConnId addr)
      have h2 : TInv m (d.getNextFreeConnId addr).random.2 := hr.inv (h1.inv h)
      split
      · exact h2
      · exact h2
      · split
        · exact SameTable.inv (d := (d.getNextFreeConnId addr).random.2) (by
            have := setSlots_same (d.getNextFreeConnId addr).random.2 addr (some ‹_›)
            exact ⟨this.1, this.2⟩) h2
        · dsimp only
          exact (setSlots_same _ _ _).inv h2
  | connectDropped addr token =>
    simp only [onControl]
    split
    · exact h
    · split
      · exact h
      · exact (setSlots_same _ _ _).inv h
  | shutdown k owner =>
    simp only [onControl]
    split
    · exact removeKey_inv d k h
    · split
      · exact removeKey_inv d k h
      · exact h

theorem onMaybeConnectAck_inv (d : Disp) (addr : Nat) (hd : Header) (h : TInv m d) : TInv m (d.onMaybeConnectAck addr hd).1 := by
  unfold onMaybeConnectAck
  split
  · exact h
  · rename_i hf
    split
    · exact h
    · split
      · exact h
      · have hs := fun x => setSlots_same d addr x
        dsimp only
        split <;> split
        all_goals first
          | exact removeKey_inv _ _ ((hs _).inv h)
          | (apply insertKey_inv
             · rw [(hs _).full]; simpa using hf
             · exact (hs _).inv h)

theorem onSynLoop_inv (fuel : Nat) (d : Disp) (s : Syn) (effs : List Eff) (h : TInv m d) : TInv m (onSynLoop fuel d s effs).1 := by
  induction fuel generalizing d s effs with
  | zero => exact h
  | succ n ih =>
    unfold onSynLoop
    split
    · exact h
    · rename_i a d1 hta
      have h1 : TInv m d1 := by
        have := tryNextAcceptor_same d
        rw [hta] at this
        exact this.inv h
      have hm := matchSyn_inv d1 s a h1
      split
      · rename_i d2 e hm'; rw [hm'] at hm; exact hm
      · rename_i a' d2 e hm'; rw [hm'] at hm; exact SameTable.inv (d := d2) ⟨rfl, rfl⟩ hm
      · rename_i s' d2 e hm'; rw [hm'] at hm; exact ih _ _ _ hm
      · rename_i s' a' d2 e hm'; rw [hm'] at hm; exact SameTable.inv (d := d2) ⟨rfl, rfl⟩ hm

theorem onSyn_inv (d : Disp) (remote : Nat) (hd : Header) (h : TInv m d) : TInv m (d.onSyn remote hd).1 := by
  unfold onSyn
  have key : ∀ r : Disp × Option Syn × List Eff, TInv m r.1 →
      TInv m (match r with
        | (d, none, effs) => (d, effs)
        | (d, some s, effs) =>
          if d.syns.length < ACCEPT_QUEUE_MAX_SYNS then ({ d with syns := d.syns ++ [s] }, effs)
          else
            match d.sendMode with
            | .ok => (d, effs ++ [Eff.sent s.remote (ser (rstHeader s))])
            | _ => (d, effs)).1 := by
    intro r hr
    obtain ⟨d', o, e⟩ := r
    cases o with
    | none => exact hr
    | some s =>
      dsimp only
      split
      · exact SameTable.inv (d := d') ⟨rfl, rfl⟩ hr
      · split <;> exact hr
  apply key
  split
  · exact onSynLoop_inv _ _ _ _ h
  · exact h

theorem onRecv_inv (d : Disp) (addr : Nat) (hd : Header) (h : TInv m d) : TInv m (d.onRecv addr hd).1 := by
  unfold onRecv
  dsimp only
  split
  · split
    · exact removeKey_inv _ _ h
    · exact h
  · split
    · exact onMaybeConnectAck_inv _ _ _ h
    · split
      · exact onSyn_inv _ _ _ h
      · exact h

theorem handle_inv (d : Disp) (ev : Event) (h : TInv m d) : TInv m (d.handle ev).1 := by
  cases ev with
  | idle => exact h
  | acceptor =>
    simp only [handle]
    split
    · exact SameTable.inv (d := d) ⟨rfl, rfl⟩ h
    · exact h
  | control c => exact onControl_inv d c h
  | datagram addr bytes =>
    simp only [handle]
    split
    · exact h
    · exact onRecv_inv _ _ _ h

theorem runOnce_inv (d : Disp) (ev : Event) (h : TInv m d) : TInv m (d.runOnce ev).1 := by
  unfold runOnce
  exact handle_inv _ _ (cleanup_inv d h)

/-! ### Nothing is evicted: entries leave the table only through the two removal sites -/

/-- every entry of `d` is still in `d'` -/
def Keeps (d d' : Disp) : Prop := ∀ x ∈ d.streams, x ∈ d'.streams

theorem Keeps.refl (d : Disp) : Keeps d d := fun _ h => h
theorem Keeps.trans {a b c : Disp} (h1 : Keeps a b) (h2 : Keeps b c) : Keeps a c := fun x h => h2 x (h1 x h)
theorem SameTable.keeps {d d' : Disp} (h : SameTable d d') : Keeps d d' := fun x hx => by rw [h.1]; exact hx

theorem insertKey_keeps (d : Disp) (k : Key) (hk : d.hasKey k = false) : Keeps d (d.insertKey k).1 := by
  intro x hx
  show x ∈ d.streams.filter (·.1 != k) ++ [(k, d.nextInst)]
  apply List.mem_append_left
  apply List.mem_filter.mpr
  refine ⟨hx, ?_⟩
  have : x.1 ≠ k := by
    intro he
    have : d.hasKey k = true := by
      simp only [hasKey, keys, List.contains_eq_mem, List.mem_map, decide_eq_true_eq]
      exact ⟨x, hx, he⟩
    rw [hk] at this; cases this
  simpa using this

theorem removeKey_keeps_absent (d : Disp) (k : Key) (hk : d.hasKey k = false) : Keeps d (d.removeKey k) := by
  intro x hx
  show x ∈ d.streams.filter (·.1 != k)
  apply List.mem_filter.mpr
  refine ⟨hx, ?_⟩
  have : x.1 ≠ k := by
    intro he
    have : d.hasKey k = true := by
      simp only [hasKey, keys, List.contains_eq_mem, List.mem_map, decide_eq_true_eq]
      exact ⟨x, hx, he⟩
    rw [hk] at this; cases this
  simpa using this

theorem removeKey_keeps_others (d : Disp) (k : Key) (x : Key × Nat) (hx : x ∈ d.streams) (hne : x.1 ≠ k) :
    x ∈ (d.removeKey k).streams := by
  show x ∈ d.streams.filter (·.1 != k)
  exact List.mem_filter.mpr ⟨hx, by simpa using hne⟩

theorem SameTable.hasKey {d d' : Disp} (h : SameTable d d') (k : Key) : d'.hasKey k = d.hasKey k := by
  simp only [Disp.hasKey, keys, h.1]

theorem matchSyn_keeps (d : Disp) (s : Syn) (a : Acceptor) : Keeps d (d.matchSynWithAccept s a).2.1 := by
  unfold matchSynWithAccept
  split
  · exact Keeps.refl d
  · dsimp only
    split
    · exact Keeps.refl d
    · rename_i hk
      have hs := random_same d
      generalize hr : d.random = r at hs
      obtain ⟨sq, d'⟩ := r
      dsimp only at hs ⊢
      split
      · exact hs.keeps
      · exact hs.keeps.trans (insertKey_keeps _ _ (by rw [hs.hasKey]; simpa using hk))

theorem cleanupLoop_keeps (fuel : Nat) (d : Disp) (effs : List Eff) : Keeps d (cleanupLoop fuel d effs).1 := by
  induction fuel generalizing d effs with
  | zero => exact Keeps.refl d
  | succ n ih =>
    unfold cleanupLoop
    split
    · exact Keeps.refl d
    · rename_i s rest hs
      dsimp only
      split
      · exact Keeps.refl d
      · rename_i a d1 hta
        have h1 : Keeps d d1 := by
          have := tryNextAcceptor_same { d with syns := rest }
          rw [hta] at this
          exact (SameTable.keeps (d := d) ⟨this.1, this.2⟩)
        have hm := matchSyn_keeps d1 s a
        split
        · rename_i d2 e hm'
          rw [hm'] at hm; exact (h1.trans hm).trans (ih _ _)
        · rename_i a' d2 e hm'
          rw [hm'] at hm
          exact (h1.trans hm).trans (Keeps.trans (SameTable.keeps (d := d2) (d' := { d2 with nextAcceptor := some a' }) ⟨rfl, rfl⟩) (ih _ _))
        · rename_i s' d2 e hm'
          rw [hm'] at hm
          exact (h1.trans hm).trans (Keeps.trans (SameTable.keeps (d := d2) (d' := { d2 with syns := s' :: d2.syns }) ⟨rfl, rfl⟩) (ih _ _))
        · rename_i s' a' d2 e hm'
          rw [hm'] at hm
          exact (h1.trans hm).trans (SameTable.keeps (d := d2) ⟨rfl, rfl⟩)

theorem cleanup_keeps (d : Disp) : Keeps d d.cleanupAcceptQueue.1 := by
  unfold cleanupAcceptQueue
  split
  · exact Keeps.refl d
  · exact cleanupLoop_keeps _ _ _

theorem onMaybeConnectAck_keeps (d : Disp) (addr : Nat) (hd : Header) (hk : d.hasKey { addr := addr, id := hd.connId } = false) :
    Keeps d (d.onMaybeConnectAck addr hd).1 := by
  unfold onMaybeConnectAck
  split
  · exact Keeps.refl d
  · split
    · exact Keeps.refl d
    · split
      · exact Keeps.refl d
      · have hs := fun x => setSlots_same d addr x
        dsimp only
        split <;> split
        all_goals first
          | exact (hs _).keeps.trans (removeKey_keeps_absent _ _ (by rw [(hs _).hasKey]; exact hk))
          | exact (hs _).keeps.trans (insertKey_keeps _ _ (by rw [(hs _).hasKey]; exact hk))

theorem onSynLoop_keeps (fuel : Nat) (d : Disp) (s : Syn) (effs : List Eff) : Keeps d (onSynLoop fuel d s effs).1 := by
  induction fuel generalizing d s effs with
  | zero => exact Keeps.refl d
  | succ n ih =>
    unfold onSynLoop
    split
    · exact Keeps.refl d
    · rename_i a d1 hta
      have h1 : Keeps d d1 := by
        have := tryNextAcceptor_same d
        rw [hta] at this
        exact this.keeps
      have hm := matchSyn_keeps d1 s a
      split
      · rename_i d2 e hm'; rw [hm'] at hm; exact h1.trans hm
      · rename_i a' d2 e hm'; rw [hm'] at hm; exact (h1.trans hm).trans (SameTable.keeps (d := d2) ⟨rfl, rfl⟩)
      · rename_i s' d2 e hm'; rw [hm'] at hm; exact (h1.trans hm).trans (ih _ _ _)
      · rename_i s' a' d2 e hm'; rw [hm'] at hm; exact (h1.trans hm).trans (SameTable.keeps (d := d2) ⟨rfl, rfl⟩)

theorem onSyn_keeps (d : Disp) (remote : Nat) (hd : Header) : Keeps d (d.onSyn remote hd).1 := by
  unfold onSyn
  have key : ∀ r : Disp × Option Syn × List Eff, Keeps d r.1 →
      Keeps d (match r with
        | (d, none, effs) => (d, effs)
        | (d, some s, effs) =>
          if d.syns.length < ACCEPT_QUEUE_MAX_SYNS then ({ d with syns := d.syns ++ [s] }, effs)
          else
            match d.sendMode with
            | .ok => (d, effs ++ [Eff.sent s.remote (ser (rstHeader s))])
            | _ => (d, effs)).1 := by
    intro r hr
    obtain ⟨d', o, e⟩ := r
    cases o with
    | none => exact hr
    | some s =>
      dsimp only
      split
      · exact hr.trans (SameTable.keeps (d := d') ⟨rfl, rfl⟩)
      · split <;> exact hr
  apply key
  split
  · exact onSynLoop_keeps _ _ _ _
  · exact Keeps.refl d

theorem onControl_keeps (d : Disp) (c : Ctl) (hc : ∀ k o, c ≠ .shutdown k o) : Keeps d (d.onControl c).1 := by
  cases c with
  | connectRequest addr token =>
    simp only [onControl]
    split
    · exact Keeps.refl d
    · have h1 := (nextFreeLoop_same 32768 d addr)
      have hr := random_same (d.getNextFreeConnId addr)
      have h2 : Keeps d (d.getNextFreeConnId addr).random.2 := h1.keeps.trans hr.keeps
      split
      · exact h2
      · exact h2
      · split
        · exact h2.trans (SameTable.keeps (d := (d.getNextFreeConnId addr).random.2) (by
            have := setSlots_same (d.getNextFreeConnId addr).random.2 addr (some ‹_›)
            exact ⟨this.1, this.2⟩))
        · dsimp only
          exact h2.trans (setSlots_same _ _ _).keeps
  | connectDropped addr token =>
    simp only [onControl]
    split
    · exact Keeps.refl d
    · split
      · exact Keeps.refl d
      · exact (setSlots_same _ _ _).keeps
  | shutdown k o => exact absurd rfl (hc k o)

end UtpVerif.Model.Disp

namespace UtpVerif.Model.Disp
open UtpVerif.Model UtpVerif.Gen

/-! ### Which effects a function can produce -/

def _root_.UtpVerif.Model.Eff.isDelivered : Eff → Bool
  | .delivered _ _ => true
  | _ => false

/-- none of the effects is a delivery -/
def NoDeliver (effs : List Eff) : Prop := ∀ e ∈ effs, e.isDelivered = false

theorem NoDeliver.nil : NoDeliver [] := fun _ h => by cases h
theorem NoDeliver.append {a b : List Eff} (ha : NoDeliver a) (hb : NoDeliver b) : NoDeliver (a ++ b) :=
  fun e he => (List.mem_append.mp he).elim (ha e) (hb e)
theorem NoDeliver.single {e : Eff} (h : e.isDelivered = false) : NoDeliver [e] :=
  fun x hx => by rw [List.mem_singleton.mp hx]; exact h

theorem matchSyn_noDeliver (d : Disp) (s : Syn) (a : Acceptor) : NoDeliver (d.matchSynWithAccept s a).2.2 := by
  unfold matchSynWithAccept
  split
  · exact NoDeliver.nil
  · dsimp only
    split
    · exact NoDeliver.nil
    · generalize d.random = r
      obtain ⟨sq, d'⟩ := r
      dsimp only
      split
      · exact NoDeliver.nil
      · exact NoDeliver.single rfl

theorem cleanupLoop_noDeliver (fuel : Nat) (d : Disp) (effs : List Eff) (h : NoDeliver effs) :
    NoDeliver (cleanupLoop fuel d effs).2 := by
  induction fuel generalizing d effs with
  | zero => exact h
  | succ n ih =>
    unfold cleanupLoop
    split
    · exact h
    · rename_i s rest hs
      dsimp only
      split
      · exact h
      · rename_i a d1 hta
        have hm := matchSyn_noDeliver d1 s a
        split
        · rename_i d2 e hm'; rw [hm'] at hm; exact ih _ _ (h.append hm)
        · rename_i a' d2 e hm'; rw [hm'] at hm; exact ih _ _ (h.append hm)
        · rename_i s' d2 e hm'; rw [hm'] at hm; exact ih _ _ (h.append hm)
        · rename_i s' a' d2 e hm'; rw [hm'] at hm; exact h.append hm

theorem cleanup_noDeliver (d : Disp) : NoDeliver d.cleanupAcceptQueue.2 := by
  unfold cleanupAcceptQueue
  split
  · exact NoDeliver.nil
  · exact cleanupLoop_noDeliver _ _ _ NoDeliver.nil

theorem onSynLoop_noDeliver (fuel : Nat) (d : Disp) (s : Syn) (effs : List Eff) (h : NoDeliver effs) :
    NoDeliver (onSynLoop fuel d s effs).2.2 := by
  induction fuel generalizing d s effs with
  | zero => exact h
  | succ n ih =>
    unfold onSynLoop
    split
    · exact h
    · rename_i a d1 hta
      have hm := matchSyn_noDeliver d1 s a
      split
      · rename_i d2 e hm'; rw [hm'] at hm; exact h.append hm
      · rename_i a' d2 e hm'; rw [hm'] at hm; exact h.append hm
      · rename_i s' d2 e hm'; rw [hm'] at hm; exact ih _ _ _ (h.append hm)
      · rename_i s' a' d2 e hm'; rw [hm'] at hm; exact h.append hm

theorem onSyn_noDeliver (d : Disp) (remote : Nat) (hd : Header) : NoDeliver (d.onSyn remote hd).2 := by
  unfold onSyn
  have key : ∀ r : Disp × Option Syn × List Eff, NoDeliver r.2.2 →
      NoDeliver (match r with
        | (d, none, effs) => (d, effs)
        | (d, some s, effs) =>
          if d.syns.length < ACCEPT_QUEUE_MAX_SYNS then ({ d with syns := d.syns ++ [s] }, effs)
          else
            match d.sendMode with
            | .ok => (d, effs ++ [Eff.sent s.remote (ser (rstHeader s))])
            | _ => (d, effs)).2 := by
    intro r hr
    obtain ⟨d', o, e⟩ := r
    cases o with
    | none => exact hr
    | some s =>
      dsimp only
      split
      · exact hr
      · split
        · exact NoDeliver.append hr (NoDeliver.single rfl)
        · exact hr
  apply key
  split
  · exact onSynLoop_noDeliver _ _ _ _ NoDeliver.nil
  · exact NoDeliver.nil

theorem onControl_noDeliver (d : Disp) (c : Ctl) : NoDeliver (d.onControl c).2 := by
  cases c with
  | connectRequest addr token =>
    simp only [onControl]
    split
    · exact NoDeliver.single rfl
    · split
      · exact NoDeliver.single rfl
      · exact NoDeliver.single rfl
      · split
        · exact NoDeliver.single rfl
        · dsimp only
          exact NoDeliver.append (NoDeliver.single rfl) (NoDeliver.single rfl)
  | connectDropped addr token =>
    simp only [onControl]
    split
    · exact NoDeliver.nil
    · split <;> exact NoDeliver.nil
  | shutdown k o =>
    simp only [onControl]
    split
    · exact NoDeliver.nil
    · split <;> exact NoDeliver.nil

theorem onMaybeConnectAck_noDeliver (d : Disp) (addr : Nat) (hd : Header) : NoDeliver (d.onMaybeConnectAck addr hd).2 := by
  unfold onMaybeConnectAck
  split
  · exact NoDeliver.nil
  · split
    · exact NoDeliver.nil
    · split
      · exact NoDeliver.nil
      · dsimp only
        split <;> split
        all_goals first
          | exact NoDeliver.nil
          | exact NoDeliver.single rfl

end UtpVerif.Model.Disp

namespace UtpVerif.Model.Disp
open UtpVerif.Model UtpVerif.Gen

/-! ### The SYN backlog and the acceptor queue are FIFO queues -/

/-- acceptors in the order they will be served: the cached one, then the channel -/
def accQ (d : Disp) : List Acceptor := d.nextAcceptor.toList ++ d.accChan

/-- `l'` is what is left of `l` after some elements were taken from its front -/
def Suffix {α} (l' l : List α) : Prop := ∃ n, l' = l.drop n

theorem Suffix.refl {α} (l : List α) : Suffix l l := ⟨0, rfl⟩
theorem Suffix.trans {α} {a b c : List α} (h1 : Suffix a b) (h2 : Suffix b c) : Suffix a c := by
  obtain ⟨n, rfl⟩ := h1; obtain ⟨m, rfl⟩ := h2; exact ⟨m + n, by rw [List.drop_drop]⟩
theorem Suffix.tail {α} (x : α) (l : List α) : Suffix l (x :: l) := ⟨1, rfl⟩
theorem Suffix.length_le {α} {a b : List α} (h : Suffix a b) : a.length ≤ b.length := by
  obtain ⟨n, rfl⟩ := h; simp

theorem tryNextAcceptor_accQ (d : Disp) :
    (d.tryNextAcceptor.1 = none ∧ d.accQ = [] ∧ d.tryNextAcceptor.2 = d) ∨
    (∃ a, d.tryNextAcceptor.1 = some a ∧ d.accQ = a :: d.tryNextAcceptor.2.accQ ∧ d.tryNextAcceptor.2.nextAcceptor = none ∧
      d.tryNextAcceptor.2.syns = d.syns) := by
  unfold tryNextAcceptor accQ
  cases hn : d.nextAcceptor with
  | some a => right; exact ⟨a, rfl, by simp, rfl, rfl⟩
  | none =>
    cases hc : d.accChan with
    | nil => left; simp
    | cons a rest => right; exact ⟨a, by simp, by simp [hn], by simp [hn], by simp⟩

/-- `match_syn_with_accept` touches neither queue -/
theorem matchSyn_queues (d : Disp) (s : Syn) (a : Acceptor) :
    (d.matchSynWithAccept s a).2.1.syns = d.syns ∧ (d.matchSynWithAccept s a).2.1.nextAcceptor = d.nextAcceptor ∧
    (d.matchSynWithAccept s a).2.1.accChan = d.accChan := by
  unfold matchSynWithAccept
  split
  · exact ⟨rfl, rfl, rfl⟩
  · dsimp only
    split
    · exact ⟨rfl, rfl, rfl⟩
    · have hr : d.random.2.syns = d.syns ∧ d.random.2.nextAcceptor = d.nextAcceptor ∧ d.random.2.accChan = d.accChan := by
        unfold random; split <;> exact ⟨rfl, rfl, rfl⟩
      generalize d.random = r at hr
      obtain ⟨sq, d'⟩ := r
      dsimp only at hr ⊢
      split
      · exact hr
      · exact hr

/-- what the matching returns is what it was given -/
theorem matchSyn_fst (d : Disp) (s : Syn) (a : Acceptor) :
    (d.matchSynWithAccept s a).1 = .matched ∨ (d.matchSynWithAccept s a).1 = .full s a ∨
    (d.matchSynWithAccept s a).1 = .synInvalid a ∨ (d.matchSynWithAccept s a).1 = .receiverDead s := by
  unfold matchSynWithAccept
  split
  · right; left; rfl
  · dsimp only
    split
    · right; right; left; rfl
    · generalize d.random = r
      obtain ⟨sq, d'⟩ := r
      dsimp only
      split
      · right; right; right; rfl
      · left; rfl

theorem cleanupLoop_fifo (fuel : Nat) (d : Disp) (effs : List Eff) :
    Suffix (cleanupLoop fuel d effs).1.syns d.syns ∧ Suffix (cleanupLoop fuel d effs).1.accQ d.accQ := by
  induction fuel generalizing d effs with
  | zero => exact ⟨Suffix.refl _, Suffix.refl _⟩
  | succ n ih =>
    unfold cleanupLoop
    split
    · exact ⟨Suffix.refl _, Suffix.refl _⟩
    · rename_i s rest hs
      dsimp only
      rcases tryNextAcceptor_accQ { d with syns := rest } with ⟨h1, h2, h3⟩ | ⟨a, h1, h2, h3, h4⟩
      · split
        · exact ⟨Suffix.refl _, Suffix.refl _⟩
        · rename_i a d1 hta; rw [hta] at h1; cases h1
      · split
        · rename_i hta; rw [hta] at h1; cases h1
        · rename_i a0 d1 hta
          rw [hta] at h1 h2 h3 h4
          cases h1
          have hq := matchSyn_queues d1 s a
          have hret := matchSyn_fst d1 s a
          have hacc0 : d.accQ = a :: d1.accQ := h2
          have hsyn0 : d1.syns = rest := h4
          split
          · rename_i d2 e hm'
            rw [hm'] at hq
            obtain ⟨i1, i2⟩ := ih d2 (effs ++ e)
            refine ⟨i1.trans ?_, i2.trans ?_⟩
            · rw [hq.1, hsyn0, hs]; exact Suffix.tail _ _
            · rw [hacc0]; unfold accQ; rw [hq.2.1, hq.2.2]; exact Suffix.tail _ _
          · rename_i a' d2 e hm'
            rw [hm'] at hq hret
            simp at hret
            obtain ⟨i1, i2⟩ := ih { d2 with nextAcceptor := some a' } (effs ++ e)
            refine ⟨i1.trans ?_, i2.trans ?_⟩
            · show Suffix d2.syns d.syns
              rw [hq.1, hsyn0, hs]; exact Suffix.tail _ _
            · show Suffix ((some a').toList ++ d2.accChan) d.accQ
              rw [hacc0, hret]
              unfold accQ; rw [h3, hq.2.2]; exact Suffix.refl _
          · rename_i s' d2 e hm'
            rw [hm'] at hq hret
            simp at hret
            obtain ⟨i1, i2⟩ := ih { d2 with syns := s' :: d2.syns } (effs ++ e)
            refine ⟨i1.trans ?_, i2.trans ?_⟩
            · show Suffix (s' :: d2.syns) d.syns
              rw [hq.1, hsyn0, hs, hret]; exact Suffix.refl _
            · show Suffix (d2.nextAcceptor.toList ++ d2.accChan) d.accQ
              rw [hacc0, hq.2.1, hq.2.2]; exact Suffix.tail _ _
          · rename_i s' a' d2 e hm'
            rw [hm'] at hq hret
            simp at hret
            refine ⟨?_, ?_⟩
            · show Suffix (s' :: d2.syns) d.syns
              rw [hq.1, hsyn0, hs, hret.1]; exact Suffix.refl _
            · show Suffix ((some a').toList ++ d2.accChan) d.accQ
              rw [hacc0, hret.2]
              unfold accQ; rw [h3, hq.2.2]; exact Suffix.refl _

theorem cleanup_fifo (d : Disp) :
    Suffix d.cleanupAcceptQueue.1.syns d.syns ∧ Suffix d.cleanupAcceptQueue.1.accQ d.accQ := by
  unfold cleanupAcceptQueue
  split
  · exact ⟨Suffix.refl _, Suffix.refl _⟩
  · exact cleanupLoop_fifo _ _ _

theorem onSynLoop_fifo (fuel : Nat) (d : Disp) (s : Syn) (effs : List Eff) :
    (onSynLoop fuel d s effs).1.syns = d.syns ∧ Suffix (onSynLoop fuel d s effs).1.accQ d.accQ ∧
    (∀ s', (onSynLoop fuel d s effs).2.1 = some s' → s' = s) := by
  induction fuel generalizing d s effs with
  | zero => exact ⟨rfl, Suffix.refl _, fun s' h => by simpa [onSynLoop] using h.symm⟩
  | succ n ih =>
    unfold onSynLoop
    rcases tryNextAcceptor_accQ d with ⟨h1, h2, h3⟩ | ⟨a, h1, h2, h3, h4⟩
    · split
      · exact ⟨rfl, Suffix.refl _, fun s' h => by simpa using h.symm⟩
      · rename_i a d1 hta; rw [hta] at h1; cases h1
    · split
      · rename_i hta; rw [hta] at h1; cases h1
      · rename_i a0 d1 hta
        rw [hta] at h1 h2 h3 h4
        cases h1
        have hq := matchSyn_queues d1 s a
        have hret := matchSyn_fst d1 s a
        split
        · rename_i d2 e hm'
          rw [hm'] at hq
          refine ⟨by rw [hq.1, h4], ?_, fun s' h => by simp at h⟩
          rw [h2]; unfold accQ; rw [hq.2.1, hq.2.2]; exact Suffix.tail _ _
        · rename_i a' d2 e hm'
          rw [hm'] at hq hret
          simp at hret
          refine ⟨by show d2.syns = d.syns; rw [hq.1, h4], ?_, fun s' h => by simp at h⟩
          show Suffix ((some a').toList ++ d2.accChan) d.accQ
          rw [h2, hret]; unfold accQ; rw [h3, hq.2.2]; exact Suffix.refl _
        · rename_i s' d2 e hm'
          rw [hm'] at hq hret
          simp at hret
          obtain ⟨i1, i2, i3⟩ := ih d2 s' (effs ++ e)
          refine ⟨by rw [i1, hq.1, h4], i2.trans ?_, fun s'' h => by rw [i3 s'' h, hret]⟩
          rw [h2]; unfold accQ; rw [hq.2.1, hq.2.2]; exact Suffix.tail _ _
        · rename_i s' a' d2 e hm'
          rw [hm'] at hq hret
          simp at hret
          refine ⟨by show d2.syns = d.syns; rw [hq.1, h4], ?_, fun s'' h => by simp at h; rw [← h, hret.1]⟩
          show Suffix ((some a').toList ++ d2.accChan) d.accQ
          rw [h2, hret.2]; unfold accQ; rw [h3, hq.2.2]; exact Suffix.refl _

end UtpVerif.Model.Disp
