import UtpVerif.Model.Wire
/-! Helper lemmas for the wire-format round trip (C11). -/
namespace UtpVerif.Lemmas.Wire
open UtpVerif.Model UtpVerif.Gen

/-- Well-formed selective ACK: what `SelectiveAck::new` and `SelectiveAck::deserialize` produce. -/
def SackWF (s : Sack) : Prop :=
  s.data.length = 8 ∧ (∀ b ∈ s.data, b < 256) ∧
  ∃ k, k ≤ 8 ∧ s.len = k * 8 ∧ s.data.drop k = List.replicate (8 - k) 0

/-- Well-formed header: every field fits its wire width. -/
def HeaderWF (h : Header) : Prop :=
  h.htype ≤ 4 ∧ h.connId < 65536 ∧ h.seqNr < 65536 ∧ h.ackNr < 65536 ∧
  h.ts < 4294967296 ∧ h.tsDiff < 4294967296 ∧ h.wnd < 4294967296 ∧
  (∀ s, h.sack = some s → SackWF s) ∧ (∀ r, h.closeReason = some r → r < 65536)

theorem be16_toBe16 (n : Nat) (h : n < 65536) : be16 (n / 256 % 256) (n % 256) = n := by
  unfold be16; omega

theorem be32_toBe32 (n : Nat) (h : n < 4294967296) :
    be32 (n / 16777216 % 256) (n / 65536 % 256) (n / 256 % 256) (n % 256) = n := by
  unfold be32; omega

theorem sack_deserialize_asBytes (s : Sack) (h : SackWF s) : Sack.deserialize s.asBytes = s := by
  obtain ⟨hl, _, k, hk, hlen, hz⟩ := h
  have hk8 : min (s.len / 8) 8 = k := by omega
  unfold Sack.deserialize Sack.asBytes
  rw [hk8]
  have htl : (s.data.take k).length = k := by rw [List.length_take]; omega
  simp only [htl]
  have hmin : min k 8 = k := by omega
  rw [hmin, List.take_take, Nat.min_self, ← hz, List.take_append_drop]
  cases s
  simp_all

theorem sack_asBytes_length (s : Sack) (h : SackWF s) : s.asBytes.length ≤ 8 := by
  unfold Sack.asBytes; rw [List.length_take]; omega

theorem sack_deserialize_wf (bytes : List Nat) (hb : ∀ b ∈ bytes, b < 256) : SackWF (Sack.deserialize bytes) := by
  unfold Sack.deserialize SackWF
  simp only
  refine ⟨?_, ?_, min bytes.length 8, by omega, rfl, ?_⟩
  · rw [List.length_append, List.length_take, List.length_replicate]; omega
  · intro b hbm
    rcases List.mem_append.mp hbm with h | h
    · exact hb b (List.mem_of_mem_take h)
    · rw [List.mem_replicate] at h; omega
  · have : (bytes.take (min bytes.length 8)).length = min bytes.length 8 := by
      rw [List.length_take]; omega
    rw [List.drop_append_of_le_length (by omega), List.drop_of_length_le (by omega), List.nil_append]

theorem closeReason_roundtrip (r : Nat) (h : r < 65536) : closeReasonParse (closeReasonBytes r) = r := by
  unfold closeReasonParse closeReasonBytes be16; simp only; omega

/-- One step of the chain parser over a freshly written extension. -/
theorem parseExts_step (id nxt : Nat) (payload tail : List Nat) (s : Option Sack) (c : Option Nat) (t : Nat)
    (hid : id ≠ 0) :
    parseExts id (nxt :: payload.length :: (payload ++ tail)) s c t =
      parseExts nxt tail
        (if id = EXT_SELECTIVE_ACK then some (Sack.deserialize payload) else s)
        (if id ≠ EXT_SELECTIVE_ACK ∧ id = EXT_CLOSE_REASON ∧ payload.length = 4 then some (closeReasonParse payload) else c)
        (t + 2 + payload.length) := by
  rw [parseExts]
  simp only [hid, if_false, List.length_append, Nat.le_add_right, if_true,
    List.take_left', List.drop_left']

theorem parseExts_zero (buf : List Nat) (s : Option Sack) (c : Option Nat) (t : Nat) :
    parseExts 0 buf s c t = some (s, c, t) := by
  unfold parseExts; simp

theorem byte_bit (c0 c1 c2 c3 c4 c5 c6 c7 : Bool) (j : Fin 8) :
    (((if c0 then 1 else 0) + ((if c1 then 2 else 0) + ((if c2 then 4 else 0) + ((if c3 then 8 else 0) +
      ((if c4 then 16 else 0) + ((if c5 then 32 else 0) + ((if c6 then 64 else 0) + ((if c7 then 128 else 0) + 0))))))))
        / 2 ^ j.val % 2 = 1)
    ↔ (match j.val with | 0 => c0 | 1 => c1 | 2 => c2 | 3 => c3 | 4 => c4 | 5 => c5 | 6 => c6 | _ => c7) = true := by
  revert c0 c1 c2 c3 c4 c5 c6 c7 j
  decide

/-- **Bit `i` of a locally built selective ACK is set exactly when `i` is one of the given
indices** (among those taken before the first index ≥ 64). -/
theorem ofIndices_bit (idxs : List Nat) (i : Nat) (hi : i < 64) :
    (Sack.ofIndices idxs).bit i = true ↔ i ∈ idxs.takeWhile (· < Gen.SACK_DEPTH) := by
  have hD : Gen.SACK_DEPTH = 64 := by decide
  unfold Sack.ofIndices Sack.bit
  simp only [hD]
  generalize idxs.takeWhile (· < 64) = kept
  have hr : List.range 8 = [0, 1, 2, 3, 4, 5, 6, 7] := by decide
  have hk : i / 8 < 8 := by omega
  rw [List.getD_eq_getElem?_getD, List.getElem?_map, hr]
  have hget : ([0, 1, 2, 3, 4, 5, 6, 7] : List Nat)[i / 8]? = some (i / 8) := by
    have : i / 8 = 0 ∨ i / 8 = 1 ∨ i / 8 = 2 ∨ i / 8 = 3 ∨ i / 8 = 4 ∨ i / 8 = 5 ∨ i / 8 = 6 ∨ i / 8 = 7 := by omega
    rcases this with h | h | h | h | h | h | h | h <;> rw [h] <;> rfl
  rw [hget]
  simp only [Option.map_some, Option.getD_some, List.map_cons, List.map_nil, List.sum_cons, List.sum_nil,
    Nat.add_zero, decide_eq_true_eq]
  have hb := byte_bit (kept.contains (i / 8 * 8 + 0)) (kept.contains (i / 8 * 8 + 1)) (kept.contains (i / 8 * 8 + 2))
    (kept.contains (i / 8 * 8 + 3)) (kept.contains (i / 8 * 8 + 4)) (kept.contains (i / 8 * 8 + 5))
    (kept.contains (i / 8 * 8 + 6)) (kept.contains (i / 8 * 8 + 7)) ⟨i % 8, by omega⟩
  simp only [Nat.add_zero] at hb ⊢
  rw [hb]
  have : i % 8 = 0 ∨ i % 8 = 1 ∨ i % 8 = 2 ∨ i % 8 = 3 ∨ i % 8 = 4 ∨ i % 8 = 5 ∨ i % 8 = 6 ∨ i % 8 = 7 := by omega
  have hi8 : i = i / 8 * 8 + i % 8 := by omega
  rcases this with h | h | h | h | h | h | h | h <;> simp only [h] <;> rw [List.contains_iff_mem] <;>
    (conv => rhs; rw [hi8, h]) <;> (try rw [Nat.add_zero])

end UtpVerif.Lemmas.Wire
