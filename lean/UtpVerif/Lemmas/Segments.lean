import UtpVerif.Model.Segments
/-! Invariant of the TX segment queue and its preservation (C01 sender side, C06, C10). -/
namespace UtpVerif.Lemmas.Segments
open UtpVerif.Model UtpVerif.Model.Segments

def sizes (l : List Segment) : Nat := (l.map (·.payloadSize)).sum

/-- Offsets are contiguous starting at `start`. -/
def Contig : Nat → List Segment → Prop
  | _, [] => True
  | start, g :: rest => g.offsetAbs = start ∧ Contig (start + g.payloadSize) rest

/-- The byte-accounting invariant of `Segments`:
`len_bytes` is the sum of the queued payload sizes, the queued segments address the contiguous
stream range `[removed_offset, offset)`. -/
structure SInv (s : Segments) : Prop where
  bytes : s.lenBytes = sizes s.segs
  contig : Contig s.removedOffset s.segs
  ending : s.offset = s.removedOffset + s.lenBytes

/-- The "shape" of the queue that matters for content: byte range of every queued segment. -/
def shape (s : Segments) : List (Nat × Nat) := s.segs.map (fun g => (g.offsetAbs, g.payloadSize))

theorem new_inv (u : Nat) : SInv (Segments.new u) := ⟨rfl, trivial, rfl⟩

theorem contig_append (start : Nat) (l : List Segment) (g : Segment) (h : Contig start l)
    (hg : g.offsetAbs = start + sizes l) : Contig start (l ++ [g]) := by
  induction l generalizing start with
  | nil => simp [Contig, sizes] at *; exact hg
  | cons a t ih =>
    obtain ⟨h1, h2⟩ := h
    refine ⟨h1, ih _ h2 ?_⟩
    simp only [sizes, List.map_cons, List.sum_cons] at hg ⊢
    omega

theorem sizes_append (a b : List Segment) : sizes (a ++ b) = sizes a + sizes b := by
  simp [sizes, List.map_append, List.sum_append]

theorem enqueue_inv (s : Segments) (len : Nat) (probe : Bool) (h : SInv s) : SInv (s.enqueue len probe) := by
  unfold Segments.enqueue
  refine ⟨?_, ?_, ?_⟩
  · simp only [sizes_append, h.bytes]; simp [sizes]
  · apply contig_append _ _ _ h.contig
    simp only; rw [h.ending, h.bytes]
  · simp only; have := h.ending; omega

theorem contig_dropLast (start : Nat) (l : List Segment) (h : Contig start l) : Contig start l.dropLast := by
  induction l generalizing start with
  | nil => trivial
  | cons a t ih =>
    cases t with
    | nil => trivial
    | cons b u =>
      obtain ⟨h1, h2⟩ := h
      exact ⟨h1, ih _ h2⟩

theorem sizes_dropLast (l : List Segment) (last : Segment) (h : l.getLast? = some last) :
    sizes l = sizes l.dropLast + last.payloadSize := by
  have hne : l ≠ [] := by intro hn; rw [hn] at h; simp at h
  have hgl : l.getLast hne = last := by
    rw [List.getLast?_eq_some_getLast hne] at h; simpa using h
  have := List.dropLast_concat_getLast hne
  conv => lhs; rw [← this]
  rw [sizes_append, hgl]; simp [sizes]

/-- Popping the last segment (what both probe pops do on success) keeps the invariant and cannot underflow. -/
theorem pop_last_inv (s : Segments) (last : Segment) (h : SInv s) (hl : s.segs.getLast? = some last) :
    last.payloadSize ≤ s.lenBytes ∧ last.payloadSize ≤ s.offset ∧
    SInv { s with segs := s.segs.dropLast, offset := s.offset - last.payloadSize,
                  lenBytes := s.lenBytes - last.payloadSize } := by
  have hs := sizes_dropLast s.segs last hl
  have hb := h.bytes
  have he := h.ending
  refine ⟨by omega, by omega, ⟨by simp only; omega, contig_dropLast _ _ h.contig, by simp only; omega⟩⟩

/-- **`pop_mtu_probe` never panics, keeps the accounting, and either leaves the queue untouched or
removes exactly the last segment, giving its bytes back.** -/
theorem popMtuProbe_ok (s : Segments) (seq : Nat) (h : SInv s) :
    ∃ s' b, s.popMtuProbe seq = some (s', b) ∧ SInv s' ∧ s'.sndUna = s.sndUna ∧ s'.removedOffset = s.removedOffset ∧
      (b = false → s' = s) ∧
      (b = true → shape s' = (shape s).dropLast ∧ ∃ last, s.segs.getLast? = some last ∧ last.isMtuProbe = true ∧
         last.isDelivered = false ∧ s'.offset = s.offset - last.payloadSize) := by
  unfold Segments.popMtuProbe
  cases hl : s.segs.getLast? with
  | none => exact ⟨s, false, rfl, h, rfl, rfl, fun _ => rfl, by simp⟩
  | some last =>
    simp only
    obtain ⟨h1, h2, h3⟩ := pop_last_inv s last h hl
    split
    · rename_i hc
      have hne : ¬ (s.offset < last.payloadSize ∨ s.lenBytes < last.payloadSize) := by omega
      simp only [hne, if_false]
      refine ⟨_, true, rfl, h3, rfl, rfl, by simp, fun _ => ⟨?_, last, rfl, by simpa using hc.2.1, by simpa using hc.2.2, rfl⟩⟩
      simp [shape, List.map_dropLast]
    · exact ⟨s, false, rfl, h, rfl, rfl, fun _ => rfl, by simp⟩

theorem popExpired_ok (s : Segments) (timedOut : Bool) (maxRetx : Nat) (h : SInv s) :
    ∃ s' r, s.popExpiredMtuProbe timedOut maxRetx = some (s', r) ∧ SInv s' ∧ s'.sndUna = s.sndUna ∧
      s'.removedOffset = s.removedOffset ∧
      ((∀ rw ps, r ≠ .expired rw ps) → s' = s) ∧
      (∀ rw ps, r = .expired rw ps → shape s' = (shape s).dropLast ∧ timedOut = true ∧
         ∃ last, s.segs.getLast? = some last ∧ last.isMtuProbe = true ∧ last.isDelivered = false ∧
           ps = last.payloadSize ∧ maxRetx ≤ last.retransmitCount) := by
  unfold Segments.popExpiredMtuProbe
  cases hl : s.segs.getLast? with
  | none => exact ⟨s, .empty, rfl, h, rfl, rfl, fun _ => rfl, by simp⟩
  | some last =>
    simp only
    obtain ⟨h1, h2, h3⟩ := pop_last_inv s last h hl
    split
    · exact ⟨s, .empty, rfl, h, rfl, rfl, fun _ => rfl, by simp⟩
    · rename_i hnd
      split
      · rename_i hc
        have hne : ¬ (s.offset < last.payloadSize ∨ s.lenBytes < last.payloadSize) := by omega
        simp only [hne, if_false]
        refine ⟨_, _, rfl, h3, rfl, rfl, by intro hx; exact absurd rfl (hx _ _), ?_⟩
        intro rw ps he
        simp only [PopExpired.expired.injEq] at he
        refine ⟨by simp [shape, List.map_dropLast], by simpa using hc.1, last, rfl, by simpa using hc.2.1,
          by simpa using hnd, he.2.symm, hc.2.2⟩
      · split
        · exact ⟨s, .notExpired, rfl, h, rfl, rfl, fun _ => rfl, by simp⟩
        · exact ⟨s, .empty, rfl, h, rfl, rfl, fun _ => rfl, by simp⟩

/-- Key of a segment for byte addressing. -/
def key (g : Segment) : Nat × Nat := (g.offsetAbs, g.payloadSize)

theorem contig_congr (start : Nat) (l l' : List Segment) (h : l.map key = l'.map key) :
    Contig start l → Contig start l' := by
  induction l generalizing l' start with
  | nil => cases l' <;> simp_all [Contig]
  | cons a t ih =>
    cases l' with
    | nil => simp at h
    | cons b u =>
      simp only [List.map_cons, List.cons.injEq, key, Prod.mk.injEq] at h
      intro hc
      exact ⟨by rw [← h.1.1]; exact hc.1, by rw [← h.1.2]; exact ih _ _ h.2 hc.2⟩

theorem sizes_congr (l l' : List Segment) (h : l.map key = l'.map key) : sizes l = sizes l' := by
  have : l.map (·.payloadSize) = l'.map (·.payloadSize) := by
    have := congrArg (List.map Prod.snd) h
    simpa [List.map_map, key, Function.comp_def] using this
  simp [sizes, this]

/-- Invariant in the middle of `remove_up_to_ack`: `acc` bytes have been taken from the front but
`removed_offset` is not yet advanced. -/
structure MidInv (s : Segments) (acc : Nat) : Prop where
  bytes : s.lenBytes = sizes s.segs
  contig : Contig (s.removedOffset + acc) s.segs
  ending : s.offset = s.removedOffset + acc + s.lenBytes

theorem contig_drop (start : Nat) (l : List Segment) (k : Nat) (h : Contig start l) :
    Contig (start + sizes (l.take k)) (l.drop k) := by
  induction k generalizing start l with
  | zero => simpa [sizes] using h
  | succ k ih =>
    cases l with
    | nil => trivial
    | cons a t =>
      obtain ⟨h1, h2⟩ := h
      have := ih _ _ h2
      simp only [List.take_succ_cons, List.drop_succ_cons, sizes, List.map_cons, List.sum_cons] at this ⊢
      rw [← Nat.add_assoc]; exact this

theorem sizes_take_drop (l : List Segment) (k : Nat) : sizes l = sizes (l.take k) + sizes (l.drop k) := by
  conv => lhs; rw [← List.take_append_drop k l]
  exact sizes_append _ _

/-- n-fold wrapping increment of a sequence number. -/
def advance (u k : Nat) : Nat := (u + k) % 65536

theorem advance_succ (u k : Nat) (hu : u < 65536) : advance (wadd u 1) k = advance u (k + 1) := by
  unfold advance wadd; omega

/-- The cumulative drain never underflows and removes exactly the first `min n len` segments. -/
theorem drainFront_ok (now n : Nat) (s : Segments) (a : AckAcc) (h : MidInv s a.payloadSize) (hu : s.sndUna < 65536) :
    ∃ s' a', drainFront now n s a = some (s', a') ∧ MidInv s' a'.payloadSize ∧
      s'.segs = s.segs.drop (min n s.segs.length) ∧ a'.removed = a.removed + min n s.segs.length ∧
      a'.payloadSize = a.payloadSize + sizes (s.segs.take (min n s.segs.length)) ∧
      s'.sndUna = advance s.sndUna (min n s.segs.length) ∧ s'.sndUna < 65536 ∧
      s'.removedOffset = s.removedOffset ∧ s'.offset = s.offset ∧
      s'.sackDepth = s.sackDepth ∧ s'.lastSackEmpty = s.lastSackEmpty ∧
      a'.newlySackedSegs = a.newlySackedSegs ∧ a'.newlySackedBytes = a.newlySackedBytes := by
  induction n generalizing s a with
  | zero =>
    exact ⟨s, a, rfl, h, by simp, by simp, by simp [sizes], by unfold advance; simp; omega, hu, rfl, rfl, rfl, rfl, rfl, rfl⟩
  | succ n ih =>
    unfold drainFront
    cases hs : s.segs with
    | nil =>
      exact ⟨s, a, rfl, h, by simp [hs], by simp, by simp [sizes], by unfold advance; simp; omega, hu, rfl, rfl, rfl, rfl, rfl, rfl⟩
    | cons seg rest =>
      simp only
      have hb := h.bytes
      rw [hs] at hb
      simp only [sizes, List.map_cons, List.sum_cons] at hb
      have hnu : ¬ (s.lenBytes < seg.payloadSize) := by omega
      simp only [hnu, if_false]
      have hc := h.contig
      rw [hs] at hc
      have hmid : MidInv { s with segs := rest, sndUna := wadd s.sndUna 1, lenBytes := s.lenBytes - seg.payloadSize }
          (a.payloadSize + seg.payloadSize) := by
        refine ⟨by simp only [sizes]; omega, ?_, by simp only; have := h.ending; omega⟩
        simp only; rw [← Nat.add_assoc]; exact hc.2
      have hu' : wadd s.sndUna 1 < 65536 := by unfold wadd; omega
      obtain ⟨s', a', he, hm', hsg, hrm, hps, hun, hul, hro, hof, hsd, hle, hns, hnb⟩ :=
        ih { s with segs := rest, sndUna := wadd s.sndUna 1, lenBytes := s.lenBytes - seg.payloadSize }
          { a with removed := a.removed + 1, payloadSize := a.payloadSize + seg.payloadSize,
                   maxAcked := max a.maxAcked seg.payloadSize, newRtt := seg.updateRtt now a.newRtt } hmid hu'
      refine ⟨s', a', he, hm', ?_, ?_, ?_, ?_, hul, hro, hof, hsd, hle, hns, hnb⟩
      · simp only at hsg; rw [hsg]
        simp only [List.length_cons]
        have : min (n + 1) (rest.length + 1) = min n rest.length + 1 := by omega
        rw [this, List.drop_succ_cons]
      · simp only at hrm; rw [hrm]; simp only [List.length_cons]; omega
      · simp only at hps; rw [hps]
        simp only [List.length_cons]
        have : min (n + 1) (rest.length + 1) = min n rest.length + 1 := by omega
        rw [this, List.take_succ_cons]
        simp only [sizes, List.map_cons, List.sum_cons]; omega
      · simp only at hun; rw [hun, advance_succ _ _ hu]
        simp only [List.length_cons]
        congr 1; omega

/-- Marking by a SACK bitmap changes only `is_delivered` flags. -/
theorem markSacked_key (now : Nat) (l : List Segment) (bits : List Bool) (a : AckAcc) :
    (markSacked now l bits a).1.map key = l.map key ∧ (markSacked now l bits a).2.payloadSize = a.payloadSize ∧
    (markSacked now l bits a).2.removed = a.removed ∧
    (∀ g ∈ (markSacked now l bits a).1, g.isDelivered = false → g ∈ l) := by
  induction l generalizing bits a with
  | nil => simp [markSacked]
  | cons seg rest ih =>
    cases bits with
    | nil => exact ⟨rfl, rfl, rfl, fun g hg _ => hg⟩
    | cons bit bits =>
      unfold markSacked
      split
      · dsimp only
        obtain ⟨h1, h2, h3, h4⟩ := ih bits _
        refine ⟨by simp only [List.map_cons, h1, key], h2, h3, ?_⟩
        intro g hg hd
        simp only [List.mem_cons] at hg ⊢
        rcases hg with rfl | hg
        · simp at hd
        · right; exact h4 g hg hd
      · dsimp only
        obtain ⟨h1, h2, h3, h4⟩ := ih bits a
        refine ⟨by simp only [List.map_cons, h1], h2, h3, ?_⟩
        intro g hg hd
        simp only [List.mem_cons] at hg ⊢
        rcases hg with rfl | hg
        · left; rfl
        · right; exact h4 g hg hd

/-- The front clean-up never underflows, removes a prefix of delivered segments, and leaves a
non-delivered front. -/
theorem cleanupFront_ok (n : Nat) (s : Segments) (a : AckAcc) (h : MidInv s a.payloadSize) (hu : s.sndUna < 65536)
    (hn : s.segs.length < n) :
    ∃ s' a' k, cleanupFront n s a = some (s', a') ∧ MidInv s' a'.payloadSize ∧
      s'.segs = s.segs.drop k ∧ k ≤ s.segs.length ∧ a'.removed = a.removed + k ∧
      a'.payloadSize = a.payloadSize + sizes (s.segs.take k) ∧
      (∀ g ∈ s.segs.take k, g.isDelivered = true) ∧
      (∀ g, s'.segs.head? = some g → g.isDelivered = false) ∧
      s'.sndUna = advance s.sndUna k ∧ s'.sndUna < 65536 ∧
      s'.removedOffset = s.removedOffset ∧ s'.offset = s.offset ∧
      s'.sackDepth = s.sackDepth ∧ s'.lastSackEmpty = s.lastSackEmpty ∧
      a'.newlySackedSegs = a.newlySackedSegs ∧ a'.newlySackedBytes = a.newlySackedBytes ∧
      a'.maxAcked = a.maxAcked ∧ a'.newRtt = a.newRtt := by
  induction n generalizing s a with
  | zero => omega
  | succ n ih =>
    unfold cleanupFront
    cases hs : s.segs with
    | nil =>
      exact ⟨s, a, 0, rfl, h, by simp [hs], by simp, by simp, by simp [sizes], by simp, by simp [hs],
        by unfold advance; simp; omega, hu, rfl, rfl, rfl, rfl, rfl, rfl, rfl, rfl⟩
    | cons seg rest =>
      simp only
      split
      · rename_i hnd
        exact ⟨s, a, 0, rfl, h, by simp [hs], by simp, by simp, by simp [sizes], by simp,
          by intro g hg; rw [hs] at hg; simp at hg; subst hg; simpa using hnd,
          by unfold advance; simp; omega, hu, rfl, rfl, rfl, rfl, rfl, rfl, rfl, rfl⟩
      · rename_i hd
        have hb := h.bytes
        rw [hs] at hb
        simp only [sizes, List.map_cons, List.sum_cons] at hb
        have hnu : ¬ (s.lenBytes < seg.payloadSize) := by omega
        simp only [hnu, if_false]
        have hc := h.contig
        rw [hs] at hc
        have hmid : MidInv { s with segs := rest, sndUna := wadd s.sndUna 1, lenBytes := s.lenBytes - seg.payloadSize }
            (a.payloadSize + seg.payloadSize) := by
          refine ⟨by simp only [sizes]; omega, ?_, by simp only; have := h.ending; omega⟩
          simp only; rw [← Nat.add_assoc]; exact hc.2
        have hu' : wadd s.sndUna 1 < 65536 := by unfold wadd; omega
        rw [hs] at hn
        simp only [List.length_cons] at hn
        obtain ⟨s', a', k, he, hm', hsg, hk, hrm, hps, hdel, hfr, hun, hul, hro, hof, hsd, hle, hns, hnb, hma, hrt⟩ :=
          ih { s with segs := rest, sndUna := wadd s.sndUna 1, lenBytes := s.lenBytes - seg.payloadSize }
            { a with removed := a.removed + 1, payloadSize := a.payloadSize + seg.payloadSize } hmid hu' (by simp only; omega)
        refine ⟨s', a', k + 1, he, hm', by simp only at hsg; rw [hsg, List.drop_succ_cons],
          by simp only [List.length_cons]; simp only at hk; omega, by simp only at hrm; omega, ?_, ?_, hfr, ?_, hul, hro, hof, hsd, hle, hns, hnb, hma, hrt⟩
        · simp only at hps; rw [hps, List.take_succ_cons]
          simp only [sizes, List.map_cons, List.sum_cons]; omega
        · intro g hg
          rw [List.take_succ_cons] at hg
          simp only [List.mem_cons] at hg
          rcases hg with rfl | hg
          · simpa using hd
          · exact hdel g hg
        · simp only at hun; rw [hun, advance_succ _ _ hu]

theorem midInv_congr (s : Segments) (acc : Nat) (segs' : List Segment) (sd : Nat) (le : Bool)
    (h : MidInv s acc) (hk : segs'.map key = s.segs.map key) :
    MidInv { s with segs := segs', sackDepth := sd, lastSackEmpty := le } acc :=
  ⟨by simp only; rw [h.bytes]; exact sizes_congr _ _ hk.symm, contig_congr _ _ _ hk.symm h.contig, h.ending⟩

/-- The SACK-marking middle part of `remove_up_to_ack` (as a function of the state after the drain). -/
def sackPhase (now ackNr : Nat) (sack : Option Sack) (s1 : Segments) (a1 : AckAcc) : Segments × AckAcc :=
  match s1.firstSeqNr, sack with
  | some first, some sk =>
    if seqGt first ackNr then
      let sackStart := wadd ackNr 2
      let sso := seqSub sackStart first
      let bits := sackBits sk
      let (segs', a) :=
        if sso ≥ 0 then
          let r := markSacked now (s1.segs.drop sso.toNat) bits a1
          (s1.segs.take sso.toNat ++ r.1, r.2)
        else
          markSacked now s1.segs (bits.drop (-sso).toNat) a1
      ({ s1 with segs := segs', sackDepth := sk.len, lastSackEmpty := sk.countOnes = 0 }, a)
    else (s1, a1)
  | _, _ => (s1, a1)

theorem sackPhase_ok (now ackNr : Nat) (sack : Option Sack) (s1 : Segments) (a1 : AckAcc) (h : MidInv s1 a1.payloadSize) :
    let r := sackPhase now ackNr sack s1 a1
    MidInv r.1 r.2.payloadSize ∧ r.1.segs.map key = s1.segs.map key ∧ r.2.payloadSize = a1.payloadSize ∧
    r.2.removed = a1.removed ∧ r.1.sndUna = s1.sndUna ∧ r.1.removedOffset = s1.removedOffset ∧ r.1.offset = s1.offset ∧
    (∀ g ∈ r.1.segs, g.isDelivered = false → g ∈ s1.segs) := by
  unfold sackPhase
  cases hf : s1.firstSeqNr with
  | none => exact ⟨h, rfl, rfl, rfl, rfl, rfl, rfl, fun g hg _ => hg⟩
  | some first =>
    cases sack with
    | none => exact ⟨h, rfl, rfl, rfl, rfl, rfl, rfl, fun g hg _ => hg⟩
    | some sk =>
      simp only
      split
      · dsimp only
        split
        · have hm := markSacked_key now (s1.segs.drop (seqSub (wadd ackNr 2) first).toNat) (sackBits sk) a1
          obtain ⟨hk, hp, hr, hmem⟩ := hm
          have hkey : (s1.segs.take (seqSub (wadd ackNr 2) first).toNat ++
              (markSacked now (s1.segs.drop (seqSub (wadd ackNr 2) first).toNat) (sackBits sk) a1).1).map key = s1.segs.map key := by
            rw [List.map_append, hk, ← List.map_append, List.take_append_drop]
          refine ⟨?_, hkey, hp, hr, rfl, rfl, rfl, ?_⟩
          · simp only [hp]; exact midInv_congr s1 _ _ _ _ h hkey
          · intro g hg hd
            simp only [List.mem_append] at hg
            rcases hg with hg | hg
            · exact List.mem_of_mem_take hg
            · exact List.mem_of_mem_drop (hmem g hg hd)
        · obtain ⟨hk, hp, hr, hmem⟩ := markSacked_key now s1.segs ((sackBits sk).drop (-(seqSub (wadd ackNr 2) first)).toNat) a1
          refine ⟨?_, hk, hp, hr, rfl, rfl, rfl, hmem⟩
          simp only [hp]; exact midInv_congr s1 _ _ _ _ h hk
      · exact ⟨h, rfl, rfl, rfl, rfl, rfl, rfl, fun g hg _ => hg⟩

theorem removeUpToAck_eq (s : Segments) (now ackNr : Nat) (sack : Option Sack) :
    s.removeUpToAck now ackNr sack =
      (match (if seqSub ackNr s.sndUna ≥ 0 then drainFront now (min ((seqSub ackNr s.sndUna).toNat + 1) s.segs.length) s {} else some (s, {})) with
       | none => none
       | some (s1, a1) =>
         let r := sackPhase now ackNr sack s1 a1
         match cleanupFront (r.1.segs.length + 1) r.1 r.2 with
         | none => none
         | some (s3, a3) =>
           some ({ s3 with removedOffset := s3.removedOffset + a3.payloadSize },
             { ackedSegmentsCount := a3.removed, ackedBytes := a3.payloadSize, maxAckedPayloadSize := a3.maxAcked,
               newlySackedSegmentCount := a3.newlySackedSegs, newlySackedByteCount := a3.newlySackedBytes,
               newRtt := a3.newRtt })) := by
  unfold Segments.removeUpToAck sackPhase
  rfl

/-- **`remove_up_to_ack` for any acknowledgement number and any selective-ACK bits**: never panics,
keeps the byte accounting, removes exactly a prefix of the queue (`k` segments), reports exactly their
bytes, advances `snd_una` by `k`, and leaves a non-delivered front. -/
theorem removeUpToAck_ok (s : Segments) (now ackNr : Nat) (sack : Option Sack) (h : SInv s) (hu : s.sndUna < 65536) :
    ∃ s' r k, s.removeUpToAck now ackNr sack = some (s', r) ∧ SInv s' ∧
      shape s' = (shape s).drop k ∧ k ≤ s.segs.length ∧ r.ackedSegmentsCount = k ∧
      r.ackedBytes = sizes (s.segs.take k) ∧ s'.removedOffset = s.removedOffset + r.ackedBytes ∧
      s'.sndUna = advance s.sndUna k ∧ s'.sndUna < 65536 ∧ s'.offset = s.offset ∧
      (∀ g, s'.segs.head? = some g → g.isDelivered = false) ∧
      (seqSub ackNr s.sndUna ≥ 0 → min ((seqSub ackNr s.sndUna).toNat + 1) s.segs.length ≤ k) := by
  rw [removeUpToAck_eq]
  have h0 : MidInv s ({} : AckAcc).payloadSize := ⟨h.bytes, by simpa using h.contig, by have := h.ending; simpa using this⟩
  -- phase 1
  have hp1 : ∃ s1 a1 k1, (if seqSub ackNr s.sndUna ≥ 0 then drainFront now (min ((seqSub ackNr s.sndUna).toNat + 1) s.segs.length) s {} else some (s, {})) = some (s1, a1) ∧
      MidInv s1 a1.payloadSize ∧ s1.segs = s.segs.drop k1 ∧ k1 ≤ s.segs.length ∧ a1.removed = k1 ∧
      a1.payloadSize = sizes (s.segs.take k1) ∧ s1.sndUna = advance s.sndUna k1 ∧ s1.sndUna < 65536 ∧
      s1.removedOffset = s.removedOffset ∧ s1.offset = s.offset ∧
      (seqSub ackNr s.sndUna ≥ 0 → min ((seqSub ackNr s.sndUna).toNat + 1) s.segs.length ≤ k1) := by
    split
    · obtain ⟨s1, a1, he, hm, hsg, hrm, hps, hun, hul, hro, hof, _⟩ :=
        drainFront_ok now (min ((seqSub ackNr s.sndUna).toNat + 1) s.segs.length) s {} h0 hu
      refine ⟨s1, a1, _, he, hm, hsg, Nat.min_le_right _ _, by simpa using hrm, by simpa using hps, hun, hul, hro, hof, fun _ => ?_⟩
      omega
    · rename_i hneg
      exact ⟨s, {}, 0, rfl, h0, by simp, by omega, rfl, by simp [sizes], by unfold advance; simp; omega, hu, rfl, rfl, fun hge => absurd hge hneg⟩
  obtain ⟨s1, a1, k1, he1, hm1, hsg1, hk1, hr1, hps1, hun1, hul1, hro1, hof1, hprog1⟩ := hp1
  rw [he1]
  simp only
  -- phase 2
  obtain ⟨hm2, hkey2, hps2, hr2, hun2, hro2, hof2, _⟩ := sackPhase_ok now ackNr sack s1 a1 hm1
  generalize sackPhase now ackNr sack s1 a1 = r2 at *
  obtain ⟨s2, a2⟩ := r2
  simp only at hm2 hkey2 hps2 hr2 hun2 hro2 hof2 ⊢
  -- phase 3
  obtain ⟨s3, a3, k3, he3, hm3, hsg3, hk3, hr3, hps3, _, hfr3, hun3, hul3, hro3, hof3, _⟩ :=
    cleanupFront_ok (s2.segs.length + 1) s2 a2 hm2 (by rw [hun2]; exact hul1) (by omega)
  rw [he3]
  have hlen2 : s2.segs.length = s1.segs.length := by
    have := congrArg List.length hkey2; simpa using this
  have hsz : sizes (s2.segs.take k3) = sizes ((s.segs.drop k1).take k3) := by
    apply sizes_congr
    rw [← hsg1, List.map_take, List.map_take, hkey2]
  refine ⟨_, _, k1 + k3, rfl, ?_, ?_, ?_, ?_, ?_, ?_, ?_, ?_, ?_, hfr3, fun hge => Nat.le_trans (hprog1 hge) (Nat.le_add_right _ _)⟩
  · refine ⟨hm3.bytes, ?_, ?_⟩
    · simp only; have := hm3.contig; rw [hro3] at this ⊢; exact this
    · simp only; have := hm3.ending; omega
  · simp only [shape]
    rw [hsg3]
    have : (s2.segs.drop k3).map (fun g => (g.offsetAbs, g.payloadSize)) = ((s2.segs.map key).drop k3) := by
      rw [List.map_drop]; rfl
    rw [this, hkey2, hsg1, List.map_drop, List.drop_drop]
    rfl
  · rw [hlen2, hsg1, List.length_drop] at hk3; omega
  · simp only; omega
  · simp only; rw [hps3, hps2, hps1, hsz]
    rw [← sizes_append]
    congr 1
    rw [List.take_add]
  · simp only; omega
  · simp only; rw [hun3, hun2, hun1]; unfold advance; omega
  · exact hul3
  · simp only; omega

theorem pipeLoop_key (s : Segments) (highRxt thr now : Nat) (l : List (Nat × Segment)) (a : PipeAcc) :
    (pipeLoop s highRxt thr now l a).1.map key = l.map (fun p => key p.2) ∧
    (pipeLoop s highRxt thr now l a).1.map (·.isDelivered) = l.map (fun p => p.2.isDelivered) ∧
    (pipeLoop s highRxt thr now l a).1.map (·.sent) = l.map (fun p => p.2.sent) ∧
    (pipeLoop s highRxt thr now l a).1.map (·.isMtuProbe) = l.map (fun p => p.2.isMtuProbe) := by
  induction l generalizing a with
  | nil => simp [pipeLoop]
  | cons p rest ih =>
    obtain ⟨off, seg⟩ := p
    unfold pipeLoop
    dsimp only
    have hstep : key (pipeStep s highRxt thr now off seg a).1 = key seg ∧
        (pipeStep s highRxt thr now off seg a).1.isDelivered = seg.isDelivered ∧
        (pipeStep s highRxt thr now off seg a).1.sent = seg.sent ∧
        (pipeStep s highRxt thr now off seg a).1.isMtuProbe = seg.isMtuProbe := by
      unfold pipeStep
      split
      · exact ⟨rfl, rfl, rfl, rfl⟩
      · split
        · exact ⟨rfl, rfl, rfl, rfl⟩
        · exact ⟨rfl, rfl, rfl, rfl⟩
    obtain ⟨i1, i2, i3, i4⟩ := ih (pipeStep s highRxt thr now off seg a).2
    simp only [List.map_cons, i1, i2, i3, i4, hstep.1, hstep.2.1, hstep.2.2.1, hstep.2.2.2]
    exact ⟨trivial, trivial, trivial, trivial⟩

theorem indexed_map_snd (l : List Segment) (f : Segment → α) :
    ((l.zipIdx.map (fun p => (p.2, p.1))).reverse.map (fun p => f p.2)).reverse = l.map f := by
  rw [← List.map_reverse, List.reverse_reverse, List.map_map]
  have : ((fun p : Nat × Segment => f p.2) ∘ fun p : Segment × Nat => (p.2, p.1)) = (fun p : Segment × Nat => f p.1) := rfl
  rw [this]
  generalize 0 = k
  induction l generalizing k with
  | nil => rfl
  | cons a t ih => simp [List.zipIdx_cons, ih]

/-- **`calc_pipe` only rewrites the loss-estimation flags**: byte ranges, delivered flags, send status
and probe flags of every segment are untouched; the accounting fields are untouched. It panics exactly
when `high_data` lies beyond the queue. -/
theorem calcPipe_ok (s : Segments) (highRxt highData rtt now : Nat) (h : SInv s)
    (hg : (seqSub highData s.sndUna).toNat ≤ s.segs.length) :
    ∃ s' p, s.calcPipe highRxt highData rtt now = some (s', p) ∧ SInv s' ∧ shape s' = shape s ∧
      s'.segs.map (·.isDelivered) = s.segs.map (·.isDelivered) ∧ s'.segs.map (·.sent) = s.segs.map (·.sent) ∧
      s'.segs.map (·.isMtuProbe) = s.segs.map (·.isMtuProbe) ∧
      s'.sndUna = s.sndUna ∧ s'.removedOffset = s.removedOffset ∧ s'.offset = s.offset ∧ s'.lenBytes = s.lenBytes := by
  unfold Segments.calcPipe
  dsimp only
  have hng : ¬ ((seqSub highData s.sndUna).toNat > s.segs.length) := by omega
  simp only [hng, if_false]
  generalize hT : (seqSub highData s.sndUna).toNat = take at *
  generalize hthr : rtt * Gen.PIPE_EXPIRY_NUM / Gen.PIPE_EXPIRY_DEN = thr
  obtain ⟨k1, k2, k3, k4⟩ := pipeLoop_key s highRxt thr now (((s.segs.take take).zipIdx.map (fun p => (p.2, p.1))).reverse) {}
  generalize hpl : pipeLoop s highRxt thr now (((s.segs.take take).zipIdx.map (fun p => (p.2, p.1))).reverse) {} = pl at *
  obtain ⟨revSegs, a⟩ := pl
  simp only at k1 k2 k3 k4 ⊢
  have e1 : revSegs.reverse.map key = (s.segs.take take).map key := by
    rw [List.map_reverse, k1]; exact indexed_map_snd _ key
  have e2 : revSegs.reverse.map (·.isDelivered) = (s.segs.take take).map (·.isDelivered) := by
    rw [List.map_reverse, k2]; exact indexed_map_snd _ _
  have e3 : revSegs.reverse.map (·.sent) = (s.segs.take take).map (·.sent) := by
    rw [List.map_reverse, k3]; exact indexed_map_snd _ _
  have e4 : revSegs.reverse.map (·.isMtuProbe) = (s.segs.take take).map (·.isMtuProbe) := by
    rw [List.map_reverse, k4]; exact indexed_map_snd _ _
  have hkey : (revSegs.reverse ++ s.segs.drop take).map key = s.segs.map key := by
    rw [List.map_append, e1, ← List.map_append, List.take_append_drop]
  refine ⟨_, _, rfl, ⟨?_, ?_, h.ending⟩, ?_, ?_, ?_, ?_, rfl, rfl, rfl, rfl⟩
  · simp only; rw [h.bytes]; exact sizes_congr _ _ hkey.symm
  · exact contig_congr _ _ _ hkey.symm h.contig
  · simp only [shape]; exact hkey
  · simp only; rw [List.map_append, e2, ← List.map_append, List.take_append_drop]
  · simp only; rw [List.map_append, e3, ← List.map_append, List.take_append_drop]
  · simp only; rw [List.map_append, e4, ← List.map_append, List.take_append_drop]

theorem map_set_same {α β : Type} (l : List α) (f : α → β) (i : Nat) (a b : α) (h : l[i]? = some a) (hf : f b = f a) :
    (l.set i b).map f = l.map f := by
  induction l generalizing i with
  | nil => simp at h
  | cons x t ih =>
    cases i with
    | zero => simp only [List.getElem?_cons_zero, Option.some.injEq] at h; subst h; simp [hf]
    | succ i => simp only [List.getElem?_cons_succ] at h; simp [ih i h]

theorem onSent_ok (s : Segments) (idx now : Nat) (h : SInv s) :
    SInv (s.onSent idx now) ∧ shape (s.onSent idx now) = shape s ∧
    (s.onSent idx now).segs.map (·.isDelivered) = s.segs.map (·.isDelivered) ∧
    (s.onSent idx now).sndUna = s.sndUna ∧ (s.onSent idx now).removedOffset = s.removedOffset ∧
    (s.onSent idx now).offset = s.offset ∧ (s.onSent idx now).lenBytes = s.lenBytes := by
  unfold Segments.onSent
  cases hg : s.segs[idx]? with
  | none => exact ⟨h, rfl, rfl, rfl, rfl, rfl, rfl⟩
  | some g =>
    have hkey : (s.segs.set idx (g.onSent now)).map key = s.segs.map key := map_set_same _ _ _ _ _ hg rfl
    have hdel : (s.segs.set idx (g.onSent now)).map (·.isDelivered) = s.segs.map (·.isDelivered) :=
      map_set_same _ _ _ _ _ hg rfl
    refine ⟨⟨?_, contig_congr _ _ _ hkey.symm h.contig, h.ending⟩, hkey, hdel, rfl, rfl, rfl, rfl⟩
    show s.lenBytes = sizes (s.segs.set idx (g.onSent now))
    rw [h.bytes]; exact sizes_congr _ _ hkey.symm

/-- Under the invariant a segment's ring range lies inside the queued bytes. -/
theorem contig_range (start : Nat) (l : List Segment) (h : Contig start l) (g : Segment) (hg : g ∈ l) :
    start ≤ g.offsetAbs ∧ g.offsetAbs + g.payloadSize ≤ start + sizes l := by
  induction l generalizing start with
  | nil => simp at hg
  | cons a t ih =>
    obtain ⟨h1, h2⟩ := h
    simp only [List.mem_cons] at hg
    simp only [sizes, List.map_cons, List.sum_cons]
    rcases hg with rfl | hg
    · omega
    · have := ih _ h2 hg
      simp only [sizes] at this
      omega

/-- **`iter_mut_for_sending` never panics and never yields a delivered segment**; every view addresses
`ring[payload_offset, payload_offset + size)` with `payload_offset = offset_abs − removed_offset`,
inside the bytes the queue accounts for. -/
theorem iterForSending_ok (s : Segments) (start : Option Nat) (h : SInv s) :
    ∃ vs, s.iterForSending start = some vs ∧
      ∀ v ∈ vs, v.seg.isDelivered = false ∧ s.segs[v.idx]? = some v.seg ∧
        v.payloadOffset + s.removedOffset = v.seg.offsetAbs ∧
        v.payloadOffset + v.seg.payloadSize ≤ s.lenBytes ∧
        v.seqNr = wadd s.sndUna (v.idx % 65536) := by
  unfold Segments.iterForSending
  dsimp only
  generalize hoff : (if (match start with | some st => (seqSub st s.sndUna).toNat | none => 0) ≥ s.segs.length then s.segs.length
      else (match start with | some st => (seqSub st s.sndUna).toNat | none => 0)) = offset
  have hmem : ∀ p ∈ (s.segs.drop offset).zipIdx, s.segs[offset + p.2]? = some p.1 := by
    intro p hp
    have := List.mem_zipIdx_iff_getElem?.mp hp
    rw [List.getElem?_drop] at this
    exact this
  have hall : ∀ p ∈ (s.segs.drop offset).zipIdx, ¬ (p.1.offsetAbs < s.removedOffset) := by
    intro p hp
    have hm : p.1 ∈ s.segs := List.mem_of_getElem? (hmem p hp)
    have := contig_range _ _ h.contig p.1 hm
    omega
  generalize hV : ((s.segs.drop offset).zipIdx.map (fun p =>
    if p.1.offsetAbs < s.removedOffset then none else some (s.mkView offset p))) = views
  have hsome : ∀ o ∈ views, ∃ p ∈ (s.segs.drop offset).zipIdx, o = some (s.mkView offset p) := by
    intro o ho
    rw [← hV] at ho
    obtain ⟨p, hp, rfl⟩ := List.mem_map.mp ho
    exact ⟨p, hp, by simp only [hall p hp, if_false]⟩
  have hany : views.any Option.isNone = false := by
    rw [List.any_eq_false]
    intro o ho
    obtain ⟨p, _, rfl⟩ := hsome o ho
    simp
  simp only [hany, Bool.false_eq_true, if_false]
  refine ⟨_, rfl, ?_⟩
  intro v hv
  obtain ⟨hv1, hv2⟩ := List.mem_filter.mp hv
  obtain ⟨o, ho, hoe⟩ := List.mem_filterMap.mp hv1
  simp only [id] at hoe
  subst hoe
  obtain ⟨p, hp, hpe⟩ := hsome _ ho
  simp only [Option.some.injEq] at hpe
  subst hpe
  have hm : p.1 ∈ s.segs := List.mem_of_getElem? (hmem p hp)
  have hr := contig_range _ _ h.contig p.1 hm
  have hb := h.bytes
  refine ⟨by simpa [Segments.mkView] using hv2, hmem p hp, by simp only [Segments.mkView]; omega,
    by simp only [Segments.mkView]; omega, rfl⟩

/-! ### The never-sent tail of the queue (`discard_unsent`, D22) -/

def U (g : Segment) : Bool := decide (g.sent = .notSent)

theorem tu_all (l : List Segment) (h : l.all (fun x => x.sent = .notSent) = true) : trailingUnsent l = l.length := by
  induction l with
  | nil => rfl
  | cons g rest ih =>
    simp only [List.all_cons, Bool.and_eq_true, decide_eq_true_eq] at h
    unfold trailingUnsent
    simp [h.1, h.2]

theorem tu_le (l : List Segment) : trailingUnsent l ≤ l.length := by
  induction l with
  | nil => simp [trailingUnsent]
  | cons g rest ih =>
    unfold trailingUnsent
    split
    · simp
    · simp only [List.length_cons]; omega

theorem tu_drop (l : List Segment) (k : Nat) : trailingUnsent (l.drop k) = min (trailingUnsent l) (l.length - k) := by
  induction l generalizing k with
  | nil => simp [trailingUnsent]
  | cons g rest ih =>
    cases k with
    | zero => simp only [List.drop_zero, Nat.sub_zero]; have := tu_le (g :: rest); omega
    | succ k =>
      simp only [List.drop_succ_cons, List.length_cons, Nat.add_sub_add_right]
      rw [ih k]
      conv => rhs; unfold trailingUnsent
      split
      · rename_i h
        rw [tu_all rest h.1]
        omega
      · rfl

/-- depends only on the `sent` flags -/
theorem tu_congr (l l' : List Segment) (h : l.map (·.sent) = l'.map (·.sent)) : trailingUnsent l = trailingUnsent l' := by
  induction l generalizing l' with
  | nil => cases l' <;> simp_all [trailingUnsent]
  | cons g rest ih =>
    cases l' with
    | nil => simp at h
    | cons g' rest' =>
      simp only [List.map_cons, List.cons.injEq] at h
      have hlen : rest.length = rest'.length := by simpa using congrArg List.length h.2
      have hall : rest.all (fun x => x.sent = .notSent) = rest'.all (fun x => x.sent = .notSent) := by
        have e1 : rest.all (fun x => x.sent = .notSent) = (rest.map (·.sent)).all (fun x => x = .notSent) := by
          simp [List.all_map]; rfl
        have e2 : rest'.all (fun x => x.sent = .notSent) = (rest'.map (·.sent)).all (fun x => x = .notSent) := by
          simp [List.all_map]; rfl
        rw [e1, e2, h.2]
      unfold trailingUnsent
      rw [hall, h.1, hlen, ih rest' h.2]

theorem tu_cons_ge (g : Segment) (rest : List Segment) : trailingUnsent rest ≤ trailingUnsent (g :: rest) := by
  conv => rhs; unfold trailingUnsent
  split
  · have := tu_le rest; omega
  · exact Nat.le_refl _

theorem all_set_false (l : List Segment) (i : Nat) (g' : Segment) (hi : i < l.length) (hg : g'.sent ≠ .notSent) :
    (l.set i g').all (fun x => x.sent = .notSent) = false := by
  rw [List.all_eq_false]
  exact ⟨g', List.mem_set hi g', by simpa using hg⟩
  
theorem tu_cons_of_not_all (g : Segment) (rest : List Segment) (h : rest.all (fun x => x.sent = .notSent) = false) :
    trailingUnsent (g :: rest) = trailingUnsent rest := by
  conv => lhs; unfold trailingUnsent
  simp [h]

/-- marking a segment as sent never lengthens the unsent tail … -/
theorem tu_set_le (l : List Segment) (idx : Nat) (g' : Segment) (hg : g'.sent ≠ .notSent) :
    trailingUnsent (l.set idx g') ≤ trailingUnsent l := by
  induction l generalizing idx with
  | nil => simp
  | cons g rest ih =>
    cases idx with
    | zero =>
      simp only [List.set_cons_zero]
      have : trailingUnsent (g' :: rest) = trailingUnsent rest := by
        conv => lhs; unfold trailingUnsent
        simp [hg]
      rw [this]; exact tu_cons_ge g rest
    | succ i =>
      simp only [List.set_cons_succ]
      rcases Nat.lt_or_ge i rest.length with hi | hi
      · rw [tu_cons_of_not_all g _ (all_set_false rest i g' hi hg)]
        exact Nat.le_trans (ih i) (tu_cons_ge g rest)
      · rw [List.set_eq_of_length_le hi]; exact Nat.le_refl _

/-- … and puts that segment in front of it. -/
theorem tu_set_idx (l : List Segment) (idx : Nat) (g' : Segment) (hg : g'.sent ≠ .notSent) (hi : idx < l.length) :
    idx + 1 + trailingUnsent (l.set idx g') ≤ l.length := by
  induction l generalizing idx with
  | nil => simp at hi
  | cons g rest ih =>
    cases idx with
    | zero =>
      simp only [List.set_cons_zero, List.length_cons]
      have : trailingUnsent (g' :: rest) = trailingUnsent rest := by
        conv => lhs; unfold trailingUnsent
        simp [hg]
      rw [this]; have := tu_le rest; omega
    | succ i =>
      simp only [List.length_cons, Nat.add_lt_add_iff_right] at hi
      simp only [List.set_cons_succ, List.length_cons]
      rw [tu_cons_of_not_all g _ (all_set_false rest i g' hi hg)]
      have := ih i hi; omega

/-- what is left after discarding the unsent tail has no unsent tail -/
theorem tu_take (l : List Segment) : trailingUnsent (l.take (l.length - trailingUnsent l)) = 0 := by
  induction l with
  | nil => simp [trailingUnsent]
  | cons g rest ih =>
    by_cases hc : rest.all (fun x => x.sent = .notSent) = true ∧ g.sent = .notSent
    · have : trailingUnsent (g :: rest) = rest.length + 1 := by
        conv => lhs; unfold trailingUnsent
        simp [hc.1, hc.2]
      rw [this]; simp [trailingUnsent]
    · have ht : trailingUnsent (g :: rest) = trailingUnsent rest := by
        conv => lhs; unfold trailingUnsent
        simp only [hc, if_false]
      rw [ht]
      have hle := tu_le rest
      have e : (g :: rest).length - trailingUnsent rest = (rest.length - trailingUnsent rest) + 1 := by
        simp only [List.length_cons]; omega
      rw [e, List.take_succ_cons]
      generalize hr : rest.take (rest.length - trailingUnsent rest) = r' at ih
      rcases Classical.em (r'.all (fun x => x.sent = .notSent) = true) with ha | ha
      · -- r' all unsent and its tail is 0: r' = []
        have hl := tu_all r' ha
        rw [ih] at hl
        have hnil : r' = [] := List.eq_nil_of_length_eq_zero hl.symm
        subst hnil
        -- then rest is entirely unsent, so g is sent
        have hfull : trailingUnsent rest = rest.length := by
          have := congrArg List.length hr
          simp only [List.length_take, List.length_nil] at this
          omega
        have hall : rest.all (fun x => x.sent = .notSent) = true := by
          rcases Classical.em (rest.all (fun x => x.sent = .notSent) = true) with h | h
          · exact h
          · exfalso
            -- a list with a sent element has a tail shorter than its length
            have : trailingUnsent rest < rest.length ∨ rest = [] := by
              clear hr ih hle e ht hc hfull
              induction rest with
              | nil => right; rfl
              | cons a t iht =>
                left
                simp only [List.all_cons, Bool.and_eq_true, decide_eq_true_eq, not_and] at h
                conv => lhs; unfold trailingUnsent
                split
                · rename_i hh; exact absurd hh.1 (fun ht' => h hh.2 ht')
                · have := tu_le t; simp only [List.length_cons]; omega
            rcases this with h1 | h1
            · omega
            · subst h1; simp at h
        have hg : g.sent ≠ .notSent := fun hgs => hc ⟨hall, hgs⟩
        conv => lhs; unfold trailingUnsent
        simp [hg, trailingUnsent]
      · have : r'.all (fun x => x.sent = .notSent) = false := by simpa using ha
        rw [tu_cons_of_not_all g r' this, ih]

theorem contig_take (start : Nat) (l : List Segment) (n : Nat) (h : Contig start l) : Contig start (l.take n) := by
  induction l generalizing start n with
  | nil => simp [Contig]
  | cons g rest ih =>
    cases n with
    | zero => simp [Contig]
    | succ n => simp only [List.take_succ_cons, Contig] at h ⊢; exact ⟨h.1, ih _ _ h.2⟩

/-- **`discard_unsent` keeps the queue's accounting invariant**, removes exactly the never-sent tail and touches
nothing else. -/
theorem discardUnsent_ok (s : Segments) (h : SInv s) :
    SInv s.discardUnsent ∧ s.discardUnsent.sndUna = s.sndUna ∧ s.discardUnsent.removedOffset = s.removedOffset ∧
    s.discardUnsent.segs = s.segs.take (s.segs.length - trailingUnsent s.segs) ∧
    s.discardUnsent.segs.length = s.segs.length - trailingUnsent s.segs ∧
    trailingUnsent s.discardUnsent.segs = 0 := by
  have hle := tu_le s.segs
  have hsz := sizes_take_drop s.segs (s.segs.length - trailingUnsent s.segs)
  unfold Segments.discardUnsent
  dsimp only
  refine ⟨⟨?_, contig_take _ _ _ h.contig, ?_⟩, rfl, rfl, rfl, ?_, tu_take s.segs⟩
  · show s.lenBytes - _ = sizes _
    have hb := h.bytes
    show s.lenBytes - sizes (s.segs.drop (s.segs.length - trailingUnsent s.segs)) = sizes (s.segs.take (s.segs.length - trailingUnsent s.segs))
    omega
  · have hb := h.bytes
    have he := h.ending
    show s.offset - sizes (s.segs.drop (s.segs.length - trailingUnsent s.segs)) =
      s.removedOffset + (s.lenBytes - sizes (s.segs.drop (s.segs.length - trailingUnsent s.segs)))
    omega
  · simp only [List.length_take]; omega

theorem markSacked_sent (now : Nat) (l : List Segment) (bits : List Bool) (a : AckAcc) :
    (markSacked now l bits a).1.map (·.sent) = l.map (·.sent) := by
  induction l generalizing bits a with
  | nil => simp [markSacked]
  | cons seg rest ih =>
    cases bits with
    | nil => rfl
    | cons bit bits =>
      unfold markSacked
      split
      · dsimp only; simp only [List.map_cons, ih]
      · dsimp only; simp only [List.map_cons, ih]

theorem sackPhase_sent (now ackNr : Nat) (sack : Option Sack) (s1 : Segments) (a1 : AckAcc) :
    (sackPhase now ackNr sack s1 a1).1.segs.map (·.sent) = s1.segs.map (·.sent) := by
  unfold sackPhase
  cases s1.firstSeqNr with
  | none => rfl
  | some first =>
    cases sack with
    | none => rfl
    | some sk =>
      simp only
      split
      · dsimp only
        split
        · rw [List.map_append, markSacked_sent, ← List.map_append, List.take_append_drop]
        · exact markSacked_sent _ _ _ _
      · rfl

/-- `remove_up_to_ack` never changes the transmission status of a segment it keeps: the `sent` flags afterwards are
those of the old queue minus the removed prefix. -/
theorem removeUpToAck_sent (s : Segments) (now ackNr : Nat) (sack : Option Sack) (h : SInv s) (hu : s.sndUna < 65536)
    (s' : Segments) (r : OnAckResult) (hr : s.removeUpToAck now ackNr sack = some (s', r)) :
    s'.segs.map (·.sent) = (s.segs.map (·.sent)).drop (s.segs.length - s'.segs.length) ∧ s'.segs.length ≤ s.segs.length := by
  rw [removeUpToAck_eq] at hr
  have h0 : MidInv s ({} : AckAcc).payloadSize := ⟨h.bytes, by simpa using h.contig, by have := h.ending; simpa using this⟩
  have hp1 : ∃ s1 a1 k1, (if seqSub ackNr s.sndUna ≥ 0 then drainFront now (min ((seqSub ackNr s.sndUna).toNat + 1) s.segs.length) s {} else some (s, {})) = some (s1, a1) ∧
      MidInv s1 a1.payloadSize ∧ s1.segs = s.segs.drop k1 ∧ k1 ≤ s.segs.length ∧ s1.sndUna < 65536 := by
    split
    · obtain ⟨s1, a1, he, hm, hsg, _, _, _, hul, _⟩ :=
        drainFront_ok now (min ((seqSub ackNr s.sndUna).toNat + 1) s.segs.length) s {} h0 hu
      exact ⟨s1, a1, _, he, hm, hsg, Nat.min_le_right _ _, hul⟩
    · exact ⟨s, {}, 0, rfl, h0, by simp, by omega, hu⟩
  obtain ⟨s1, a1, k1, he1, hm1, hsg1, hk1, hul1⟩ := hp1
  rw [he1] at hr
  simp only at hr
  obtain ⟨hm2, hkey2, _, _, hun2, _⟩ := sackPhase_ok now ackNr sack s1 a1 hm1
  have hsent2 := sackPhase_sent now ackNr sack s1 a1
  generalize sackPhase now ackNr sack s1 a1 = r2 at *
  obtain ⟨s2, a2⟩ := r2
  simp only at hm2 hkey2 hun2 hsent2 hr
  obtain ⟨s3, a3, k3, he3, _, hsg3, hk3, _⟩ :=
    cleanupFront_ok (s2.segs.length + 1) s2 a2 hm2 (by rw [hun2]; exact hul1) (by omega)
  rw [he3] at hr
  simp only [Option.some.injEq, Prod.mk.injEq] at hr
  have hlen2 : s2.segs.length = s1.segs.length := by
    have := congrArg List.length hkey2; simpa using this
  rw [← hr.1]
  simp only
  have hl1 : s1.segs.length = s.segs.length - k1 := by rw [hsg1, List.length_drop]
  have hl3 : s3.segs.length = s.segs.length - k1 - k3 := by rw [hsg3, List.length_drop, hlen2, hl1]
  refine ⟨?_, by omega⟩
  rw [hsg3, List.map_drop, hsent2, hsg1, List.map_drop, List.drop_drop]
  congr 1
  rw [List.length_drop, hlen2, hl1]
  rw [hlen2, hl1] at hk3
  omega
end UtpVerif.Lemmas.Segments
