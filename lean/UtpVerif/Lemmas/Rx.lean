import UtpVerif.Model.Rx
/-! Structural invariant of the reassembly queue and helper lemmas (C04, C01, C10). -/
namespace UtpVerif.Lemmas.Rx
open UtpVerif.Model UtpVerif.Model.Ooq

def occupied (l : List OoqMsg) : Nat := (l.filter (fun m => !m.isDefault)).length
def bytesOf (l : List OoqMsg) : Nat := (l.map OoqMsg.lenBytes).sum

/-- Structural invariant of `OutOfOrderQueue`. -/
structure OoqInv (q : Ooq) : Prop where
  cap_pos : 0 < q.capacity
  data_len : q.data.length = q.capacity
  len_eq : q.len = occupied q.data
  bytes_eq : q.lenBytes = bytesOf q.data
  front_le : q.filledFront ≤ q.capacity
  front_full : ∀ k, k < q.filledFront → ∀ m, q.data[k]? = some m → m.isDefault = false
  hole : ∀ m, q.data[q.filledFront]? = some m → m.isDefault = true

theorem occupied_replicate (n : Nat) : occupied (List.replicate n OoqMsg.default) = 0 := by
  induction n with
  | zero => rfl
  | succ n ih => simp [List.replicate_succ, occupied, OoqMsg.default, OoqMsg.isDefault] at *

theorem bytesOf_replicate (n : Nat) : bytesOf (List.replicate n OoqMsg.default) = 0 := by
  induction n with
  | zero => rfl
  | succ n ih => simp [List.replicate_succ, bytesOf, OoqMsg.default, OoqMsg.lenBytes] at *

theorem new_inv (c : Nat) (h : 0 < c) : OoqInv (Ooq.new c) := by
  refine ⟨h, by simp [Ooq.new], by simp [Ooq.new, occupied_replicate], by simp [Ooq.new, bytesOf_replicate],
    by simp [Ooq.new], by simp [Ooq.new], ?_⟩
  intro m hm
  simp only [Ooq.new] at hm
  rw [List.getElem?_replicate] at hm
  split at hm
  · simp only [Option.some.injEq] at hm; subst hm; rfl
  · omega

theorem occupied_le_length (l : List OoqMsg) : occupied l ≤ l.length := by
  unfold occupied; exact List.length_filter_le _ _

theorem occupied_set_default (l : List OoqMsg) (i : Nat) (m old : OoqMsg) (hi : l[i]? = some old)
    (hold : old.isDefault = true) (hm : m.isDefault = false) : occupied (l.set i m) = occupied l + 1 := by
  induction l generalizing i with
  | nil => simp at hi
  | cons a t ih =>
    cases i with
    | zero =>
      simp only [List.getElem?_cons_zero, Option.some.injEq] at hi; subst hi
      simp [occupied, List.filter_cons, hold, hm]
    | succ i =>
      simp only [List.getElem?_cons_succ] at hi
      have := ih i hi
      unfold occupied at *
      rw [List.set_cons_succ, List.filter_cons, List.filter_cons]
      split <;> (try simp only [List.length_cons]) <;> omega

theorem bytesOf_set_default (l : List OoqMsg) (i : Nat) (m old : OoqMsg) (hi : l[i]? = some old)
    (hold : old.isDefault = true) : bytesOf (l.set i m) = bytesOf l + m.lenBytes := by
  have hz : old.lenBytes = 0 := by
    cases old with
    | payload b => simp [OoqMsg.isDefault] at hold; simp [OoqMsg.lenBytes, hold]
    | eof => simp [OoqMsg.isDefault] at hold
  induction l generalizing i with
  | nil => simp at hi
  | cons a t ih =>
    cases i with
    | zero =>
      simp only [List.getElem?_cons_zero, Option.some.injEq] at hi; subst hi
      simp [bytesOf, hz]; omega
    | succ i =>
      simp only [List.getElem?_cons_succ] at hi
      have := ih i hi
      simp only [bytesOf, List.set_cons_succ, List.map_cons, List.sum_cons] at *
      omega

/-- `contiguous l` counts exactly the leading non-default run. -/
theorem contiguous_spec (l : List OoqMsg) :
    (contiguous l).1 ≤ l.length ∧
    (∀ k, k < (contiguous l).1 → ∀ m, l[k]? = some m → m.isDefault = false) ∧
    (∀ m, l[(contiguous l).1]? = some m → m.isDefault = true) := by
  induction l with
  | nil => simp [contiguous]
  | cons a t ih =>
    simp only [contiguous]
    split
    · rename_i ha
      refine ⟨by simp, by intro k hk; omega, ?_⟩
      intro m hm; simp only [List.getElem?_cons_zero, Option.some.injEq] at hm; subst hm; exact ha
    · rename_i ha
      obtain ⟨h1, h2, h3⟩ := ih
      refine ⟨by simp only [List.length_cons]; omega, ?_, ?_⟩
      · intro k hk m hm
        cases k with
        | zero => simp only [List.getElem?_cons_zero, Option.some.injEq] at hm; subst hm; simpa using ha
        | succ k => simp only [List.getElem?_cons_succ] at hm; exact h2 k (by omega) m hm
      · intro m hm
        simp only [List.getElem?_cons_succ] at hm; exact h3 m hm

/-- What `classify = store` guarantees about the slot and the message. -/
theorem classify_store (q : Ooq) (ty : Nat) (payload : List Nat) (off eff : Nat) (msg : OoqMsg)
    (hc : q.classify ty payload off = .store eff msg) :
    eff = off + q.filledFront ∧ eff < q.data.length ∧ q.isFull = false ∧ msg.isDefault = false ∧
    (∃ old, q.data[eff]? = some old ∧ old.isDefault = true) ∧
    msg = (if ty = Gen.TYPE_ST_DATA then OoqMsg.payload payload else OoqMsg.eof) := by
  unfold Ooq.classify at hc
  split at hc
  · simp at hc
  · rename_i hfull
    split at hc
    · simp at hc
    · rename_i heff
      split at hc
      · simp at hc
      · rename_i hzero
        split at hc
        · simp at hc
        · split at hc
          · simp at hc
          · rename_i slot hslot
            split at hc
            · simp at hc
            · rename_i hdef
              simp only [Ooq.Verdict.store.injEq] at hc
              obtain ⟨rfl, rfl⟩ := hc
              refine ⟨rfl, by omega, by simpa using hfull, ?_, ⟨slot, hslot, by simpa using hdef⟩, rfl⟩
              by_cases hd : ty = Gen.TYPE_ST_DATA
              · simp only [hd, if_true, OoqMsg.isDefault]
                simp only [hd, true_and] at hzero
                simpa using hzero
              · simp only [hd, if_false, OoqMsg.isDefault]

theorem classify_never_missing_slot (q : Ooq) (ty : Nat) (payload : List Nat) (off : Nat) :
    q.classify ty payload off ≠ .bugMissingSlot := by
  unfold Ooq.classify
  repeat' split
  all_goals first | (simp; done) | skip
  rename_i heff _ _ _ hnone
  rw [List.getElem?_eq_none_iff] at hnone
  omega

/-- Storing into an empty slot keeps the structural invariant. -/
theorem store_inv (q : Ooq) (eff : Nat) (msg old : OoqMsg) (h : OoqInv q)
    (hge : q.filledFront ≤ eff) (hold : q.data[eff]? = some old) (holdd : old.isDefault = true)
    (hmsg : msg.isDefault = false) : OoqInv (q.store eff msg).1 := by
  unfold Ooq.store
  dsimp only
  have hspec := contiguous_spec ((q.data.set eff msg).drop q.filledFront)
  generalize contiguous ((q.data.set eff msg).drop q.filledFront) = c at *
  obtain ⟨c1, c2, c3⟩ := hspec
  simp only [List.length_drop, List.length_set] at c1
  refine ⟨h.cap_pos, by simp only [List.length_set]; exact h.data_len,
    by simp only; rw [occupied_set_default _ _ _ _ hold holdd hmsg, h.len_eq],
    by simp only; rw [bytesOf_set_default _ _ _ _ hold holdd, h.bytes_eq],
    by simp only; have := h.data_len; have := h.front_le; omega, ?_, ?_⟩
  · intro k hk m hm'
    simp only at hk hm'
    by_cases hkf : k < q.filledFront
    · rw [List.getElem?_set_ne (by omega)] at hm'
      exact h.front_full k hkf m hm'
    · have := c2 (k - q.filledFront) (by omega) m
      rw [List.getElem?_drop] at this
      have e : q.filledFront + (k - q.filledFront) = k := by omega
      rw [e] at this
      exact this hm'
  · intro m hm'
    simp only at hm'
    have := c3 m
    rw [List.getElem?_drop] at this
    exact this hm'

/-- `add_remove` keeps the structural invariant and can never report the internal
`BugAssemblerMissingSlot`. -/
theorem addRemove_inv (q : Ooq) (ty : Nat) (payload : List Nat) (off : Nat) (h : OoqInv q) :
    OoqInv (q.addRemove ty payload off).1 ∧ (q.addRemove ty payload off).2 ≠ .bugMissingSlot := by
  unfold Ooq.addRemove
  cases hc : q.classify ty payload off with
  | store eff msg =>
    obtain ⟨he, _, _, hmsg, ⟨old, hold, holdd⟩, _⟩ := classify_store q ty payload off eff msg hc
    exact ⟨store_inv q eff msg old h (by omega) hold holdd hmsg, by simp⟩
  | bugMissingSlot => exact absurd hc (classify_never_missing_slot q ty payload off)
  | _ => exact ⟨h, by simp⟩

/-- Handing the front slot to the application keeps the invariant; the message handed over is the
front slot, unchanged. -/
theorem sendFront_inv (q : Ooq) (win : Nat) (acc : Bool) (h : OoqInv q) :
    OoqInv (q.sendFrontIfFits win acc).1 ∧
    (∀ m, (q.sendFrontIfFits win acc).2 = some m →
      q.data.head? = some m ∧ m.isDefault = false ∧ m.lenBytes ≤ win ∧ acc = true ∧ 0 < q.filledFront ∧
      (q.sendFrontIfFits win acc).1.filledFront = q.filledFront - 1 ∧
      (q.sendFrontIfFits win acc).1.lenBytes = q.lenBytes - m.lenBytes ∧ m.lenBytes ≤ q.lenBytes ∧
      (q.sendFrontIfFits win acc).1.data = q.data.tail ++ [OoqMsg.default]) ∧
    ((q.sendFrontIfFits win acc).2 = none → (q.sendFrontIfFits win acc).1 = q) := by
  unfold Ooq.sendFrontIfFits
  split
  · exact ⟨h, by simp, by simp⟩
  · rename_i hff
    split
    · exact ⟨h, by simp, by simp⟩
    · rename_i m rest hdata
      split
      · exact ⟨h, by simp, by simp⟩
      · rename_i hwin
        split
        · exact ⟨h, by simp, by simp⟩
        · rename_i hacc
          have hm : m.isDefault = false := h.front_full 0 (by omega) m (by rw [hdata]; rfl)
          have hocc : occupied q.data = occupied rest + 1 := by
            rw [hdata]; simp [occupied, List.filter_cons, hm]
          have hby : bytesOf q.data = bytesOf rest + m.lenBytes := by
            rw [hdata]; simp [bytesOf]; omega
          have hlen := h.data_len
          rw [hdata] at hlen
          simp only [List.length_cons] at hlen
          refine ⟨⟨h.cap_pos, by simp; omega, ?_, ?_, by simp only; have := h.front_le; omega, ?_, ?_⟩, ?_, by simp⟩
          · simp only [h.len_eq, hocc]
            simp [occupied, List.filter_append, OoqMsg.default, OoqMsg.isDefault]
          · simp only [h.bytes_eq, hby]
            simp [bytesOf, OoqMsg.default, OoqMsg.lenBytes]
          · intro k hk m' hm'
            simp only at hk hm'
            have hfl := h.front_le
            rw [List.getElem?_append_left (by omega)] at hm'
            exact h.front_full (k + 1) (by omega) m' (by rw [hdata]; simpa using hm')
          · intro m' hm'
            simp only at hm'
            by_cases hlt : q.filledFront - 1 < rest.length
            · rw [List.getElem?_append_left hlt] at hm'
              exact h.hole m' (by rw [hdata]; have : q.filledFront = (q.filledFront - 1) + 1 := by omega
                                  rw [this]; simpa using hm')
            · rw [List.getElem?_append_right (by omega)] at hm'
              have : q.filledFront - 1 - rest.length = 0 := by have := h.front_le; omega
              rw [this] at hm'
              simp only [List.getElem?_cons_zero, Option.some.injEq] at hm'
              subst hm'; rfl
          · intro m' hm'
            simp only [Option.some.injEq] at hm'
            subst hm'
            refine ⟨by rw [hdata]; rfl, hm, by omega, by simpa using hacc, by omega, rfl, rfl, ?_, by rw [hdata]; rfl⟩
            rw [h.bytes_eq, hby]; omega

/-- Indices (counted from `k`) of the occupied slots of `l`, as `selective_ack` computes them. -/
def idxsOf (l : List OoqMsg) (k : Nat) : List Nat :=
  ((l.zipIdx k).filter (fun p => !p.1.isDefault)).map (·.2)

theorem mem_takeWhile_idxsOf (l : List OoqMsg) (k B i : Nat) :
    i ∈ (idxsOf l k).takeWhile (· < B) ↔
      k ≤ i ∧ i < B ∧ ∃ m, l[i - k]? = some m ∧ m.isDefault = false := by
  induction l generalizing k with
  | nil => simp [idxsOf]
  | cons a t ih =>
    have ih' := ih (k + 1)
    unfold idxsOf at ih' ⊢
    rw [List.zipIdx_cons, List.filter_cons]
    by_cases ha : a.isDefault = true
    · simp only [ha, Bool.not_true, Bool.false_eq_true, if_false]
      rw [ih']
      constructor
      · rintro ⟨h1, h2, m, hm, hd⟩
        refine ⟨by omega, h2, m, ?_, hd⟩
        have : i - k = (i - (k + 1)) + 1 := by omega
        rw [this, List.getElem?_cons_succ]; exact hm
      · rintro ⟨h1, h2, m, hm, hd⟩
        by_cases hik : i = k
        · subst hik; simp only [Nat.sub_self, List.getElem?_cons_zero, Option.some.injEq] at hm
          subst hm; rw [ha] at hd; simp at hd
        · refine ⟨by omega, h2, m, ?_, hd⟩
          have : i - k = (i - (k + 1)) + 1 := by omega
          rw [this, List.getElem?_cons_succ] at hm; exact hm
    · have ha' : a.isDefault = false := by simpa using ha
      simp only [ha', Bool.not_false, if_true, List.map_cons, List.takeWhile_cons]
      by_cases hkB : k < B
      · simp only [hkB, decide_true, if_true, List.mem_cons]
        rw [ih']
        constructor
        · rintro (rfl | ⟨h1, h2, m, hm, hd⟩)
          · exact ⟨Nat.le_refl _, hkB, a, by simp, ha'⟩
          · refine ⟨by omega, h2, m, ?_, hd⟩
            have : i - k = (i - (k + 1)) + 1 := by omega
            rw [this, List.getElem?_cons_succ]; exact hm
        · rintro ⟨h1, h2, m, hm, hd⟩
          by_cases hik : i = k
          · left; exact hik
          · right
            refine ⟨by omega, h2, m, ?_, hd⟩
            have : i - k = (i - (k + 1)) + 1 := by omega
            rw [this, List.getElem?_cons_succ] at hm; exact hm
      · simp only [hkB, decide_false, Bool.false_eq_true, if_false, List.not_mem_nil, false_iff]
        rintro ⟨h1, h2, _⟩; omega

end UtpVerif.Lemmas.Rx
