import UtpVerif.Model.Cubic
import Mathlib.Tactic.Linarith
import Mathlib.Tactic.Positivity
import Mathlib.Tactic.FieldSimp
import Mathlib.Data.Rat.Floor
/-!
# C15 — CUBIC congestion window stays sane and reacts to loss

The model (`Model/Cubic.lean`) computes over extended rationals with an explicit rounding operator
`rnd`.  Theorems here hold for **every** `rnd` satisfying `Rounding` (what IEEE-754 round-to-nearest
guarantees on the normal range: monotone, idempotent, exact on integers below 2^53) and for **every**
`cbrt` whatsoever, over every event sequence and every numeric argument.  Two clauses (slow-start growth,
MSS rescale) are equalities of byte counts that float rounding can move by one byte; they are proved
for exact arithmetic (`rnd = id`), and the one-byte deviation of the real code is the recorded finding D15.
-/
namespace UtpVerif.Props.C15
open UtpVerif.Model UtpVerif.Model.XR UtpVerif.Model.Cubic UtpVerif.Gen

/-- What the theorems need from floating-point rounding. -/
structure Rounding (rnd : Rat → Rat) : Prop where
  mono : ∀ {a b : Rat}, a ≤ b → rnd a ≤ rnd b
  idem : ∀ a : Rat, rnd (rnd a) = rnd a
  exactNat : ∀ n : Nat, n < 2 ^ 53 → rnd (n : Rat) = n

theorem rounding_id : Rounding id := ⟨fun h => h, fun _ => rfl, fun _ _ => rfl⟩

/-- The property text's numbers are the crate's numbers (regenerated constants). -/
theorem constants_pinned :
    BETA_CUBIC_NUM = 7 ∧ BETA_CUBIC_DEN = 10 ∧ CUBIC_C_NUM = 2 ∧ CUBIC_C_DEN = 5 ∧
    CUBIC_INITIAL_CWND = 2 ∧ CUBIC_RTO_CWND = 1 := by decide

namespace Rounding
variable {rnd : Rat → Rat} (R : Rounding rnd)
include R

theorem zero : rnd 0 = 0 := by simpa using R.exactNat 0 (by norm_num)
theorem one : rnd 1 = 1 := by simpa using R.exactNat 1 (by norm_num)
theorem two : rnd 2 = 2 := by simpa using R.exactNat 2 (by norm_num)
theorem nonneg {a : Rat} (h : 0 ≤ a) : 0 ≤ rnd a := by simpa [R.zero] using R.mono h
theorem beta_le_one : rnd ((BETA_CUBIC_NUM : Rat) / BETA_CUBIC_DEN) ≤ 1 := by
  have : ((BETA_CUBIC_NUM : Rat) / BETA_CUBIC_DEN) ≤ 1 := by
    simp only [BETA_CUBIC_NUM, BETA_CUBIC_DEN]; norm_num
  simpa [R.one] using R.mono this
theorem beta_nonneg : 0 ≤ rnd ((BETA_CUBIC_NUM : Rat) / BETA_CUBIC_DEN) :=
  R.nonneg (by simp only [BETA_CUBIC_NUM, BETA_CUBIC_DEN]; norm_num)
end Rounding

/-! ### `as usize` -/

theorem floor_eq (q : Rat) : q.floor = ⌊q⌋ := rfl

theorem toUsize_fin_mono {a b : Rat} (h : a ≤ b) : toUsize (.fin a) ≤ toUsize (.fin b) := by
  simp only [toUsize]
  by_cases ha : a < 0
  · simp [ha]
  · have hb : ¬ b < 0 := by intro hb; exact ha (lt_of_le_of_lt h hb)
    simp only [ha, hb, if_false]
    have : a.floor.toNat ≤ b.floor.toNat := Int.toNat_le_toNat (Rat.floor_monotone h)
    exact min_le_min this (le_refl _)

theorem toUsize_fin_nat (n : Nat) (h : n ≤ U64MAX) : toUsize (.fin (n : Rat)) = n := by
  have h0 : ¬ ((n : Rat) < 0) := not_lt.mpr (by positivity)
  simp only [toUsize, h0, if_false]
  have : (n : Rat).floor = (n : Int) := by
    have := Rat.floor_intCast (n : Int)
    simpa using this
  rw [this]
  simpa using h

theorem toUsize_fin_add_nat {a : Rat} (ha : 0 ≤ a) (n : Nat) :
    toUsize (.fin (a + n)) ≤ toUsize (.fin a) + n := by
  have h0 : ¬ (a < 0) := not_lt.mpr ha
  have h1 : ¬ (a + n < 0) := not_lt.mpr (by positivity)
  simp only [toUsize, h0, h1, if_false]
  have hf : (a + (n : Rat)).floor = a.floor + n := by
    rw [floor_eq, floor_eq]; exact Int.floor_add_natCast a n
  have hnn : 0 ≤ a.floor := by rw [floor_eq]; exact Int.floor_nonneg.mpr ha
  rw [hf]
  have : (a.floor + (n : Int)).toNat = a.floor.toNat + n := by omega
  rw [this]
  simp only [Nat.min_def]
  split <;> split <;> omega

/-! ### `f64::max(_, 2.)` -/

theorem max_two_cases (x : XR) : XR.max x Cubic.two = .pinf ∨ ∃ q, XR.max x Cubic.two = .fin q ∧ 2 ≤ q := by
  cases x with
  | nan => right; exact ⟨2, by simp [XR.max, Cubic.two], le_refl _⟩
  | pinf => left; simp [XR.max, Cubic.two, XR.lt]
  | ninf => right; exact ⟨2, by simp [XR.max, Cubic.two, XR.lt], le_refl _⟩
  | fin q =>
    right
    by_cases h : q < 2
    · exact ⟨2, by simp [XR.max, Cubic.two, XR.lt, h], le_refl _⟩
    · exact ⟨q, by simp [XR.max, Cubic.two, XR.lt, h], not_lt.mp h⟩

theorem max_fin_two (q : Rat) : XR.max (.fin q) Cubic.two = .fin (max q 2) := by
  by_cases h : q < 2
  · simp [XR.max, Cubic.two, XR.lt, h, max_eq_right (le_of_lt h)]
  · simp [XR.max, Cubic.two, XR.lt, h, max_eq_left (not_lt.mp h)]

/-! ### Clause 1: the window is between min(2·MSS, peer window) and the peer window — in every state -/

theorem mssF_eq {e : FEnv} (R : Rounding e.rnd) (c : Cubic) (h : c.mss < 2 ^ 53) : c.mssF e = .fin (c.mss : Rat) := by
  simp [Cubic.mssF, XR.ofNat, R.exactNat _ h]

theorem two_mss_le_unclamped {e : FEnv} (R : Rounding e.rnd) (c : Cubic) (hm : 0 < c.mss) (hb : 2 * c.mss < 2 ^ 53) :
    2 * c.mss ≤ toUsize (XR.mul e.rnd (XR.max c.cwnd Cubic.two) (c.mssF e)) := by
  have hu : 2 * c.mss ≤ U64MAX := by simp only [U64MAX]; omega
  rw [mssF_eq R c (by omega)]
  have hmq : (0 : Rat) < c.mss := by exact_mod_cast hm
  rcases max_two_cases c.cwnd with h | ⟨q, h, hq⟩
  · rw [h]; simp [XR.mul, hmq, toUsize]; exact hu
  · rw [h]
    simp only [XR.mul]
    have h1 : ((2 * c.mss : Nat) : Rat) ≤ e.rnd (q * c.mss) := by
      have : ((2 * c.mss : Nat) : Rat) ≤ q * c.mss := by push_cast; nlinarith
      have := R.mono this
      rwa [R.exactNat _ hb] at this
    calc 2 * c.mss = toUsize (.fin ((2 * c.mss : Nat) : Rat)) := (toUsize_fin_nat _ hu).symm
      _ ≤ _ := toUsize_fin_mono h1

/-- **The window is at least two segments (or the peer window if smaller) and at most the peer window**,
whatever the internal state is (including NaN or infinite `cwnd`). -/
theorem window_bounds {e : FEnv} (R : Rounding e.rnd) (c : Cubic) (hm : 0 < c.mss) (hb : 2 * c.mss < 2 ^ 53) :
    min (2 * c.mss) c.rwndBytes ≤ c.window e ∧ c.window e ≤ c.rwndBytes := by
  have h := two_mss_le_unclamped R c hm hb
  unfold Cubic.window
  constructor
  · exact min_le_min h (le_refl _)
  · exact Nat.min_le_right _ _

/-! ### Clause 2: loss reactions -/

theorem window_onRto {e : FEnv} (R : Rounding e.rnd) (c : Cubic) (hb : 2 * c.mss < 2 ^ 53) :
    (c.onRto e).window e = min (2 * c.mss) c.rwndBytes := by
  have hu : 2 * c.mss ≤ U64MAX := by simp only [U64MAX]; omega
  have hm : (c.onRto e).mssF e = .fin (c.mss : Rat) := by
    simp [Cubic.mssF, Cubic.onRto, XR.ofNat, R.exactNat c.mss (by omega)]
  unfold Cubic.window
  rw [hm]
  have : XR.max (c.onRto e).cwnd Cubic.two = .fin 2 := by
    simp [Cubic.onRto, CUBIC_RTO_CWND, XR.max, Cubic.two, XR.lt]
  rw [this]
  simp only [XR.mul]
  have h2 : e.rnd (2 * (c.mss : Rat)) = ((2 * c.mss : Nat) : Rat) := by
    have := R.exactNat _ hb
    push_cast at this ⊢
    exact this
  rw [h2, toUsize_fin_nat _ hu]
  simp [Cubic.onRto]

/-- **A retransmission timeout never increases the window.** -/
theorem rto_never_increases_window {e : FEnv} (R : Rounding e.rnd) (c : Cubic) (hm : 0 < c.mss) (hb : 2 * c.mss < 2 ^ 53) :
    (c.onRto e).window e ≤ c.window e := by
  rw [window_onRto R c hb]; exact (window_bounds R c hm hb).1

/-- **…and sets the slow-start threshold to 0.7 of the previous window, at least two segments.** -/
theorem rto_ssthresh {e : FEnv} (c : Cubic) (q : Rat) (hq : c.cwnd = .fin q) :
    (c.onRto e).ssthresh = .fin (max (e.rnd (q * e.rnd ((7 : Rat) / 10))) 2) := by
  simp only [Cubic.onRto, hq, Cubic.beta, XR.mul, max_fin_two, BETA_CUBIC_NUM, BETA_CUBIC_DEN]
  norm_num

theorem enter_cwnd {e : FEnv} (c : Cubic) (q : Rat) (hq : c.cwnd = .fin q) (now : Nat) :
    (c.onEnterRecovery e now).cwnd = .fin (e.rnd (q * e.rnd ((7 : Rat) / 10))) := by
  simp only [Cubic.onEnterRecovery, hq, Cubic.beta, XR.mul, BETA_CUBIC_NUM, BETA_CUBIC_DEN]
  norm_num

/-- **Entering fast recovery sets the threshold to 0.7 of the previous window, at least two segments**
(and the window itself to 0.7 of it). -/
theorem enter_ssthresh {e : FEnv} (c : Cubic) (q : Rat) (hq : c.cwnd = .fin q) (now : Nat) :
    (c.onEnterRecovery e now).ssthresh = .fin (max (e.rnd (q * e.rnd ((7 : Rat) / 10))) 2) := by
  simp only [Cubic.onEnterRecovery, hq, Cubic.beta, XR.mul, max_fin_two, BETA_CUBIC_NUM, BETA_CUBIC_DEN]
  norm_num

/-- **Entering fast recovery never increases the window** (for a finite, non-negative, representable `cwnd`:
every reachable state, see `reachable_inv`). -/
theorem enter_never_increases_window {e : FEnv} (R : Rounding e.rnd) (c : Cubic) (q : Rat)
    (hq : c.cwnd = .fin q) (h0 : 0 ≤ q) (hr : e.rnd q = q) (hb : c.mss < 2 ^ 53) (now : Nat) :
    (c.onEnterRecovery e now).window e ≤ c.window e := by
  have hc := enter_cwnd (e := e) c q hq now
  have hle : e.rnd (q * e.rnd ((7 : Rat) / 10)) ≤ q := by
    have hb1 : e.rnd ((7 : Rat) / 10) ≤ 1 := by
      have := R.beta_le_one; simpa [BETA_CUBIC_NUM, BETA_CUBIC_DEN] using this
    have : q * e.rnd ((7 : Rat) / 10) ≤ q := by nlinarith
    have := R.mono this
    rwa [hr] at this
  have hm : (c.onEnterRecovery e now).mssF e = .fin (c.mss : Rat) := by
    simp [Cubic.mssF, Cubic.onEnterRecovery, XR.ofNat, R.exactNat c.mss hb]
  have hm' : c.mssF e = .fin (c.mss : Rat) := mssF_eq R c hb
  have hrb : (c.onEnterRecovery e now).rwndBytes = c.rwndBytes := by simp [Cubic.onEnterRecovery]
  unfold Cubic.window
  rw [hm, hm', hc, hq, hrb, max_fin_two, max_fin_two]
  simp only [XR.mul]
  apply min_le_min _ (le_refl _)
  apply toUsize_fin_mono
  apply R.mono
  have : max (e.rnd (q * e.rnd ((7 : Rat) / 10))) 2 ≤ max q 2 := max_le_max hle (le_refl _)
  have hmss : (0 : Rat) ≤ c.mss := by positivity
  exact mul_le_mul_of_nonneg_right this hmss

/-! ### The window is always a finite number: an invariant of every event sequence -/

/-- finite, non-negative, representable -/
def Rep (rnd : Rat → Rat) (x : XR) : Prop := ∃ q, x = .fin q ∧ 0 ≤ q ∧ rnd q = q

/-- if finite then representable (what every arithmetic result satisfies) -/
def Outp (rnd : Rat → Rat) (x : XR) : Prop := ∀ q, x = .fin q → rnd q = q

structure Inv (e : FEnv) (c : Cubic) : Prop where
  cwnd : Rep e.rnd c.cwnd
  rwnd : Rep e.rnd c.rwnd
  mssPos : 0 < c.mss
  mssSmall : c.mss < 2 ^ 53

section
variable {rnd : Rat → Rat} (R : Rounding rnd)
include R

theorem add_outp (a b : XR) : Outp rnd (XR.add rnd a b) := by
  intro q h
  cases a <;> cases b <;> simp [XR.add] at h
  subst h; exact R.idem _

theorem mul_outp (a b : XR) : Outp rnd (XR.mul rnd a b) := by
  intro q h
  cases a <;> cases b <;> simp only [XR.mul] at h
  all_goals first
    | (injection h with h; subst h; exact R.idem _)
    | (split at h <;> first | cases h | (split at h <;> cases h))
    | cases h

theorem div_outp (a b : XR) : Outp rnd (XR.div rnd a b) := by
  intro q h
  cases a <;> cases b <;> simp only [XR.div] at h
  all_goals first
    | (injection h with h; subst h; exact R.zero)
    | (split at h
       · split at h <;> first | cases h | (split at h <;> cases h)
       · injection h with h; subst h; exact R.idem _)
    | (split at h <;> cases h)
    | cases h

/-- `x.min(rwnd).max(2.)` with a finite representable `rwnd` is finite, at least 2 and representable,
whatever `x` is (NaN and the infinities included). -/
theorem clamp_rep (x : XR) (hx : Outp rnd x) (r : Rat) (hr : rnd r = r) :
    ∃ q, XR.max (XR.min x (.fin r)) Cubic.two = .fin q ∧ 2 ≤ q ∧ rnd q = q := by
  have key : ∀ y : Rat, rnd y = y → ∃ q, XR.max (.fin y) Cubic.two = .fin q ∧ 2 ≤ q ∧ rnd q = q := by
    intro y hy
    rw [max_fin_two]
    refine ⟨max y 2, rfl, le_max_right _ _, ?_⟩
    rcases max_cases y 2 with ⟨h, _⟩ | ⟨h, _⟩ <;> rw [h]
    · exact hy
    · exact R.two
  cases x with
  | nan => simpa [XR.min] using key r hr
  | pinf => simpa [XR.min, XR.lt] using key r hr
  | ninf =>
    refine ⟨2, by simp [XR.min, XR.lt, XR.max, Cubic.two], le_refl _, R.two⟩
  | fin y =>
    by_cases h : r < y
    · simpa [XR.min, XR.lt, h] using key r hr
    · simpa [XR.min, XR.lt, h] using key y (hx y rfl)
end

inductive Ev where
  | ack (now len rttNs : Nat)
  | rto
  | enter (now : Nat)
  | recovered (cwndBytes ssthresh : Nat)
  | setMss (m : Nat)
  | setRwnd (win : Nat)
deriving Repr

/-- The only argument restriction: an MSS is positive (and below 2^53). -/
def Ev.ok : Ev → Prop
  | .setMss m => 0 < m ∧ m < 2 ^ 53
  | _ => True

def step (e : FEnv) (c : Cubic) : Ev → Cubic
  | .ack now len rtt => c.onAck e now len rtt
  | .rto => c.onRto e
  | .enter now => c.onEnterRecovery e now
  | .recovered cw ss => c.onRecovered e cw ss
  | .setMss m => c.setMss e m
  | .setRwnd w => c.setRemoteWindow e w

def run (e : FEnv) (c : Cubic) (evs : List Ev) : Cubic := evs.foldl (step e) c

theorem new_inv (e : FEnv) (R : Rounding e.rnd) (now mss : Nat) (h0 : 0 < mss) (h1 : mss < 2 ^ 53) :
    Inv e (Cubic.new now mss) :=
  ⟨⟨2, by simp [Cubic.new, CUBIC_INITIAL_CWND], by norm_num, R.two⟩, ⟨0, rfl, le_refl _, R.zero⟩, h0, h1⟩

theorem step_inv (e : FEnv) (R : Rounding e.rnd) (c : Cubic) (ev : Ev) (hok : ev.ok) (h : Inv e c) :
    Inv e (step e c ev) := by
  obtain ⟨⟨q, hq, hq0, hqr⟩, ⟨r, hr, hr0, hrr⟩, hmp, hms⟩ := h
  have hmss : c.mssF e = .fin (c.mss : Rat) := mssF_eq R c hms
  have hmq : (c.mss : Rat) ≠ 0 := by exact_mod_cast (Nat.pos_iff_ne_zero.mp hmp)
  cases ev with
  | ack now len rtt =>
    simp only [step, Cubic.onAck, Cubic.onAckWith]
    split
    · exact ⟨⟨q, hq, hq0, hqr⟩, ⟨r, hr, hr0, hrr⟩, hmp, hms⟩
    split
    · exact ⟨⟨q, hq, hq0, hqr⟩, ⟨r, hr, hr0, hrr⟩, hmp, hms⟩
    refine ⟨?_, ⟨r, hr, hr0, hrr⟩, hmp, hms⟩
    simp only [hr]
    have : ∀ x, Outp e.rnd x → Rep e.rnd (XR.max (XR.min x (.fin r)) Cubic.two) := by
      intro x hx
      obtain ⟨y, hy, hy2, hyr⟩ := clamp_rep R x hx r hrr
      exact ⟨y, hy, by linarith, hyr⟩
    apply this
    split
    · exact add_outp R _ _
    · split
      · unfold Cubic.wEst; exact add_outp R _ _
      · exact add_outp R _ _
  | rto =>
    exact ⟨⟨1, by simp [step, Cubic.onRto, CUBIC_RTO_CWND], by norm_num, R.one⟩, ⟨r, by simpa [step, Cubic.onRto] using hr, hr0, hrr⟩,
      by simpa [step, Cubic.onRto] using hmp, by simpa [step, Cubic.onRto] using hms⟩
  | enter now =>
    refine ⟨⟨_, enter_cwnd c q hq now, R.nonneg (mul_nonneg hq0 ?_), R.idem _⟩,
      ⟨r, by simpa [step, Cubic.onEnterRecovery] using hr, hr0, hrr⟩,
      by simpa [step, Cubic.onEnterRecovery] using hmp, by simpa [step, Cubic.onEnterRecovery] using hms⟩
    have := R.beta_nonneg; simpa [BETA_CUBIC_NUM, BETA_CUBIC_DEN] using this
  | recovered cw ss =>
    refine ⟨?_, ⟨r, by simpa [step, Cubic.onRecovered] using hr, hr0, hrr⟩,
      by simpa [step, Cubic.onRecovered] using hmp, by simpa [step, Cubic.onRecovered] using hms⟩
    simp only [step, Cubic.onRecovered, hr]
    obtain ⟨y, hy, hy2, hyr⟩ := clamp_rep R _ (div_outp R (XR.ofNat e.rnd cw) (c.mssF e)) r hrr
    exact ⟨y, hy, by linarith, hyr⟩
  | setMss m =>
    obtain ⟨hm0, hm1⟩ := hok
    simp only [step, Cubic.setMss]
    split
    · exact ⟨⟨q, hq, hq0, hqr⟩, ⟨r, hr, hr0, hrr⟩, hmp, hms⟩
    · have hmq' : (m : Rat) ≠ 0 := by exact_mod_cast (Nat.pos_iff_ne_zero.mp hm0)
      refine ⟨?_, ⟨r, hr, hr0, hrr⟩, hm0, hm1⟩
      simp only [hq, hmss, XR.ofNat, R.exactNat m hm1, XR.div, hmq', if_false, XR.mul]
      refine ⟨_, rfl, R.nonneg (mul_nonneg hq0 (R.nonneg ?_)), R.idem _⟩
      positivity
  | setRwnd w =>
    refine ⟨⟨q, by simpa [step, Cubic.setRemoteWindow] using hq, hq0, hqr⟩, ?_,
      by simpa [step, Cubic.setRemoteWindow] using hmp, by simpa [step, Cubic.setRemoteWindow] using hms⟩
    simp only [step, Cubic.setRemoteWindow, hmss, XR.ofNat, XR.div, hmq, if_false]
    refine ⟨_, rfl, R.nonneg (div_nonneg (R.nonneg ?_) ?_), R.idem _⟩ <;> positivity

/-- **For every sequence of acknowledgements, timeouts, recovery episodes, MSS changes and peer-window
updates** (any numeric arguments: zero/huge RTT, zero-length ACKs, zero or tiny peer windows) the
congestion window is a finite non-negative number and the peer window is too. -/
theorem reachable_inv (e : FEnv) (R : Rounding e.rnd) (now mss : Nat) (h0 : 0 < mss) (h1 : mss < 2 ^ 53)
    (evs : List Ev) (hok : ∀ ev ∈ evs, ev.ok) : Inv e (run e (Cubic.new now mss) evs) := by
  suffices ∀ c, Inv e c → Inv e (run e c evs) from this _ (new_inv e R now mss h0 h1)
  induction evs with
  | nil => intro c h; exact h
  | cons ev evs ih =>
    intro c h
    exact ih (fun x hx => hok x (List.mem_cons_of_mem _ hx)) _ (step_inv e R c ev (hok ev List.mem_cons_self) h)

/-- The headline: after any event sequence, `window()` is between min(2·MSS, peer window) and the peer
window, and the internal `cwnd` is finite. -/
theorem window_always_sane (e : FEnv) (R : Rounding e.rnd) (now mss : Nat) (h0 : 0 < mss) (h1 : mss < 2 ^ 53)
    (evs : List Ev) (hok : ∀ ev ∈ evs, ev.ok) :
    let c := run e (Cubic.new now mss) evs
    (∃ q, c.cwnd = .fin q ∧ 0 ≤ q) ∧ (2 * c.mss < 2 ^ 53 → min (2 * c.mss) c.rwndBytes ≤ c.window e) ∧ c.window e ≤ c.rwndBytes := by
  intro c
  have hi := reachable_inv e R now mss h0 h1 evs hok
  obtain ⟨q, hq, hq0, _⟩ := hi.cwnd
  refine ⟨⟨q, hq, hq0⟩, fun hb => (window_bounds R c hi.mssPos hb).1, ?_⟩
  unfold Cubic.window; exact Nat.min_le_right _ _

/-- Loss reactions over reachable states: neither a timeout nor entering recovery increases the window. -/
theorem loss_never_increases_window (e : FEnv) (R : Rounding e.rnd) (now mss : Nat) (h0 : 0 < mss) (h1 : mss < 2 ^ 53)
    (evs : List Ev) (hok : ∀ ev ∈ evs, ev.ok) (t : Nat) :
    let c := run e (Cubic.new now mss) evs
    2 * c.mss < 2 ^ 53 →
    (c.onRto e).window e ≤ c.window e ∧ (c.onEnterRecovery e t).window e ≤ c.window e := by
  intro c hb
  have hi := reachable_inv e R now mss h0 h1 evs hok
  obtain ⟨q, hq, hq0, hqr⟩ := hi.cwnd
  exact ⟨rto_never_increases_window R c hi.mssPos hb, enter_never_increases_window R c q hq hq0 hqr hi.mssSmall t⟩

/-! ### Zero-length and window-limited ACKs change nothing -/

theorem zero_len_ack_noop (e : FEnv) (c : Cubic) (now rtt : Nat) : c.onAck e now 0 rtt = c := by
  simp [Cubic.onAck, Cubic.onAckWith]

/-! ### Clause 3: slow-start growth (exact arithmetic) -/

def exact (cb : Rat → Rat) : FEnv := { rnd := id, cbrt := cb }

/-- **In slow start one acknowledgement grows the window by at most the bytes it acknowledged** —
in exact arithmetic.  With f64 rounding the real code can exceed this by one byte (finding D15). -/
theorem slow_start_growth_exact (cb : Rat → Rat) (c : Cubic) (q r : Rat) (hq : c.cwnd = .fin q) (hq0 : 0 ≤ q)
    (hr : c.rwnd = .fin r) (hm : 0 < c.mss) (_hss : XR.lt c.cwnd c.ssthresh = true) (now len rtt : Nat) :
    (c.onAck (exact cb) now len rtt).window (exact cb) ≤ c.window (exact cb) + len := by
  have hmq : (c.mss : Rat) ≠ 0 := by exact_mod_cast (Nat.pos_iff_ne_zero.mp hm)
  have hmp : (0 : Rat) < c.mss := by exact_mod_cast hm
  simp only [Cubic.onAck, Cubic.onAckWith]
  split
  · omega
  split
  · omega
  simp only [hq, hr, exact, Cubic.mssF, XR.ofNat, id, XR.div, hmq, if_false, XR.add, Cubic.window]
  -- cwnd' = max (min (q + len/mss) r) 2
  have hcl : ∃ y, XR.max (XR.min (.fin (q + (len : Rat) / c.mss)) (.fin r)) Cubic.two = .fin y ∧ y ≤ max (q + (len : Rat) / c.mss) 2 := by
    by_cases h : r < q + (len : Rat) / c.mss
    · refine ⟨max r 2, by simp [XR.min, XR.lt, h, max_fin_two], max_le_max (le_of_lt h) (le_refl _)⟩
    · refine ⟨max (q + (len : Rat) / c.mss) 2, by simp [XR.min, XR.lt, h, max_fin_two], le_refl _⟩
  obtain ⟨y, hy, hyle⟩ := hcl
  rw [hy, max_fin_two, max_fin_two]
  simp only [XR.mul, id]
  have h1 : max y 2 * (c.mss : Rat) ≤ max q 2 * c.mss + len := by
    have : max y 2 ≤ max q 2 + (len : Rat) / c.mss := by
      have hl : (0 : Rat) ≤ (len : Rat) / c.mss := by positivity
      apply max_le (le_trans hyle (max_le (by linarith [le_max_left q 2]) (by linarith [le_max_right q 2])))
      linarith [le_max_right q 2]
    calc max y 2 * (c.mss : Rat) ≤ (max q 2 + (len : Rat) / c.mss) * c.mss := mul_le_mul_of_nonneg_right this (le_of_lt hmp)
      _ = max q 2 * c.mss + len := by field_simp
  have h2 : toUsize (.fin (max y 2 * (c.mss : Rat))) ≤ toUsize (.fin (max q 2 * c.mss)) + len :=
    le_trans (toUsize_fin_mono h1) (toUsize_fin_add_nat (by positivity) len)
  simp only [Nat.min_def]
  split <;> split <;> omega

/-! ### Clause 4: an MSS change rescales the window (exact arithmetic) -/

/-- **Changing the MSS keeps the window's byte value once the peer window is re-applied** (above the
two-segment floor of the new MSS) — in exact arithmetic; with f64 rounding the byte value may move by
one (checked with that tolerance on the implementation by the `cubic_sanity` oracle). -/
theorem mss_change_rescales_exact (cb : Rat → Rat) (c : Cubic) (q : Rat) (hq : c.cwnd = .fin q) (hq2 : 2 ≤ q)
    (hm : 0 < c.mss) (m : Nat) (hm' : 0 < m) (hfloor : (2 * m : Rat) ≤ q * c.mss) :
    ((c.setMss (exact cb) m).setRemoteWindow (exact cb) c.rwndBytes).window (exact cb) = c.window (exact cb) := by
  have hmq : (c.mss : Rat) ≠ 0 := by exact_mod_cast (Nat.pos_iff_ne_zero.mp hm)
  have hmq' : (m : Rat) ≠ 0 := by exact_mod_cast (Nat.pos_iff_ne_zero.mp hm')
  have hmp' : (0 : Rat) < m := by exact_mod_cast hm'
  by_cases heq : c.mss = m
  · simp [Cubic.setMss, heq, Cubic.setRemoteWindow, Cubic.window, Cubic.mssF]
  · simp only [Cubic.setMss, heq, if_false, Cubic.setRemoteWindow, Cubic.window, Cubic.mssF, XR.ofNat, exact, id, hq,
      XR.div, hmq', XR.mul, max_fin_two]
    have h2 : (2 : Rat) ≤ q * ((c.mss : Rat) / m) := by
      rw [mul_div_assoc', le_div_iff₀ hmp']; linarith
    rw [max_eq_left h2, max_eq_left hq2]
    congr 2
    field_simp

/-! ### Non-vacuity -/

example : Inv (exact id) (Cubic.new 0 1400) := new_inv _ rounding_id 0 1400 (by norm_num) (by norm_num)

example : (run (exact id) (Cubic.new 0 1400) [.setRwnd 100000, .ack 5 1400 50]).window (exact id) = 4200 := by
  decide +kernel

/-! ### Known finding D15: with binary64 rounding the slow-start clause is FALSE (by one byte)

Negation witness, evaluated by the kernel with the executable round-to-nearest-even `rnd53`: MSS 1432, peer
window 1 MiB; an ACK of 1 byte leaves `window()` at 2864, the next ACK of 1432 bytes takes it to 4297:
growth 1433 > 1432. The same four operations are replayed on the implementation on every run
(`corpus/cubic/known_d15_slow_start_rounding.ops`). -/

def d15Before : Cubic := run fenv53 (Cubic.new 0 1432) [.setRwnd 1048576, .ack 0 1 50000000]

theorem d15_slow_start_exceeds_by_one_byte :
    d15Before.window fenv53 = 2864 ∧ XR.lt d15Before.cwnd d15Before.ssthresh = true ∧
    (d15Before.onAck fenv53 0 1432 50000000).window fenv53 = 2864 + 1432 + 1 := by
  decide +kernel

end UtpVerif.Props.C15
