import UtpVerif.Model.Cubic
import Mathlib.Tactic.Linarith
import Mathlib.Tactic.Positivity
import Mathlib.Tactic.FieldSimp
import Mathlib.Data.Rat.Floor
/-!
# C15 — CUBIC congestion window stays sane and reacts to loss

The model (`Model/Cubic.lean`) computes over extended rationals with an explicit rounding operator
`rnd`.  Theorems here hold for **every** `rnd` satisfying `Rounding` (what IEEE-754 round-to-nearest
guarantees on the normal range: monotone, idempotent, exact on integers below 2^53) and for **every**
`cbrt` whatsoever, over every event sequence and every numeric argument.  Two clauses (slow-start growth,
MSS rescale) are equalities of byte counts that float rounding can move by one byte; they are proved
for exact arithmetic (`rnd = id`), and the one-byte deviation of the real code is the recorded finding D15.
-/
namespace UtpVerif.Props.C15
open UtpVerif.Model UtpVerif.Model.XR UtpVerif.Model.Cubic UtpVerif.Gen

/-- What the theorems need from floating-point rounding. -/
structure Rounding (rnd : Rat → Rat) : Prop where
  mono : ∀ {a b : Rat}, a ≤ b → rnd a ≤ rnd b
  idem : ∀ a : Rat, rnd (rnd a) = rnd a
  exactNat : ∀ n : Nat, n < 2 ^ 53 → rnd (n : Rat) = n

theorem rounding_id : Rounding id := ⟨fun h => h, fun _ => rfl, fun _ _ => rfl⟩

/-- The property text's numbers are the crate's numbers (regenerated constants). -/
theorem constants_pinned :
    BETA_CUBIC_NUM = 7 ∧ BETA_CUBIC_DEN = 10 ∧ CUBIC_C_NUM = 2 ∧ CUBIC_C_DEN = 5 ∧
    CUBIC_INITIAL_CWND = 2 ∧ CUBIC_RTO_CWND = 1 := by decide

namespace Rounding
variable {rnd : Rat → Rat} (R : Rounding rnd)
include R

theorem zero : rnd 0 = 0 := by simpa using R.exactNat 0 (by norm_num)
theorem one : rnd 1 = 1 := by simpa using R.exactNat 1 (by norm_num)
theorem two : rnd 2 = 2 := by simpa using R.exactNat 2 (by norm_num)
theorem nonneg {a : Rat} (h : 0 ≤ a) : 0 ≤ rnd a := by simpa [R.zero] using R.mono h
theorem beta_le_one : rnd ((BETA_CUBIC_NUM : Rat) / BETA_CUBIC_DEN) ≤ 1 := by
  have : ((BETA_CUBIC_NUM : Rat) / BETA_CUBIC_DEN) ≤ 1 := by
    simp only [BETA_CUBIC_NUM, BETA_CUBIC_DEN]; norm_num
  simpa [R.one] using R.mono this
theorem beta_nonneg : 0 ≤ rnd ((BETA_CUBIC_NUM : Rat) / BETA_CUBIC_DEN) :=
  R.nonneg (by simp only [BETA_CUBIC_NUM, BETA_CUBIC_DEN]; norm_num)
end Rounding

/-! ### `as usize` -/

theorem floor_eq (q : Rat) : q.floor = ⌊q⌋ := rfl

theorem toUsize_fin_mono {a b : Rat} (h : a ≤ b) : toUsize (.fin a) ≤ toUsize (.fin b) := by
  simp only [toUsize]
  by_cases ha : a < 0
  · simp [ha]
  · have hb : ¬ b < 0 := by intro hb; exact ha (lt_of_le_of_lt h hb)
    simp only [ha, hb, if_false]
    have : a.floor.toNat ≤ b.floor.toNat := Int.toNat_le_toNat (Rat.floor_monotone h)
    exact min_le_min this (le_refl _)

theorem toUsize_fin_nat (n : Nat) (h : n ≤ U64MAX) : toUsize (.fin (n : Rat)) = n := by
  have h0 : ¬ ((n : Rat) < 0) := not_lt.mpr (by positivity)
  simp only [toUsize, h0, if_false]
  have : (n : Rat).floor = (n : Int) := by
    have := Rat.floor_intCast (n : Int)
    simpa using this
  rw [this]
  simpa using h

theorem toUsize_fin_add_nat {a : Rat} (ha : 0 ≤ a) (n : Nat) :
    toUsize (.fin (a + n)) ≤ toUsize (.fin a) + n := by
  have h0 : ¬ (a < 0) := not_lt.mpr ha
  have h1 : ¬ (a + n < 0) := not_lt.mpr (by positivity)
  simp only [toUsize, h0, h1, if_false]
  have hf : (a + (n : Rat)).floor = a.floor + n := by
    rw [floor_eq, floor_eq]; exact Int.floor_add_natCast a n
  have hnn : 0 ≤ a.floor := by rw [floor_eq]; exact Int.floor_nonneg.mpr ha
  rw [hf]
  have : (a.floor + (n : Int)).toNat = a.floor.toNat + n := by omega
  rw [this]
  simp only [Nat.min_def]
  split <;> split <;> omega

/-! ### `f64::max(_, 2.)` -/

theorem max_two_cases (x : XR) : XR.max x Cubic.two = .pinf ∨ ∃ q, XR.max x Cubic.two = .fin q ∧ 2 ≤ q := by
  cases x with
  | nan => right; exact ⟨2, by simp [XR.max, Cubic.two], le_refl _⟩
  | pinf => left; simp [XR.max, Cubic.two, XR.lt]
  | ninf => right; exact ⟨2, by simp [XR.max, Cubic.two, XR.lt], le_refl _⟩
  | fin q =>
    right
    by_cases h : q < 2
    · exact ⟨2, by simp [XR.max, Cubic.two, XR.lt, h], le_refl _⟩
    · exact ⟨q, by simp [XR.max, Cubic.two, XR.lt, h], not_lt.mp h⟩

theorem max_fin_two (q : Rat) : XR.max (.fin q) Cubic.two = .fin (max q 2) := by
  by_cases h : q < 2
  · simp [XR.max, Cubic.two, XR.lt, h, max_eq_right (le_of_lt h)]
  · simp [XR.max, Cubic.two, XR.lt, h, max_eq_left (not_lt.mp h)]

/-! ### Clause 1: the window is between min(2·MSS, peer window) and the peer window — in every state -/

theorem mssF_eq {e : FEnv} (R : Rounding e.rnd) (c : Cubic) (h : c.mss < 2 ^ 53) : c.mssF e = .fin (c.mss : Rat) := by
  simp [Cubic.mssF, XR.ofNat, R.exactNat _ h]

theorem two_mss_le_unclamped {e : FEnv} (R : Rounding e.rnd) (c : Cubic) (hm : 0 < c.mss) (hb : 2 * c.mss < 2 ^ 53) :
    2 * c.mss ≤ toUsize (XR.mul e.rnd (XR.max c.cwnd Cubic.two) (c.mssF e)) := by
  have hu : 2 * c.mss ≤ U64MAX := by simp only [U64MAX]; omega
  rw [mssF_eq R c (by omega)]
  have hmq : (0 : Rat) < c.mss := by exact_mod_cast hm
  rcases max_two_cases c.cwnd with h | ⟨q, h, hq⟩
  · rw [h]; simp [XR.mul, hmq, toUsize]; exact hu
  · rw [h]
    simp only [XR.mul]
    have h1 : ((2 * c.mss : Nat) : Rat) ≤ e.rnd (q * c.mss) := by
      have : ((2 * c.mss : Nat) : Rat) ≤ q * c.mss := by push_cast; nlinarith
      have := R.mono this
      rwa [R.exactNat _ hb] at this
    calc 2 * c.mss = toUsize (.fin ((2 * c.mss : Nat) : Rat)) := (toUsize_fin_nat _ hu).symm
      _ ≤ _ := toUsize_fin_mono h1

/-- **The window is at least two segments (or the peer window if smaller) and at most the peer window**,
whatever the internal state is (including NaN or infinite `cwnd`). -/
theorem window_bounds {e : FEnv} (R : Rounding e.rnd) (c : Cubic) (hm : 0 < c.mss) (hb : 2 * c.mss < 2 ^ 53) :
    min (2 * c.mss) c.rwndBytes ≤ c.window e ∧ c.window e ≤ c.rwndBytes := by
  have h := two_mss_le_unclamped R c hm hb
  unfold Cubic.window
  constructor
  · exact min_le_min h (le_refl _)
  · exact Nat.min_le_right _ _

/-! ### Clause 2: loss reactions -/

theorem window_onRto {e : FEnv} (R : Rounding e.rnd) (c : Cubic) (hb : 2 * c.mss < 2 ^ 53) :
    (c.onRto e).window e = min (2 * c.mss) c.rwndBytes := by
  have hu : 2 * c.mss ≤ U64MAX := by simp only [U64MAX]; omega
  have hm : (c.onRto e).mssF e = .fin (c.mss : Rat) := by
    simp [Cubic.mssF, Cubic.onRto, XR.ofNat, R.exactNat c.mss (by omega)]
  unfold Cubic.window
  rw [hm]
  have : XR.max (c.onRto e).cwnd Cubic.two = .fin 2 := by
    simp [Cubic.onRto, CUBIC_RTO_CWND, XR.max, Cubic.two, XR.lt]
  rw [this]
  simp only [XR.mul]
  have h2 : e.rnd (2 * (c.mss : Rat)) = ((2 * c.mss : Nat) : Rat) := by
    have := R.exactNat _ hb
    push_cast at this ⊢
    exact this
  rw [h2, toUsize_fin_nat _ hu]
  simp [Cubic.onRto]

/-- **A retransmission timeout never increases the window.** -/
theorem rto_never_increases_window {e : FEnv} (R : Rounding e.rnd) (c : Cubic) (hm : 0 < c.mss) (hb : 2 * c.mss < 2 ^ 53) :
    (c.onRto e).window e ≤ c.window e := by
  rw [window_onRto R c hb]; exact (window_bounds R c hm hb).1

/-- **…and sets the slow-start threshold to 0.7 of the previous window, at least two segments.** -/
theorem rto_ssthresh {e : FEnv} (c : Cubic) (q : Rat) (hq : c.cwnd = .fin q) :
    (c.onRto e).ssthresh = .fin (max (e.rnd (q * e.rnd ((7 : Rat) / 10))) 2) := by
  simp only [Cubic.onRto, hq, Cubic.beta, XR.mul, max_fin_two, BETA_CUBIC_NUM, BETA_CUBIC_DEN]
  norm_num

theorem enter_cwnd {e : FEnv} (c : Cubic) (q : Rat) (hq : c.cwnd = .fin q) (now : Nat) :
    (c.onEnterRecovery e now).cwnd = .fin (e.rnd (q * e.rnd ((7 : Rat) / 10))) := by
  simp only [Cubic.onEnterRecovery, hq, Cubic.beta, XR.mul, BETA_CUBIC_NUM, BETA_CUBIC_DEN]
  norm_num

/-- **Entering fast recovery sets the threshold to 0.7 of the previous window, at least two segments**
(and the window itself to 0.7 of it). -/
theorem enter_ssthresh {e : FEnv} (c : Cubic) (q : Rat) (hq : c.cwnd = .fin q) (now : Nat) :
    (c.onEnterRecovery e now).ssthresh = .fin (max (e.rnd (q * e.rnd ((7 : Rat) / 10))) 2) := by
  simp only [Cubic.onEnterRecovery, hq, Cubic.beta, XR.mul, max_fin_two, BETA_CUBIC_NUM, BETA_CUBIC_DEN]
  norm_num

/-- **Entering fast recovery never increases the window** (for a finite, non-negative, representable `cwnd`:
every reachable state, see `reachable_inv`). -/
theorem enter_never_increases_window {e : FEnv} (R : Rounding e.rnd) (c : Cubic) (q : Rat)
    (hq : c.cwnd = .fin q) (h0 : 0 ≤ q) (hr : e.rnd q = q) (hb : c.mss < 2 ^ 53) (now : Nat) :
    (c.onEnterRecovery e now).window e ≤ c.window e := by
  have hc := enter_cwnd (e := e) c q hq now
  have hle : e.rnd (q * e.rnd ((7 : Rat) / 10)) ≤ q := by
    have hb1 : e.rnd ((7 : Rat) / 10) ≤ 1 := by
      have := R.beta_le_one; simpa [BETA_CUBIC_NUM, BETA_CUBIC_DEN] using this
    have : q * e.rnd ((7 : Rat) / 10) ≤ q := by nlinarith
    have := R.mono this
    rwa [hr] at this
  have hm : (c.onEnterRecovery e now).mssF e = .fin (c.mss : Rat) := by
    simp [Cubic.mssF, Cubic.onEnterRecovery, XR.ofNat, R.exactNat c.mss hb]
  have hm' : c.mssF e = .fin (c.mss : Rat) := mssF_eq R c hb
  have hrb : (c.onEnterRecovery e now).rwndBytes = c.rwndBytes := by simp [Cubic.onEnterRecovery]
  unfold Cubic.window
  rw [hm, hm', hc, hq, hrb, max_fin_two, max_fin_two]
  simp only [XR.mul]
  apply min_le_min _ (le_refl _)
  apply toUsize_fin_mono
  apply R.mono
  have : max (e.rnd (q * e.rnd ((7 : Rat) / 10))) 2 ≤ max q 2 := max_le_max hle (le_refl _)
  have hmss : (0 : Rat) ≤ c.mss := by positivity
  exact mul_le_mul_of_nonneg_right this hmss

/-! ### The window is always a finite number: an invariant of every event sequence -/

/-- finite, non-negative, representable -/
def Rep (rnd : Rat → Rat) (x : XR) : Prop := ∃ q, x = .fin q ∧ 0 ≤ q ∧ rnd q = q

/-- if finite then representable (what every arithmetic result satisfies) -/
def Outp (rnd : Rat → Rat) (x : XR) : Prop := ∀ q, x = .fin q → rnd q = q

structure Inv (e : FEnv) (c : Cubic) : Prop where
  cwnd : Rep e.rnd c.cwnd
  rwnd : Rep e.rnd c.rwnd
  mssPos : 0 < c.mss
  mssSmall : c.mss < 2 ^ 53

section
variable {rnd : Rat → Rat} (R : Rounding rnd)
include R

theorem add_outp (a b : XR) : Outp rnd (XR.add rnd a b) := by
  intro q h
  cases a <;> cases b <;> simp [XR.add] at h
  subst h; exact R.idem _

theorem mul_outp (a b : XR) : Outp rnd (XR.mul rnd a b) := by
  intro q h
  cases a <;> cases b <;> simp only [XR.mul] at h
  all_goals first
    | (injection h with h; subst h; exact R.idem _)
    | (split at h <;> first | cases h | (split at h <;> cases h))
    | cases h

theorem div_outp (a b : XR) : Outp rnd (XR.div rnd a b) := by
  intro q h
  cases a <;> cases b <;> simp only [XR.div] at h
  all_goals first
    | (injection h with h; subst h; exact R.zero)
    | (split at h
       · split at h <;> first | cases h | (split at h <;> cases h)
       · injection h with h; subst h; exact R.idem _)
    | (split at h <;> cases h)
    | cases h

/-- `x.min(rwnd).max(2.)` with a finite representable `rwnd` is finite, at least 2 and representable,
whatever `x` is (NaN and the infinities included). -/
theorem clamp_rep (x : XR) (hx : Outp rnd x) (r : Rat) (hr : rnd r = r) :
    ∃ q, XR.max (XR.min x (.fin r)) Cubic.two = .fin q ∧ 2 ≤ q ∧ rnd q = q := by
  have key : ∀ y : Rat, rnd y = y → ∃ q, XR.max (.fin y) Cubic.two = .fin q ∧ 2 ≤ q ∧ rnd q = q := by
    intro y hy
    rw [max_fin_two]
    refine ⟨max y 2, rfl, le_max_right _ _, ?_⟩
    rcases max_cases y 2 with ⟨h, _⟩ | ⟨h, _⟩ <;> rw [h]
    · exact hy
    · exact R.two
  cases x with
  | nan => simpa [XR.min] using key r hr
  | pinf => simpa [XR.min, XR.lt] using key r hr
  | ninf =>
    refine ⟨2, by simp [XR.min, XR.lt, XR.max, Cubic.two], le_refl _, R.two⟩
  | fin y =>
    by_cases h : r < y
    · simpa [XR.min, XR.lt, h] using key r hr
    · simpa [XR.min, XR.lt, h] using key y (hx y rfl)
end

inductive Ev where
  | ack (now len rttNs : Nat)
  | rto
  | enter (now : Nat)
  | recovered (cwndBytes ssthresh : Nat)
  | setMss (m : Nat)
  | setRwnd (win : Nat)
deriving Repr

/-- The only argument restriction: an MSS is positive (and below 2^53). -/
def Ev.ok : Ev → Prop
  | .setMss m => 0 < m ∧ m < 2 ^ 53
  | _ => True

def step (e : FEnv) (c : Cubic) : Ev → Cubic
  | .ack now len rtt => c.onAck e now len rtt
  | .rto => c.onRto e
  | .enter now => c.onEnterRecovery e now
  | .recovered cw ss => c.onRecovered e cw ss
  | .setMss m => c.setMss e m
  | .setRwnd w => c.setRemoteWindow e w

def run (e : FEnv) (c : Cubic) (evs : List Ev) : Cubic := evs.foldl (step e) c

theorem new_inv (e : FEnv) (R : Rounding e.rnd) (now mss : Nat) (h0 : 0 < mss) (h1 : mss < 2 ^ 53) :
    Inv e (Cubic.new now mss) :=
  ⟨⟨2, by simp [Cubic.new, CUBIC_INITIAL_CWND], by norm_num, R.two⟩, ⟨0, rfl, le_refl _, R.zero⟩, h0, h1⟩

theorem step_inv (e : FEnv) (R : Rounding e.rnd) (c : Cubic) (ev : Ev) (hok : ev.ok) (h : Inv e c) :
    Inv e (step e c ev) := by
  obtain ⟨⟨q, hq, hq0, hqr⟩, ⟨r, hr, hr0, hrr⟩, hmp, hms⟩ := h
  have hmss : c.mssF e = .fin (c.mss : Rat) := mssF_eq R c hms
  have hmq : (c.mss : Rat) ≠ 0 := by exact_mod_cast (Nat.pos_iff_ne_zero.mp hmp)
  cases ev with
  | ack now len rtt =>
    simp only [step, Cubic.onAck, Cubic.onAckWith]
    split
    · exact ⟨⟨q, hq, hq0, hqr⟩, ⟨r, hr, hr0, hrr⟩, hmp, hms⟩
    split
    · exact ⟨⟨q, hq, hq0, hqr⟩, ⟨r, hr, hr0, hrr⟩, hmp, hms⟩
    refine ⟨?_, ⟨r, hr, hr0, hrr⟩, hmp, hms⟩
    simp only [hr]
    have : ∀ x, Outp e.rnd x → Rep e.rnd (XR.max (XR.min x (.fin r)) Cubic.two) := by
      intro x hx
      obtain ⟨y, hy, hy2, hyr⟩ := clamp_rep R x hx r hrr
      exact ⟨y, hy, by linarith, hyr⟩
    apply this
    split
    · exact add_outp R _ _
    · split
      · unfold Cubic.wEst; exact add_outp R _ _
      · exact add_outp R _ _
  | rto =>
    exact ⟨⟨1, by simp [step, Cubic.onRto, CUBIC_RTO_CWND], by norm_num, R.one⟩, ⟨r, by simpa [step, Cubic.onRto] using hr, hr0, hrr⟩,
      by simpa [step, Cubic.onRto] using hmp, by simpa [step, Cubic.onRto] using hms⟩
  | enter now =>
    refine ⟨⟨_, enter_cwnd c q hq now, R.nonneg (mul_nonneg hq0 ?_), R.idem _⟩,
      ⟨r, by simpa [step, Cubic.onEnterRecovery] using hr, hr0, hrr⟩,
      by simpa [step, Cubic.onEnterRecovery] using hmp, by simpa [step, Cubic.onEnterRecovery] using hms⟩
    have := R.beta_nonneg; simpa [BETA_CUBIC_NUM, BETA_CUBIC_DEN] using this
  | recovered cw ss =>
    refine ⟨?_, ⟨r, by simpa [step, Cubic.onRecovered] using hr, hr0, hrr⟩,
      by simpa [step, Cubic.onRecovered] using hmp, by simpa [step, Cubic.onRecovered] using hms⟩
    simp only [step, Cubic.onRecovered, hr]
    obtain ⟨y, hy, hy2, hyr⟩ := clamp_rep R _ (div_outp R (XR.ofNat e.rnd cw) (c.mssF e)) r hrr
    exact ⟨y, hy, by linarith, hyr⟩
  | setMss m =>
    obtain ⟨hm0, hm1⟩ := hok
    simp only [step, Cubic.setMss]
    split
    · exact ⟨⟨q, hq, hq0, hqr⟩, ⟨r, hr, hr0, hrr⟩, hmp, hms⟩
    · have hmq' : (m : Rat) ≠ 0 := by exact_mod_cast (Nat.pos_iff_ne_zero.mp hm0)
      refine ⟨?_, ⟨r, hr, hr0, hrr⟩, hm0, hm1⟩
      simp only [hq, hmss, XR.ofNat, R.exactNat m hm1, XR.div, hmq', if_false, XR.mul]
      refine ⟨_, rfl, R.nonneg (mul_nonneg hq0 (R.nonneg ?_)), R.idem _⟩
      positivity
  | setRwnd w =>
    refine ⟨⟨q, by simpa [step, Cubic.setRemoteWindow] using hq, hq0, hqr⟩, ?_,
      by simpa [step, Cubic.setRemoteWindow] using hmp, by simpa [step, Cubic.setRemoteWindow] using hms⟩
    simp only [step, Cubic.setRemoteWindow, hmss, XR.ofNat, XR.div, hmq, if_false]
    refine ⟨_, rfl, R.nonneg (div_nonneg (R.nonneg ?_) ?_), R.idem _⟩ <;> positivity

/-- **For every sequence of acknowledgements, timeouts, recovery episodes, MSS changes and peer-window
updates** (any numeric arguments: zero/huge RTT, zero-length ACKs, zero or tiny peer windows) the
congestion window is a finite non-negative number and the peer window is too. -/
theorem reachable_inv (e : FEnv) (R : Rounding e.rnd) (now mss : Nat) (h0 : 0 < mss) (h1 : mss < 2 ^ 53)
    (evs : List Ev) (hok : ∀ ev ∈ evs, ev.ok) : Inv e (run e (Cubic.new now mss) evs) := by
  suffices ∀ c, Inv e c → Inv e (run e c evs) from this _ (new_inv e R now mss h0 h1)
  induction evs with
  | nil => intro c h; exact h
  | cons ev evs ih =>
    intro c h
    exact ih (fun x hx => hok x (List.mem_cons_of_mem _ hx)) _ (step_inv e R c ev (hok ev List.mem_cons_self) h)

/-- The headline: after any event sequence, `window()` is between min(2·MSS, peer window) and the peer
window, and the internal `cwnd` is finite. -/
theorem window_always_sane (e : FEnv) (R : Rounding e.rnd) (now mss : Nat) (h0 : 0 < mss) (h1 : mss < 2 ^ 53)
    (evs : List Ev) (hok : ∀ ev ∈ evs, ev.ok) :
    let c := run e (Cubic.new now mss) evs
    (∃ q, c.cwnd = .fin q ∧ 0 ≤ q) ∧ (2 * c.mss < 2 ^ 53 → min (2 * c.mss) c.rwndBytes ≤ c.window e) ∧ c.window e ≤ c.rwndBytes := by
  intro c
  have hi := reachable_inv e R now mss h0 h1 evs hok
  obtain ⟨q, hq, hq0, _⟩ := hi.cwnd
  refine ⟨⟨q, hq, hq0⟩, fun hb => (window_bounds R c hi.mssPos hb).1, ?_⟩
  unfold Cubic.window; exact Nat.min_le_right _ _

/-- Loss reactions over reachable states: neither a timeout nor entering recovery increases the window. -/
theorem loss_never_increases_window (e : FEnv) (R : Rounding e.rnd) (now mss : Nat) (h0 : 0 < mss) (h1 : mss < 2 ^ 53)
    (evs : List Ev) (hok : ∀ ev ∈ evs, ev.ok) (t : Nat) :
    let c := run e (Cubic.new now mss) evs
    2 * c.mss < 2 ^ 53 →
    (c.onRto e).window e ≤ c.window e ∧ (c.onEnterRecovery e t).window e ≤ c.window e := by
  intro c hb
  have hi := reachable_inv e R now mss h0 h1 evs hok
  obtain ⟨q, hq, hq0, hqr⟩ := hi.cwnd
  exact ⟨rto_never_increases_window R c hi.mssPos hb, enter_never_increases_window R c q hq hq0 hqr hi.mssSmall t⟩

/-! ### Zero-length and window-limited ACKs change nothing -/

theorem zero_len_ack_noop (e : FEnv) (c : Cubic) (now rtt : Nat) : c.onAck e now 0 rtt = c := by
  simp [Cubic.onAck, Cubic.onAckWith]

/-! ### Clause 3: slow-start growth (exact arithmetic) -/

def exact (cb : Rat → Rat) : FEnv := { rnd := id, cbrt := cb }

/-- **In slow start one acknowledgement grows the window by at most the bytes it acknowledged** —
in exact arithmetic.  With f64 rounding the real code can exceed this by one byte (finding D15). -/
theorem slow_start_growth_exact (cb : Rat → Rat) (c : Cubic) (q r : Rat) (hq : c.cwnd = .fin q) (hq0 : 0 ≤ q)
    (hr : c.rwnd = .fin r) (hm : 0 < c.mss) (_hss : XR.lt c.cwnd c.ssthresh = true) (now len rtt : Nat) :
    (c.onAck (exact cb) now len rtt).window (exact cb) ≤ c.window (exact cb) + len := by
  have hmq : (c.mss : Rat) ≠ 0 := by exact_mod_cast (Nat.pos_iff_ne_zero.mp hm)
  have hmp : (0 : Rat) < c.mss := by exact_mod_cast hm
  simp only [Cubic.onAck, Cubic.onAckWith]
  split
  · omega
  split
  · omega
  simp only [hq, hr, exact, Cubic.mssF, XR.ofNat, id, XR.div, hmq, if_false, XR.add, Cubic.window]
  -- cwnd' = max (min (q + len/mss) r) 2
  have hcl : ∃ y, XR.max (XR.min (.fin (q + (len : Rat) / c.mss)) (.fin r)) Cubic.two = .fin y ∧ y ≤ max (q + (len : Rat) / c.mss) 2 := by
    by_cases h : r < q + (len : Rat) / c.mss
    · refine ⟨max r 2, by simp [XR.min, XR.lt, h, max_fin_two], max_le_max (le_of_lt h) (le_refl _)⟩
    · refine ⟨max (q + (len : Rat) / c.mss) 2, by simp [XR.min, XR.lt, h, max_fin_two], le_refl _⟩
  obtain ⟨y, hy, hyle⟩ := hcl
  rw [hy, max_fin_two, max_fin_two]
  simp only [XR.mul, id]
  have h1 : max y 2 * (c.mss : Rat) ≤ max q 2 * c.mss + len := by
    have : max y 2 ≤ max q 2 + (len : Rat) / c.mss := by
      have hl : (0 : Rat) ≤ (len : Rat) / c.mss := by positivity
      apply max_le (le_trans hyle (max_le (by linarith [le_max_left q 2]) (by linarith [le_max_right q 2])))
      linarith [le_max_right q 2]
    calc max y 2 * (c.mss : Rat) ≤ (max q 2 + (len : Rat) / c.mss) * c.mss := mul_le_mul_of_nonneg_right this (le_of_lt hmp)
      _ = max q 2 * c.mss + len := by field_simp
  have h2 : toUsize (.fin (max y 2 * (c.mss : Rat))) ≤ toUsize (.fin (max q 2 * c.mss)) + len :=
    le_trans (toUsize_fin_mono h1) (toUsize_fin_add_nat (by positivity) len)
  simp only [Nat.min_def]
  split <;> split <;> omega

/-! ### Clause 3 under the standard floating-point error model: at most ONE byte more than acknowledged

`RoundErr rnd ε`: every rounding has relative error at most ε (binary64: ε = 2⁻⁵³ on the normal range). With
byte magnitudes below 2⁵⁰ the slow-start growth of `window()` exceeds the acknowledged bytes by at most one
byte - and D15 shows that one byte does occur. -/

structure RoundErr (rnd : Rat → Rat) (ε : Rat) : Prop where
  pos : 0 ≤ ε
  err : ∀ x : Rat, |rnd x - x| ≤ ε * |x|

theorem RoundErr.le {rnd : Rat → Rat} {ε : Rat} (E : RoundErr rnd ε) {x : Rat} (hx : 0 ≤ x) : rnd x ≤ x * (1 + ε) := by
  have := (abs_le.mp (E.err x)).2
  rw [abs_of_nonneg hx] at this
  linarith

theorem RoundErr.ge {rnd : Rat → Rat} {ε : Rat} (E : RoundErr rnd ε) {x : Rat} (hx : 0 ≤ x) : x * (1 - ε) ≤ rnd x := by
  have := (abs_le.mp (E.err x)).1
  rw [abs_of_nonneg hx] at this
  linarith

theorem floor_toNat_fin {x : Rat} (hx : 0 ≤ x) (hu : x < U64MAX) : toUsize (.fin x) = x.floor.toNat := by
  have h0 : ¬ (x < 0) := not_lt.mpr hx
  simp only [toUsize, h0, if_false]
  apply Nat.min_eq_left
  have h1 : x.floor ≤ (U64MAX : Int) := by
    have := Rat.floor_le x
    have h2 : (x.floor : Rat) < (U64MAX : Rat) := lt_of_le_of_lt this hu
    have : x.floor < (U64MAX : Int) := by exact_mod_cast h2
    omega
  omega

/-- the real-number core of the error analysis -/
theorem growth_key (ε m q len a s y' P P' : Rat) (hε0 : 0 ≤ ε) (hε : ε * 2 ^ 53 ≤ 1) (hm : 0 < m) (hq0 : 0 ≤ q) (hl0 : 0 ≤ len)
    (ha0 : 0 ≤ a) (h1 : a ≤ len / m * (1 + ε)) (h2 : s ≤ (q + a) * (1 + ε)) (hy2 : 2 ≤ y') (hy : y' ≤ max s 2)
    (h3 : P' ≤ y' * m * (1 + ε)) (h4 : max q 2 * m * (1 - ε) ≤ P) (hmono : y' * m ≤ max q 2 * m → P' ≤ P)
    (hK : max q 2 * m + len ≤ 2 ^ 50) : P' ≤ P + len + 1 := by
  have hε1 : ε ≤ 1 := by nlinarith
  by_cases hcase : s ≤ 2
  · have hy' : y' ≤ 2 := le_trans hy (max_le hcase (le_refl _))
    have : y' * m ≤ max q 2 * m := by
      have : (2 : Rat) ≤ max q 2 := le_max_right _ _
      nlinarith
    have := hmono this
    linarith
  · have hs2 : 2 < s := not_le.mp hcase
    have hy_s : y' ≤ s := le_trans hy (max_le (le_refl _) (le_of_lt hs2))
    have hpos : (0 : Rat) ≤ 1 + ε := by linarith
    have hM0 : 0 ≤ max q 2 * m := by positivity
    have hqM : q * m ≤ max q 2 * m := by
      have : q ≤ max q 2 := le_max_left _ _
      nlinarith
    have hlm : len / m * (1 + ε) * m = len * (1 + ε) := by field_simp
    have hA : y' ≤ (q + len / m * (1 + ε)) * (1 + ε) := by
      calc y' ≤ s := hy_s
        _ ≤ (q + a) * (1 + ε) := h2
        _ ≤ (q + len / m * (1 + ε)) * (1 + ε) := by nlinarith
    have hB : y' * m ≤ (q * m + len * (1 + ε)) * (1 + ε) := by
      calc y' * m ≤ (q + len / m * (1 + ε)) * (1 + ε) * m := by nlinarith
        _ = (q * m + len / m * (1 + ε) * m) * (1 + ε) := by ring
        _ = (q * m + len * (1 + ε)) * (1 + ε) := by rw [hlm]
    have hC : q * m + len * (1 + ε) ≤ (max q 2 * m + len) * (1 + ε) := by nlinarith
    have hD : y' * m ≤ (max q 2 * m + len) * ((1 + ε) * (1 + ε)) := by
      calc y' * m ≤ (q * m + len * (1 + ε)) * (1 + ε) := hB
        _ ≤ ((max q 2 * m + len) * (1 + ε)) * (1 + ε) := by nlinarith
        _ = (max q 2 * m + len) * ((1 + ε) * (1 + ε)) := by ring
    have hE : P' ≤ (max q 2 * m + len) * ((1 + ε) * (1 + ε) * (1 + ε)) := by
      calc P' ≤ y' * m * (1 + ε) := h3
        _ ≤ ((max q 2 * m + len) * ((1 + ε) * (1 + ε))) * (1 + ε) := by nlinarith
        _ = (max q 2 * m + len) * ((1 + ε) * (1 + ε) * (1 + ε)) := by ring
    have h7 : (1 + ε) * (1 + ε) * (1 + ε) ≤ 1 + 7 * ε := by
      have e2 : ε * ε ≤ ε := by nlinarith
      have e3 : ε * ε * ε ≤ ε := by nlinarith [mul_nonneg hε0 hε0]
      nlinarith
    have hK0 : 0 ≤ max q 2 * m + len := by linarith
    have h8 : P' ≤ (max q 2 * m + len) * (1 + 7 * ε) := le_trans hE (mul_le_mul_of_nonneg_left h7 hK0)
    have h9 : (max q 2 * m + len) * (8 * ε) ≤ 1 := by
      have : (max q 2 * m + len) * (8 * ε) ≤ 2 ^ 50 * (8 * ε) := mul_le_mul_of_nonneg_right hK (by linarith)
      have h53 : (2 : Rat) ^ 50 * (8 * ε) = ε * 2 ^ 53 := by ring
      linarith
    -- P' - P ≤ len + K*7ε + Mε ≤ len + K*8ε ≤ len + 1
    have hMK : max q 2 * m * ε ≤ (max q 2 * m + len) * ε := by nlinarith
    nlinarith

/-- from reals to `as usize` -/
theorem toUsize_step {P P' : Rat} (len : Nat) (hP0 : 0 ≤ P) (hP'0 : 0 ≤ P') (hPu : P < U64MAX) (hP'u : P' < U64MAX)
    (key : P' ≤ P + len + 1) : toUsize (.fin P') ≤ toUsize (.fin P) + len + 1 := by
  rw [floor_toNat_fin hP0 hPu, floor_toNat_fin hP'0 hP'u]
  have hfl : P'.floor ≤ P.floor + len + 1 := by
    have h1 : (P'.floor : Rat) ≤ P' := Rat.floor_le P'
    have h2 : P < ((P.floor + 1 : Int) : Rat) := Rat.lt_floor_add_one P
    have : (P'.floor : Rat) < ((P.floor + len + 2 : Int) : Rat) := by push_cast at h2 ⊢; linarith
    have : P'.floor < P.floor + len + 2 := by exact_mod_cast this
    omega
  have hPf0 : 0 ≤ P.floor := by rw [floor_eq]; exact Int.floor_nonneg.mpr hP0
  have hP'f0 : 0 ≤ P'.floor := by rw [floor_eq]; exact Int.floor_nonneg.mpr hP'0
  omega

/-- **In slow start one acknowledgement grows the window by at most the bytes it acknowledged plus ONE byte**,
for every rounding operator with relative error ≤ 2⁻⁵³ (binary64) and byte magnitudes below 2⁵⁰. -/
theorem slow_start_growth_within_one_byte {e : FEnv} {ε : Rat} (R : Rounding e.rnd) (E : RoundErr e.rnd ε)
    (hε : ε * 2 ^ 53 ≤ 1) (c : Cubic) (q r : Rat) (hq : c.cwnd = .fin q) (hq0 : 0 ≤ q) (hr : c.rwnd = .fin r)
    (hm : 0 < c.mss) (hms : c.mss < 2 ^ 53) (hss : XR.lt c.cwnd c.ssthresh = true) (now len rtt : Nat) (hlen : len < 2 ^ 53)
    (hB : max q 2 * c.mss + len ≤ 2 ^ 50) :
    (c.onAck e now len rtt).window e ≤ c.window e + len + 1 := by
  have hmq : (c.mss : Rat) ≠ 0 := by exact_mod_cast (Nat.pos_iff_ne_zero.mp hm)
  have hmp : (0 : Rat) < c.mss := by exact_mod_cast hm
  have hε0 := E.pos
  have hε1 : ε ≤ 1 := by nlinarith [hε, hε0]
  simp only [Cubic.onAck, Cubic.onAckWith]
  split
  · omega
  split
  · omega
  have hmssF : c.mssF e = .fin (c.mss : Rat) := mssF_eq R c hms
  have ha0 : 0 ≤ e.rnd ((len : Rat) / c.mss) := R.nonneg (by positivity)
  have hs0 : 0 ≤ e.rnd (q + e.rnd ((len : Rat) / c.mss)) := R.nonneg (by positivity)
  have hcl : ∃ y, XR.max (XR.min (.fin (e.rnd (q + e.rnd ((len : Rat) / c.mss)))) (.fin r)) Cubic.two = .fin y ∧
      y ≤ max (e.rnd (q + e.rnd ((len : Rat) / c.mss))) 2 := by
    by_cases h : r < e.rnd (q + e.rnd ((len : Rat) / c.mss))
    · exact ⟨max r 2, by simp [XR.min, XR.lt, h, max_fin_two], max_le_max (le_of_lt h) (le_refl _)⟩
    · exact ⟨max (e.rnd (q + e.rnd ((len : Rat) / c.mss))) 2, by simp [XR.min, XR.lt, h, max_fin_two], le_refl _⟩
  obtain ⟨y, hy, hyle⟩ := hcl
  have hgoal : toUsize (.fin (e.rnd (max y 2 * (c.mss : Rat)))) ≤ toUsize (.fin (e.rnd (max q 2 * (c.mss : Rat)))) + len + 1 := by
    have hM0 : 0 ≤ max q 2 * (c.mss : Rat) := by positivity
    have hl0 : (0 : Rat) ≤ len := by positivity
    have key := growth_key ε c.mss q len (e.rnd ((len : Rat) / c.mss)) (e.rnd (q + e.rnd ((len : Rat) / c.mss))) (max y 2)
      (e.rnd (max q 2 * (c.mss : Rat))) (e.rnd (max y 2 * (c.mss : Rat))) hε0 hε hmp hq0 hl0 ha0
      (E.le (by positivity)) (E.le (by positivity)) (le_max_right _ _) (max_le hyle (le_max_right _ _))
      (E.le (by positivity)) (E.ge hM0) (fun h => R.mono h) hB
    have hP0 : 0 ≤ e.rnd (max q 2 * (c.mss : Rat)) := R.nonneg hM0
    have hP'0 : 0 ≤ e.rnd (max y 2 * (c.mss : Rat)) := R.nonneg (by positivity)
    have hPle : e.rnd (max q 2 * (c.mss : Rat)) ≤ 2 ^ 50 * 2 := by
      have := E.le (rnd := e.rnd) hM0
      nlinarith
    have hlK : (len : Rat) ≤ 2 ^ 50 := by linarith
    have h64 : (2 : Rat) ^ 50 * 2 + 2 ^ 50 + 1 < (U64MAX : Rat) := by simp only [U64MAX]; norm_num
    exact toUsize_step len hP0 hP'0 (by linarith) (by linarith) key
  simp only [hss, if_true, hq, hr, hmssF, XR.ofNat, R.exactNat len hlen, XR.div, hmq, if_false, XR.add, Cubic.window, Cubic.mssF,
    R.exactNat c.mss hms, hy, max_fin_two, XR.mul]
  simp only [Nat.min_def]
  split <;> split <;> omega

/-! ### Clause 4: an MSS change rescales the window (exact arithmetic) -/

/-- **Changing the MSS keeps the window's byte value once the peer window is re-applied** (above the
two-segment floor of the new MSS) — in exact arithmetic; with f64 rounding the byte value may move by
one (checked with that tolerance on the implementation by the `cubic_sanity` oracle). -/
theorem mss_change_rescales_exact (cb : Rat → Rat) (c : Cubic) (q : Rat) (hq : c.cwnd = .fin q) (hq2 : 2 ≤ q)
    (hm : 0 < c.mss) (m : Nat) (hm' : 0 < m) (hfloor : (2 * m : Rat) ≤ q * c.mss) :
    ((c.setMss (exact cb) m).setRemoteWindow (exact cb) c.rwndBytes).window (exact cb) = c.window (exact cb) := by
  have hmq : (c.mss : Rat) ≠ 0 := by exact_mod_cast (Nat.pos_iff_ne_zero.mp hm)
  have hmq' : (m : Rat) ≠ 0 := by exact_mod_cast (Nat.pos_iff_ne_zero.mp hm')
  have hmp' : (0 : Rat) < m := by exact_mod_cast hm'
  by_cases heq : c.mss = m
  · simp [Cubic.setMss, heq, Cubic.setRemoteWindow, Cubic.window, Cubic.mssF]
  · simp only [Cubic.setMss, heq, if_false, Cubic.setRemoteWindow, Cubic.window, Cubic.mssF, XR.ofNat, exact, id, hq,
      XR.div, hmq', XR.mul, max_fin_two]
    have h2 : (2 : Rat) ≤ q * ((c.mss : Rat) / m) := by
      rw [mul_div_assoc', le_div_iff₀ hmp']; linarith
    rw [max_eq_left h2, max_eq_left hq2]
    congr 2
    field_simp

/-! ### Clause 4 under the floating-point error model: the byte value moves by at most ONE byte -/

/-- real-number core: `P = rnd(q·mss)`, `P' = rnd(rnd(q·rnd(mss/m))·m)` differ by at most 1 -/
theorem rescale_key (ε mss m q ρ c' P P' : Rat) (hε0 : 0 ≤ ε) (hε : ε * 2 ^ 53 ≤ 1) (hmss : 0 < mss) (hm : 0 < m) (hq0 : 0 ≤ q)
    (hρ1 : ρ ≤ mss / m * (1 + ε)) (hρ2 : mss / m * (1 - ε) ≤ ρ)
    (hc1 : c' ≤ q * ρ * (1 + ε)) (hc2 : q * ρ * (1 - ε) ≤ c') (hc0 : 0 ≤ c')
    (hP'1 : P' ≤ c' * m * (1 + ε)) (hP'2 : c' * m * (1 - ε) ≤ P')
    (hP1 : P ≤ q * mss * (1 + ε)) (hP2 : q * mss * (1 - ε) ≤ P) (hK : q * mss ≤ 2 ^ 50) :
    P' ≤ P + 1 ∧ P ≤ P' + 1 := by
  have hε1 : ε ≤ 1 := by nlinarith
  have hK0 : 0 ≤ q * mss := by positivity
  have hpos : (0 : Rat) ≤ 1 + ε := by linarith
  have hneg : (0 : Rat) ≤ 1 - ε := by linarith
  have hmm : mss / m * m = mss := by field_simp
  have hρ0 : 0 ≤ ρ := le_trans (by positivity) hρ2
  -- c' * m is within (1±ε)^2 of q*mss
  have hu : c' * m ≤ q * mss * ((1 + ε) * (1 + ε)) := by
    calc c' * m ≤ q * ρ * (1 + ε) * m := mul_le_mul_of_nonneg_right hc1 (le_of_lt hm)
      _ ≤ q * (mss / m * (1 + ε)) * (1 + ε) * m := by
          have : q * ρ ≤ q * (mss / m * (1 + ε)) := mul_le_mul_of_nonneg_left hρ1 hq0
          exact mul_le_mul_of_nonneg_right (mul_le_mul_of_nonneg_right this hpos) (le_of_lt hm)
      _ = q * (mss / m * m) * ((1 + ε) * (1 + ε)) := by ring
      _ = q * mss * ((1 + ε) * (1 + ε)) := by rw [hmm]
  have hl : q * mss * ((1 - ε) * (1 - ε)) ≤ c' * m := by
    calc q * mss * ((1 - ε) * (1 - ε)) = q * (mss / m * m) * ((1 - ε) * (1 - ε)) := by rw [hmm]
      _ = q * (mss / m * (1 - ε)) * (1 - ε) * m := by ring
      _ ≤ q * ρ * (1 - ε) * m := by
          have : q * (mss / m * (1 - ε)) ≤ q * ρ := mul_le_mul_of_nonneg_left hρ2 hq0
          exact mul_le_mul_of_nonneg_right (mul_le_mul_of_nonneg_right this hneg) (le_of_lt hm)
      _ ≤ c' * m := mul_le_mul_of_nonneg_right hc2 (le_of_lt hm)
  have hcm0 : 0 ≤ c' * m := by positivity
  have hU : P' ≤ q * mss * ((1 + ε) * (1 + ε) * (1 + ε)) := by
    calc P' ≤ c' * m * (1 + ε) := hP'1
      _ ≤ q * mss * ((1 + ε) * (1 + ε)) * (1 + ε) := by nlinarith
      _ = q * mss * ((1 + ε) * (1 + ε) * (1 + ε)) := by ring
  have hL : q * mss * ((1 - ε) * (1 - ε) * (1 - ε)) ≤ P' := by
    calc q * mss * ((1 - ε) * (1 - ε) * (1 - ε)) = q * mss * ((1 - ε) * (1 - ε)) * (1 - ε) := by ring
      _ ≤ c' * m * (1 - ε) := by nlinarith
      _ ≤ P' := hP'2
  have e2 : ε * ε ≤ ε := by nlinarith
  have e3 : ε * ε * ε ≤ ε := by nlinarith [mul_nonneg hε0 hε0]
  have e3' : 0 ≤ ε * ε * ε := mul_nonneg (mul_nonneg hε0 hε0) hε0
  have h7 : (1 + ε) * (1 + ε) * (1 + ε) ≤ 1 + 7 * ε := by nlinarith
  have h7' : 1 - 3 * ε - ε ≤ (1 - ε) * (1 - ε) * (1 - ε) := by nlinarith [mul_nonneg hε0 hε0]
  have h9 : q * mss * (8 * ε) ≤ 1 := by
    have : q * mss * (8 * ε) ≤ 2 ^ 50 * (8 * ε) := mul_le_mul_of_nonneg_right hK (by linarith)
    have h53 : (2 : Rat) ^ 50 * (8 * ε) = ε * 2 ^ 53 := by ring
    linarith
  have hU' : P' ≤ q * mss * (1 + 7 * ε) := le_trans hU (mul_le_mul_of_nonneg_left h7 hK0)
  have hL' : q * mss * (1 - 4 * ε) ≤ P' := le_trans (by nlinarith) hL
  constructor <;> nlinarith

theorem toUsize_close {P P' : Rat} (hP0 : 0 ≤ P) (hP'0 : 0 ≤ P') (hPu : P < U64MAX) (hP'u : P' < U64MAX)
    (h1 : P' ≤ P + 1) : toUsize (.fin P') ≤ toUsize (.fin P) + 1 := by
  have := toUsize_step (P := P) (P' := P') 0 hP0 hP'0 hPu hP'u (by simpa using h1)
  simpa using this

/-- **Changing the MSS keeps the window's byte value, up to ONE byte, once the peer window is re-applied**
(above the two-segment floor of the new MSS), for every rounding operator with relative error ≤ 2⁻⁵³ and
byte magnitudes below 2⁵⁰. -/
theorem mss_change_rescales_within_one_byte {e : FEnv} {ε : Rat} (R : Rounding e.rnd) (E : RoundErr e.rnd ε)
    (hε : ε * 2 ^ 53 ≤ 1) (c : Cubic) (q : Rat) (hq : c.cwnd = .fin q) (hq2 : 2 ≤ q)
    (hm : 0 < c.mss) (hms : c.mss < 2 ^ 53) (m : Nat) (hm' : 0 < m) (hm's : m < 2 ^ 53) (hne : c.mss ≠ m)
    (hfloor : 2 ≤ e.rnd (q * e.rnd ((c.mss : Rat) / m))) (hK : q * c.mss ≤ 2 ^ 50) :
    let w' := ((c.setMss e m).setRemoteWindow e c.rwndBytes).window e
    w' ≤ c.window e + 1 ∧ c.window e ≤ w' + 1 := by
  intro w'
  have hmq : (c.mss : Rat) ≠ 0 := by exact_mod_cast (Nat.pos_iff_ne_zero.mp hm)
  have hmq' : (m : Rat) ≠ 0 := by exact_mod_cast (Nat.pos_iff_ne_zero.mp hm')
  have hmp : (0 : Rat) < c.mss := by exact_mod_cast hm
  have hmp' : (0 : Rat) < m := by exact_mod_cast hm'
  have hε0 := E.pos
  have hq0 : 0 ≤ q := by linarith
  have hρ0 : (0 : Rat) ≤ (c.mss : Rat) / m := by positivity
  have hc0 : 0 ≤ q * e.rnd ((c.mss : Rat) / m) := mul_nonneg hq0 (R.nonneg hρ0)
  have hc'0 : 0 ≤ e.rnd (q * e.rnd ((c.mss : Rat) / m)) := R.nonneg hc0
  have hcm0 : 0 ≤ e.rnd (q * e.rnd ((c.mss : Rat) / m)) * (m : Rat) := by positivity
  have hqm0 : 0 ≤ q * (c.mss : Rat) := by positivity
  have key := rescale_key ε c.mss m q (e.rnd ((c.mss : Rat) / m)) (e.rnd (q * e.rnd ((c.mss : Rat) / m)))
    (e.rnd (q * (c.mss : Rat))) (e.rnd (e.rnd (q * e.rnd ((c.mss : Rat) / m)) * (m : Rat)))
    hε0 hε hmp hmp' hq0 (E.le hρ0) (E.ge hρ0) (E.le hc0) (E.ge hc0) hc'0 (E.le hcm0) (E.ge hcm0) (E.le hqm0) (E.ge hqm0) hK
  have hP0 : 0 ≤ e.rnd (q * (c.mss : Rat)) := R.nonneg hqm0
  have hP'0 : 0 ≤ e.rnd (e.rnd (q * e.rnd ((c.mss : Rat) / m)) * (m : Rat)) := R.nonneg hcm0
  have hε1 : ε ≤ 1 := by nlinarith
  have hPle : e.rnd (q * (c.mss : Rat)) ≤ 2 ^ 50 * 2 := by
    have := E.le (rnd := e.rnd) hqm0
    nlinarith
  have h64 : (2 : Rat) ^ 50 * 2 + 1 < (U64MAX : Rat) := by simp only [U64MAX]; norm_num
  have hPu : e.rnd (q * (c.mss : Rat)) < U64MAX := by linarith
  have hP'u : e.rnd (e.rnd (q * e.rnd ((c.mss : Rat) / m)) * (m : Rat)) < U64MAX := by linarith [key.1]
  have g1 := toUsize_close hP0 hP'0 hPu hP'u key.1
  have g2 := toUsize_close hP'0 hP0 hP'u hPu key.2
  have hw : c.window e = min (toUsize (.fin (e.rnd (q * (c.mss : Rat))))) c.rwndBytes := by
    simp only [Cubic.window, Cubic.mssF, XR.ofNat, R.exactNat c.mss hms, hq, max_fin_two, max_eq_left hq2, XR.mul]
  have hw' : w' = min (toUsize (.fin (e.rnd (e.rnd (q * e.rnd ((c.mss : Rat) / m)) * (m : Rat))))) c.rwndBytes := by
    show ((c.setMss e m).setRemoteWindow e c.rwndBytes).window e = _
    simp only [Cubic.setMss, hne, if_false, Cubic.setRemoteWindow, Cubic.window, Cubic.mssF, XR.ofNat, R.exactNat c.mss hms,
      R.exactNat m hm's, hq, XR.div, hmq', XR.mul, max_fin_two, max_eq_left hfloor]
  rw [hw, hw']
  simp only [Nat.min_def]
  constructor <;> (split <;> split <;> omega)

/-! ### Slow-start history: two segments plus everything acknowledged (clause of C05 that lives in the controller) -/

/-- `window()` before the clamp to the peer's advertised bytes. -/
def unclamped (e : FEnv) (c : Cubic) : Nat := XR.toUsize (XR.mul e.rnd (XR.max c.cwnd Cubic.two) (c.mssF e))

theorem window_le_unclamped (e : FEnv) (c : Cubic) : c.window e ≤ unclamped e c := by
  simp only [Cubic.window, unclamped, Nat.min_def]; split <;> omega

/-- One slow-start ACK in exact arithmetic raises the unclamped window by at most the bytes acknowledged,
keeps `cwnd` finite and at least 2, and touches nothing else. -/
theorem ack_unclamped_exact (cb : Rat → Rat) (c : Cubic) (q r : Rat) (hq : c.cwnd = .fin q) (hq2 : 2 ≤ q)
    (hr : c.rwnd = .fin r) (hm : 0 < c.mss) (hss : c.ssthresh = .pinf) (now len rtt : Nat) :
    let c' := c.onAck (exact cb) now len rtt
    unclamped (exact cb) c' ≤ unclamped (exact cb) c + len ∧ (∃ q', c'.cwnd = .fin q' ∧ 2 ≤ q') ∧
      c'.ssthresh = c.ssthresh ∧ c'.rwnd = c.rwnd ∧ c'.mss = c.mss ∧ c'.rwndBytes = c.rwndBytes := by
  have hmq : (c.mss : Rat) ≠ 0 := by exact_mod_cast (Nat.pos_iff_ne_zero.mp hm)
  have hmp : (0 : Rat) < c.mss := by exact_mod_cast hm
  simp only [Cubic.onAck, Cubic.onAckWith]
  split
  · exact ⟨by omega, ⟨q, hq, hq2⟩, rfl, rfl, rfl, rfl⟩
  split
  · exact ⟨by omega, ⟨q, hq, hq2⟩, rfl, rfl, rfl, rfl⟩
  have hlt : XR.lt c.cwnd c.ssthresh = true := by simp [hq, hss, XR.lt]
  simp only [hlt, if_true]
  simp only [hq, hr, exact, Cubic.mssF, XR.ofNat, id, XR.div, hmq, if_false, XR.add, unclamped]
  have hcl : ∃ y, XR.max (XR.min (.fin (q + (len : Rat) / c.mss)) (.fin r)) Cubic.two = .fin y ∧ y ≤ max (q + (len : Rat) / c.mss) 2 ∧ 2 ≤ y := by
    by_cases h : r < q + (len : Rat) / c.mss
    · refine ⟨max r 2, by simp [XR.min, XR.lt, h, max_fin_two], max_le_max (le_of_lt h) (le_refl _), le_max_right _ _⟩
    · refine ⟨max (q + (len : Rat) / c.mss) 2, by simp [XR.min, XR.lt, h, max_fin_two], le_refl _, le_max_right _ _⟩
  obtain ⟨y, hy, hyle, hy2⟩ := hcl
  refine ⟨?_, ⟨y, hy, hy2⟩, trivial, trivial, trivial, trivial⟩
  rw [hy, max_fin_two, max_fin_two]
  simp only [XR.mul, id]
  have h1 : max y 2 * (c.mss : Rat) ≤ max q 2 * c.mss + len := by
    have : max y 2 ≤ max q 2 + (len : Rat) / c.mss := by
      have hl : (0 : Rat) ≤ (len : Rat) / c.mss := by positivity
      apply max_le (le_trans hyle (max_le (by linarith [le_max_left q 2]) (by linarith [le_max_right q 2])))
      linarith [le_max_right q 2]
    calc max y 2 * (c.mss : Rat) ≤ (max q 2 + (len : Rat) / c.mss) * c.mss := mul_le_mul_of_nonneg_right this (le_of_lt hmp)
      _ = max q 2 * c.mss + len := by field_simp
  exact le_trans (toUsize_fin_mono h1) (toUsize_fin_add_nat (by positivity) len)

/-- Events that are not a loss signal: acknowledgements and window updates. -/
def Ev.lossFree : Ev → Prop
  | .ack .. => True
  | .setRwnd _ => True
  | _ => False

def acked : List Ev → Nat
  | [] => 0
  | .ack _ len _ :: es => len + acked es
  | _ :: es => acked es

structure SS (cb : Rat → Rat) (mss : Nat) (c : Cubic) (budget : Nat) : Prop where
  mss : c.mss = mss
  ss : c.ssthresh = .pinf
  cw : ∃ q, c.cwnd = .fin q ∧ 2 ≤ q
  rw : ∃ r, c.rwnd = .fin r
  le : unclamped (exact cb) c ≤ budget

theorem ss_run (cb : Rat → Rat) (mss : Nat) (hm : 0 < mss) (evs : List Ev) (hev : ∀ ev ∈ evs, ev.lossFree) :
    ∀ (c : Cubic) (b : Nat), SS cb mss c b → SS cb mss (run (exact cb) c evs) (b + acked evs) := by
  induction evs with
  | nil => intro c b h; simpa [run, acked] using h
  | cons ev es ih =>
    intro c b h
    have hes : ∀ ev ∈ es, ev.lossFree := fun x hx => hev x (List.mem_cons_of_mem _ hx)
    have h1 := hev ev List.mem_cons_self
    obtain ⟨q, hq, hq2⟩ := h.cw
    obtain ⟨r, hr⟩ := h.rw
    have hmq : (mss : Rat) ≠ 0 := by exact_mod_cast (Nat.pos_iff_ne_zero.mp hm)
    cases ev with
    | ack now len rtt =>
      have k0 := ack_unclamped_exact cb c q r hq hq2 hr (by rw [h.mss]; exact hm) h.ss now len rtt
      have : SS cb mss (c.onAck (exact cb) now len rtt) (b + len) :=
        ⟨by rw [k0.2.2.2.2.1, h.mss], by rw [k0.2.2.1, h.ss], k0.2.1, ⟨r, by rw [k0.2.2.2.1, hr]⟩,
          le_trans k0.1 (Nat.add_le_add_right h.le _)⟩
      have := ih hes _ _ this
      simpa [run, step, acked, Nat.add_assoc] using this
    | setRwnd w =>
      have : SS cb mss (c.setRemoteWindow (exact cb) w) b :=
        ⟨h.mss, h.ss, ⟨q, hq, hq2⟩,
          ⟨(w : Rat) / mss, by simp [Cubic.setRemoteWindow, exact, Cubic.mssF, XR.ofNat, XR.div, h.mss, hmq]⟩, h.le⟩
      have := ih hes _ _ this
      simpa [run, step, acked] using this
    | rto => exact absurd h1 (by simp [Ev.lossFree])
    | enter _ => exact absurd h1 (by simp [Ev.lossFree])
    | recovered _ _ => exact absurd h1 (by simp [Ev.lossFree])
    | setMss _ => exact absurd h1 (by simp [Ev.lossFree])

/-- **C05/C15, slow-start history (exact arithmetic).** From a fresh controller, after ANY sequence of
acknowledgements and window updates with no loss signal in it, `window()` is at most two segments plus the
bytes acknowledged so far. -/
theorem slow_start_history_exact (cb : Rat → Rat) (now mss : Nat) (hm : 0 < mss) (hu : 2 * mss ≤ U64MAX)
    (evs : List Ev) (hev : ∀ ev ∈ evs, ev.lossFree) :
    (run (exact cb) (Cubic.new now mss) evs).window (exact cb) ≤ 2 * mss + acked evs := by
  have h0 : SS cb mss (Cubic.new now mss) (2 * mss) := by
    refine ⟨rfl, rfl, ⟨2, by simp [Cubic.new, Gen.CUBIC_INITIAL_CWND], le_refl _⟩, ⟨0, rfl⟩, ?_⟩
    simp only [unclamped, Cubic.new, Gen.CUBIC_INITIAL_CWND, exact, Cubic.mssF, XR.ofNat, id]
    have : XR.max (.fin ((2 : Nat) : Rat)) Cubic.two = .fin 2 := by
      rw [max_fin_two]; norm_num
    rw [this]
    simp only [XR.mul, id]
    have := toUsize_fin_nat (2 * mss) hu
    push_cast at this
    rw [this]
  exact le_trans (window_le_unclamped _ _) (ss_run cb mss hm evs hev _ _ h0).le

example : acked [.setRwnd 1000000, .ack 0 1000 5, .ack 1 400 5] = 1400 := rfl

/-! ### Slow-start history under the floating-point error model: one extra byte per acknowledgement at most -/

/-- One slow-start ACK under the floating-point error model: the unclamped window grows by at most the bytes
acknowledged plus one; `cwnd` stays finite and ≥ 2; nothing else changes. -/
theorem ack_unclamped_within_one_byte {e : FEnv} {ε : Rat} (R : Rounding e.rnd) (E : RoundErr e.rnd ε)
    (hε : ε * 2 ^ 53 ≤ 1) (c : Cubic) (q r : Rat) (hq : c.cwnd = .fin q) (hq2 : 2 ≤ q) (hr : c.rwnd = .fin r)
    (hm : 0 < c.mss) (hms : c.mss < 2 ^ 53) (hss : c.ssthresh = .pinf) (now len rtt : Nat) (hlen : len < 2 ^ 53)
    (hB : max q 2 * c.mss + len ≤ 2 ^ 50) :
    let c' := c.onAck e now len rtt
    unclamped e c' ≤ unclamped e c + len + 1 ∧ (∃ q', c'.cwnd = .fin q' ∧ 2 ≤ q') ∧
      c'.ssthresh = c.ssthresh ∧ c'.rwnd = c.rwnd ∧ c'.mss = c.mss ∧ c'.rwndBytes = c.rwndBytes := by
  have hq0 : 0 ≤ q := by linarith
  have hmq : (c.mss : Rat) ≠ 0 := by exact_mod_cast (Nat.pos_iff_ne_zero.mp hm)
  have hmp : (0 : Rat) < c.mss := by exact_mod_cast hm
  have hε0 := E.pos
  have hlt : XR.lt c.cwnd c.ssthresh = true := by simp [hq, hss, XR.lt]
  simp only [Cubic.onAck, Cubic.onAckWith]
  split
  · exact ⟨by omega, ⟨q, hq, hq2⟩, rfl, rfl, rfl, rfl⟩
  split
  · exact ⟨by omega, ⟨q, hq, hq2⟩, rfl, rfl, rfl, rfl⟩
  have hmssF : c.mssF e = .fin (c.mss : Rat) := mssF_eq R c hms
  have ha0 : 0 ≤ e.rnd ((len : Rat) / c.mss) := R.nonneg (by positivity)
  have hs0 : 0 ≤ e.rnd (q + e.rnd ((len : Rat) / c.mss)) := R.nonneg (by positivity)
  have hcl : ∃ y, XR.max (XR.min (.fin (e.rnd (q + e.rnd ((len : Rat) / c.mss)))) (.fin r)) Cubic.two = .fin y ∧
      y ≤ max (e.rnd (q + e.rnd ((len : Rat) / c.mss))) 2 ∧ 2 ≤ y := by
    by_cases h : r < e.rnd (q + e.rnd ((len : Rat) / c.mss))
    · exact ⟨max r 2, by simp [XR.min, XR.lt, h, max_fin_two], max_le_max (le_of_lt h) (le_refl _), le_max_right _ _⟩
    · exact ⟨max (e.rnd (q + e.rnd ((len : Rat) / c.mss))) 2, by simp [XR.min, XR.lt, h, max_fin_two], le_refl _, le_max_right _ _⟩
  obtain ⟨y, hy, hyle, hy2⟩ := hcl
  have hgoal : toUsize (.fin (e.rnd (max y 2 * (c.mss : Rat)))) ≤ toUsize (.fin (e.rnd (max q 2 * (c.mss : Rat)))) + len + 1 := by
    have hM0 : 0 ≤ max q 2 * (c.mss : Rat) := by positivity
    have hl0 : (0 : Rat) ≤ len := by positivity
    have key := growth_key ε c.mss q len (e.rnd ((len : Rat) / c.mss)) (e.rnd (q + e.rnd ((len : Rat) / c.mss))) (max y 2)
      (e.rnd (max q 2 * (c.mss : Rat))) (e.rnd (max y 2 * (c.mss : Rat))) hε0 hε hmp hq0 hl0 ha0
      (E.le (by positivity)) (E.le (by positivity)) (le_max_right _ _) (max_le hyle (le_max_right _ _))
      (E.le (by positivity)) (E.ge hM0) (fun h => R.mono h) hB
    have hP0 : 0 ≤ e.rnd (max q 2 * (c.mss : Rat)) := R.nonneg hM0
    have hP'0 : 0 ≤ e.rnd (max y 2 * (c.mss : Rat)) := R.nonneg (by positivity)
    have hε1 : ε ≤ 1 := by nlinarith [hε, hε0]
    have hPle : e.rnd (max q 2 * (c.mss : Rat)) ≤ 2 ^ 50 * 2 := by
      have := E.le (rnd := e.rnd) hM0
      nlinarith
    have hlK : (len : Rat) ≤ 2 ^ 50 := by linarith
    have h64 : (2 : Rat) ^ 50 * 2 + 2 ^ 50 + 1 < (U64MAX : Rat) := by simp only [U64MAX]; norm_num
    exact toUsize_step len hP0 hP'0 (by linarith) (by linarith) key
  refine ⟨?_, ?_, rfl, rfl, rfl, rfl⟩
  · simp only [hq, hr, XR.ofNat, R.exactNat len hlen, XR.div, hmq, if_false, XR.add, unclamped, Cubic.mssF,
      R.exactNat c.mss hms, hy, max_fin_two, XR.mul]
    exact hgoal
  · simp only [hq, hr, XR.ofNat, R.exactNat len hlen, XR.div, hmq, if_false, XR.add, Cubic.mssF,
      R.exactNat c.mss hms, hy]
    exact ⟨y, rfl, hy2⟩

theorem lt_of_toUsize_le {P : Rat} {b : Nat} (hP : 0 ≤ P) (hb : b < U64MAX) (h : toUsize (.fin P) ≤ b) : P < b + 1 := by
  have h0 : ¬ (P < 0) := not_lt.mpr hP
  simp only [toUsize, h0, if_false] at h
  have hf : P.floor.toNat ≤ b := by
    simp only [Nat.min_def] at h
    split at h <;> omega
  have hfl0 : 0 ≤ P.floor := by rw [floor_eq]; exact Int.floor_nonneg.mpr hP
  have h2 : P < ((P.floor + 1 : Int) : Rat) := Rat.lt_floor_add_one P
  have h3 : P.floor + 1 ≤ (b : Int) + 1 := by omega
  have h4 : ((P.floor + 1 : Int) : Rat) ≤ ((b : Int) + 1 : Int) := by exact_mod_cast h3
  push_cast at h4 h2
  linarith

structure SSf (e : FEnv) (mss : Nat) (c : Cubic) (budget : Nat) : Prop where
  mss : c.mss = mss
  ss : c.ssthresh = .pinf
  cw : ∃ q, c.cwnd = .fin q ∧ 2 ≤ q
  rw : ∃ r, c.rwnd = .fin r
  le : unclamped e c ≤ budget

def maxLen : List Ev → Nat
  | [] => 0
  | .ack _ len _ :: es => max len (maxLen es)
  | _ :: es => maxLen es

theorem ssf_run {e : FEnv} {ε : Rat} (R : Rounding e.rnd) (E : RoundErr e.rnd ε) (hε : ε * 2 ^ 53 ≤ 1)
    (mss : Nat) (hm : 0 < mss) (hms : mss < 2 ^ 53) (evs : List Ev) (hev : ∀ ev ∈ evs, ev.lossFree) :
    ∀ (c : Cubic) (b : Nat), SSf e mss c b → 2 * (b + acked evs + evs.length + 1) + maxLen evs ≤ 2 ^ 50 →
      SSf e mss (run e c evs) (b + acked evs + evs.length) := by
  induction evs with
  | nil => intro c b h _; simpa [run, acked] using h
  | cons ev es ih =>
    intro c b h hbig
    have hes : ∀ ev ∈ es, ev.lossFree := fun x hx => hev x (List.mem_cons_of_mem _ hx)
    have h1 := hev ev List.mem_cons_self
    obtain ⟨q, hq, hq2⟩ := h.cw
    obtain ⟨r, hr⟩ := h.rw
    have hmq : (mss : Rat) ≠ 0 := by exact_mod_cast (Nat.pos_iff_ne_zero.mp hm)
    cases ev with
    | ack now len rtt =>
      simp only [acked, maxLen, List.length_cons] at hbig
      have hlen : len < 2 ^ 53 := by
        have : len ≤ 2 ^ 50 := by omega
        omega
      -- magnitude bound for this step
      have hε0 := E.pos
      have hε1 : ε ≤ 1 / 2 := by nlinarith [hε, hε0]
      have hM0 : 0 ≤ max q 2 * (c.mss : Rat) := by positivity
      have hP : e.rnd (max q 2 * (c.mss : Rat)) < b + 1 := by
        apply lt_of_toUsize_le (R.nonneg hM0) (by simp only [U64MAX]; omega)
        have := h.le
        simp only [unclamped, hq, max_fin_two, mssF_eq R c (by rw [h.mss]; exact hms), XR.mul] at this
        exact this
      have hge := E.ge (rnd := e.rnd) hM0
      have hB : max q 2 * (c.mss : Rat) + len ≤ 2 ^ 50 := by
        have h2 : max q 2 * (c.mss : Rat) ≤ 2 * ((b : Rat) + 1) := by nlinarith
        have h3 : (2 * ((b : Rat) + 1) + len : Rat) ≤ 2 ^ 50 := by
          have : 2 * (b + 1) + len ≤ 2 ^ 50 := by omega
          exact_mod_cast this
        linarith
      have k0 := ack_unclamped_within_one_byte R E hε c q r hq hq2 hr (by rw [h.mss]; exact hm) (by rw [h.mss]; exact hms)
        h.ss now len rtt hlen hB
      have hnext : SSf e mss (c.onAck e now len rtt) (b + len + 1) :=
        ⟨by rw [k0.2.2.2.2.1, h.mss], by rw [k0.2.2.1, h.ss], k0.2.1, ⟨r, by rw [k0.2.2.2.1, hr]⟩,
          le_trans k0.1 (by have := h.le; omega)⟩
      have := ih hes _ _ hnext (by omega)
      have e1 : b + len + 1 + acked es + es.length = b + (len + acked es) + (es.length + 1) := by omega
      simpa [run, step, acked, e1] using this
    | setRwnd w =>
      simp only [acked, maxLen, List.length_cons] at hbig
      have hnext : SSf e mss (c.setRemoteWindow e w) b :=
        ⟨h.mss, h.ss, ⟨q, hq, hq2⟩, by
          simp only [Cubic.setRemoteWindow]
          cases hd : XR.div e.rnd (XR.ofNat e.rnd w) (c.mssF e) with
          | fin x => exact ⟨x, rfl⟩
          | _ => simp [XR.div, XR.ofNat, mssF_eq R c (by rw [h.mss]; exact hms), h.mss, hmq] at hd, h.le⟩
      have := ih hes _ _ hnext (by omega)
      have hle : b + acked es + es.length ≤ b + acked es + (es.length + 1) := by omega
      exact ⟨by simpa [run, step] using this.mss, by simpa [run, step] using this.ss, by simpa [run, step] using this.cw,
        by simpa [run, step] using this.rw, le_trans (by simpa [run, step] using this.le) (by simp [acked])⟩
    | rto => exact absurd h1 (by simp [Ev.lossFree])
    | enter _ => exact absurd h1 (by simp [Ev.lossFree])
    | recovered _ _ => exact absurd h1 (by simp [Ev.lossFree])
    | setMss _ => exact absurd h1 (by simp [Ev.lossFree])

/-- **C05/C15, slow-start history under binary64-style rounding.** From a fresh controller, after ANY sequence of
acknowledgements and window updates with no loss signal in it, `window()` is at most two segments plus the bytes
acknowledged so far plus ONE byte per acknowledgement processed (D15 shows the extra byte does occur) - for every
rounding operator with relative error ≤ 2⁻⁵³ and totals below 2⁴⁸. -/
theorem slow_start_history_within_one_byte_per_ack {e : FEnv} {ε : Rat} (R : Rounding e.rnd) (E : RoundErr e.rnd ε)
    (hε : ε * 2 ^ 53 ≤ 1) (now mss : Nat) (hm : 0 < mss)
    (evs : List Ev) (hev : ∀ ev ∈ evs, ev.lossFree)
    (hbig : 2 * (2 * mss + acked evs + evs.length + 1) + maxLen evs ≤ 2 ^ 50) :
    (run e (Cubic.new now mss) evs).window e ≤ 2 * mss + acked evs + evs.length := by
  have hms : mss < 2 ^ 53 := by omega
  have h0 : SSf e mss (Cubic.new now mss) (2 * mss) := by
    refine ⟨rfl, rfl, ⟨2, by simp [Cubic.new, Gen.CUBIC_INITIAL_CWND], le_refl _⟩, ⟨0, rfl⟩, ?_⟩
    have hmF : (Cubic.new now mss).mssF e = .fin (mss : Rat) := mssF_eq R _ hms
    simp only [unclamped, hmF]
    simp only [Cubic.new, Gen.CUBIC_INITIAL_CWND]
    have : XR.max (.fin ((2 : Nat) : Rat)) Cubic.two = .fin 2 := by
      rw [max_fin_two]; norm_num
    rw [this]
    simp only [XR.mul]
    have h2 : (2 : Rat) * (mss : Rat) = ((2 * mss : Nat) : Rat) := by push_cast; ring
    rw [h2, R.exactNat (2 * mss) (by omega), toUsize_fin_nat (2 * mss) (by simp only [U64MAX]; omega)]
  exact le_trans (window_le_unclamped _ _) (ssf_run R E hε mss hm hms evs hev _ _ h0 hbig).le

/-! ### Non-vacuity -/

example : RoundErr id 0 := ⟨le_refl _, fun x => by simp⟩


example : Inv (exact id) (Cubic.new 0 1400) := new_inv _ rounding_id 0 1400 (by norm_num) (by norm_num)

example : (run (exact id) (Cubic.new 0 1400) [.setRwnd 100000, .ack 5 1400 50]).window (exact id) = 4200 := by
  decide +kernel

/-! ### Known finding D15: with binary64 rounding the slow-start clause is FALSE (by one byte)

Negation witness, evaluated by the kernel with the executable round-to-nearest-even `rnd53`: MSS 1432, peer
window 1 MiB; an ACK of 1 byte leaves `window()` at 2864, the next ACK of 1432 bytes takes it to 4297:
growth 1433 > 1432. The same four operations are replayed on the implementation on every run
(`corpus/cubic/known_d15_slow_start_rounding.ops`). -/

def d15Before : Cubic := run fenv53 (Cubic.new 0 1432) [.setRwnd 1048576, .ack 0 1 50000000]

theorem d15_slow_start_exceeds_by_one_byte :
    d15Before.window fenv53 = 2864 ∧ XR.lt d15Before.cwnd d15Before.ssthresh = true ∧
    (d15Before.onAck fenv53 0 1432 50000000).window fenv53 = 2864 + 1432 + 1 := by
  decide +kernel

end UtpVerif.Props.C15
