import UtpVerif.Lemmas.Rx
import UtpVerif.Props.C09
import UtpVerif.Model.Segments
/-!
# C01 (end to end) — what the application reads is a prefix of what was written

The receiving endpoint's reassembly (`Model/Rx.lean`: out-of-order queue, flush into the reader's queue, the
reader's `poll_read` with partially read messages) is composed here into ONE theorem over an adversarial
network and an arbitrary reader: the event list is arbitrary, so every data packet may arrive any number of
times, in any order, or never, interleaved in any way with flushes and reads of any size.

`pkt g` is the payload of the `g`-th data packet of the connection (ghost index = sequence number minus the
initial one; the 16-bit arithmetic that computes offsets from real sequence numbers is C09's subject). The
sender-side theorems (`C01.wire_payload_is_stream_slice`, `C06.content_stable_*`) say that packet `g` always
carries the same slice of the written stream and that slices are consecutive; `consecutive_slices` turns that
into the labelling hypothesis, so the last theorem speaks about the written stream itself.

The step from real 16-bit sequence numbers to ghost indices is `offset_of_real_sequence_numbers` (with C09).
What is NOT covered here: FIN/EOF and error items (C17, C03) and the known finding D2 (a re-split probe breaks
the sender's labelling).
-/
namespace UtpVerif.Props.C01E2E
open UtpVerif.Model UtpVerif.Gen UtpVerif.Lemmas.Rx UtpVerif.Props.C09

/-- the stream the packets make up: packets `0 … n-1` one after the other -/
def concatUpTo (pkt : Nat → List Nat) : Nat → List Nat
  | 0 => []
  | n + 1 => concatUpTo pkt n ++ pkt n

def qBytes : List UserMsg → List Nat
  | [] => []
  | .payload b :: t => b ++ qBytes t
  | _ :: t => qBytes t

def curRest (r : Rx) : List Nat := match r.current with | some (p, off) => p.drop off | none => []

/-- every occupied slot holds the packet of its position (`base` = ghost index of slot 0) -/
def SlotsOk (pkt : Nat → List Nat) (base : Nat) (q : Ooq) : Prop :=
  ∀ (i : Nat) (m : OoqMsg), q.data[i]? = some m → m.isDefault = false → m = OoqMsg.payload (pkt (base + i))

theorem sendFront_content (pkt : Nat → List Nat) (base : Nat) (q q' : Ooq) (win : Nat) (acc : Bool) (m : OoqMsg)
    (hi : OoqInv q) (hs : SlotsOk pkt base q) (h : q.sendFrontIfFits win acc = (q', some m)) :
    m = OoqMsg.payload (pkt base) ∧ SlotsOk pkt (base + 1) q' := by
  unfold Ooq.sendFrontIfFits at h
  split at h
  · simp at h
  · rename_i hff
    split at h
    · simp at h
    · rename_i m0 rest hd
      split at h
      · simp at h
      · split at h
        · simp at h
        · simp only [Prod.mk.injEq, Option.some.injEq] at h
          obtain ⟨rfl, rfl⟩ := h
          have h0 : q.data[0]? = some m0 := by rw [hd]; rfl
          have hnd : m0.isDefault = false := hi.front_full 0 (by omega) m0 h0
          have hm := hs 0 m0 h0 hnd
          refine ⟨by simpa using hm, ?_⟩
          intro i m hmi hmd
          simp only at hmi
          by_cases hlt : i < rest.length
          · rw [List.getElem?_append_left hlt] at hmi
            have : q.data[i + 1]? = some m := by rw [hd]; simpa using hmi
            have := hs (i + 1) m this hmd
            rw [this]; congr 2; omega
          · rw [List.getElem?_append_right (by omega)] at hmi
            have : m = OoqMsg.default := by
              cases hk : i - rest.length with
              | zero => simpa [hk] using hmi.symm
              | succ k => simp [hk] at hmi
            rw [this] at hmd; simp [OoqMsg.default, OoqMsg.isDefault] at hmd

/-- the reader-side state is consistent with the packet stream: slots hold their packets, and everything
handed towards the reader so far (already read ++ partially read message ++ queued messages) is exactly
packets `0 … base-1` in order -/
structure E2E (pkt : Nat → List Nat) (base : Nat) (out : List Nat) (r : Rx) : Prop where
  inv : OoqInv r.ooq
  slots : SlotsOk pkt base r.ooq
  handed : out ++ curRest r ++ qBytes r.queue = concatUpTo pkt base
  pure : ∀ m ∈ r.queue, ∃ b, m = UserMsg.payload b ∧ b ≠ []
  cur : ∀ p off, r.current = some (p, off) → off < p.length
  notEof : r.isEof = false

theorem qBytes_append (a : List UserMsg) (b : List Nat) : qBytes (a ++ [UserMsg.payload b]) = qBytes a ++ b := by
  induction a with
  | nil => simp [qBytes]
  | cons x xs ih => cases x <;> simp [qBytes, ih]

theorem flushLoop_content (pkt : Nat → List Nat) (fuel : Nat) (base : Nat) (out : List Nat) (r : Rx) (win fl pk : Nat)
    (r2 : Rx) (win2 fl2 pk2 : Nat) (h : E2E pkt base out r)
    (hf : Rx.flushLoop fuel r win fl pk = some (r2, win2, fl2, pk2)) :
    ∃ k, E2E pkt (base + k) out r2 ∧ r2.ooq.filledFront + k = r.ooq.filledFront := by
  induction fuel generalizing r base win fl pk with
  | zero =>
    simp only [Rx.flushLoop, Option.some.injEq, Prod.mk.injEq] at hf
    exact ⟨0, by rw [← hf.1]; exact h, by rw [← hf.1]; rfl⟩
  | succ n ih =>
    unfold Rx.flushLoop at hf
    cases hsf : r.ooq.sendFrontIfFits win (!r.readerDropped) with
    | mk q' om =>
      rw [hsf] at hf
      cases om with
      | none =>
        simp only [Option.some.injEq, Prod.mk.injEq] at hf
        exact ⟨0, by rw [← hf.1]; exact h, by rw [← hf.1]; rfl⟩
      | some m =>
        simp only at hf
        split at hf
        · cases hf
        · obtain ⟨hm, hs'⟩ := sendFront_content pkt base r.ooq q' win _ m h.inv h.slots hsf
          have hinv' : OoqInv q' := by
            have := (sendFront_inv r.ooq win (!r.readerDropped) h.inv).1
            rw [hsf] at this; exact this
          have hnd : m.isDefault = false := by
            have := ((sendFront_inv r.ooq win (!r.readerDropped) h.inv).2.1 m (by rw [hsf])).2.1
            exact this
          have hne : pkt base ≠ [] := by
            rw [hm] at hnd; simpa [OoqMsg.isDefault] using hnd
          have h' : E2E pkt (base + 1) out { r with ooq := q', queue := r.queue ++ [Rx.toUser m], qLenBytes := r.qLenBytes + m.lenBytes } := by
            refine ⟨hinv', hs', ?_, ?_, h.cur, h.notEof⟩
            · show out ++ curRest r ++ qBytes (r.queue ++ [Rx.toUser m]) = concatUpTo pkt (base + 1)
              rw [hm]; simp only [Rx.toUser, qBytes_append, concatUpTo]
              rw [← h.handed]; simp [List.append_assoc]
            · intro x hx
              rcases List.mem_append.mp hx with hx | hx
              · exact h.pure x hx
              · simp only [List.mem_singleton] at hx
                rw [hx, hm]; exact ⟨pkt base, rfl, hne⟩
          have hff : q'.filledFront = r.ooq.filledFront - 1 ∧ 0 < r.ooq.filledFront := by
            have := ((sendFront_inv r.ooq win (!r.readerDropped) h.inv).2.1 m (by rw [hsf]))
            rw [hsf] at this
            exact ⟨this.2.2.2.2.2.1, this.2.2.2.2.1⟩
          obtain ⟨k, hk, hk2⟩ := ih (base + 1) _ _ _ _ h' hf
          exact ⟨1 + k, by rw [← Nat.add_assoc]; exact hk, by simp only at hk2; omega⟩

/-- the invariant does not look at wakers, window bookkeeping or byte counters -/
theorem E2E.congr {pkt : Nat → List Nat} {base : Nat} {out : List Nat} {r r' : Rx} (h : E2E pkt base out r)
    (h1 : r'.ooq = r.ooq) (h2 : r'.queue = r.queue) (h3 : r'.current = r.current) (h4 : r'.isEof = r.isEof) :
    E2E pkt base out r' := by
  refine ⟨by rw [h1]; exact h.inv, by rw [h1]; exact h.slots, ?_, by rw [h2]; exact h.pure, by rw [h3]; exact h.cur, by rw [h4]; exact h.notEof⟩
  have : curRest r' = curRest r := by simp only [curRest, h3]
  rw [this, h2]; exact h.handed

theorem flush_content (pkt : Nat → List Nat) (base : Nat) (out : List Nat) (r r' : Rx) (n : Nat) (ws : List Wake)
    (h : E2E pkt base out r) (hf : r.flush = some (r', n, ws)) :
    ∃ k, E2E pkt (base + k) out r' ∧ r'.ooq.filledFront + k = r.ooq.filledFront := by
  unfold Rx.flush at hf
  dsimp only at hf
  split at hf
  · cases hf
  · rename_i r2 win fl pk hfl
    have h1 : E2E pkt base out (if r.queueWindow - r.ooq.filledFrontBytes < r.maxIncomingPayload then { r with dispatcherWaker := true } else r) := by
      split
      · exact h.congr rfl rfl rfl rfl
      · exact h
    obtain ⟨k, hk, hk2⟩ := flushLoop_content pkt _ base out _ _ _ _ _ _ _ _ h1 hfl
    have hk3 : r2.ooq.filledFront + k = r.ooq.filledFront := by
      rw [hk2]; split <;> rfl
    refine ⟨k, ?_, ?_⟩
    · simp only [Option.some.injEq, Prod.mk.injEq] at hf
      obtain ⟨rfl, _, _⟩ := hf
      split
      · exact hk.congr rfl rfl rfl rfl
      · exact hk.congr rfl rfl rfl rfl
    · simp only [Option.some.injEq, Prod.mk.injEq] at hf
      obtain ⟨rfl, _, _⟩ := hf
      split <;> exact hk3

theorem store_content (pkt : Nat → List Nat) (base : Nat) (q : Ooq) (eff : Nat) (g : Nat)
    (hs : SlotsOk pkt base q) (hg : g = base + eff) :
    SlotsOk pkt base (q.store eff (OoqMsg.payload (pkt g))).1 := by
  intro i m hmi hmd
  simp only [Ooq.store] at hmi
  by_cases hie : i = eff
  · subst hie
    by_cases hlt : i < q.data.length
    · rw [List.getElem?_set_self hlt] at hmi
      simp only [Option.some.injEq] at hmi
      rw [← hmi, hg]
    · rw [List.getElem?_eq_none (by simp; omega)] at hmi; cases hmi
  · rw [List.getElem?_set_ne (by omega)] at hmi
    exact hs i m hmi hmd

def seqsOf : AddRemove → Nat
  | .consumed s _ => s
  | _ => 0

theorem ooq_addRemove_front (q : Ooq) (ty : Nat) (payload : List Nat) (off : Nat) :
    (q.addRemove ty payload off).1.filledFront = q.filledFront + seqsOf (q.addRemove ty payload off).2 := by
  unfold Ooq.addRemove
  cases q.classify ty payload off <;> simp [seqsOf, Ooq.store]

/-- one data packet with ghost index `g` arrives (any `g` at or beyond the first missing one); `lc` is the
dispatcher's count of consumed packets (`last_consumed_remote_seq_nr` as a ghost index) -/
theorem arrive_content (pkt : Nat → List Nat) (base : Nat) (out : List Nat) (r r' : Rx) (g : Nat) (res : AddRemove) (ws : List Wake)
    (h : E2E pkt base out r) (hg : base + r.ooq.filledFront ≤ g)
    (ha : r.addRemove TYPE_ST_DATA (pkt g) (g - (base + r.ooq.filledFront)) = some (r', res, ws)) :
    ∃ k, E2E pkt (base + k) out r' ∧ (base + k) + r'.ooq.filledFront = base + r.ooq.filledFront + seqsOf res := by
  unfold Rx.addRemove at ha
  have hq : OoqInv (r.ooq.addRemove TYPE_ST_DATA (pkt g) (g - (base + r.ooq.filledFront))).1 ∧
      SlotsOk pkt base (r.ooq.addRemove TYPE_ST_DATA (pkt g) (g - (base + r.ooq.filledFront))).1 := by
    refine ⟨(addRemove_inv _ _ _ _ h.inv).1, ?_⟩
    unfold Ooq.addRemove
    cases hc : r.ooq.classify TYPE_ST_DATA (pkt g) (g - (base + r.ooq.filledFront)) with
    | store eff msg =>
      obtain ⟨he, _, _, _, _, hmsg⟩ := classify_store _ _ _ _ _ _ hc
      simp only [if_true] at hmsg
      subst hmsg
      exact store_content pkt base r.ooq eff g h.slots (by omega)
    | _ => exact h.slots
  have hfront := ooq_addRemove_front r.ooq TYPE_ST_DATA (pkt g) (g - (base + r.ooq.filledFront))
  generalize r.ooq.addRemove TYPE_ST_DATA (pkt g) (g - (base + r.ooq.filledFront)) = p at ha hq hfront
  obtain ⟨ooq', res0⟩ := p
  have h1 : E2E pkt base out { r with ooq := ooq' } :=
    ⟨hq.1, hq.2, h.handed, h.pure, h.cur, h.notEof⟩
  dsimp only at ha hfront
  split at ha
  · split at ha
    · split at ha
      · cases ha
      · rename_i r2 n2 ws2 hfl
        simp only [Option.some.injEq, Prod.mk.injEq] at ha
        obtain ⟨rfl, rfl, _⟩ := ha
        obtain ⟨k, hk, hk2⟩ := flush_content pkt base out _ _ _ _ h1 hfl
        exact ⟨k, hk, by simp only at hk2; omega⟩
    · simp only [Option.some.injEq, Prod.mk.injEq] at ha
      obtain ⟨rfl, rfl, _⟩ := ha
      exact ⟨0, h1, by simp only; omega⟩
  · simp only [Option.some.injEq, Prod.mk.injEq] at ha
    obtain ⟨rfl, rfl, _⟩ := ha
    exact ⟨0, h1, by simp only; omega⟩

theorem readLoop_content (fuel : Nat) (r : Rx) (room : Nat) (acc : List Nat)
    (hp : ∀ m ∈ r.queue, ∃ b, m = UserMsg.payload b ∧ b ≠ []) (hc : ∀ p off, r.current = some (p, off) → off < p.length)
    (he : r.isEof = false) :
    (Rx.readLoop fuel r room acc).2.1 ++ curRest (Rx.readLoop fuel r room acc).1 ++ qBytes (Rx.readLoop fuel r room acc).1.queue =
      acc ++ curRest r ++ qBytes r.queue ∧
    (Rx.readLoop fuel r room acc).1.ooq = r.ooq ∧ (∀ m ∈ (Rx.readLoop fuel r room acc).1.queue, ∃ b, m = UserMsg.payload b ∧ b ≠ []) ∧
    (∀ p off, (Rx.readLoop fuel r room acc).1.current = some (p, off) → off < p.length) ∧ (Rx.readLoop fuel r room acc).1.isEof = false ∧
    ((Rx.readLoop fuel r room acc).2.2 = .done ∨ (Rx.readLoop fuel r room acc).2.2 = .deadDispatcher) := by
  fun_induction Rx.readLoop fuel r room acc with
  | case1 r room acc => exact ⟨rfl, rfl, hp, hc, he, Or.inl rfl⟩
  | case2 fuel r acc => exact ⟨rfl, rfl, hp, hc, he, Or.inl rfl⟩
  | case3 fuel r room acc hroom payload off hcur rest hrest =>
    -- the partially read message has no bytes left: excluded by `off < payload.length`
    have := hc payload off hcur
    simp only [rest, List.isEmpty_iff, List.drop_eq_nil_iff] at hrest
    omega
  | case4 fuel r room acc hroom payload off hcur rest hrest n off' r' ih =>
    have hoff := hc payload off hcur
    have hlen : rest.length = payload.length - off := by simp [rest]
    have hn : 1 ≤ n := by simp only [n]; omega
    have hcr' : curRest r' = payload.drop off' := by
      simp only [curRest, r']
      split
      · rename_i heq
        split at heq
        · cases heq
        · simp only [Option.some.injEq, Prod.mk.injEq] at heq; obtain ⟨rfl, rfl⟩ := heq; rfl
      · rename_i heq
        split at heq
        · rename_i hfull; rw [hfull]; simp
        · cases heq
    obtain ⟨h1, h2, h3, h4, h5, h6⟩ := ih hp
      (by
        intro p' o' hco
        simp only [r'] at hco
        split at hco
        · cases hco
        · simp only [Option.some.injEq, Prod.mk.injEq] at hco
          obtain ⟨rfl, rfl⟩ := hco
          simp only [off', n] at *; omega)
      he
    refine ⟨?_, h2, h3, h4, h5, h6⟩
    rw [h1, hcr']
    have hcr : curRest r = payload.drop off := by simp only [curRest, hcur]
    rw [hcr]
    have hsplit : rest.take n ++ payload.drop off' = payload.drop off := by
      simp only [off', rest]; rw [← List.drop_drop]; exact List.take_append_drop _ _
    show acc ++ rest.take n ++ payload.drop off' ++ qBytes r.queue = _
    simp only [List.append_assoc]
    rw [← List.append_assoc (rest.take n), hsplit]
  | case5 fuel r room acc hroom hcur heof => rw [he] at heof; cases heof
  | case6 fuel r room acc hroom hcur heof q' hq r' =>
    obtain ⟨b, hb, _⟩ := hp UserMsg.eof (by rw [hq]; simp)
    cases hb
  | case7 fuel r room acc hroom hcur heof q' p hq r' ih =>
    obtain ⟨b, hb, hbne⟩ := hp (UserMsg.payload p) (by rw [hq]; simp)
    simp only [UserMsg.payload.injEq] at hb
    subst hb
    obtain ⟨h1, h2, h3, h4, h5, h6⟩ := ih
      (by intro x hx; exact hp x (by rw [hq]; exact List.mem_cons_of_mem _ hx))
      (by
        intro p' o' hco
        simp only [Option.some.injEq, Prod.mk.injEq] at hco
        obtain ⟨rfl, rfl⟩ := hco
        exact List.length_pos_iff.mpr hbne)
      he
    refine ⟨?_, h2, h3, h4, h5, h6⟩
    rw [h1]
    simp [curRest, hcur, hq, qBytes, r']
  | case8 fuel r room acc hroom hcur heof q' msg hq r' =>
    obtain ⟨b, hb, _⟩ := hp (UserMsg.error msg) (by rw [hq]; simp)
    cases hb
  | case9 fuel r room acc hroom hcur heof hq hclosed =>
    exact ⟨rfl, rfl, hp, hc, he, Or.inr rfl⟩
  | case10 fuel r room acc hroom hcur heof hq hclosed =>
    exact ⟨by simp [curRest, hcur], rfl, hp, by simp [hcur], he, Or.inl rfl⟩

theorem pollRead_content (pkt : Nat → List Nat) (base : Nat) (out : List Nat) (r : Rx) (n : Nat)
    (h : E2E pkt base out r) :
    let res := r.pollRead n
    let got := match res.2.1 with | .data b => b | _ => []
    E2E pkt base (out ++ got) res.1 ∧ res.1.ooq = r.ooq := by
  have hl := readLoop_content (2 * (r.queue.length + 2) + 1) r n [] h.pure h.cur h.notEof
  simp only [Rx.pollRead]
  generalize Rx.readLoop (2 * (r.queue.length + 2) + 1) r n [] = rl at hl
  obtain ⟨r1, bytes, ex⟩ := rl
  obtain ⟨h1, h2, h3, h4, h5, h6⟩ := hl
  simp only at h1 h2 h3 h4 h5 h6
  have hbase : ∀ (r1' : Rx), r1'.ooq = r1.ooq → r1'.queue = r1.queue → r1'.current = r1.current → r1'.isEof = r1.isEof →
      E2E pkt base (out ++ bytes) r1' := by
    intro r1' e1 e2 e3 e4
    refine ⟨by rw [e1, h2]; exact h.inv, by rw [e1, h2]; exact h.slots, ?_, by rw [e2]; exact h3, by rw [e3]; exact h4, by rw [e4]; exact h5⟩
    have hc : curRest r1' = curRest r1 := by simp only [curRest, e3]
    rw [hc, e2, List.append_assoc, List.append_assoc, ← List.append_assoc bytes, h1, ← h.handed]
    simp [List.append_assoc]
  have hex : ex ≠ Rx.LoopExit.bug ∧ ∀ msg, ex ≠ Rx.LoopExit.err msg := by
    rcases h6 with rfl | rfl <;> exact ⟨by simp, by simp⟩
  by_cases hlen : bytes.length > 0
  · by_cases hd : r1.dispatcherWaker = true
    · rcases h6 with rfl | rfl <;> simp only [hlen, hd, if_true] <;> exact ⟨hbase _ rfl rfl rfl rfl, h2⟩
    · rcases h6 with rfl | rfl <;> simp only [hlen, hd, if_true] <;> exact ⟨hbase _ rfl rfl rfl rfl, h2⟩
  · have hb : bytes = [] := by
      cases bytes with
      | nil => rfl
      | cons _ _ => simp at hlen
    subst hb
    have hb0 := hbase r1 rfl rfl rfl rfl
    simp only [List.append_nil] at hb0
    rcases h6 with rfl | rfl <;> simp [h5] <;> exact ⟨hb0, h2⟩

/-! ### The end-to-end system: any network, any reader schedule -/

/-- What can happen at the receiving endpoint. `arrive g` = the network delivers (a copy of) data packet `g`
now - any `g`, any number of times, in any order, or never: loss, duplication, reordering and delay are all
just choices of the event list. -/
inductive Ev where
  | arrive (g : Nat)
  | flush
  | read (n : Nat)

/-- receiver + the dispatcher's consumed-packet counter + everything the application has read so far -/
structure Sys where
  r : Rx
  lc : Nat
  out : List Nat

/-- one event; `none` = the model panics (excluded separately by C04/C10) -/
def Sys.step (pkt : Nat → List Nat) (s : Sys) : Ev → Option Sys
  | .arrive g =>
    if g < s.lc then some s          -- already consumed: the connection ignores it (offset < 0), only re-ACKs
    else match s.r.addRemove TYPE_ST_DATA (pkt g) (g - s.lc) with
      | none => none
      | some (r', res, _) => some { s with r := r', lc := s.lc + seqsOf res }
  | .flush =>
    match s.r.flush with
    | none => none
    | some (r', _, _) => some { s with r := r' }
  | .read n =>
    let res := s.r.pollRead n
    some { s with r := res.1, out := s.out ++ (match res.2.1 with | .data b => b | _ => []) }

def Sys.run (pkt : Nat → List Nat) (s : Sys) : List Ev → Option Sys
  | [] => some s
  | ev :: evs => (s.step pkt ev).bind (fun s' => Sys.run pkt s' evs)

def Good (pkt : Nat → List Nat) (s : Sys) : Prop := ∃ base, E2E pkt base s.out s.r ∧ s.lc = base + s.r.ooq.filledFront

theorem step_good (pkt : Nat → List Nat) (s s' : Sys) (ev : Ev) (h : Good pkt s) (hs : s.step pkt ev = some s') : Good pkt s' := by
  obtain ⟨base, hE, hlc⟩ := h
  cases ev with
  | arrive g =>
    simp only [Sys.step] at hs
    split at hs
    · simp only [Option.some.injEq] at hs; subst hs; exact ⟨base, hE, hlc⟩
    · rename_i hge
      split at hs
      · cases hs
      · rename_i r' res ws ha
        simp only [Option.some.injEq] at hs; subst hs
        rw [hlc] at ha
        obtain ⟨k, hk, hk2⟩ := arrive_content pkt base s.out s.r r' g res ws hE (by omega) ha
        exact ⟨base + k, hk, by simp only; omega⟩
  | flush =>
    simp only [Sys.step] at hs
    split at hs
    · cases hs
    · rename_i r' n ws hf
      simp only [Option.some.injEq] at hs; subst hs
      obtain ⟨k, hk, hk2⟩ := flush_content pkt base s.out s.r r' n ws hE hf
      exact ⟨base + k, hk, by simp only; omega⟩
  | read n =>
    simp only [Sys.step, Option.some.injEq] at hs; subst hs
    obtain ⟨h1, h2⟩ := pollRead_content pkt base s.out s.r n hE
    exact ⟨base, h1, by simp only; rw [h2]; exact hlc⟩

theorem run_good (pkt : Nat → List Nat) (s s' : Sys) (evs : List Ev) (h : Good pkt s) (hr : s.run pkt evs = some s') : Good pkt s' := by
  induction evs generalizing s with
  | nil => simp only [Sys.run, Option.some.injEq] at hr; subst hr; exact h
  | cons ev evs ih =>
    simp only [Sys.run] at hr
    cases hs : s.step pkt ev with
    | none => rw [hs] at hr; cases hr
    | some s1 => rw [hs] at hr; exact ih s1 (step_good pkt s s1 ev h hs) hr

theorem concatUpTo_prefix (pkt : Nat → List Nat) (a b : Nat) (h : a ≤ b) : concatUpTo pkt a <+: concatUpTo pkt b := by
  induction b with
  | zero => have : a = 0 := by omega
            subst this; exact List.prefix_refl _
  | succ n ih =>
    by_cases ha : a = n + 1
    · subst ha; exact List.prefix_refl _
    · exact List.IsPrefix.trans (ih (by omega)) (List.prefix_append _ _)

/-- fresh receive side, as `UserRx::build` makes it -/
def Sys.init (maxRxBytes mss : Nat) : Sys := { r := Rx.build maxRxBytes mss, lc := 0, out := [] }

/-- **End-to-end byte-stream integrity, receiving side**: let `pkt g` be the payload of the `g`-th data packet
of a connection. Whatever the network does (every data packet may arrive any number of times, in any order,
or never - the event list is arbitrary), whatever the reader's schedule and read sizes, and whenever flushes
happen: the bytes the application has read are, at every moment, a prefix of `pkt 0 ++ pkt 1 ++ pkt 2 ++ …` -
nothing lost in the middle, nothing duplicated, nothing reordered, for every buffer configuration. -/
theorem reader_gets_prefix_of_packet_stream (pkt : Nat → List Nat) (maxRxBytes mss : Nat) (evs : List Ev) (s' : Sys)
    (hr : (Sys.init maxRxBytes mss).run pkt evs = some s') :
    ∃ n, s'.out <+: concatUpTo pkt n := by
  have h0 : Good pkt (Sys.init maxRxBytes mss) := by
    refine ⟨0, ⟨?_, ?_, rfl, by simp [Sys.init, Rx.build], by simp [Sys.init, Rx.build], rfl⟩, rfl⟩
    · simp only [Sys.init, Rx.build]
      exact new_inv _ (by
        by_cases hc : maxRxBytes / mss = 0
        · simp [hc]
        · simp only [hc, if_false]; exact Nat.pos_of_ne_zero hc)
    · intro i m hm hd
      simp only [Sys.init, Rx.build, Ooq.new] at hm
      have : m = OoqMsg.default := by
        generalize (if maxRxBytes / mss = 0 then 64 else maxRxBytes / mss) = cap at hm
        rw [List.getElem?_replicate] at hm
        split at hm
        · exact (Option.some.inj hm).symm
        · cases hm
      rw [this] at hd; simp [OoqMsg.default, OoqMsg.isDefault] at hd
  obtain ⟨base, hE, _⟩ := run_good pkt _ s' evs h0 hr
  exact ⟨base, by rw [← hE.handed, List.append_assoc]; exact List.prefix_append _ _⟩

/-- **… and with the sender's labelling** (C01 `wire_payload_is_stream_slice`, C06 content stability: packet `g`
always carries the same slice of the written stream, and consecutive packets carry consecutive slices): the bytes
read are a prefix of the bytes written. -/
theorem read_is_prefix_of_written (stream : List Nat) (pkt : Nat → List Nat)
    (hlab : ∀ n, concatUpTo pkt n <+: stream)
    (maxRxBytes mss : Nat) (evs : List Ev) (s' : Sys)
    (hr : (Sys.init maxRxBytes mss).run pkt evs = some s') : s'.out <+: stream := by
  obtain ⟨n, hn⟩ := reader_gets_prefix_of_packet_stream pkt maxRxBytes mss evs s' hr
  exact List.IsPrefix.trans hn (hlab n)

/-- Consecutive slices of a stream concatenate to a prefix of it: if packet `g` carries
`stream[off g, off (g+1))` (what the sender theorems say, with `off` the stream offsets of the segment
boundaries), the packets up to `n` make up exactly the first `off n` bytes. -/
theorem consecutive_slices (stream : List Nat) (pkt : Nat → List Nat) (off : Nat → Nat) (h0 : off 0 = 0)
    (hmono : ∀ g, off g ≤ off (g + 1))
    (hpkt : ∀ g, pkt g = (stream.drop (off g)).take (off (g + 1) - off g)) (n : Nat) :
    concatUpTo pkt n = stream.take (off n) := by
  induction n with
  | zero => simp [concatUpTo, h0]
  | succ n ih =>
    simp only [concatUpTo, ih, hpkt n]
    have := hmono n
    have h : off (n + 1) = off n + (off (n + 1) - off n) := by omega
    rw [h, List.take_add]
    congr 2
    omega

/-- **End to end, with the sender's labelling discharged**: packets are consecutive slices of the written
stream ⇒ whatever the network and the reader do, the bytes read are a prefix of the bytes written. -/
theorem read_is_prefix_of_written_slices (stream : List Nat) (pkt : Nat → List Nat) (off : Nat → Nat) (h0 : off 0 = 0)
    (hmono : ∀ g, off g ≤ off (g + 1))
    (hpkt : ∀ g, pkt g = (stream.drop (off g)).take (off (g + 1) - off g))
    (maxRxBytes mss : Nat) (evs : List Ev) (s' : Sys)
    (hr : (Sys.init maxRxBytes mss).run pkt evs = some s') : s'.out <+: stream :=
  read_is_prefix_of_written stream pkt
    (fun n => by rw [consecutive_slices stream pkt off h0 hmono hpkt n]; exact List.take_prefix _ _)
    maxRxBytes mss evs s' hr

/-! ### The ghost indices are what the 16-bit arithmetic computes -/

/-- **From real 16-bit sequence numbers to ghost indices**: a data packet with ghost index `g` carries sequence
number `isn + 1 + g` (mod 2^16); the connection has consumed `lc` packets, so its `last_consumed_remote_seq_nr`
is `isn + lc` (mod 2^16). The offset the connection computes for the reassembly queue,
`seq_nr - (last_consumed + 1)`, is exactly `g - lc` whenever the two are within the tolerance of each other -
whatever the initial sequence number, wrap included. -/
theorem offset_of_real_sequence_numbers (isn g lc : Nat)
    (hd : ((g : Int) - lc).natAbs ≤ WRAP_TOLERANCE) :
    seqSub ((isn + 1 + g) % 65536) (wadd ((isn + lc) % 65536) 1) = (g : Int) - lc := by
  have ht : WRAP_TOLERANCE ≤ 32767 := default_windows_within_tolerance.1
  have ha : (isn + 1 + g) % 65536 < 65536 := Nat.mod_lt _ (by decide)
  have hb : wadd ((isn + lc) % 65536) 1 < 65536 := by unfold wadd; omega
  have hm : modDist ((isn + 1 + g) % 65536) (wadd ((isn + lc) % 65536) 1) = (g : Int) - lc := by
    unfold modDist wsub wadd; simp only; (repeat' split) <;> omega
  rw [seqSub_eq_modDist _ _ ha hb (by rw [hm]; exact hd), hm]

/-! ### Non-vacuity: reordered and duplicated arrivals, partial reads -/

example :
    let pkt : Nat → List Nat := fun g => [10 * g + 1, 10 * g + 2, 10 * g + 3]
    ((Sys.init 64 4).run pkt [.arrive 2, .arrive 1, .arrive 1, .read 5, .arrive 0, .arrive 2, .flush, .read 2, .read 100]).map (·.out)
      = some [1, 2, 3, 11, 12, 13, 21, 22, 23] := by
  decide +kernel

/-! ### Known finding D2: the labelling hypothesis is FALSE of the sender model (and of the code) after a probe re-split

Negation witness, by kernel evaluation of the sender model (`Model/Segments.lean`, tied to the code by the
differential) composed with the receiver system above: a probe that is popped on expiry is segmented again under
the same sequence number; if its first copy had been delivered (only the ACK was late), the reader's bytes are
no longer a prefix of the written stream. The deterministic replay on the real connection is
`corpus/vsock/known_d2_probe_resplit_after_delivery.ops`, re-run on every check. -/

def d2Stream : List Nat := List.range 9

/-- the bytes a segment view puts on the wire (C01 `wire_payload_is_stream_slice`, nothing acknowledged yet) -/
def d2Wire (v : SegView) : List Nat := (d2Stream.drop v.seg.offsetAbs).take v.seg.payloadSize

/-- sender: 9 bytes written, the first 5 go out as an MTU probe under sequence number 0 -/
def d2Sent : Segments := ((Segments.new 0).enqueue 5 true).onSent 0 10

/-- the probe's expiry (retransmission timer fired, `mtu_probe_max_retransmissions = 0`): it is popped and its
bytes are segmented again at the proven size 3 - under the SAME sequence number 0, the rest as number 1 -/
def d2Resplit : Segments :=
  match d2Sent.popExpiredMtuProbe true 0 with
  | some (s, _) => (s.enqueue 3 false).enqueue 2 false
  | none => d2Sent

def d2Views (s : Segments) : List (Nat × List Nat) := ((s.iterForSending none).getD []).map (fun v => (v.seqNr, d2Wire v))

/-- what the receiver gets when the FIRST copy of number 0 was delivered after all (only its ACK was late) and
number 1 arrives after the re-split -/
def d2Pkt : Nat → List Nat
  | 0 => ((d2Views d2Sent).lookup 0).getD []
  | 1 => ((d2Views d2Resplit).lookup 1).getD []
  | _ => []

theorem d2_resplit_breaks_the_labelling :
    d2Views d2Sent = [(0, [0, 1, 2, 3, 4])] ∧
    d2Views d2Resplit = [(0, [0, 1, 2]), (1, [3, 4])] ∧
    ((Sys.init 64 4).run d2Pkt [.arrive 0, .arrive 1, .flush, .read 100]).map (·.out) = some [0, 1, 2, 3, 4, 3, 4] ∧
    ¬ ([0, 1, 2, 3, 4, 3, 4] <+: d2Stream) := by
  decide +kernel

end UtpVerif.Props.C01E2E
