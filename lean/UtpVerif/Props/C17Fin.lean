import UtpVerif.Props.C10Inv

/-!
# C17 / C10 — the FIN's number and the segment queue (`FInv`)

`maybe_send_fin` sends the FIN only when `fin - last_sent_seq_nr = 1`, and processes the FIN's number like any
other in `last_sent_seq_nr`. Both are sound only if the FIN's number is the one that follows the last queued
segment. D22 (the FIN shared its number with a never-sent segment) and D24 (the FIN was numbered past a number
that a popped probe had given back) were the two ways in which the code did not establish that. This file states
the relation as an invariant, `FInv`, next to `LInv` of `Props/C10Inv`:

* it is established where the answering FIN is scheduled (`stateGate`, Established + in-sequence FIN),
* it is kept by the whole per-(state, packet) table, by acknowledgement processing for ANY header and by the
  payload half - hence by `process_incoming_message` and the receive loop,
* under it `maybe_send_fin` keeps `LInv` (the FIN's number in `last_sent_seq_nr` is `snd_una + len`, the top of
  the allowed range) and so does the FIN branch of the RTO path.

The own-initiative transition (`transition_to_fin_wait_1`) took `seq_nr` until D26; trying to discharge the
hypothesis `seq_nr = snd_una + len` that `transitionToFinWait1_finv` then needed showed that it is false while
segments are being re-sent after an RTO (each re-send sets `seq_nr` back). The FIN is now numbered from the queue in
both transitions and `FInv` needs no hypothesis about `seq_nr`.
-/

namespace UtpVerif.Props.C17Fin
open UtpVerif.Model UtpVerif.Lemmas.Segments UtpVerif.Model.VSock UtpVerif.Model.Segments UtpVerif.Props.C10Inv

/-- While our FIN is unacknowledged its number is the one following the last queued segment, and nothing queued
is still unsent. -/
def FInv (v : VSock) : Prop :=
  ∀ fin, v.state.ourFinIfUnacked = some fin →
    fin = off v.segs.sndUna v.segs.segs.length ∧ trailingUnsent v.segs.segs = 0

theorem FInv.congr {v v' : VSock} (h : FInv v) (e1 : v'.segs = v.segs) (e2 : v'.state = v.state) : FInv v' := by
  intro fin hf
  rw [e1]; rw [e2] at hf; exact h fin hf

theorem finv_of_none (v : VSock) (h : v.state.ourFinIfUnacked = none) : FInv v := by
  intro fin hf; rw [h] at hf; cases hf

theorem sendControlPacket_state (v : VSock) (c : Ctx) (h : Header) (v' : VSock) (c' : Ctx) (b : Bool)
    (hs : v.sendControlPacket c h = .ok (v', c', b)) : v'.state = v.state := by
  unfold sendControlPacket at hs
  split at hs
  · simp only [pure, Except.pure, Except.ok.injEq, Prod.mk.injEq] at hs; rw [← hs.1]
  · split at hs
    · simp [throw, throwThe, MonadExceptOf.throw] at hs
    · dsimp only at hs
      split at hs
      · simp only [pure, Except.pure, Except.ok.injEq, Prod.mk.injEq] at hs; rw [← hs.1]; rfl
      · simp only [pure, Except.pure, Except.ok.injEq, Prod.mk.injEq] at hs; rw [← hs.1]
      · simp [throw, throwThe, MonadExceptOf.throw] at hs
      · simp [throw, throwThe, MonadExceptOf.throw] at hs

/-- **`maybe_send_fin` keeps both invariants**, and when it reports the FIN as sent `last_sent_seq_nr` is the
FIN's number. -/
theorem maybeSendFin_inv (v : VSock) (c : Ctx) (v' : VSock) (c' : Ctx) (b : Bool) (h : LInv v) (hf : FInv v)
    (he : v.maybeSendFin c = .ok (v', c', b)) :
    LInv v' ∧ FInv v' ∧ (b = true → v.state.ourFinIfUnacked = some v'.lastSentSeqNr) := by
  unfold maybeSendFin at he
  split at he
  · simp only [pure, Except.pure, Except.ok.injEq, Prod.mk.injEq] at he
    obtain ⟨rfl, _, rfl⟩ := he
    exact ⟨h, hf, by simp⟩
  · split at he
    · simp only [pure, Except.pure, Except.ok.injEq, Prod.mk.injEq] at he
      obtain ⟨rfl, _, rfl⟩ := he
      exact ⟨h, hf, by simp⟩
    · rename_i fin hfin
      split at he
      · simp only [pure, Except.pure, Except.ok.injEq, Prod.mk.injEq] at he
        obtain ⟨rfl, _, rfl⟩ := he
        exact ⟨h, hf, by simp⟩
      · dsimp only at he
        split at he
        · simp [throw, throwThe, MonadExceptOf.throw] at he
        · rename_i v2 c2 sent hsc
          obtain ⟨e1, e2⟩ := sendControlPacket_frame _ _ _ _ _ _ hsc
          have e3 := sendControlPacket_state _ _ _ _ _ _ hsc
          obtain ⟨hfe, htu⟩ := hf fin hfin
          split at he
          · simp only [pure, Except.pure, Except.ok.injEq, Prod.mk.injEq] at he
            obtain ⟨rfl, _, rfl⟩ := he
            have hlen := h.len
            have hss : seqSub (off v.segs.sndUna v.segs.segs.length) v.segs.sndUna = v.segs.segs.length :=
              seqSub_off _ _ h.una (by omega)
            refine ⟨?_, ?_, fun _ => ?_⟩
            · constructor <;> dsimp only
              · rw [e1]; exact h.sinv
              · rw [e1]; exact h.una
              · rw [hfe]; exact off_lt _ _
              · rw [e1]; exact hlen
              · rw [e1, hfe, hss]; omega
              · rw [e1, hfe, hss]; omega
              · rw [e1, hfe, hss, htu]; omega
            · intro f hf'
              dsimp only at hf' ⊢
              rw [e1]; rw [e3] at hf'; exact hf f hf'
            · dsimp only; exact hfin
          · simp only [pure, Except.pure, Except.ok.injEq, Prod.mk.injEq] at he
            obtain ⟨rfl, _, rfl⟩ := he
            exact ⟨h.congr e1 e2, hf.congr e1 e3, by simp⟩

/-- **The answering FIN is scheduled with `FInv`** (D22 + D24): when the remote's in-sequence FIN is accepted in
Established the endpoint's FIN gets the number after the last segment that stays queued, and nothing queued is
unsent. -/
theorem stateGate_established_fin_finv (v : VSock) (hdr : Header) (h : LInv v) (hst : v.state = .established) :
    FInv (v.stateGate hdr).vsock := by
  obtain ⟨hS, hu, _, _, hlen, htu⟩ := discardUnsent_ok v.segs h.sinv
  have hl := h.len
  unfold stateGate
  simp only [hst]
  repeat' split
  all_goals first
    | (apply finv_of_none; simp [Gate.vsock, hst, VState.ourFinIfUnacked]; done)
    | (intro fin hfin
       simp only [Gate.vsock, VState.ourFinIfUnacked, Option.some.injEq] at hfin
       simp only [Gate.vsock]
       refine ⟨?_, htu⟩
       rw [← hfin, off_nat]
       unfold wadd
       have : v.segs.discardUnsent.segs.length % 65536 = v.segs.discardUnsent.segs.length := by omega
       rw [this])

theorem off_advance (u k n : Nat) (hk : k ≤ n) : off (advance u k) ((n - k : Nat) : Int) = off u (n : Int) := by
  unfold advance off; omega

/-- **Acknowledgement processing keeps `FInv`**, for any header: it removes a prefix of the queue and advances
`snd_una` by as much (`snd_una + len` is unchanged), never touches the state, and leaves no unsent segment behind
where there was none. -/
theorem ackPart_finv (v : VSock) (c : Ctx) (msg : Msg) (h : LInv v) (hf : FInv v) (v1 : VSock) (c1 : Ctx)
    (res : OnAckResult) (he : v.ackPart c msg = .ok (v1, c1, res)) : FInv v1 ∧ v1.state = v.state := by
  obtain ⟨s', r, k, hrm, hS', hshape, hk, _, _, _, hsnd, hlt, _⟩ :=
    removeUpToAck_ok v.segs v.pollNow msg.h.ackNr msg.h.sack h.sinv h.una
  have hlen' : s'.segs.length = v.segs.segs.length - k := shape_drop_length _ _ _ hshape
  obtain ⟨hsent, _⟩ := removeUpToAck_sent v.segs v.pollNow msg.h.ackNr msg.h.sack h.sinv h.una s' r hrm
  have ht' : trailingUnsent s'.segs = min (trailingUnsent v.segs.segs) (v.segs.segs.length - k) := by
    have e : v.segs.segs.length - s'.segs.length = k := by omega
    rw [e, ← List.map_drop] at hsent
    rw [tu_congr _ _ hsent, tu_drop]
  obtain ⟨hc1, hc2⟩ := clamp_range v.lastSentSeqNr v.segs.sndUna v.segs.segs.length k h.ls h.una h.len hk h.lo h.hi
  rw [← hsnd] at hc1 hc2
  have hlo := h.lo
  have hhi := h.hi
  have hg : (seqSub (clampLastSent v.lastSentSeqNr s'.sndUna) s'.sndUna).toNat ≤ s'.segs.length := by
    rw [hc2, hlen']; omega
  unfold ackPart at he
  simp only [bind, Except.bind, pure, Except.pure, hrm] at he
  cases hrec : v.recovery.isRecovering <;> cases hrtt : r.newRtt <;> simp only [hrec, hrtt] at he <;>
  · obtain ⟨r', segs', cc', hon, hSs, hus, hls, htu⟩ := recovery_onAck_ok v.recovery msg.h s'
      (clampLastSent v.lastSentSeqNr s'.sndUna) _ v.pollNow _ hS' hg
    rw [hon] at he
    simp only [Except.ok.injEq, Prod.mk.injEq] at he
    obtain ⟨rfl, _, _⟩ := he
    refine ⟨?_, rfl⟩
    intro fin hfin
    dsimp only at hfin ⊢
    obtain ⟨e1, e2⟩ := hf fin hfin
    refine ⟨?_, ?_⟩
    · rw [hus, hls, hsnd, hlen', e1]; exact (off_advance _ _ _ hk).symm
    · rw [htu, ht', e2]; omega

/-- **The whole per-(state, packet type) table keeps `FInv`**: the FIN's number is fixed where it is scheduled and
only carried along afterwards (FinWait1 → LastAck keeps it; every other transition leaves no unacknowledged FIN). -/
theorem stateGate_finv (v : VSock) (hdr : Header) (h : LInv v) (hf : FInv v) : FInv (v.stateGate hdr).vsock := by
  obtain ⟨hS, hu, _, _, hlen, htu⟩ := discardUnsent_ok v.segs h.sinv
  have hl := h.len
  unfold stateGate
  dsimp only
  repeat' split
  all_goals first
    | exact hf.congr rfl rfl
    | (apply finv_of_none; simp [Gate.vsock, VState.ourFinIfUnacked, restartInactivity]; done)
    | (intro fin hfin
       simp only [Gate.vsock, VState.ourFinIfUnacked, Option.some.injEq] at hfin
       simp only [Gate.vsock]
       refine ⟨?_, htu⟩
       rw [← hfin, off_nat]
       unfold wadd
       have : v.segs.discardUnsent.segs.length % 65536 = v.segs.discardUnsent.segs.length := by omega
       rw [this]; done)
    | (intro fin hfin
       simp only [Gate.vsock, VState.ourFinIfUnacked, Option.some.injEq] at hfin
       simp only [Gate.vsock]
       apply hf
       simp_all [VState.ourFinIfUnacked]; done)
    | trace_state

/-- The payload half of `process_incoming_message` never touches the connection state. -/
theorem payloadPart_state (v : VSock) (c : Ctx) (msg : Msg) (res : OnAckResult) (p : Bool) (v' : VSock) (c' : Ctx)
    (r : OnAckResult) (h : v.payloadPart c msg res p = .ok (v', c', r)) : v'.state = v.state := by
  unfold payloadPart at h
  simp only [bind, Except.bind, pure, Except.pure] at h
  iterate 7 (all_goals try split at h)
  all_goals first
    | (simp [throw, throwThe, MonadExceptOf.throw] at h; done)
    | (simp only [Except.ok.injEq, Prod.mk.injEq] at h; obtain ⟨rfl, _⟩ := h; rfl)
    | (rename_i hsa
       simp only [Except.ok.injEq, Prod.mk.injEq] at h
       obtain ⟨rfl, _⟩ := h
       unfold sendAck at hsa
       have e := sendControlPacket_state _ _ _ _ _ _ hsa
       exact e.trans rfl)
    | (exfalso; simp_all [throw, throwThe, MonadExceptOf.throw]; done)
    | trace_state

/-- **`process_incoming_message` keeps `FInv`**, whatever the packet. -/
theorem processIncomingMessage_finv (v : VSock) (c : Ctx) (msg : Msg) (v' : VSock) (c' : Ctx) (r : OnAckResult)
    (h : LInv v) (hf : FInv v) (hp : v.processIncomingMessage c msg = .ok (v', c', r)) : FInv v' := by
  unfold processIncomingMessage at hp
  have hl := stateGate_linv v msg.h h
  have hg' := stateGate_finv v msg.h h hf
  split at hp
  · rename_i v1 hg
    simp only [pure, Except.pure, Except.ok.injEq, Prod.mk.injEq] at hp
    rw [hg] at hg'
    rw [← hp.1]; exact hg'
  · simp [throw, throwThe, MonadExceptOf.throw] at hp
  · rename_i v1 hg
    rw [hg] at hg' hl
    simp only [Gate.vsock] at hg' hl
    unfold processAccepted at hp
    split at hp
    · simp [throw, throwThe, MonadExceptOf.throw] at hp
    · rename_i v2 c2 res ha
      obtain ⟨hf2, hs2⟩ := ackPart_finv v1 c msg hl hg' v2 c2 res ha
      obtain ⟨e1, _⟩ := payloadPart_frame _ _ _ _ _ _ _ _ hp
      exact hf2.congr e1 (payloadPart_state _ _ _ _ _ _ _ _ hp)

/-- **Every queue of incoming packets keeps both invariants.** -/
theorem recvLoop_finv (fuel : Nat) (v : VSock) (c : Ctx) (acc : OnAckResult) (v' : VSock) (c' : Ctx) (acc' : OnAckResult)
    (how : RecvLoop) (h : LInv v) (hf : FInv v) (hp : recvLoop fuel v c acc = .ok (v', c', acc', how)) : FInv v' := by
  induction fuel generalizing v c acc with
  | zero =>
    simp only [recvLoop, pure, Except.pure, Except.ok.injEq, Prod.mk.injEq] at hp
    rw [← hp.1]; exact hf
  | succ n ih =>
    unfold recvLoop at hp
    split at hp
    · split at hp
      · simp only [pure, Except.pure, Except.ok.injEq, Prod.mk.injEq] at hp; rw [← hp.1]; exact hf
      · simp only [pure, Except.pure, Except.ok.injEq, Prod.mk.injEq] at hp; rw [← hp.1]; exact hf.congr rfl rfl
    · rename_i msg rest hq
      dsimp only at hp
      split at hp
      · simp [throw, throwThe, MonadExceptOf.throw] at hp
      · rename_i v1 c1 res hpm
        have h1 : LInv v1 := processIncomingMessage_linv { v with rxQueue := rest } _ _ _ _ _ (h.congr rfl rfl) hpm
        have f1 : FInv v1 := processIncomingMessage_finv { v with rxQueue := rest } _ _ _ _ _ (h.congr rfl rfl) (hf.congr rfl rfl) hpm
        split at hp
        · simp only [pure, Except.pure, Except.ok.injEq, Prod.mk.injEq] at hp; rw [← hp.1]; exact f1
        · exact ih _ _ _ h1 f1 hp

/-- **Closing on the endpoint's own initiative establishes `FInv`** whenever nothing queued is unsent - which is
what `poll` checks (`!unsent`) before it calls `transition_to_fin_wait_1`. Since D26 the FIN is numbered from the
queue, so no hypothesis about `seq_nr` is left. -/
theorem transitionToFinWait1_finv (v : VSock) (h : LInv v) (hf : FInv v) (htu : trailingUnsent v.segs.segs = 0) :
    FInv v.transitionToFinWait1 := by
  have hl := h.len
  unfold transitionToFinWait1
  split
  all_goals first
    | exact hf
    | (intro fin hfin
       simp only [VState.ourFinIfUnacked, Option.some.injEq] at hfin
       dsimp only
       refine ⟨?_, htu⟩
       rw [← hfin, off_nat]
       unfold wadd
       have : v.segs.segs.length % 65536 = v.segs.segs.length := by omega
       rw [this])

/-- and it keeps `LInv` (it touches neither the queue nor `last_sent_seq_nr`) -/
theorem transitionToFinWait1_linv (v : VSock) (h : LInv v) : LInv v.transitionToFinWait1 := by
  unfold transitionToFinWait1
  split <;> first | exact h | exact h.congr rfl rfl

/-- Non-vacuity: a connection without a scheduled FIN satisfies `FInv` (every connection starts like this), and a
LastAck state whose FIN follows a two-segment queue does too. -/
example (v : VSock) (h : v.state = .established) : FInv v := finv_of_none v (by rw [h]; rfl)

/-- **`send_data!` keeps `FInv`** and never touches the connection state: a (re)transmission marks a queued segment,
it neither moves `snd_una` nor changes the number of queued segments nor leaves an unsent segment where there was
none. -/
theorem sendData_finv (v : VSock) (c : Ctx) (hd : Header) (view : SegView) (v' : VSock) (c' : Ctx) (r : DataSend)
    (h : LInv v) (hf : FInv v) (hview : ValidView v.segs view) (hs : v.sendData c hd view = .ok (v', c', r)) :
    FInv v' ∧ v'.state = v.state := by
  unfold sendData at hs
  split at hs
  · simp at hs
  · dsimp only at hs
    split at hs
    · simp [throw, throwThe, MonadExceptOf.throw] at hs
    · split at hs
      · simp [throw, throwThe, MonadExceptOf.throw] at hs
      · simp [throw, throwThe, MonadExceptOf.throw] at hs
      · split at hs
        · simp [throw, throwThe, MonadExceptOf.throw] at hs
        · simp only [pure, Except.pure, Except.ok.injEq, Prod.mk.injEq] at hs
          rw [← hs.1]; exact ⟨hf, rfl⟩
        · simp only [pure, Except.pure, Except.ok.injEq, Prod.mk.injEq] at hs
          rw [← hs.1]; exact ⟨hf.congr rfl rfl, rfl⟩
        · simp only [pure, Except.pure, Except.ok.injEq, Prod.mk.injEq] at hs
          have hO := fun t => onSent_ok v.segs view.idx t h.sinv
          have hlen : ∀ t, (v.segs.onSent view.idx t).segs.length = v.segs.segs.length := fun t => shape_length _ _ (hO t).2.1
          have hu : ∀ t, (v.segs.onSent view.idx t).sndUna = v.segs.sndUna := fun t => (hO t).2.2.2.1
          have htl : ∀ t, trailingUnsent (v.segs.onSent view.idx t).segs ≤ trailingUnsent v.segs.segs :=
            fun t => (onSent_tail v.segs view.idx t hview.1).1
          rw [← hs.1]
          have key : ∀ (w : VSock), w.state = v.state → (∃ t, w.segs = v.segs.onSent view.idx t) → FInv w := by
            intro w hws ⟨t, hwt⟩ fin hfin
            rw [hws] at hfin
            obtain ⟨e1, e2⟩ := hf fin hfin
            rw [hwt, hu, hlen]
            exact ⟨e1, by have := htl t; omega⟩
          by_cases hgt : seqGt view.seqNr v.lastSentSeqNr = true
          · simp only [onPacketSent, hgt, if_true]
            exact ⟨key _ rfl ⟨_, rfl⟩, trivial⟩
          · simp only [onPacketSent, hgt, Bool.false_eq_true, if_false]
            exact ⟨key _ rfl ⟨_, rfl⟩, trivial⟩

/-- what a successful `send_data!` does to the queue: exactly `on_sent` of that segment -/
theorem sendData_sent_segs (v : VSock) (c : Ctx) (hd : Header) (view : SegView) (v' : VSock) (c' : Ctx)
    (hs : v.sendData c hd view = .ok (v', c', .sent)) : ∃ t, v'.segs = v.segs.onSent view.idx t := by
  unfold sendData at hs
  split at hs
  · simp at hs
  · dsimp only at hs
    split at hs
    · simp [throw, throwThe, MonadExceptOf.throw] at hs
    · split at hs
      · simp [throw, throwThe, MonadExceptOf.throw] at hs
      · simp [throw, throwThe, MonadExceptOf.throw] at hs
      · split at hs
        · simp [throw, throwThe, MonadExceptOf.throw] at hs
        · simp [pure, Except.pure] at hs
        · simp [pure, Except.pure] at hs
        · simp only [pure, Except.pure, Except.ok.injEq, Prod.mk.injEq] at hs
          rw [← hs.1]
          by_cases hgt : seqGt view.seqNr v.lastSentSeqNr = true
          · simp only [onPacketSent, hgt, if_true]; exact ⟨_, rfl⟩
          · simp only [onPacketSent, hgt, Bool.false_eq_true, if_false]; exact ⟨_, rfl⟩

/-- **The RTO path keeps both invariants**: retransmitting the first outstanding segment puts `last_sent_seq_nr` on
that segment (a queued one, below the never-sent tail); with an empty queue and an unacknowledged FIN it steps back
by one and sends the FIN again, which `maybeSendFin_inv` covers. -/
theorem rtoPhase_inv (v : VSock) (c : Ctx) (hd : Header) (v' : VSock) (c' : Ctx) (b : Bool) (h : LInv v) (hf : FInv v)
    (he : v.rtoPhase c hd = .ok (v', c', b)) : LInv v' ∧ FInv v' := by
  unfold rtoPhase at he
  split at he
  · simp [throw, throwThe, MonadExceptOf.throw] at he
  · rename_i views hviews
    have hvalid := validView_of_iter v.segs none h.sinv views hviews
    split at he
    · rename_i seg hhead
      have hseg : ValidView v.segs seg := hvalid seg (List.mem_of_mem_head? hhead)
      split at he
      · simp [throw, throwThe, MonadExceptOf.throw] at he
      · rename_i v1 c1 hsd
        obtain ⟨t, hsegs⟩ := sendData_sent_segs _ _ _ _ _ _ hsd
        obtain ⟨hf1, hst1⟩ := sendData_finv _ _ _ _ _ _ _ h hf hseg hsd
        have hO := onSent_ok v.segs seg.idx t h.sinv
        have hlen : (v.segs.onSent seg.idx t).segs.length = v.segs.segs.length := shape_length _ _ hO.2.1
        have hu : (v.segs.onSent seg.idx t).sndUna = v.segs.sndUna := hO.2.2.2.1
        have htl := (onSent_tail v.segs seg.idx t hseg.1).2
        have hl := h.len
        have hidx : seg.idx % 65536 = seg.idx := Nat.mod_eq_of_lt (by have := hseg.1; omega)
        have hseq : seg.seqNr = off v.segs.sndUna seg.idx := by rw [hseg.2, hidx, off_nat]; rfl
        have hrange : -32767 ≤ (seg.idx : Int) ∧ (seg.idx : Int) ≤ 32767 := by have := hseg.1; omega
        have hss := seqSub_off v.segs.sndUna seg.idx h.una hrange
        simp only [pure, Except.pure, Except.ok.injEq, Prod.mk.injEq] at he
        obtain ⟨rfl, _, _⟩ := he
        have fin_ok : ∀ (w : VSock), w.segs = v1.segs → w.state = v1.state → FInv w := fun w e1 e2 => hf1.congr e1 e2
        have linv_ok : ∀ (w : VSock), w.segs = v1.segs → w.lastSentSeqNr = seg.seqNr → LInv w := by
          intro w e1 e2
          constructor
          · rw [e1, hsegs]; exact hO.1
          · rw [e1, hsegs, hu]; exact h.una
          · rw [e2, hseq]; exact off_lt _ _
          · rw [e1, hsegs, hlen]; exact hl
          · rw [e1, e2, hsegs, hu, hseq, hss]; omega
          · rw [e1, e2, hsegs, hu, hlen, hseq, hss]; have := hseg.1; omega
          · rw [e1, e2, hsegs, hu, hlen, hseq, hss]; omega
        split
        · exact ⟨linv_ok _ rfl rfl, fin_ok _ rfl rfl⟩
        · exact ⟨linv_ok _ rfl rfl, fin_ok _ rfl rfl⟩
      · rename_i v1 c1 hsd
        simp only [pure, Except.pure, Except.ok.injEq, Prod.mk.injEq] at he
        obtain ⟨rfl, _, _⟩ := he
        exact ⟨(sendData_linv _ _ _ _ _ _ _ h hseg hsd).1, (sendData_finv _ _ _ _ _ _ _ h hf hseg hsd).1⟩
      · simp [throw, throwThe, MonadExceptOf.throw] at he
    · split at he
      · rename_i fin hfin
        split at he
        · rename_i hls
          dsimp only at he
          obtain ⟨hfe, htu⟩ := hf fin hfin
          have hl := h.len
          have hss : seqSub (off v.segs.sndUna v.segs.segs.length) v.segs.sndUna = v.segs.segs.length :=
            seqSub_off _ _ h.una (by omega)
          -- stepping back by one keeps the invariant
          have hback : LInv { v with lastSentSeqNr := wsub v.lastSentSeqNr 1 } := by
            have e : wsub v.lastSentSeqNr 1 = off v.segs.sndUna ((v.segs.segs.length : Int) - 1) := by
              rw [hls, hfe, wsub_one_off _ (off_lt _ _), off_off]; rfl
            have hs2 : seqSub (off v.segs.sndUna ((v.segs.segs.length : Int) - 1)) v.segs.sndUna = (v.segs.segs.length : Int) - 1 :=
              seqSub_off _ _ h.una (by omega)
            constructor <;> dsimp only
            · exact h.sinv
            · exact h.una
            · rw [e]; exact off_lt _ _
            · exact hl
            · rw [e, hs2]; omega
            · rw [e, hs2]; omega
            · rw [e, hs2, htu]; omega
          have hfback : FInv { v with lastSentSeqNr := wsub v.lastSentSeqNr 1 } := hf.congr rfl rfl
          split at he
          · simp [throw, throwThe, MonadExceptOf.throw] at he
          · rename_i v2 c2 sent hmf
            obtain ⟨hl2, hf2, _⟩ := maybeSendFin_inv _ _ _ _ _ hback hfback hmf
            split at he
            · simp only [pure, Except.pure, Except.ok.injEq, Prod.mk.injEq] at he
              obtain ⟨rfl, _, _⟩ := he
              exact ⟨hl2.congr rfl rfl, hf2.congr rfl rfl⟩
            · simp only [pure, Except.pure, Except.ok.injEq, Prod.mk.injEq] at he
              obtain ⟨rfl, _, _⟩ := he
              exact ⟨hl2, hf2⟩
        · simp only [pure, Except.pure, Except.ok.injEq, Prod.mk.injEq] at he
          obtain ⟨rfl, _, _⟩ := he
          exact ⟨h.congr rfl rfl, hf.congr rfl rfl⟩
      · simp only [pure, Except.pure, Except.ok.injEq, Prod.mk.injEq] at he
        obtain ⟨rfl, _, _⟩ := he
        exact ⟨h.congr rfl rfl, hf.congr rfl rfl⟩

/-- **The first-transmission loop keeps both invariants** (and the state). -/
theorem newDataLoop_inv (hd : Header) (views : List SegView) (v : VSock) (c : Ctx) (rem : Nat)
    (v' : VSock) (c' : Ctx) (r : Option (Nat × Nat)) (h : LInv v) (hf : FInv v)
    (hv : ∀ w ∈ views, ValidView v.segs w)
    (hl : newDataLoop hd views v c rem = .ok (v', c', r)) : LInv v' ∧ FInv v' ∧ v'.state = v.state := by
  induction views generalizing v c rem with
  | nil =>
    simp only [newDataLoop, pure, Except.pure, Except.ok.injEq, Prod.mk.injEq] at hl
    rw [← hl.1]; exact ⟨h, hf, rfl⟩
  | cons item rest ih =>
    unfold newDataLoop at hl
    split at hl
    · split at hl <;>
      · simp only [pure, Except.pure, Except.ok.injEq, Prod.mk.injEq] at hl
        rw [← hl.1]; exact ⟨h, hf, rfl⟩
    · have hitem := hv item List.mem_cons_self
      split at hl
      · simp [throw, throwThe, MonadExceptOf.throw] at hl
      · rename_i v1 c1 hsd
        obtain ⟨h1, hval⟩ := sendData_linv v c hd item v1 c1 .sent h hitem hsd
        obtain ⟨f1, s1⟩ := sendData_finv v c hd item v1 c1 .sent h hf hitem hsd
        obtain ⟨a, b, e⟩ := ih v1 c1 _ h1 f1 (fun w hw => hval w (hv w (List.mem_cons_of_mem _ hw))) hl
        exact ⟨a, b, e.trans s1⟩
      · rename_i v1 c1 hsd
        obtain ⟨h1, _⟩ := sendData_linv v c hd item v1 c1 .pending h hitem hsd
        obtain ⟨f1, s1⟩ := sendData_finv v c hd item v1 c1 .pending h hf hitem hsd
        simp only [pure, Except.pure, Except.ok.injEq, Prod.mk.injEq] at hl
        rw [← hl.1]; exact ⟨h1, f1, s1⟩
      · rename_i v1 c1 hsd
        obtain ⟨h1, _⟩ := sendData_linv v c hd item v1 c1 .emsgsize h hitem hsd
        obtain ⟨f1, s1⟩ := sendData_finv v c hd item v1 c1 .emsgsize h hf hitem hsd
        simp only [pure, Except.pure, Except.ok.injEq, Prod.mk.injEq] at hl
        rw [← hl.1]; exact ⟨h1, f1, s1⟩

/-- **…and so does the loss-recovery retransmission loop.** -/
theorem recoveryLoop_inv (hd : Header) (mss : Nat) (views : List SegView) (v : VSock) (c : Ctx) (l : RecLoop)
    (v' : VSock) (c' : Ctx) (l' : RecLoop) (p : Bool) (h : LInv v) (hf : FInv v)
    (hv : ∀ w ∈ views, ValidView v.segs w)
    (hl : recoveryLoop hd mss views v c l = .ok (v', c', l', p)) : LInv v' ∧ FInv v' ∧ v'.state = v.state := by
  induction views generalizing v c l with
  | nil =>
    simp only [recoveryLoop, pure, Except.pure, Except.ok.injEq, Prod.mk.injEq] at hl
    rw [← hl.1]; exact ⟨h, hf, rfl⟩
  | cons seg rest ih =>
    have hrest : ∀ w ∈ rest, ValidView v.segs w := fun w hw => hv w (List.mem_cons_of_mem _ hw)
    unfold recoveryLoop at hl
    split at hl
    · simp only [pure, Except.pure, Except.ok.injEq, Prod.mk.injEq] at hl
      rw [← hl.1]; exact ⟨h, hf, rfl⟩
    · split at hl
      · exact ih v c l h hf hrest hl
      · split at hl
        · simp only [pure, Except.pure, Except.ok.injEq, Prod.mk.injEq] at hl
          rw [← hl.1]; exact ⟨h, hf, rfl⟩
        · have hseg := hv seg List.mem_cons_self
          split at hl
          · simp [throw, throwThe, MonadExceptOf.throw] at hl
          · simp [throw, throwThe, MonadExceptOf.throw] at hl
          · rename_i v1 c1 hsd
            obtain ⟨h1, _⟩ := sendData_linv v c hd seg v1 c1 .pending h hseg hsd
            obtain ⟨f1, s1⟩ := sendData_finv v c hd seg v1 c1 .pending h hf hseg hsd
            simp only [pure, Except.pure, Except.ok.injEq, Prod.mk.injEq] at hl
            rw [← hl.1]; exact ⟨h1, f1, s1⟩
          · rename_i v1 c1 hsd
            obtain ⟨h1, hval⟩ := sendData_linv v c hd seg v1 c1 .sent h hseg hsd
            obtain ⟨f1, s1⟩ := sendData_finv v c hd seg v1 c1 .sent h hf hseg hsd
            obtain ⟨a, b, e⟩ := ih v1 c1 _ h1 f1 (fun w hw => hval w (hrest w hw)) hl
            exact ⟨a, b, e.trans s1⟩

/-- Stepping `last_sent_seq_nr` back to just before the FIN (what the recovery branch of `send_tx_queue` and the RTO
path do to have the FIN sent again) keeps `LInv`: under `FInv` that number is the last queued segment's (or
`snd_una - 1` with an empty queue). -/
theorem fin_stepback_linv (v : VSock) (fin : Nat) (h : LInv v) (hf : FInv v) (hfin : v.state.ourFinIfUnacked = some fin)
    (w : VSock) (e1 : w.segs = v.segs) (e2 : w.lastSentSeqNr = wsub fin 1) : LInv w := by
  obtain ⟨hfe, htu⟩ := hf fin hfin
  have hl := h.len
  have e : wsub fin 1 = off v.segs.sndUna ((v.segs.segs.length : Int) - 1) := by
    rw [hfe, wsub_one_off _ (off_lt _ _), off_off]; rfl
  have hs2 : seqSub (off v.segs.sndUna ((v.segs.segs.length : Int) - 1)) v.segs.sndUna = (v.segs.segs.length : Int) - 1 :=
    seqSub_off _ _ h.una (by omega)
  constructor
  · rw [e1]; exact h.sinv
  · rw [e1]; exact h.una
  · rw [e2, e]; exact off_lt _ _
  · rw [e1]; exact hl
  · rw [e1, e2, e, hs2]; omega
  · rw [e1, e2, e, hs2]; omega
  · rw [e1, e2, e, hs2, htu]; omega

end UtpVerif.Props.C17Fin
