import UtpVerif.Props.C10Inv

/-!
# C17 / C10 — the FIN's number and the segment queue (`FInv`)

`maybe_send_fin` sends the FIN only when `fin - last_sent_seq_nr = 1`, and processes the FIN's number like any
other in `last_sent_seq_nr`. Both are sound only if the FIN's number is the one that follows the last queued
segment. D22 (the FIN shared its number with a never-sent segment) and D24 (the FIN was numbered past a number
that a popped probe had given back) were the two ways in which the code did not establish that. This file states
the relation as an invariant, `FInv`, next to `LInv` of `Props/C10Inv`:

* it is established where the answering FIN is scheduled (`stateGate`, Established + in-sequence FIN),
* it is kept by the whole per-(state, packet) table, by acknowledgement processing for ANY header and by the
  payload half - hence by `process_incoming_message` and the receive loop,
* under it `maybe_send_fin` keeps `LInv` (the FIN's number in `last_sent_seq_nr` is `snd_una + len`, the top of
  the allowed range) and so does the FIN branch of the RTO path.

What is not covered: the own-initiative transition (`transition_to_fin_wait_1`) takes `seq_nr`, and that
`seq_nr = snd_una + len` whenever nothing is unsent is argued in DESIGN.md but is not an invariant of the model
yet; `FInv` for FinWait1 is therefore a hypothesis at that transition.
-/

namespace UtpVerif.Props.C17Fin
open UtpVerif.Model UtpVerif.Lemmas.Segments UtpVerif.Model.VSock UtpVerif.Model.Segments UtpVerif.Props.C10Inv

/-- While our FIN is unacknowledged its number is the one following the last queued segment, and nothing queued
is still unsent. -/
def FInv (v : VSock) : Prop :=
  ∀ fin, v.state.ourFinIfUnacked = some fin →
    fin = off v.segs.sndUna v.segs.segs.length ∧ trailingUnsent v.segs.segs = 0

theorem FInv.congr {v v' : VSock} (h : FInv v) (e1 : v'.segs = v.segs) (e2 : v'.state = v.state) : FInv v' := by
  intro fin hf
  rw [e1]; rw [e2] at hf; exact h fin hf

theorem finv_of_none (v : VSock) (h : v.state.ourFinIfUnacked = none) : FInv v := by
  intro fin hf; rw [h] at hf; cases hf

theorem sendControlPacket_state (v : VSock) (c : Ctx) (h : Header) (v' : VSock) (c' : Ctx) (b : Bool)
    (hs : v.sendControlPacket c h = .ok (v', c', b)) : v'.state = v.state := by
  unfold sendControlPacket at hs
  split at hs
  · simp only [pure, Except.pure, Except.ok.injEq, Prod.mk.injEq] at hs; rw [← hs.1]
  · split at hs
    · simp [throw, throwThe, MonadExceptOf.throw] at hs
    · dsimp only at hs
      split at hs
      · simp only [pure, Except.pure, Except.ok.injEq, Prod.mk.injEq] at hs; rw [← hs.1]; rfl
      · simp only [pure, Except.pure, Except.ok.injEq, Prod.mk.injEq] at hs; rw [← hs.1]
      · simp [throw, throwThe, MonadExceptOf.throw] at hs
      · simp [throw, throwThe, MonadExceptOf.throw] at hs

/-- **`maybe_send_fin` keeps both invariants**, and when it reports the FIN as sent `last_sent_seq_nr` is the
FIN's number. -/
theorem maybeSendFin_inv (v : VSock) (c : Ctx) (v' : VSock) (c' : Ctx) (b : Bool) (h : LInv v) (hf : FInv v)
    (he : v.maybeSendFin c = .ok (v', c', b)) :
    LInv v' ∧ FInv v' ∧ (b = true → v.state.ourFinIfUnacked = some v'.lastSentSeqNr) := by
  unfold maybeSendFin at he
  split at he
  · simp only [pure, Except.pure, Except.ok.injEq, Prod.mk.injEq] at he
    obtain ⟨rfl, _, rfl⟩ := he
    exact ⟨h, hf, by simp⟩
  · split at he
    · simp only [pure, Except.pure, Except.ok.injEq, Prod.mk.injEq] at he
      obtain ⟨rfl, _, rfl⟩ := he
      exact ⟨h, hf, by simp⟩
    · rename_i fin hfin
      split at he
      · simp only [pure, Except.pure, Except.ok.injEq, Prod.mk.injEq] at he
        obtain ⟨rfl, _, rfl⟩ := he
        exact ⟨h, hf, by simp⟩
      · dsimp only at he
        split at he
        · simp [throw, throwThe, MonadExceptOf.throw] at he
        · rename_i v2 c2 sent hsc
          obtain ⟨e1, e2⟩ := sendControlPacket_frame _ _ _ _ _ _ hsc
          have e3 := sendControlPacket_state _ _ _ _ _ _ hsc
          obtain ⟨hfe, htu⟩ := hf fin hfin
          split at he
          · simp only [pure, Except.pure, Except.ok.injEq, Prod.mk.injEq] at he
            obtain ⟨rfl, _, rfl⟩ := he
            have hlen := h.len
            have hss : seqSub (off v.segs.sndUna v.segs.segs.length) v.segs.sndUna = v.segs.segs.length :=
              seqSub_off _ _ h.una (by omega)
            refine ⟨?_, ?_, fun _ => ?_⟩
            · constructor <;> dsimp only
              · rw [e1]; exact h.sinv
              · rw [e1]; exact h.una
              · rw [hfe]; exact off_lt _ _
              · rw [e1]; exact hlen
              · rw [e1, hfe, hss]; omega
              · rw [e1, hfe, hss]; omega
              · rw [e1, hfe, hss, htu]; omega
            · intro f hf'
              dsimp only at hf' ⊢
              rw [e1]; rw [e3] at hf'; exact hf f hf'
            · dsimp only; exact hfin
          · simp only [pure, Except.pure, Except.ok.injEq, Prod.mk.injEq] at he
            obtain ⟨rfl, _, rfl⟩ := he
            exact ⟨h.congr e1 e2, hf.congr e1 e3, by simp⟩

/-- **The answering FIN is scheduled with `FInv`** (D22 + D24): when the remote's in-sequence FIN is accepted in
Established the endpoint's FIN gets the number after the last segment that stays queued, and nothing queued is
unsent. -/
theorem stateGate_established_fin_finv (v : VSock) (hdr : Header) (h : LInv v) (hst : v.state = .established) :
    FInv (v.stateGate hdr).vsock := by
  obtain ⟨hS, hu, _, _, hlen, htu⟩ := discardUnsent_ok v.segs h.sinv
  have hl := h.len
  unfold stateGate
  simp only [hst]
  repeat' split
  all_goals first
    | (apply finv_of_none; simp [Gate.vsock, hst, VState.ourFinIfUnacked]; done)
    | (intro fin hfin
       simp only [Gate.vsock, VState.ourFinIfUnacked, Option.some.injEq] at hfin
       simp only [Gate.vsock]
       refine ⟨?_, htu⟩
       rw [← hfin, off_nat]
       unfold wadd
       have : v.segs.discardUnsent.segs.length % 65536 = v.segs.discardUnsent.segs.length := by omega
       rw [this])

theorem off_advance (u k n : Nat) (hk : k ≤ n) : off (advance u k) ((n - k : Nat) : Int) = off u (n : Int) := by
  unfold advance off; omega

/-- **Acknowledgement processing keeps `FInv`**, for any header: it removes a prefix of the queue and advances
`snd_una` by as much (`snd_una + len` is unchanged), never touches the state, and leaves no unsent segment behind
where there was none. -/
theorem ackPart_finv (v : VSock) (c : Ctx) (msg : Msg) (h : LInv v) (hf : FInv v) (v1 : VSock) (c1 : Ctx)
    (res : OnAckResult) (he : v.ackPart c msg = .ok (v1, c1, res)) : FInv v1 ∧ v1.state = v.state := by
  obtain ⟨s', r, k, hrm, hS', hshape, hk, _, _, _, hsnd, hlt, _⟩ :=
    removeUpToAck_ok v.segs v.pollNow msg.h.ackNr msg.h.sack h.sinv h.una
  have hlen' : s'.segs.length = v.segs.segs.length - k := shape_drop_length _ _ _ hshape
  obtain ⟨hsent, _⟩ := removeUpToAck_sent v.segs v.pollNow msg.h.ackNr msg.h.sack h.sinv h.una s' r hrm
  have ht' : trailingUnsent s'.segs = min (trailingUnsent v.segs.segs) (v.segs.segs.length - k) := by
    have e : v.segs.segs.length - s'.segs.length = k := by omega
    rw [e, ← List.map_drop] at hsent
    rw [tu_congr _ _ hsent, tu_drop]
  obtain ⟨hc1, hc2⟩ := clamp_range v.lastSentSeqNr v.segs.sndUna v.segs.segs.length k h.ls h.una h.len hk h.lo h.hi
  rw [← hsnd] at hc1 hc2
  have hlo := h.lo
  have hhi := h.hi
  have hg : (seqSub (clampLastSent v.lastSentSeqNr s'.sndUna) s'.sndUna).toNat ≤ s'.segs.length := by
    rw [hc2, hlen']; omega
  unfold ackPart at he
  simp only [bind, Except.bind, pure, Except.pure, hrm] at he
  cases hrec : v.recovery.isRecovering <;> cases hrtt : r.newRtt <;> simp only [hrec, hrtt] at he <;>
  · obtain ⟨r', segs', cc', hon, hSs, hus, hls, htu⟩ := recovery_onAck_ok v.recovery msg.h s'
      (clampLastSent v.lastSentSeqNr s'.sndUna) _ v.pollNow _ hS' hg
    rw [hon] at he
    simp only [Except.ok.injEq, Prod.mk.injEq] at he
    obtain ⟨rfl, _, _⟩ := he
    refine ⟨?_, rfl⟩
    intro fin hfin
    dsimp only at hfin ⊢
    obtain ⟨e1, e2⟩ := hf fin hfin
    refine ⟨?_, ?_⟩
    · rw [hus, hls, hsnd, hlen', e1]; exact (off_advance _ _ _ hk).symm
    · rw [htu, ht', e2]; omega

/-- **The whole per-(state, packet type) table keeps `FInv`**: the FIN's number is fixed where it is scheduled and
only carried along afterwards (FinWait1 → LastAck keeps it; every other transition leaves no unacknowledged FIN). -/
theorem stateGate_finv (v : VSock) (hdr : Header) (h : LInv v) (hf : FInv v) : FInv (v.stateGate hdr).vsock := by
  obtain ⟨hS, hu, _, _, hlen, htu⟩ := discardUnsent_ok v.segs h.sinv
  have hl := h.len
  unfold stateGate
  dsimp only
  repeat' split
  all_goals first
    | exact hf.congr rfl rfl
    | (apply finv_of_none; simp [Gate.vsock, VState.ourFinIfUnacked, restartInactivity]; done)
    | (intro fin hfin
       simp only [Gate.vsock, VState.ourFinIfUnacked, Option.some.injEq] at hfin
       simp only [Gate.vsock]
       refine ⟨?_, htu⟩
       rw [← hfin, off_nat]
       unfold wadd
       have : v.segs.discardUnsent.segs.length % 65536 = v.segs.discardUnsent.segs.length := by omega
       rw [this]; done)
    | (intro fin hfin
       simp only [Gate.vsock, VState.ourFinIfUnacked, Option.some.injEq] at hfin
       simp only [Gate.vsock]
       apply hf
       simp_all [VState.ourFinIfUnacked]; done)
    | trace_state

/-- The payload half of `process_incoming_message` never touches the connection state. -/
theorem payloadPart_state (v : VSock) (c : Ctx) (msg : Msg) (res : OnAckResult) (p : Bool) (v' : VSock) (c' : Ctx)
    (r : OnAckResult) (h : v.payloadPart c msg res p = .ok (v', c', r)) : v'.state = v.state := by
  unfold payloadPart at h
  simp only [bind, Except.bind, pure, Except.pure] at h
  iterate 7 (all_goals try split at h)
  all_goals first
    | (simp [throw, throwThe, MonadExceptOf.throw] at h; done)
    | (simp only [Except.ok.injEq, Prod.mk.injEq] at h; obtain ⟨rfl, _⟩ := h; rfl)
    | (rename_i hsa
       simp only [Except.ok.injEq, Prod.mk.injEq] at h
       obtain ⟨rfl, _⟩ := h
       unfold sendAck at hsa
       have e := sendControlPacket_state _ _ _ _ _ _ hsa
       exact e.trans rfl)
    | (exfalso; simp_all [throw, throwThe, MonadExceptOf.throw]; done)
    | trace_state

/-- **`process_incoming_message` keeps `FInv`**, whatever the packet. -/
theorem processIncomingMessage_finv (v : VSock) (c : Ctx) (msg : Msg) (v' : VSock) (c' : Ctx) (r : OnAckResult)
    (h : LInv v) (hf : FInv v) (hp : v.processIncomingMessage c msg = .ok (v', c', r)) : FInv v' := by
  unfold processIncomingMessage at hp
  have hl := stateGate_linv v msg.h h
  have hg' := stateGate_finv v msg.h h hf
  split at hp
  · rename_i v1 hg
    simp only [pure, Except.pure, Except.ok.injEq, Prod.mk.injEq] at hp
    rw [hg] at hg'
    rw [← hp.1]; exact hg'
  · simp [throw, throwThe, MonadExceptOf.throw] at hp
  · rename_i v1 hg
    rw [hg] at hg' hl
    simp only [Gate.vsock] at hg' hl
    unfold processAccepted at hp
    split at hp
    · simp [throw, throwThe, MonadExceptOf.throw] at hp
    · rename_i v2 c2 res ha
      obtain ⟨hf2, hs2⟩ := ackPart_finv v1 c msg hl hg' v2 c2 res ha
      obtain ⟨e1, _⟩ := payloadPart_frame _ _ _ _ _ _ _ _ hp
      exact hf2.congr e1 (payloadPart_state _ _ _ _ _ _ _ _ hp)

/-- **Every queue of incoming packets keeps both invariants.** -/
theorem recvLoop_finv (fuel : Nat) (v : VSock) (c : Ctx) (acc : OnAckResult) (v' : VSock) (c' : Ctx) (acc' : OnAckResult)
    (how : RecvLoop) (h : LInv v) (hf : FInv v) (hp : recvLoop fuel v c acc = .ok (v', c', acc', how)) : FInv v' := by
  induction fuel generalizing v c acc with
  | zero =>
    simp only [recvLoop, pure, Except.pure, Except.ok.injEq, Prod.mk.injEq] at hp
    rw [← hp.1]; exact hf
  | succ n ih =>
    unfold recvLoop at hp
    split at hp
    · split at hp
      · simp only [pure, Except.pure, Except.ok.injEq, Prod.mk.injEq] at hp; rw [← hp.1]; exact hf
      · simp only [pure, Except.pure, Except.ok.injEq, Prod.mk.injEq] at hp; rw [← hp.1]; exact hf.congr rfl rfl
    · rename_i msg rest hq
      dsimp only at hp
      split at hp
      · simp [throw, throwThe, MonadExceptOf.throw] at hp
      · rename_i v1 c1 res hpm
        have h1 : LInv v1 := processIncomingMessage_linv { v with rxQueue := rest } _ _ _ _ _ (h.congr rfl rfl) hpm
        have f1 : FInv v1 := processIncomingMessage_finv { v with rxQueue := rest } _ _ _ _ _ (h.congr rfl rfl) (hf.congr rfl rfl) hpm
        split at hp
        · simp only [pure, Except.pure, Except.ok.injEq, Prod.mk.injEq] at hp; rw [← hp.1]; exact f1
        · exact ih _ _ _ h1 f1 hp

/-- Closing on the endpoint's own initiative establishes `FInv` provided `seq_nr` stands right after the queue and
nothing queued is unsent - which is what `poll` checks (`!unsent`) before it calls `transition_to_fin_wait_1`,
except that `seq_nr = snd_una + len` is not yet an invariant of the model (see the header). -/
theorem transitionToFinWait1_finv (v : VSock) (hf : FInv v)
    (hseq : v.seqNr = off v.segs.sndUna v.segs.segs.length) (htu : trailingUnsent v.segs.segs = 0) :
    FInv v.transitionToFinWait1 := by
  unfold transitionToFinWait1
  split
  all_goals first
    | exact hf
    | (intro fin hfin
       simp only [VState.ourFinIfUnacked, Option.some.injEq] at hfin
       dsimp only
       exact ⟨by rw [← hfin, hseq], htu⟩)

/-- Non-vacuity: a connection without a scheduled FIN satisfies `FInv` (every connection starts like this), and a
LastAck state whose FIN follows a two-segment queue does too. -/
example (v : VSock) (h : v.state = .established) : FInv v := finv_of_none v (by rw [h]; rfl)

end UtpVerif.Props.C17Fin
