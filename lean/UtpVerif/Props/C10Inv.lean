import UtpVerif.Model.VSock
import UtpVerif.Lemmas.Segments
/-!
# C10Inv — a connection-level invariant: `last_sent_seq_nr` stays inside the segment queue

`LInv` ties the connection's `last_sent_seq_nr` to the queue of unacknowledged segments:
`snd_una − 1 ≤ last_sent_seq_nr ≤ snd_una + len` (as wrap-safe 16-bit distances), together with the queue's own
byte-accounting invariant `SInv`. The theorems show, for EVERY packet and every queue of packets, every
acknowledgement number and selective-ACK bitmap, and every outcome of the transport:

* acknowledgement processing is **total** under the invariant - `remove_up_to_ack` does not underflow and
  `calc_pipe` stays in range, i.e. the two internal panics of that half of `process_incoming_message` are
  unreachable (`ackPart_ok`) - and re-establishes the invariant (the D17 clamp is what makes the lower bound hold);
* the payload half touches neither the queue nor `last_sent_seq_nr` (`payloadPart_frame`);
* the state table touches the queue in one place: the remote's FIN accepted in Established discards the never-sent
  tail (`discard_unsent`, the D22 fix); the invariant's `tail` field - the never-sent tail lies entirely beyond
  `last_sent_seq_nr` - is what makes that safe (`stateGate_linv`, `discardUnsent_ok`);
* hence `process_incoming_message` and the whole receive loop preserve it (`recvLoop_linv`);
* `send_data!`, the first-transmission loop and the recovery retransmission loop preserve it
  (`sendData_linv`, `newDataLoop_linv`, `recoveryLoop_linv`);
* it holds when a connection is created (`linv_fresh`).

Not covered (stated, not proved): the FIN paths (`maybe_send_fin`, RTO of the FIN) and the probe pops, which need
the relation between the FIN's number and `snd_una + len`; the lockstep covers them.
The modular arithmetic goes through `off u d` ("the number `d` steps after `u`"): `seqSub_off` / `eq_off_of_seqSub`
convert between the crate's wrap-tolerant distance and plain integers once, so the rest is linear arithmetic.
-/
namespace UtpVerif.Props.C10Inv
open UtpVerif.Model UtpVerif.Lemmas.Segments UtpVerif.Model.VSock UtpVerif.Model.Segments

/-- the sequence number `d` steps after `u` (negative `d`: before) -/
def off (u : Nat) (d : Int) : Nat := (((u : Int) + d) % 65536).toNat

theorem off_lt (u : Nat) (d : Int) : off u d < 65536 := by unfold off; omega

theorem seqSub_off (u : Nat) (d : Int) (hu : u < 65536) (hd : -32767 ≤ d ∧ d ≤ 32767) : seqSub (off u d) u = d := by
  unfold seqSub seqOffset wsub off
  simp only [UtpVerif.Gen.WRAP_TOLERANCE]
  repeat' split
  all_goals omega

theorem eq_off_of_seqSub (a u : Nat) (ha : a < 65536) (hu : u < 65536) : a = off u (seqSub a u) := by
  unfold seqSub seqOffset wsub off
  simp only [UtpVerif.Gen.WRAP_TOLERANCE]
  repeat' split
  all_goals omega

theorem off_off (u : Nat) (d e : Int) : off (off u d) e = off u (d + e) := by unfold off; omega
theorem off_nat (u k : Nat) : off u k = (u + k) % 65536 := by unfold off; omega
theorem wsub_one_off (u : Nat) (hu : u < 65536) : wsub u 1 = off u (-1) := by unfold wsub off; omega

/-- arithmetic core: acknowledging `k` segments and clamping moves `last_sent − snd_una` from `d` to `max (d − k) (−1)` -/
theorem clamp_range (ls u len k : Nat) (hls : ls < 65536) (hu : u < 65536) (hlen : len ≤ 16384) (hk : k ≤ len)
    (hlo : -1 ≤ seqSub ls u) (hhi : seqSub ls u ≤ len) :
    VSock.clampLastSent ls (advance u k) < 65536 ∧
    seqSub (VSock.clampLastSent ls (advance u k)) (advance u k) = max (seqSub ls u - k) (-1) := by
  generalize hd : seqSub ls u = d at hlo hhi
  have hls' : ls = off u d := by rw [← hd]; exact eq_off_of_seqSub ls u hls hu
  have hu' : advance u k = off u k := by unfold advance; rw [off_nat]
  have hadv : advance u k < 65536 := by rw [hu']; exact off_lt _ _
  have hw : wsub (advance u k) 1 = off u (k - 1) := by
    rw [wsub_one_off _ hadv, hu', off_off]; congr 1
  have h1 : seqSub ls (wsub (advance u k) 1) = d - k + 1 := by
    have : ls = off (off u (k - 1)) (d - k + 1) := by
      rw [off_off]
      have e : ((k : Int) - 1 + (d - k + 1)) = d := by omega
      rw [e]; exact hls'
    rw [hw, this, seqSub_off _ _ (off_lt _ _) (by omega)]
  unfold VSock.clampLastSent
  rw [h1]
  by_cases hc : d - k + 1 < 0
  · simp only [hc, if_true]
    have : wsub (advance u k) 1 = off (advance u k) (-1) := wsub_one_off _ hadv
    rw [this, seqSub_off _ _ hadv (by omega)]
    exact ⟨off_lt _ _, by omega⟩
  · simp only [hc, if_false]
    have : ls = off (advance u k) (d - k) := by
      rw [hu', off_off]
      have e : ((k : Int) + (d - k)) = d := by omega
      rw [e]; exact hls'
    rw [this, seqSub_off _ _ hadv (by omega)]
    exact ⟨off_lt _ _, by omega⟩

/-- Connection-level invariant tying `last_sent_seq_nr` to the segment queue: it is never more than one below the
first unacknowledged number (the D17 clamp) and never beyond the last queued number + 1 (the FIN's number). -/
structure LInv (v : VSock) : Prop where
  sinv : SInv v.segs
  una : v.segs.sndUna < 65536
  ls : v.lastSentSeqNr < 65536
  len : v.segs.segs.length ≤ 16384
  lo : -1 ≤ seqSub v.lastSentSeqNr v.segs.sndUna
  hi : seqSub v.lastSentSeqNr v.segs.sndUna ≤ v.segs.segs.length
  /-- the never-sent tail of the queue lies entirely beyond `last_sent_seq_nr` (what `discard_unsent` relies on) -/
  tail : seqSub v.lastSentSeqNr v.segs.sndUna + trailingUnsent v.segs.segs ≤ v.segs.segs.length

theorem shape_length (a b : Segments) (h : shape a = shape b) : a.segs.length = b.segs.length := by
  have := congrArg List.length h
  simpa [shape] using this

/-- `Recovery::on_ack` never fails when `last_sent_seq_nr` lies within the queue, and leaves the queue's shape,
`snd_una` and invariant alone (it only marks segments lost / recomputes the pipe). -/
theorem recovery_onAck_ok (r : Recovery) (h : Header) (segs : Segments) (ls : Nat) (cc : Cc) (now rtt : Nat)
    (hS : SInv segs) (hg : (seqSub ls segs.sndUna).toNat ≤ segs.segs.length) :
    ∃ r' segs' cc', r.onAck h segs ls cc now rtt = some (r', segs', cc') ∧ SInv segs' ∧
      segs'.sndUna = segs.sndUna ∧ segs'.segs.length = segs.segs.length ∧
      trailingUnsent segs'.segs = trailingUnsent segs.segs := by
  unfold Recovery.onAck
  dsimp only
  repeat' split
  all_goals first
    | exact ⟨_, _, _, rfl, hS, rfl, rfl, rfl⟩
    | (rename_i heq
       obtain ⟨s', p, hcp, hS', hsh, _, hsent, _, hu, _⟩ := calcPipe_ok segs _ ls rtt now hS hg
       rw [hcp] at heq
       first
         | (simp at heq; done)
         | (simp only [Option.some.injEq, Prod.mk.injEq] at heq
            obtain ⟨rfl, rfl⟩ := heq
            exact ⟨_, _, _, rfl, hS', hu, shape_length _ _ hsh, tu_congr _ _ hsent⟩))

theorem shape_drop_length (a b : Segments) (k : Nat) (h : shape a = (shape b).drop k) :
    a.segs.length = b.segs.length - k := by
  have := congrArg List.length h
  simpa [shape] using this

/-- **Acknowledgement processing is total under the invariant and re-establishes it**: for ANY header (any
`ack_nr`, any selective ACK) `remove_up_to_ack` does not underflow, `calc_pipe` stays in range - the two internal
panics of this half of `process_incoming_message` are unreachable - and `last_sent_seq_nr` ends up within
`[snd_una - 1, snd_una + len]` again. -/
theorem ackPart_ok (v : VSock) (c : Ctx) (msg : Msg) (h : LInv v) :
    ∃ v1 c1 res, v.ackPart c msg = .ok (v1, c1, res) ∧ LInv v1 := by
  obtain ⟨s', r, k, hrm, hS', hshape, hk, _, _, _, hsnd, hlt, _⟩ :=
    removeUpToAck_ok v.segs v.pollNow msg.h.ackNr msg.h.sack h.sinv h.una
  have hlen' : s'.segs.length = v.segs.segs.length - k := shape_drop_length _ _ _ hshape
  obtain ⟨hsent, _⟩ := removeUpToAck_sent v.segs v.pollNow msg.h.ackNr msg.h.sack h.sinv h.una s' r hrm
  have ht' : trailingUnsent s'.segs = min (trailingUnsent v.segs.segs) (v.segs.segs.length - k) := by
    have e : v.segs.segs.length - s'.segs.length = k := by omega
    rw [e, ← List.map_drop] at hsent
    rw [tu_congr _ _ hsent, tu_drop]
  obtain ⟨hc1, hc2⟩ := clamp_range v.lastSentSeqNr v.segs.sndUna v.segs.segs.length k h.ls h.una h.len hk h.lo h.hi
  rw [← hsnd] at hc1 hc2
  have hlo := h.lo
  have hhi := h.hi
  have htail := h.tail
  have hg : (seqSub (clampLastSent v.lastSentSeqNr s'.sndUna) s'.sndUna).toNat ≤ s'.segs.length := by
    rw [hc2, hlen']; omega
  unfold ackPart
  simp only [bind, Except.bind, pure, Except.pure, hrm]
  cases hrec : v.recovery.isRecovering <;> cases hrtt : r.newRtt <;> simp only [] <;>
  · obtain ⟨r', segs', cc', hon, hSs, hus, hls, htu⟩ := recovery_onAck_ok v.recovery msg.h s'
      (clampLastSent v.lastSentSeqNr s'.sndUna) _ v.pollNow _ hS' hg
    rw [hon]
    refine ⟨_, _, _, rfl, ?_⟩
    constructor <;> dsimp only
    · exact hSs
    · rw [hus]; exact hlt
    · exact hc1
    · rw [hls, hlen']; have := h.len; omega
    · rw [hus, hc2]; omega
    · rw [hus, hls, hc2, hlen']; omega
    · rw [hus, hls, htu, hc2, ht', hlen']; omega

theorem sendControlPacket_frame (v : VSock) (c : Ctx) (h : Header) (v' : VSock) (c' : Ctx) (b : Bool)
    (hs : v.sendControlPacket c h = .ok (v', c', b)) : v'.segs = v.segs ∧ v'.lastSentSeqNr = v.lastSentSeqNr := by
  unfold sendControlPacket at hs
  split at hs
  · simp only [pure, Except.pure, Except.ok.injEq, Prod.mk.injEq] at hs; rw [← hs.1]; exact ⟨rfl, rfl⟩
  · split at hs
    · simp [throw, throwThe, MonadExceptOf.throw] at hs
    · dsimp only at hs
      split at hs
      · simp only [pure, Except.pure, Except.ok.injEq, Prod.mk.injEq] at hs; rw [← hs.1]; exact ⟨rfl, rfl⟩
      · simp only [pure, Except.pure, Except.ok.injEq, Prod.mk.injEq] at hs; rw [← hs.1]; exact ⟨rfl, rfl⟩
      · simp [throw, throwThe, MonadExceptOf.throw] at hs
      · simp [throw, throwThe, MonadExceptOf.throw] at hs

/-- The payload half of `process_incoming_message` never touches the segment queue or `last_sent_seq_nr`. -/
theorem payloadPart_frame (v : VSock) (c : Ctx) (msg : Msg) (res : OnAckResult) (p : Bool) (v' : VSock) (c' : Ctx)
    (r : OnAckResult) (h : v.payloadPart c msg res p = .ok (v', c', r)) :
    v'.segs = v.segs ∧ v'.lastSentSeqNr = v.lastSentSeqNr := by
  unfold payloadPart at h
  simp only [bind, Except.bind, pure, Except.pure] at h
  iterate 7 (all_goals try split at h)
  all_goals first
    | (simp [throw, throwThe, MonadExceptOf.throw] at h; done)
    | (simp only [Except.ok.injEq, Prod.mk.injEq] at h; rw [← h.1]; exact ⟨rfl, rfl⟩)
    | (rename_i hsa
       simp only [Except.ok.injEq, Prod.mk.injEq] at h
       rw [← h.1]
       unfold sendAck at hsa
       obtain ⟨e1, e2⟩ := sendControlPacket_frame _ _ _ _ _ _ hsa
       rw [e1, e2]; exact ⟨rfl, rfl⟩)
    | (exfalso; simp_all [throw, throwThe, MonadExceptOf.throw]; done)
    | trace_state

theorem LInv.congr {v v' : VSock} (h : LInv v) (e1 : v'.segs = v.segs) (e2 : v'.lastSentSeqNr = v.lastSentSeqNr) : LInv v' :=
  ⟨by rw [e1]; exact h.sinv, by rw [e1]; exact h.una, by rw [e2]; exact h.ls, by rw [e1]; exact h.len,
   by rw [e1, e2]; exact h.lo, by rw [e1, e2]; exact h.hi, by rw [e1, e2]; exact h.tail⟩

/-- **Processing an accepted packet preserves the invariant**, whatever the packet. -/
theorem processAccepted_linv (v : VSock) (c : Ctx) (msg : Msg) (p : Bool) (v' : VSock) (c' : Ctx) (r : OnAckResult)
    (h : LInv v) (hp : v.processAccepted c msg p = .ok (v', c', r)) : LInv v' := by
  obtain ⟨v1, c1, res, ha, h1⟩ := ackPart_ok v c msg h
  unfold processAccepted at hp
  rw [ha] at hp
  simp only at hp
  obtain ⟨e1, e2⟩ := payloadPart_frame _ _ _ _ _ _ _ _ hp
  exact h1.congr e1 e2

/-- …and an error can only come from the payload half (a zero-length ST_DATA, a failing transport): the two
internal panics of acknowledgement processing are unreachable. -/
theorem processAccepted_error_from_payload (v : VSock) (c : Ctx) (msg : Msg) (p : Bool) (e : Fail)
    (h : LInv v) (hp : v.processAccepted c msg p = .error e) :
    ∃ v1 c1 res, v.ackPart c msg = .ok (v1, c1, res) ∧ v1.payloadPart c1 msg res p = .error e := by
  obtain ⟨v1, c1, res, ha, _⟩ := ackPart_ok v c msg h
  unfold processAccepted at hp
  rw [ha] at hp
  exact ⟨v1, c1, res, ha, hp⟩

/-- The state table touches the queue in one place only: when the remote's FIN is accepted in Established the
never-sent tail is discarded (D22); the invariant's `tail` field is what makes that safe. -/
theorem stateGate_linv (v : VSock) (hdr : Header) (h : LInv v) : LInv (v.stateGate hdr).vsock := by
  unfold stateGate
  dsimp only
  repeat' split
  all_goals first
    | exact h.congr rfl rfl
    | (obtain ⟨hS, hu, _, _, hlen, htu⟩ := discardUnsent_ok v.segs h.sinv
       have hle := tu_le v.segs.segs
       have hlo := h.lo
       have htail := h.tail
       simp only [Gate.vsock]
       constructor <;> dsimp only
       · exact hS
       · rw [hu]; exact h.una
       · exact h.ls
       · rw [hlen]; have := h.len; omega
       · rw [hu]; exact h.lo
       · rw [hu, hlen]; omega
       · rw [hu, hlen, htu]; omega)

theorem processIncomingMessage_linv (v : VSock) (c : Ctx) (msg : Msg) (v' : VSock) (c' : Ctx) (r : OnAckResult)
    (h : LInv v) (hp : v.processIncomingMessage c msg = .ok (v', c', r)) : LInv v' := by
  unfold processIncomingMessage at hp
  have hf := stateGate_linv v msg.h h
  split at hp
  · rename_i v1 hg
    simp only [pure, Except.pure, Except.ok.injEq, Prod.mk.injEq] at hp
    rw [hg] at hf
    rw [← hp.1]; exact hf
  · simp [throw, throwThe, MonadExceptOf.throw] at hp
  · rename_i v1 hg
    rw [hg] at hf
    exact processAccepted_linv _ _ _ _ _ _ _ hf hp

/-- **Every queue of incoming packets keeps the invariant**: the receive loop of `process_all_incoming_messages`,
for any number of any packets. -/
theorem recvLoop_linv (fuel : Nat) (v : VSock) (c : Ctx) (acc : OnAckResult) (v' : VSock) (c' : Ctx) (acc' : OnAckResult)
    (how : RecvLoop) (h : LInv v) (hp : recvLoop fuel v c acc = .ok (v', c', acc', how)) : LInv v' := by
  induction fuel generalizing v c acc with
  | zero =>
    simp only [recvLoop, pure, Except.pure, Except.ok.injEq, Prod.mk.injEq] at hp
    rw [← hp.1]; exact h
  | succ n ih =>
    unfold recvLoop at hp
    split at hp
    · split at hp
      · simp only [pure, Except.pure, Except.ok.injEq, Prod.mk.injEq] at hp; rw [← hp.1]; exact h
      · simp only [pure, Except.pure, Except.ok.injEq, Prod.mk.injEq] at hp; rw [← hp.1]; exact h.congr rfl rfl
    · rename_i msg rest hq
      dsimp only at hp
      split at hp
      · simp [throw, throwThe, MonadExceptOf.throw] at hp
      · rename_i v1 c1 res hpm
        have h1 : LInv v1 := processIncomingMessage_linv { v with rxQueue := rest } _ _ _ _ _ (h.congr rfl rfl) hpm
        split at hp
        · simp only [pure, Except.pure, Except.ok.injEq, Prod.mk.injEq] at hp; rw [← hp.1]; exact h1
        · exact ih _ _ _ h1 hp

/-- The invariant holds when a connection is created: empty queue, `last_sent_seq_nr = seq_nr - 1`
(non-vacuity of everything above; established connections start exactly like this). -/
theorem linv_fresh (v : VSock) (u : Nat) (hu : u < 65536) (hs : v.segs = Segments.new u)
    (hl : v.lastSentSeqNr = wsub u 1) : LInv v := by
  have e : wsub u 1 = off u (-1) := wsub_one_off u hu
  have hsub : seqSub (wsub u 1) u = -1 := by rw [e]; exact seqSub_off u (-1) hu (by omega)
  refine ⟨by rw [hs]; exact new_inv u, by rw [hs]; exact hu, by rw [hl, e]; exact off_lt _ _, by rw [hs]; simp [Segments.new], ?_, ?_, ?_⟩
  · rw [hl, hs]; simp only [Segments.new]; rw [hsub]; omega
  · rw [hl, hs]; simp only [Segments.new]; rw [hsub]; simp
  · rw [hl, hs]; simp only [Segments.new]; rw [hsub]; simp [trailingUnsent]

/-- marking a queued segment as transmitted: the never-sent tail does not grow and lies beyond that segment -/
theorem onSent_tail (s : Segments) (idx now : Nat) (hi : idx < s.segs.length) :
    trailingUnsent (s.onSent idx now).segs ≤ trailingUnsent s.segs ∧
    idx + 1 + trailingUnsent (s.onSent idx now).segs ≤ s.segs.length := by
  unfold Segments.onSent
  cases hg : s.segs[idx]? with
  | none => exact absurd hg (by simp [List.getElem?_eq_none_iff]; omega)
  | some g =>
    have hsent : (g.onSent now).sent ≠ .notSent := by
      unfold Segment.onSent
      cases g.sent <;> simp
    exact ⟨tu_set_le _ _ _ hsent, tu_set_idx _ _ _ hsent hi⟩

/-- what `iter_mut_for_sending` guarantees about a view (`iterForSending_ok`), as far as this invariant needs it -/
def ValidView (s : Segments) (w : SegView) : Prop := w.idx < s.segs.length ∧ w.seqNr = wadd s.sndUna (w.idx % 65536)

theorem validView_of_iter (s : Segments) (start : Option Nat) (h : SInv s) (vs : List SegView)
    (hv : s.iterForSending start = some vs) : ∀ w ∈ vs, ValidView s w := by
  obtain ⟨vs', hvs, hall⟩ := iterForSending_ok s start h
  rw [hv] at hvs
  simp only [Option.some.injEq] at hvs
  subst hvs
  intro w hw
  obtain ⟨_, hidx, _, _, hseq⟩ := hall w hw
  refine ⟨?_, hseq⟩
  rcases Nat.lt_or_ge w.idx s.segs.length with hlt | hge
  · exact hlt
  · have : s.segs[w.idx]? = none := List.getElem?_eq_none hge
    rw [this] at hidx
    simp at hidx

/-- **`send_data!` preserves the invariant** (all three outcomes), and keeps every view of the same pass valid:
a transmission moves `last_sent_seq_nr` only forward, to the number of a queued segment. -/
theorem sendData_linv (v : VSock) (c : Ctx) (hd : Header) (view : SegView) (v' : VSock) (c' : Ctx) (r : DataSend)
    (h : LInv v) (hview : ValidView v.segs view) (hs : v.sendData c hd view = .ok (v', c', r)) :
    LInv v' ∧ ∀ w, ValidView v.segs w → ValidView v'.segs w := by
  unfold sendData at hs
  split at hs
  · simp at hs
  · dsimp only at hs
    split at hs
    · simp [throw, throwThe, MonadExceptOf.throw] at hs
    · split at hs
      · simp [throw, throwThe, MonadExceptOf.throw] at hs
      · simp [throw, throwThe, MonadExceptOf.throw] at hs
      · split at hs
        · simp [throw, throwThe, MonadExceptOf.throw] at hs
        · simp only [pure, Except.pure, Except.ok.injEq, Prod.mk.injEq] at hs
          rw [← hs.1]; exact ⟨h, fun w hw => hw⟩
        · simp only [pure, Except.pure, Except.ok.injEq, Prod.mk.injEq] at hs
          rw [← hs.1]; exact ⟨h.congr rfl rfl, fun w hw => hw⟩
        · simp only [pure, Except.pure, Except.ok.injEq, Prod.mk.injEq] at hs
          have hO := fun t => onSent_ok v.segs view.idx t h.sinv
          have hlen : ∀ t, (v.segs.onSent view.idx t).segs.length = v.segs.segs.length := fun t => shape_length _ _ (hO t).2.1
          have hu : ∀ t, (v.segs.onSent view.idx t).sndUna = v.segs.sndUna := fun t => (hO t).2.2.2.1
          have hidx : view.idx % 65536 = view.idx := Nat.mod_eq_of_lt (by have := hview.1; have := h.len; omega)
          have hseq : view.seqNr = off v.segs.sndUna view.idx := by
            rw [hview.2, hidx, off_nat]; rfl
          have hrange : -32767 ≤ (view.idx : Int) ∧ (view.idx : Int) ≤ 32767 := by have := hview.1; have := h.len; omega
          rw [← hs.1]
          by_cases hgt : seqGt view.seqNr v.lastSentSeqNr = true
          · simp only [onPacketSent, hgt, if_true]
            refine ⟨?_, fun w hw => ⟨by show w.idx < (v.segs.onSent view.idx _).segs.length; rw [hlen]; exact hw.1, by show w.seqNr = wadd (v.segs.onSent view.idx _).sndUna _; rw [hu]; exact hw.2⟩⟩
            constructor <;> dsimp only
            · exact (hO _).1
            · rw [hu]; exact h.una
            · rw [hseq]; exact off_lt _ _
            · rw [hlen]; exact h.len
            · rw [hu, hseq, seqSub_off _ _ h.una hrange]; omega
            · rw [hu, hlen, hseq, seqSub_off _ _ h.una hrange]
              have := hview.1; omega
            · rw [hu, hlen, hseq, seqSub_off _ _ h.una hrange]
              have key : ∀ t, (view.idx : Int) + (trailingUnsent (v.segs.onSent view.idx t).segs : Int) ≤ (v.segs.segs.length : Int) :=
                fun t => by have := (onSent_tail v.segs view.idx t hview.1).2; omega
              exact key _
          · simp only [onPacketSent, hgt, Bool.false_eq_true, if_false]
            refine ⟨?_, fun w hw => ⟨by show w.idx < (v.segs.onSent view.idx _).segs.length; rw [hlen]; exact hw.1, by show w.seqNr = wadd (v.segs.onSent view.idx _).sndUna _; rw [hu]; exact hw.2⟩⟩
            constructor <;> dsimp only
            · exact (hO _).1
            · rw [hu]; exact h.una
            · exact h.ls
            · rw [hlen]; exact h.len
            · rw [hu]; exact h.lo
            · rw [hu, hlen]; exact h.hi
            · rw [hu, hlen]
              have key : ∀ t, seqSub v.lastSentSeqNr v.segs.sndUna + (trailingUnsent (v.segs.onSent view.idx t).segs : Int) ≤ (v.segs.segs.length : Int) :=
                fun t => by have := (onSent_tail v.segs view.idx t hview.1).1; have := h.tail; omega
              exact key _

/-- **The first-transmission loop of `send_tx_queue` preserves the invariant** for every list of valid views. -/
theorem newDataLoop_linv (hd : Header) (views : List SegView) (v : VSock) (c : Ctx) (rem : Nat)
    (v' : VSock) (c' : Ctx) (r : Option (Nat × Nat)) (h : LInv v) (hv : ∀ w ∈ views, ValidView v.segs w)
    (hl : newDataLoop hd views v c rem = .ok (v', c', r)) : LInv v' := by
  induction views generalizing v c rem with
  | nil =>
    simp only [newDataLoop, pure, Except.pure, Except.ok.injEq, Prod.mk.injEq] at hl
    rw [← hl.1]; exact h
  | cons item rest ih =>
    unfold newDataLoop at hl
    split at hl
    · split at hl <;>
      · simp only [pure, Except.pure, Except.ok.injEq, Prod.mk.injEq] at hl
        rw [← hl.1]; exact h
    · have hitem := hv item List.mem_cons_self
      split at hl
      · simp [throw, throwThe, MonadExceptOf.throw] at hl
      · rename_i v1 c1 hsd
        obtain ⟨h1, hval⟩ := sendData_linv v c hd item v1 c1 .sent h hitem hsd
        exact ih v1 c1 _ h1 (fun w hw => hval w (hv w (List.mem_cons_of_mem _ hw))) hl
      · rename_i v1 c1 hsd
        obtain ⟨h1, _⟩ := sendData_linv v c hd item v1 c1 .pending h hitem hsd
        simp only [pure, Except.pure, Except.ok.injEq, Prod.mk.injEq] at hl
        rw [← hl.1]; exact h1
      · rename_i v1 c1 hsd
        obtain ⟨h1, _⟩ := sendData_linv v c hd item v1 c1 .emsgsize h hitem hsd
        simp only [pure, Except.pure, Except.ok.injEq, Prod.mk.injEq] at hl
        rw [← hl.1]; exact h1

/-- **…and so does the loss-recovery retransmission loop.** -/
theorem recoveryLoop_linv (hd : Header) (mss : Nat) (views : List SegView) (v : VSock) (c : Ctx) (l : RecLoop)
    (v' : VSock) (c' : Ctx) (l' : RecLoop) (p : Bool) (h : LInv v) (hv : ∀ w ∈ views, ValidView v.segs w)
    (hl : recoveryLoop hd mss views v c l = .ok (v', c', l', p)) : LInv v' := by
  induction views generalizing v c l with
  | nil =>
    simp only [recoveryLoop, pure, Except.pure, Except.ok.injEq, Prod.mk.injEq] at hl
    rw [← hl.1]; exact h
  | cons seg rest ih =>
    have hrest : ∀ w ∈ rest, ValidView v.segs w := fun w hw => hv w (List.mem_cons_of_mem _ hw)
    unfold recoveryLoop at hl
    split at hl
    · simp only [pure, Except.pure, Except.ok.injEq, Prod.mk.injEq] at hl
      rw [← hl.1]; exact h
    · split at hl
      · exact ih v c l h hrest hl
      · split at hl
        · simp only [pure, Except.pure, Except.ok.injEq, Prod.mk.injEq] at hl
          rw [← hl.1]; exact h
        · have hseg := hv seg List.mem_cons_self
          split at hl
          · simp [throw, throwThe, MonadExceptOf.throw] at hl
          · simp [throw, throwThe, MonadExceptOf.throw] at hl
          · rename_i v1 c1 hsd
            obtain ⟨h1, _⟩ := sendData_linv v c hd seg v1 c1 .pending h hseg hsd
            simp only [pure, Except.pure, Except.ok.injEq, Prod.mk.injEq] at hl
            rw [← hl.1]; exact h1
          · rename_i v1 c1 hsd
            obtain ⟨h1, hval⟩ := sendData_linv v c hd seg v1 c1 .sent h hseg hsd
            exact ih v1 c1 _ h1 (fun w hw => hval w (hrest w hw)) hl

/-! ### The cap on the number of queued segments (D25)

`LInv.len` was an assumption until D25: nothing in the code bounded the number of queued segments (with Nagle
disabled and one-byte writes a 32 KiB buffer holds 32768 of them), and beyond 32767 outstanding segments the 16-bit
distances the sender computes over its own queue wrap. The segmentation loop now stops at `MAX_TX_SEGMENTS`; the
theorems below make `len ≤ 16384` an invariant the loop keeps, and tie the literal to the regenerated constant. -/

theorem max_tx_segments_value : Gen.MAX_TX_SEGMENTS = 16384 := by decide

/-- every distance the sender computes over its own queue (`last_sent - snd_una ∈ [-1, len]`, `fin - snd_una = len`)
is within the crate's tolerance -/
theorem tx_queue_within_tolerance : Gen.MAX_TX_SEGMENTS + 1 ≤ Gen.WRAP_TOLERANCE := by decide

theorem tu_append_le (l : List Segment) (g : Segment) : trailingUnsent (l ++ [g]) ≤ trailingUnsent l + 1 := by
  induction l with
  | nil => simp only [List.nil_append, trailingUnsent]; split <;> simp
  | cons a rest ih =>
    have hle := tu_le rest
    simp only [List.cons_append, trailingUnsent]
    by_cases hc : (rest ++ [g]).all (fun x => x.sent = .notSent) = true ∧ a.sent = .notSent
    · have hr : rest.all (fun x => x.sent = .notSent) = true ∧ a.sent = .notSent := by
        refine ⟨?_, hc.2⟩
        have := hc.1
        simp only [List.all_append, Bool.and_eq_true] at this
        exact this.1
      simp only [hc, hr, and_self, if_true, List.length_append, List.length_singleton]
      omega
    · simp only [hc, if_false]
      split <;> omega

/-- **The segmentation loop keeps the invariant, including the bound on the queue length.** -/
theorem segmentLoop_linv (fuel : Nat) (v : VSock) (remaining win : Nat) (h : LInv v) :
    LInv (segmentLoop fuel v remaining win).1 := by
  induction fuel generalizing v remaining win with
  | zero => exact h
  | succ fuel ih =>
    unfold segmentLoop
    split
    · exact h
    · rename_i hgo
      dsimp only
      split
      · exact h.congr rfl rfl
      · have hcap : v.segs.segs.length < 16384 := by
          have := max_tx_segments_value
          have h3 : v.segs.segs.length < Gen.MAX_TX_SEGMENTS := by
            by_cases hh : v.segs.segs.length < Gen.MAX_TX_SEGMENTS
            · exact hh
            · exfalso; apply hgo; intro hcon; exact hh hcon.2.2
          omega
        have hlo := h.lo
        have hhi := h.hi
        have htail := h.tail
        have step : ∀ (p : Nat) (pr : Bool) (ss' : SegSizes),
            LInv { v with ss := ss', segs := v.segs.enqueue p pr } := by
          intro p pr ss'
          have hta := tu_append_le v.segs.segs { payloadSize := p, offsetAbs := v.segs.offset, isMtuProbe := pr }
          constructor <;> dsimp only
          · exact enqueue_inv _ _ _ h.sinv
          · exact h.una
          · exact h.ls
          · simp only [Segments.enqueue, List.length_append, List.length_singleton]; omega
          · exact hlo
          · simp only [Segments.enqueue, List.length_append, List.length_singleton]; omega
          · simp only [Segments.enqueue, List.length_append, List.length_singleton]; omega
        split
        · exact step _ _ _
        · exact ih _ _ _ (step _ _ _)

/-- the loop never grows the queue beyond the cap -/
theorem segmentLoop_len_bound (fuel : Nat) (v : VSock) (remaining win : Nat) :
    (segmentLoop fuel v remaining win).1.segs.segs.length ≤ max v.segs.segs.length Gen.MAX_TX_SEGMENTS := by
  induction fuel generalizing v remaining win with
  | zero => exact Nat.le_max_left _ _
  | succ fuel ih =>
    unfold segmentLoop
    split
    · exact Nat.le_max_left _ _
    · rename_i hgo
      dsimp only
      have h3 : v.segs.segs.length < Gen.MAX_TX_SEGMENTS := by
        by_cases hh : v.segs.segs.length < Gen.MAX_TX_SEGMENTS
        · exact hh
        · exfalso; apply hgo; intro hcon; exact hh hcon.2.2
      split
      · exact Nat.le_max_left _ _
      · split
        · simp only [Segments.enqueue, List.length_append, List.length_singleton]; omega
        · refine Nat.le_trans (ih _ _ _) ?_
          simp only [Segments.enqueue, List.length_append, List.length_singleton]; omega

end UtpVerif.Props.C10Inv
