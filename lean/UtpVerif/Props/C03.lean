import UtpVerif.Model.VSock
import UtpVerif.Props.C19
/-!
# C03 — honest completion: no silent truncation; success means acked; failures surface
-/
namespace UtpVerif.Props.C03
open UtpVerif.Model UtpVerif.Model.VSock UtpVerif.Model.TxRing UtpVerif.Model.Rx

/-- **`flush` succeeds only when the ring is empty.** -/
theorem flush_ok_means_ring_empty (t : TxRing) (t' : TxRing) (h : t.pollFlush = (t', .ok)) : t.ring = [] := by
  unfold pollFlush at h
  split at h
  · rename_i he; simpa using he
  · split at h <;> simp at h

/-- …and the ring holds every accepted byte that acknowledgement processing has not removed (C19), so
a successful flush means every byte written before it was acknowledged by the peer's stack:
for every history of writes / acknowledgement removals / growth, if `flush` now returns Ok then
(bytes accepted) = (bytes removed by acknowledgements). -/
theorem flush_ok_means_all_acked (initial maxSize : Nat) (ops : List C19.Op) (t' : TxRing)
    (h : (ops.foldl (C19.step maxSize) (TxRing.new initial, {})).1.pollFlush = (t', .ok)) :
    (ops.foldl (C19.step maxSize) (TxRing.new initial, {})).2.written.length =
      (ops.foldl (C19.step maxSize) (TxRing.new initial, {})).2.removed := by
  have he := flush_ok_means_ring_empty _ _ h
  have hh := C19.accepted_minus_acked_bounded initial maxSize ops
  dsimp only at hh
  obtain ⟨h1, h2, _⟩ := hh
  rw [he] at h2
  have hr := (C19.inv_reachable initial maxSize ops).2.2.2
  simp at h2; omega

/-- `shutdown` only ever returns Ok when the ring is empty and the connection is gone; while it is
alive it keeps waiting (it becomes Ok / Err through the death path below). -/
theorem shutdown_ok_means_ring_empty (t t' : TxRing) (ws : List Wake) (h : t.pollShutdown = (t', .ok, ws)) :
    t.ring = [] ∧ t.vsockClosed = true := by
  unfold pollShutdown at h
  split at h
  · split at h <;> simp at h
  · rename_i he
    split at h
    · rename_i hc; exact ⟨by simpa using he, hc⟩
    · dsimp only at h; split at h <;> simp at h

theorem sendControlPacket_frame (v : VSock) (c : Ctx) (h : Header) (v' : VSock) (c' : Ctx) (b : Bool)
    (hs : v.sendControlPacket c h = .ok (v', c', b)) : v'.rx = v.rx ∧ v'.tx = v.tx ∧ c'.wakes = c.wakes := by
  unfold sendControlPacket at hs
  by_cases hp : v.transportPending = true
  · simp only [hp, if_true, pure, Except.pure, Except.ok.injEq, Prod.mk.injEq] at hs
    obtain ⟨rfl, rfl, _⟩ := hs; exact ⟨rfl, rfl, rfl⟩
  · rw [if_neg hp] at hs
    cases hser : h.serialize (v.ss.maxSs + Gen.UTP_HEADER) with
    | none => rw [hser] at hs; simp [throw, throwThe, MonadExceptOf.throw] at hs
    | some bytes =>
      rw [hser] at hs
      simp only [transportSend] at hs
      cases ho : c.transport.outcome c.sends bytes.length with
      | sent =>
        simp only [ho, pure, Except.pure, Except.ok.injEq, Prod.mk.injEq] at hs
        obtain ⟨rfl, rfl, _⟩ := hs; exact ⟨rfl, rfl, rfl⟩
      | pending =>
        simp only [ho, pure, Except.pure, Except.ok.injEq, Prod.mk.injEq] at hs
        obtain ⟨rfl, rfl, _⟩ := hs; exact ⟨rfl, rfl, rfl⟩
      | emsgsize => simp [ho, throw, throwThe, MonadExceptOf.throw] at hs
      | error => simp [ho, throw, throwThe, MonadExceptOf.throw] at hs

/-- **The death path** (`just_before_death`, also the tail of every error exit of `poll`): both
halves are marked closed, and a registered writer / reader waker fires (so a pending call is
re-polled and, by the two theorems below, resolves). -/
theorem death_closes_and_wakes (v : VSock) (c : Ctx) (e : Option VErr) (hnc : v.rx.vsockClosed = false) :
    (v.justBeforeDeath c e).1.rx.vsockClosed = true ∧ (v.justBeforeDeath c e).1.tx.vsockClosed = true ∧
    (v.tx.writerWaker = true → Wake.writer ∈ (v.justBeforeDeath c e).2.wakes) ∧
    (v.rx.readerWaker = true → Wake.reader ∈ (v.justBeforeDeath c e).2.wakes) := by
  -- the three primitive steps
  have hE : ∀ (r : Rx) (m : String), (r.enqueueError m).1.vsockClosed = r.vsockClosed ∧
      (r.readerWaker = true → Wake.reader ∈ (r.enqueueError m).2) ∧
      (r.readerWaker = false → (r.enqueueError m).1.readerWaker = false) := by
    intro r m; unfold Rx.enqueueError
    by_cases h2 : r.readerWaker = true <;> simp [h2]
  have hR : ∀ (r : Rx), r.markVsockClosed.1.vsockClosed = true ∧
      (r.vsockClosed = false → r.readerWaker = true → Wake.reader ∈ r.markVsockClosed.2) := by
    intro r; unfold Rx.markVsockClosed
    by_cases h1 : r.vsockClosed = true <;> by_cases h2 : r.readerWaker = true <;> simp [h1, h2]
  have hT : ∀ (t : TxRing), t.markVsockClosed.1.vsockClosed = true ∧ (t.writerWaker = true → Wake.writer ∈ t.markVsockClosed.2) := by
    intro t; unfold TxRing.markVsockClosed
    by_cases h2 : t.writerWaker = true <;> simp [h2]
  -- common tail once the first step is known
  have tail : ∀ (rx1 : Rx) (ws1 : List Wake) (hasErr : Bool),
      rx1.vsockClosed = false → (v.rx.readerWaker = true → Wake.reader ∈ ws1 ∨ rx1.readerWaker = true) →
      let r2 := rx1.markVsockClosed
      let r3 := v.tx.markVsockClosed
      let v1 : VSock := { v with rx := r2.1, tx := r3.1 }
      let c1 : Ctx := { c with wakes := c.wakes ++ ws1 ++ r2.2 ++ r3.2 }
      let res : VSock × Ctx :=
        if hasErr = true ∧ (!v1.state.isLocalFinOrLater) = true then
          match ({ v1 with seqNr := wadd v1.seqNr 1 } : VSock).sendControlPacket c1
              { v1.outgoingHeader with htype := Gen.TYPE_ST_FIN, seqNr := v1.seqNr } with
          | .ok (v, c, _) => (v, c)
          | .error _ => ({ v1 with seqNr := wadd v1.seqNr 1 }, c1)
        else (v1, c1)
      res.1.rx.vsockClosed = true ∧ res.1.tx.vsockClosed = true ∧
      (v.tx.writerWaker = true → Wake.writer ∈ res.2.wakes) ∧ (v.rx.readerWaker = true → Wake.reader ∈ res.2.wakes) := by
    intro rx1 ws1 hasErr hc1 hw1
    have h2 := hR rx1
    have h3 := hT v.tx
    dsimp only
    have hwr : v.rx.readerWaker = true → Wake.reader ∈ c.wakes ++ ws1 ++ rx1.markVsockClosed.2 ++ v.tx.markVsockClosed.2 := by
      intro h
      rcases hw1 h with h' | h'
      · simp [h']
      · have := h2.2 hc1 h'; simp [this]
    have hww : v.tx.writerWaker = true → Wake.writer ∈ c.wakes ++ ws1 ++ rx1.markVsockClosed.2 ++ v.tx.markVsockClosed.2 := by
      intro h; have := h3.2 h; simp [this]
    split
    · split
      · rename_i v' c' b hsc
        obtain ⟨f1, f2, f3⟩ := sendControlPacket_frame _ _ _ _ _ _ hsc
        simp only at f1 f2 f3
        exact ⟨by rw [f1]; exact h2.1, by rw [f2]; exact h3.1, fun h => by rw [f3]; exact hww h, fun h => by rw [f3]; exact hwr h⟩
      · exact ⟨h2.1, h3.1, hww, hwr⟩
    · exact ⟨h2.1, h3.1, hww, hwr⟩
  unfold justBeforeDeath
  cases e with
  | none => exact tail v.rx [] false hnc (fun h => Or.inr h)
  | some e =>
    have := hE v.rx e.text
    exact tail (v.rx.enqueueError e.text).1 (v.rx.enqueueError e.text).2 true (by rw [this.1]; exact hnc)
      (fun h => Or.inl (this.2.1 h))

theorem readLoop_out_grows (fuel : Nat) (r : Rx) (room : Nat) (out : List Nat) :
    out.length ≤ (readLoop fuel r room out).2.1.length := by
  induction fuel generalizing r room out with
  | zero => exact Nat.le_refl _
  | succ fuel ih =>
    unfold readLoop
    split
    · exact Nat.le_refl _
    · split
      · dsimp only
        split
        · exact Nat.le_refl _
        · refine Nat.le_trans ?_ (ih _ _ _); simp
      · split
        · exact Nat.le_refl _
        · split
          · dsimp only
            split
            · exact Nat.le_refl _
            · exact ih _ _ _
            · exact Nat.le_refl _
          · split <;> exact Nat.le_refl _

def measure (r : Rx) : Nat := 2 * r.queue.length + (if r.current.isSome then 1 else 0) + 1

/-- On a closed connection the read loop cannot end "done, nothing read" unless end-of-stream was reached. -/
theorem readLoop_closed (fuel : Nat) (r : Rx) (room : Nat) (out : List Nat) (hc : r.vsockClosed = true)
    (hroom : 0 < room) (hf : measure r ≤ fuel) :
    (readLoop fuel r room out).2.2 = .done → (readLoop fuel r room out).2.1 = out → (readLoop fuel r room out).1.isEof = true := by
  induction fuel generalizing r room out with
  | zero => unfold measure at hf; omega
  | succ fuel ih =>
    unfold readLoop
    have hr0 : ¬ room = 0 := by omega
    simp only [hr0, if_false]
    cases hcur : r.current with
    | some po =>
      obtain ⟨payload, off⟩ := po
      dsimp only
      split
      · intro h; simp at h
      · rename_i hne
        intro _ hout
        exfalso
        have := readLoop_out_grows fuel { r with current := if off + min room (payload.drop off).length = payload.length then none else some (payload, off + min room (payload.drop off).length) } (room - min room (payload.drop off).length) (out ++ (payload.drop off).take (min room (payload.drop off).length))
        rw [hout] at this
        have hl : 0 < (payload.drop off).length := by
          cases hd : payload.drop off with
          | nil => simp [hd] at hne
          | cons a t => simp
        simp only [List.length_append, List.length_take] at this
        omega
    | none =>
      dsimp only
      by_cases he : r.isEof = true
      · simp [he]
      · simp only [he, if_false]
        cases hq : r.queue with
        | nil => simp only [hc, if_true]; intro h; simp at h
        | cons m q' =>
          dsimp only
          cases m with
          | eof => intro _ _; rfl
          | error msg => intro h; simp at h
          | payload p =>
            dsimp only
            apply ih
            · exact hc
            · exact hroom
            · unfold measure at hf ⊢; simp only [hcur, hq, List.length_cons] at hf ⊢; simp; omega

/-- **After the connection is closed the reader never hangs**: `read` (into a non-empty buffer)
returns queued data, the queued error, end-of-stream, or "dispatcher dead" — never Pending. -/
theorem closed_read_side_resolves (r : Rx) (n : Nat) (hn : 0 < n) (hc : r.vsockClosed = true) :
    (r.pollRead n).2.1 ≠ .pending := by
  unfold Rx.pollRead
  have hm : measure r ≤ 2 * (r.queue.length + 2) + 1 := by unfold measure; split <;> omega
  have key := readLoop_closed (2 * (r.queue.length + 2) + 1) r n [] hc hn hm
  generalize readLoop (2 * (r.queue.length + 2) + 1) r n [] = res at key
  obtain ⟨r1, out, ex⟩ := res
  simp only at key ⊢
  cases ex with
  | err m => simp
  | bug => simp
  | done =>
    by_cases ho : out.length > 0
    · simp only [ho, if_true]; split <;> simp
    · have : out = [] := by cases out <;> simp_all
      have he := key rfl this
      simp [ho, he]
  | deadDispatcher =>
    by_cases ho : out.length > 0
    · simp only [ho, if_true]; split <;> simp
    · simp only [ho, if_false]; split <;> simp

/-- **After the connection is closed no write-side call is left pending**: `write` fails, `flush` and
`shutdown` return Ok on an empty ring and an error otherwise. -/
theorem closed_write_side_resolves (t : TxRing) (buf : List Nat) (hc : t.vsockClosed = true)
    (hy : ¬ t.writtenWithoutYield > Gen.YIELD_EVERY) :
    (t.pollWrite buf).2.1 = .errClosed ∧
    (t.pollFlush.2 = .ok ∨ t.pollFlush.2 = .errDied) ∧
    (t.pollShutdown.2.1 = .ok ∨ t.pollShutdown.2.1 = .errDied) := by
  refine ⟨?_, ?_, ?_⟩
  · unfold pollWrite; simp [hy, hc]
  · unfold pollFlush; by_cases he : t.ring.isEmpty = true <;> simp [he, hc]
  · unfold pollShutdown; by_cases he : t.ring.isEmpty = true <;> simp [he, hc]

/-- One iteration with a partially read message copies at least one byte. -/
theorem readLoop_current_copies (fuel : Nat) (r : Rx) (room : Nat) (out : List Nat) (p : List Nat) (off : Nat)
    (hcur : r.current = some (p, off)) (hoff : off < p.length) (hroom : 0 < room) :
    out.length < (readLoop (fuel + 1) r room out).2.1.length := by
  unfold readLoop
  have hr0 : ¬ room = 0 := by omega
  simp only [hr0, if_false, hcur]
  have hl : 0 < (p.drop off).length := by simp; omega
  have hne : ¬ ((p.drop off).isEmpty = true) := by
    cases hd : p.drop off with
    | nil => simp [hd] at hl
    | cons a t => simp
  simp only [hne, if_false]
  refine Nat.lt_of_lt_of_le ?_ (readLoop_out_grows _ _ _ _)
  simp only [List.length_append, List.length_take]
  omega

/-- **End-of-stream is reported only after everything queued before it**: while a partially read
message or a queued payload precedes the EOF marker, `read` (non-empty buffer) never returns EOF
(it returns the data, or the error if one is queued right behind it). -/
theorem no_eof_before_data (r : Rx) (n : Nat) (hn : 0 < n) (heof : r.isEof = false)
    (hdata : (∃ p off, r.current = some (p, off) ∧ off < p.length) ∨
             (r.current = none ∧ ∃ p q, r.queue = .payload p :: q ∧ 0 < p.length)) :
    (r.pollRead n).2.1 ≠ .eof := by
  have key : 0 < (readLoop (2 * (r.queue.length + 2) + 1) r n []).2.1.length := by
    rcases hdata with ⟨p, off, hcur, hoff⟩ | ⟨hcur, p, q, hq, hp⟩
    · have := readLoop_current_copies (2 * (r.queue.length + 2)) r n [] p off hcur hoff hn
      simpa using this
    · obtain ⟨k, hk⟩ : ∃ k, 2 * (r.queue.length + 2) + 1 = (k + 1) + 1 := ⟨2 * (r.queue.length + 2) - 1, by omega⟩
      rw [hk]
      rw [readLoop]
      have hr0 : ¬ n = 0 := by omega
      simp only [hr0, if_false, hcur, heof, Bool.false_eq_true, hq]
      exact readLoop_current_copies k _ n [] p 0 rfl hp hn
  unfold Rx.pollRead
  generalize readLoop (2 * (r.queue.length + 2) + 1) r n [] = res at key
  obtain ⟨r1, out, ex⟩ := res
  simp only at key ⊢
  cases ex <;> simp only [key, if_true] <;> (try split) <;> simp

end UtpVerif.Props.C03
