import UtpVerif.Model.VSock
import UtpVerif.Gen.Fns
/-!
# C07 — acknowledgement timeliness: delayed-ACK bound and immediate-ACK triggers

`maybeSendAck` is `maybe_send_ack` (stream_dispatch.rs:652-676); `nextTimerToPoll` is
`next_timer_to_poll` (:1372); the forcing sites are in `processIncomingMessage`.
-/
namespace UtpVerif.Props.C07
open UtpVerif.Model UtpVerif.Model.VSock UtpVerif.Gen

/-- The numbers in the property text are the crate's (regenerated) constants. -/
theorem constants_pinned : ACK_DELAY = 40 * 1000000 ∧ IMMEDIATE_ACK_EVERY_RMSS = 2 := by decide

/-- `send_ack` on a writable transport puts exactly one ST_STATE datagram on the wire carrying
`ack_nr = last consumed`, and clears the unacknowledged counter and the delayed-ACK timer. -/
theorem sendAck_sends (v : VSock) (c : Ctx) (hp : v.transportPending = false)
    (ho : c.transport.outcome c.sends (({ v.outgoingHeader with sack := v.rx.ooq.selectiveAck } : Header).serialize (v.ss.maxSs + UTP_HEADER)).get!.length = .sent)
    (hser : (({ v.outgoingHeader with sack := v.rx.ooq.selectiveAck } : Header).serialize (v.ss.maxSs + UTP_HEADER)).isSome) :
    ∃ v' c' bytes, v.sendAck c = .ok (v', c', true) ∧ c'.out = c.out ++ [bytes] ∧
      v'.consumedButUnackedBytes = 0 ∧ v'.timers.ackDelay = none ∧ v'.lastSentAckNr = v.lastConsumedRemoteSeqNr := by
  unfold sendAck sendControlPacket
  simp only [hp, Bool.false_eq_true, if_false]
  cases hs : ({ v.outgoingHeader with sack := v.rx.ooq.selectiveAck } : Header).serialize (v.ss.maxSs + UTP_HEADER) with
  | none => rw [hs] at hser; simp at hser
  | some bytes =>
    rw [hs] at ho
    simp only [Option.get!_some] at ho
    simp only [transportSend, ho]
    exact ⟨_, _, bytes, rfl, rfl, rfl, rfl, rfl⟩

/-- **The ACK decision** (transport writable, no error): after `maybe_send_ack`
* if the unacknowledged bytes had reached twice the segment size (this includes every forced case:
  duplicate, out-of-order, gap fill, FIN set the counter to `usize::MAX`), or the window flipped
  to/from zero, or the delayed-ACK timer had expired with something to acknowledge — `send_ack` ran;
* otherwise, if any consumed byte is unacknowledged, the delayed-ACK timer is armed with a deadline
  no later than `now + 40 ms` (and no later than it was: `restart = false`);
* otherwise nothing is sent and no timer is armed. -/
theorem maybeSendAck_decision (v : VSock) (c : Ctx) :
    (v.immediateAckToTransmit = true → v.maybeSendAck c = v.sendAck c) ∧
    (v.immediateAckToTransmit = false → v.shouldSendWindowUpdate = true → v.maybeSendAck c = v.sendAck c) ∧
    (v.immediateAckToTransmit = false → v.shouldSendWindowUpdate = false →
      Timer.expired v.timers.ackDelay v.pollNow = true → v.ackToTransmit = true → v.maybeSendAck c = v.sendAck c) ∧
    (v.immediateAckToTransmit = false → v.shouldSendWindowUpdate = false →
      Timer.expired v.timers.ackDelay v.pollNow = false → v.consumedButUnackedBytes > 0 →
      ∃ v', v.maybeSendAck c = .ok (v', c, false) ∧
        ∃ d, v'.timers.ackDelay = some d ∧ d ≤ v.pollNow + 40000000 ∧ (∀ e, v.timers.ackDelay = some e → d ≤ e)) ∧
    (v.immediateAckToTransmit = false → v.shouldSendWindowUpdate = false →
      Timer.expired v.timers.ackDelay v.pollNow = false → v.consumedButUnackedBytes = 0 →
      v.maybeSendAck c = .ok (v, c, false)) := by
  have hA : ACK_DELAY = 40000000 := by decide
  unfold maybeSendAck
  refine ⟨fun h => by simp [h], fun h1 h2 => by simp [h1, h2], fun h1 h2 h3 h4 => by simp [h1, h2, h3, h4], ?_, ?_⟩
  · intro h1 h2 h3 h4
    simp only [h1, h2, h3, Bool.false_eq_true, if_false, h4, if_true, pure, Except.pure]
    refine ⟨_, rfl, ?_⟩
    simp only [Timer.arm, hA]
    cases v.timers.ackDelay with
    | none => exact ⟨_, rfl, Nat.le_refl _, by simp⟩
    | some e => exact ⟨_, rfl, Nat.min_le_right _ _, by intro e' he; simp at he; subst he; exact Nat.min_le_left _ _⟩
  · intro h1 h2 h3 h4
    have : ¬ (v.consumedButUnackedBytes > 0) := by omega
    simp [h1, h2, h3, this, pure, Except.pure]

/-- **Immediate-ACK triggers set the counter above every threshold**: a forced ACK
(`force_immediate_ack`) makes `immediate_ack_to_transmit` true whatever the segment size. -/
theorem forced_ack_is_immediate (v : VSock) (hm : IMMEDIATE_ACK_EVERY_RMSS * v.ss.mss ≤ U64MAX) :
    v.forceImmediateAck.immediateAckToTransmit = true := by
  unfold forceImmediateAck immediateAckToTransmit
  simpa using hm

/-- Threshold: two segments' worth of unacknowledged bytes make the ACK immediate. -/
theorem two_segments_are_immediate (v : VSock) (h : 2 * v.ss.mss ≤ v.consumedButUnackedBytes) :
    v.immediateAckToTransmit = true := by
  have : IMMEDIATE_ACK_EVERY_RMSS = 2 := by decide
  unfold immediateAckToTransmit
  simp [this]; omega

/-- **The re-poll request covers the delayed ACK**: when the transport is writable the time handed to
the runtime by `next_timer_to_poll` is no later than the delayed-ACK deadline (nor any other armed
protocol timer). -/
theorem nextTimer_covers_ack_delay (v : VSock) (hp : v.transportPending = false) (d : Nat)
    (hd : v.timers.ackDelay = some d) : ∃ t, v.nextTimerToPoll.2 = some t ∧ t ≤ d := by
  unfold nextTimerToPoll
  simp only [hp, Bool.false_eq_true, if_false, hd, List.filterMap_cons, id]
  -- fold of `min` starting from the first armed timer: result ≤ d
  have key : ∀ (l : List Nat) (a : Nat), a ≤ d →
      ∃ t, l.foldl (fun acc t => match acc with | none => some t | some a => some (min a t)) (some a) = some t ∧ t ≤ d := by
    intro l
    induction l with
    | nil => intro a ha; exact ⟨a, rfl, ha⟩
    | cons x xs ih => intro a ha; simp only [List.foldl_cons]; exact ih (min a x) (by omega)
  simp only [List.foldl_cons]
  exact key _ d (Nat.le_refl _)

/-- Silence: an established endpoint with nothing unacknowledged, no window flip and no expired
delayed-ACK timer sends no ACK. -/
theorem nothing_to_ack_is_silent (v : VSock) (c : Ctx) (h0 : v.consumedButUnackedBytes = 0)
    (hm : 1 ≤ v.ss.mss) (hw : v.shouldSendWindowUpdate = false)
    (ht : Timer.expired v.timers.ackDelay v.pollNow = false) : v.maybeSendAck c = .ok (v, c, false) := by
  have hi : v.immediateAckToTransmit = false := by
    have : IMMEDIATE_ACK_EVERY_RMSS = 2 := by decide
    unfold immediateAckToTransmit; simp [this, h0]; omega
  exact (maybeSendAck_decision v c).2.2.2.2 hi hw ht h0

/-! ### Tie 1b: the hand-written model of this function equals the definition regenerated from the Rust source

`UtpVerif.Gen.Fns` is rewritten by `tools/translate_fns.py` from /repo's current source on every run; the theorems
of this file are about the model definition, and the equality below re-attaches them to what the code says now. -/

theorem generated_immediate_ack (v : VSock) :
    UtpVerif.Gen.Fns.immediateAckToTransmit v.consumedButUnackedBytes v.ss.mss ↔ v.immediateAckToTransmit = true := by
  unfold UtpVerif.Gen.Fns.immediateAckToTransmit VSock.immediateAckToTransmit
  simp

/-- `rx_window()` (C04's advertised window, C07's window-update trigger). -/
theorem generated_rx_window (v : VSock) (hm : v.ss.mss < 4294967296) :
    UtpVerif.Gen.Fns.rxWindow v.rx.remainingRxWindow v.ss.mss = v.rxWindow := by
  unfold UtpVerif.Gen.Fns.rxWindow VSock.rxWindow
  simp only [Nat.mod_eq_of_lt hm]


end UtpVerif.Props.C07
