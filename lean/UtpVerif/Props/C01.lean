import UtpVerif.Model.VSock
import UtpVerif.Lemmas.Segments
import UtpVerif.Lemmas.Rx
import UtpVerif.Props.C19
import UtpVerif.Props.C04
/-!
# C01 — byte-stream integrity (data-plane invariants)

`written` is the ghost stream of every byte the application's `write` calls were told was accepted.
Sender: the ring is `written` minus the acknowledged prefix, the segment queue addresses a contiguous
range of it, and therefore **every ST_DATA ever put on the wire for a queued segment carries exactly
`written[offset_abs, offset_abs + size)`**, on every transmission, whatever the ring's internal wrap
position.  Receiver: a reassembly slot holds exactly the payload that was stored for its position and
slots reach the reader in position order.  The end-to-end statement (`read <+: written` for every
schedule and fault sequence) composes these with C04 (ack honesty), C09 (offset arithmetic) and the
network assumption "a delivered datagram was sent and is not staler than the tolerance"; that
composition over two endpoints is *not* mechanised here (see `integrity_partial` note in DESIGN §5 C01) —
the lockstep correspondence and the position-coded content oracle cover the glue.
-/
namespace UtpVerif.Props.C01
open UtpVerif.Model UtpVerif.Lemmas.Segments UtpVerif.Lemmas.Rx

/-- Sender-side coupling between the ring and the segment queue. -/
structure TxInv (written : List Nat) (ring : List Nat) (s : Segments) : Prop where
  sinv : SInv s
  ring_eq : ring = written.drop s.removedOffset
  covered : s.lenBytes ≤ ring.length

/-- **What goes on the wire is the stream**: for every segment `send_data!` can be handed (any view of
`iter_mut_for_sending`), the payload gathered from the ring — for every wrap position `k` of the ring
buffer — is exactly the `size` stream bytes at the segment's absolute offset, and never a `Bug*` error. -/
theorem wire_payload_is_stream_slice (written ring : List Nat) (s : Segments) (k : Nat) (start : Option Nat)
    (h : TxInv written ring s) :
    ∃ vs, s.iterForSending start = some vs ∧ ∀ v ∈ vs,
      TxRing.prepare2 (ring.take k) (ring.drop k) v.payloadOffset v.seg.payloadSize =
        .ok ((written.drop v.seg.offsetAbs).take v.seg.payloadSize) := by
  obtain ⟨vs, hv, hall⟩ := iterForSending_ok s start h.sinv
  refine ⟨vs, hv, fun v hvm => ?_⟩
  obtain ⟨_, _, hoff, hlen, _⟩ := hall v hvm
  have hfit : v.payloadOffset + v.seg.payloadSize ≤ ring.length := Nat.le_trans hlen h.covered
  rw [C19.prepare2_correct ring k v.payloadOffset v.seg.payloadSize hfit, h.ring_eq, List.drop_drop]
  have e1 : s.removedOffset + v.payloadOffset = v.seg.offsetAbs := by omega
  have e2 : v.payloadOffset + s.removedOffset = v.seg.offsetAbs := by omega
  first | rw [e1] | rw [e2]

/-- Retransmissions carry the same bytes: the slice depends only on `(offset_abs, size)`, which no
operation changes for a queued segment (`Props/C06.content_stable_*`). -/
theorem same_key_same_bytes (written : List Nat) (g1 g2 : Segment)
    (h : (g1.offsetAbs, g1.payloadSize) = (g2.offsetAbs, g2.payloadSize)) :
    (written.drop g1.offsetAbs).take g1.payloadSize = (written.drop g2.offsetAbs).take g2.payloadSize := by
  simp only [Prod.mk.injEq] at h; rw [h.1, h.2]

/-- **Acknowledgement processing keeps ring and queue in step**: `remove_up_to_ack` reports
`acked_bytes`, the connection truncates exactly that many bytes from the front of the ring
(stream_dispatch.rs:995-1011), and the coupling invariant is re-established — for any ACK header. -/
theorem ack_keeps_sender_in_step (written ring : List Nat) (s : Segments) (now ackNr : Nat) (sack : Option Sack)
    (h : TxInv written ring s) (hu : s.sndUna < 65536) :
    ∃ s' r, s.removeUpToAck now ackNr sack = some (s', r) ∧ r.ackedBytes ≤ ring.length ∧
      TxInv written (ring.drop r.ackedBytes) s' := by
  obtain ⟨s', r, k, h1, hinv, _, _, _, hab, hro, _, _, _, _, _⟩ := removeUpToAck_ok s now ackNr sack h.sinv hu
  have hb := h.sinv.bytes
  have hb' := hinv.bytes
  have hcov := h.covered
  have hsz : sizes s.segs = sizes (s.segs.take k) + sizes (s.segs.drop k) := sizes_take_drop s.segs k
  have hacked : r.ackedBytes ≤ s.lenBytes := by rw [hab, hb, hsz]; omega
  refine ⟨s', r, h1, by omega, ⟨hinv, ?_, ?_⟩⟩
  · rw [hro, h.ring_eq, List.drop_drop]
  · rw [List.length_drop]
    have he := h.sinv.ending
    have he' := hinv.ending
    omega

/-- **Segmentation keeps the coupling**: enqueueing `payload ≤ ring bytes not yet segmented`. -/
theorem enqueue_keeps_sender_in_step (written ring : List Nat) (s : Segments) (payload : Nat) (probe : Bool)
    (h : TxInv written ring s) (hfit : s.lenBytes + payload ≤ ring.length) :
    TxInv written ring (s.enqueue payload probe) :=
  ⟨enqueue_inv s payload probe h.sinv, h.ring_eq, by simp only [Segments.enqueue]; exact hfit⟩

/-- New bytes accepted by `write` append to both the ghost stream and the ring. -/
theorem write_keeps_sender_in_step (written ring : List Nat) (s : Segments) (more : List Nat)
    (h : TxInv written ring s) (hr : s.removedOffset ≤ written.length) :
    TxInv (written ++ more) (ring ++ more) s :=
  ⟨h.sinv, by rw [h.ring_eq, List.drop_append_of_le_length hr], by simp only [List.length_append]; have := h.covered; omega⟩

/-- Popping an unacknowledged probe (EMSGSIZE or expiry) keeps the coupling: its bytes simply become
unsegmented again (this is the accounting the D1 fix restored). -/
theorem probe_pop_keeps_sender_in_step (written ring : List Nat) (s : Segments) (q : Nat) (h : TxInv written ring s) :
    ∃ s' b, s.popMtuProbe q = some (s', b) ∧ TxInv written ring s' := by
  obtain ⟨s', b, h1, hinv, _, hro, hf, ht⟩ := popMtuProbe_ok s q h.sinv
  refine ⟨s', b, h1, hinv, by rw [hro]; exact h.ring_eq, ?_⟩
  cases b with
  | false => rw [hf rfl]; exact h.covered
  | true =>
    have he := h.sinv.ending
    have he' := hinv.ending
    obtain ⟨_, last, _, _, _, hoff⟩ := ht rfl
    have := h.covered
    omega

/-- **Receiver: a slot holds exactly what was stored for its position**; storing touches no other slot. -/
theorem store_sets_only_its_slot (q : Ooq) (eff : Nat) (msg : OoqMsg) (heff : eff < q.data.length) :
    (q.store eff msg).1.data[eff]? = some msg ∧ ∀ j, j ≠ eff → (q.store eff msg).1.data[j]? = q.data[j]? := by
  unfold Ooq.store
  exact ⟨by simp [heff], fun j hj => by simp [List.getElem?_set_ne (Ne.symm hj)]⟩

/-- **Receiver: slots reach the reader in position order, unaltered**: `flush` only appends to the
reader's queue, and what it appends is the sequence of front slots (C04
`acked_data_only_leaves_to_reader`, `flush_ok`). Duplicates never overwrite: an occupied slot is
reported `AlreadyPresent` and left as is. -/
theorem duplicate_never_overwrites (q : Ooq) (ty : Nat) (payload : List Nat) (off : Nat) (slot : OoqMsg)
    (hs : q.data[off + q.filledFront]? = some slot) (hocc : slot.isDefault = false)
    (hnf : q.isFull = false) (hty : ty = Gen.TYPE_ST_DATA) (hp : payload ≠ []) :
    q.addRemove ty payload off = (q, .alreadyPresent) := by
  have hlt : off + q.filledFront < q.data.length := (List.getElem?_eq_some_iff.mp hs).1
  have hge : ¬ (off + q.filledFront ≥ q.data.length) := by omega
  have hpe : payload.isEmpty = false := by cases payload <;> simp_all
  unfold Ooq.addRemove Ooq.classify
  simp [hnf, hge, hty, hpe, hs, hocc]

end UtpVerif.Props.C01
