import UtpVerif.Model.VSock
/-!
# C18 — Nagle coalescing

`segmentLoop` is the `while remaining > 0 && remote_window_remaining > 0` loop of
`split_tx_queue_into_segments` (stream_dispatch.rs:845-886).  Segments are transmitted with exactly the
size they were enqueued with (the sender never re-segments except popped probes), so what is proved about
enqueued sizes is what the wire shows for first transmissions.
-/
namespace UtpVerif.Props.C18
open UtpVerif.Model UtpVerif.Model.VSock

/-- The segments a loop run appends, with the state of the queue at the moment of each enqueue:
`(payload, usable, queueWasEmpty, isProbe)` where `usable = min(next segment size, window remaining)`. -/
def trace : Nat → VSock → Nat → Nat → List (Nat × Nat × Bool × Bool)
  | 0, _, _, _ => []
  | fuel + 1, v, remaining, windowRemaining =>
    if ¬ (remaining > 0 ∧ windowRemaining > 0 ∧ v.segs.segs.length < Gen.MAX_TX_SEGMENTS) then [] else
    let (ss', ssz) := v.ss.nextSegmentSize
    let v := { v with ss := ss' }
    let maxPayload := min ssz windowRemaining
    let payload := min maxPayload remaining
    if v.opts.nagle ∧ payload ≠ maxPayload ∧ !v.segs.segs.isEmpty then [] else
    let probe := decide (payload > v.ss.mss)
    let entry := (payload, maxPayload, v.segs.segs.isEmpty, probe)
    let v := { v with segs := v.segs.enqueue payload probe }
    if probe then [entry]
    else entry :: trace fuel v (remaining - payload) (windowRemaining - payload)

/-- `trace` really is what `segmentLoop` enqueues: the queue afterwards is the queue before plus exactly
these segments, in order, with these sizes. -/
theorem segmentLoop_appends (fuel : Nat) (v : VSock) (remaining win : Nat) :
    (segmentLoop fuel v remaining win).1.segs.segs.map (·.payloadSize) =
      v.segs.segs.map (·.payloadSize) ++ (trace fuel v remaining win).map (·.1) := by
  induction fuel generalizing v remaining win with
  | zero => simp [segmentLoop, trace]
  | succ fuel ih =>
    unfold segmentLoop trace
    split
    · simp
    · dsimp only
      split
      · simp
      · split
        · simp [Segments.enqueue]
        · rw [ih]
          simp [Segments.enqueue]

/-- **Nagle on: no partial segment while earlier data is queued.** Every segment the loop creates is
either as large as it could be (`payload = min(segment size, peer window left)`: full, or limited by the
peer's window) or was created when no earlier segment was outstanding. -/
theorem nagle_no_partial_segment (fuel : Nat) (v : VSock) (remaining win : Nat) (hn : v.opts.nagle = true) :
    ∀ e ∈ trace fuel v remaining win, e.1 = e.2.1 ∨ e.2.2.1 = true := by
  induction fuel generalizing v remaining win with
  | zero => simp [trace]
  | succ fuel ih =>
    unfold trace
    split
    · simp
    · dsimp only
      split
      · simp
      · rename_i hgate
        have hcase : min (min v.ss.nextSegmentSize.2 win) remaining = min v.ss.nextSegmentSize.2 win ∨
            v.segs.segs.isEmpty = true := by
          by_cases h1 : min (min v.ss.nextSegmentSize.2 win) remaining = min v.ss.nextSegmentSize.2 win
          · exact Or.inl h1
          · right
            simp only [hn, true_and, not_and, Bool.not_eq_true', Bool.not_eq_false] at hgate
            exact hgate h1
        split
        · intro e he
          simp only [List.mem_singleton] at he
          subst he
          exact hcase
        · intro e he
          simp only [List.mem_cons] at he
          rcases he with rfl | he
          · exact hcase
          · exact ih _ _ _ (by simpa using hn) e he

theorem nextSegmentSize_pos (ss : SegSizes) (h : 1 ≤ ss.minSs ∧ ss.minSs ≤ ss.maxSs) :
    1 ≤ ss.nextSegmentSize.2 ∧ 1 ≤ ss.nextSegmentSize.1.minSs ∧ ss.nextSegmentSize.1.minSs ≤ ss.nextSegmentSize.1.maxSs := by
  unfold SegSizes.nextSegmentSize
  split
  · simp only [SegSizes.nextProbe]; omega
  · simp only; omega

/-- Every created segment is at least one byte (so the loop makes progress and terminates), fits the
peer's window that was left and the bytes that were left. Needs the segment-size invariant of C14
(`1 ≤ min_ss ≤ max_ss`). -/
theorem segment_sizes (fuel : Nat) (v : VSock) (remaining win : Nat)
    (hss : 1 ≤ v.ss.minSs ∧ v.ss.minSs ≤ v.ss.maxSs) :
    ∀ e ∈ trace fuel v remaining win, 1 ≤ e.1 ∧ e.1 ≤ e.2.1 ∧ e.1 ≤ remaining ∧ e.2.1 ≤ win := by
  induction fuel generalizing v remaining win with
  | zero => simp [trace]
  | succ fuel ih =>
    unfold trace
    split
    · simp
    · rename_i hpos
      dsimp only
      have hp := nextSegmentSize_pos v.ss hss
      split
      · simp
      · split
        · intro e he
          simp only [List.mem_singleton] at he
          subst he
          refine ⟨by simp only; omega, Nat.min_le_left _ _, Nat.min_le_right _ _, Nat.min_le_right _ _⟩
        · intro e he
          simp only [List.mem_cons] at he
          rcases he with rfl | he
          · refine ⟨by simp only; omega, Nat.min_le_left _ _, Nat.min_le_right _ _, Nat.min_le_right _ _⟩
          · have := ih { v with ss := v.ss.nextSegmentSize.1, segs := _ } _ _ ⟨hp.2.1, hp.2.2⟩ e he
            omega

/-- **Nagle off: nothing is held back** except by the peer's window, an outstanding MTU probe, the end of the
data, or the cap on the number of queued segments (D25): when the loop stops (with enough fuel) either everything
buffered was segmented, or the peer's window is used up, or the segment just created is an MTU probe, or the
queue holds `MAX_TX_SEGMENTS` segments. -/
theorem no_nagle_segments_everything (fuel : Nat) (v : VSock) (remaining win : Nat) (hn : v.opts.nagle = false)
    (hss : 1 ≤ v.ss.minSs ∧ v.ss.minSs ≤ v.ss.maxSs) (hf : remaining < fuel) :
    (segmentLoop fuel v remaining win).2 ≤ remaining ∧
    ((segmentLoop fuel v remaining win).2 = 0 ∨
     win ≤ remaining - (segmentLoop fuel v remaining win).2 ∨
     (∃ g, (segmentLoop fuel v remaining win).1.segs.segs.getLast? = some g ∧ g.isMtuProbe = true) ∨
     Gen.MAX_TX_SEGMENTS ≤ (segmentLoop fuel v remaining win).1.segs.segs.length) := by
  induction fuel generalizing v remaining win with
  | zero => omega
  | succ fuel ih =>
    unfold segmentLoop
    split
    · rename_i hstop
      simp only at hstop ⊢
      omega
    · rename_i hpos
      dsimp only
      have hp := nextSegmentSize_pos v.ss hss
      have hgate : ¬ (v.opts.nagle = true ∧ min (min v.ss.nextSegmentSize.2 win) remaining ≠ min v.ss.nextSegmentSize.2 win ∧
          (!v.segs.segs.isEmpty) = true) := by simp [hn]
      simp only [hgate, if_false]
      have hpay : 1 ≤ min (min v.ss.nextSegmentSize.2 win) remaining := by omega
      have hple : min (min v.ss.nextSegmentSize.2 win) remaining ≤ remaining := Nat.min_le_right _ _
      have hplw : min (min v.ss.nextSegmentSize.2 win) remaining ≤ win := by omega
      generalize min (min v.ss.nextSegmentSize.2 win) remaining = p at *
      split
      · rename_i hprobe
        refine ⟨by simp only; omega, Or.inr (Or.inr (Or.inl ?_))⟩
        refine ⟨{ payloadSize := p, offsetAbs := v.segs.offset, isMtuProbe := decide (p > v.ss.nextSegmentSize.1.mss) }, ?_, ?_⟩
        · simp only [Segments.enqueue, List.getLast?_append, List.getLast?_singleton, Option.some_or]
        · simpa using hprobe
      · obtain ⟨h1, h2⟩ := ih { v with ss := v.ss.nextSegmentSize.1, segs := Segments.enqueue v.segs p (decide (p > v.ss.nextSegmentSize.1.mss)) } (remaining - p) (win - p) hn ⟨hp.2.1, hp.2.2⟩ (by omega)
        refine ⟨by omega, ?_⟩
        rcases h2 with h2 | h2 | h2 | h2
        · exact Or.inl h2
        · right; left; omega
        · exact Or.inr (Or.inr (Or.inl h2))
        · exact Or.inr (Or.inr (Or.inr h2))

-- Non-vacuity: with Nagle on, 628 buffered bytes behind nothing outstanding give one full 528-byte segment
-- and the 100-byte tail is held back; with Nagle off both go out.
def exampleSock (nagle : Bool) : VSock :=
  { state := .established, opts := { nagle := nagle }, socketCreated := 0, connIdSend := 1,
    lastRemoteTimestamp := 0, lastRemoteWindow := 100000, seqNr := 1, lastSentSeqNr := 0,
    lastConsumedRemoteSeqNr := 0, lastSentAckNr := 0, lastSentWindow := 0,
    rx := Rx.build 1000 528, tx := TxRing.new 1000, segs := Segments.new 1,
    ss := { minSs := 528, maxSs := 528, cooldownRemaining := 1, cooldownMax := 3 } }
example : (trace 700 (exampleSock true) 628 100000).map (·.1) = [528] := by decide
example : (trace 700 (exampleSock false) 628 100000).map (·.1) = [528, 100] := by decide
end UtpVerif.Props.C18