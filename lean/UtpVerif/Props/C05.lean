import UtpVerif.Model.VSock
/-!
# C05 — sender obeys the peer's advertised window and slow-start growth

`newDataLoop` is the final loop of `send_tx_queue` (stream_dispatch.rs:562-600): first transmissions.
Its budget is `min(cwnd, last_remote_window) − flight_size` outside recovery.
-/
namespace UtpVerif.Props.C05
open UtpVerif.Model UtpVerif.Model.VSock

/-- Payload bytes of the datagrams a context has accepted beyond the first `n`. -/
def sentPayload (c0 c1 : Ctx) : Nat := ((c1.out.drop c0.out.length).map (fun d => d.length - 20)).sum

/-- Number of datagrams accepted by the transport. -/
def nOut (c : Ctx) : Nat := c.out.length

theorem transportSend_out (c : Ctx) (bytes : List Nat) :
    ((transportSend c bytes).2 = .sent → (transportSend c bytes).1.out = c.out ++ [bytes]) ∧
    ((transportSend c bytes).2 ≠ .sent → (transportSend c bytes).1.out = c.out) := by
  unfold transportSend
  cases c.transport.outcome c.sends bytes.length <;> simp

/-- `send_data!` hands at most one datagram to the transport, and only in the `sent` outcome. -/
theorem sendData_out (v : VSock) (c : Ctx) (h : Header) (view : SegView) (v' : VSock) (c' : Ctx) (r : DataSend)
    (hs : v.sendData c h view = .ok (v', c', r)) :
    (r = .sent → nOut c' = nOut c + 1) ∧ (r ≠ .sent → nOut c' = nOut c) ∧ v'.lastRemoteWindow = v.lastRemoteWindow := by
  unfold sendData at hs
  split at hs
  · simp at hs
  · dsimp only at hs
    cases hser : (v.dataHeader c h view).serialize Gen.UTP_HEADER with
    | none => rw [hser] at hs; simp at hs
    | some hb =>
      rw [hser] at hs
      simp only at hs
      cases hprep : TxRing.prepare2 [] v.tx.ring view.payloadOffset view.seg.payloadSize with
      | bugOffset => rw [hprep] at hs; simp at hs
      | bugLength => rw [hprep] at hs; simp at hs
      | ok payload =>
        rw [hprep] at hs
        simp only at hs
        have ht := transportSend_out c (hb ++ payload)
        cases ho : transportSend c (hb ++ payload) with
        | mk c1 o =>
          rw [ho] at hs ht
          simp only at hs ht
          cases o with
          | error => simp at hs
          | emsgsize =>
            simp only [pure, Except.pure, Except.ok.injEq, Prod.mk.injEq] at hs
            obtain ⟨rfl, rfl, rfl⟩ := hs
            exact ⟨by simp, fun _ => by unfold nOut; rw [ht.2 (by simp)], rfl⟩
          | pending =>
            simp only [pure, Except.pure, Except.ok.injEq, Prod.mk.injEq] at hs
            obtain ⟨rfl, rfl, rfl⟩ := hs
            exact ⟨by simp, fun _ => by unfold nOut; rw [ht.2 (by simp)], rfl⟩
          | sent =>
            simp only [pure, Except.pure, Except.ok.injEq, Prod.mk.injEq] at hs
            obtain ⟨rfl, rfl, rfl⟩ := hs
            refine ⟨fun _ => by unfold nOut; rw [ht.1 rfl]; simp, by simp, ?_⟩
            split <;> rfl

/-- **First transmissions never exceed the budget**: the loop sends a segment only while
`remaining ≥ payload`, and subtracts what it sent. Counting datagrams: with budget `remaining` and every
payload ≥ 1 byte, at most `remaining` datagrams; with a zero budget (e.g. a zero peer window) none. -/
theorem newDataLoop_budget (h : Header) (views : List SegView) (v : VSock) (c : Ctx) (remaining : Nat)
    (hpos : ∀ s ∈ views, 1 ≤ s.seg.payloadSize)
    (v' : VSock) (c' : Ctx) (r : Option (Nat × Nat))
    (hl : newDataLoop h views v c remaining = .ok (v', c', r)) :
    nOut c' ≤ nOut c + remaining ∧ v'.lastRemoteWindow = v.lastRemoteWindow := by
  induction views generalizing v c remaining with
  | nil =>
    simp only [newDataLoop, pure, Except.pure, Except.ok.injEq, Prod.mk.injEq] at hl
    obtain ⟨rfl, rfl, _⟩ := hl
    exact ⟨by omega, rfl⟩
  | cons item rest ih =>
    unfold newDataLoop at hl
    split at hl
    · simp only [pure, Except.pure, Except.ok.injEq, Prod.mk.injEq] at hl
      obtain ⟨rfl, rfl, _⟩ := hl
      exact ⟨by omega, rfl⟩
    · rename_i hfit
      have hp := hpos item (by simp)
      split at hl
      · simp at hl
      · rename_i v1 c1 hsd
        obtain ⟨h1, _, hw⟩ := sendData_out v c h item v1 c1 .sent hsd
        obtain ⟨i1, i2⟩ := ih v1 c1 _ (fun s hs => hpos s (by simp [hs])) hl
        exact ⟨by have := h1 rfl; omega, by rw [i2, hw]⟩
      · rename_i v1 c1 hsd
        obtain ⟨_, h2, hw⟩ := sendData_out v c h item v1 c1 .pending hsd
        simp only [pure, Except.pure, Except.ok.injEq, Prod.mk.injEq] at hl
        obtain ⟨rfl, rfl, _⟩ := hl
        exact ⟨by have := h2 (by simp); omega, hw⟩
      · rename_i v1 c1 hsd
        obtain ⟨_, h2, hw⟩ := sendData_out v c h item v1 c1 .emsgsize hsd
        simp only [pure, Except.pure, Except.ok.injEq, Prod.mk.injEq] at hl
        obtain ⟨rfl, rfl, _⟩ := hl
        exact ⟨by have := h2 (by simp); omega, hw⟩

/-- **After a zero window nothing new is sent**: the budget is `min(cwnd, 0) − flight = 0`. -/
theorem zero_window_sends_nothing (h : Header) (views : List SegView) (v : VSock) (c : Ctx)
    (hpos : ∀ s ∈ views, 1 ≤ s.seg.payloadSize) (v' : VSock) (c' : Ctx) (r : Option (Nat × Nat))
    (w flight : Nat) (hl : newDataLoop h views v c (min w 0 - flight) = .ok (v', c', r)) : nOut c' = nOut c := by
  have := (newDataLoop_budget h views v c _ hpos v' c' r hl).1
  have hge : nOut c ≤ nOut c' := by
    clear this
    induction views generalizing v c with
    | nil => simp only [newDataLoop, pure, Except.pure, Except.ok.injEq, Prod.mk.injEq] at hl; obtain ⟨_, rfl, _⟩ := hl; exact Nat.le_refl _
    | cons item rest _ =>
      unfold newDataLoop at hl
      have hp := hpos item (by simp)
      have : (min w 0 - flight : Nat) < item.seg.payloadSize := by omega
      simp only [this, if_true, pure, Except.pure, Except.ok.injEq, Prod.mk.injEq] at hl
      obtain ⟨_, rfl, _⟩ := hl; exact Nat.le_refl _
  omega

/-- The budget formula itself (stream_dispatch.rs:562-573): outside recovery it is
`min(window(), last_remote_window).saturating_sub(flight_size)`; in particular it never exceeds the
peer's advertised window minus what is in flight. -/
theorem budget_within_peer_window (w lrw flight : Nat) : min w lrw - flight ≤ lrw - flight := by omega

/-- **While the RTO counter is set nothing is sent by the recovery / new-data parts** of `send_tx_queue`:
it returns right after the (possible) RTO retransmission. -/
theorem rto_mode_blocks_sending (v : VSock) (c : Ctx) (hp : v.transportPending = false)
    (hnotexp : Timer.expired v.timers.retransmit v.pollNow = false) (hr : v.rtoRetransmissions > 0) :
    v.sendTxQueue c = .ok (v, c) := by
  unfold sendTxQueue
  simp [hp, hnotexp, hr, pure, Except.pure, bind, Except.bind]

end UtpVerif.Props.C05
