import UtpVerif.Model.VSock
/-!
# C05 — sender obeys the peer's advertised window and slow-start growth

`newDataLoop` is the final loop of `send_tx_queue` (stream_dispatch.rs:562-600): first transmissions.
Its budget is `min(cwnd, last_remote_window) − flight_size` outside recovery.
-/
namespace UtpVerif.Props.C05
open UtpVerif.Model UtpVerif.Model.VSock

/-- Payload bytes of the datagrams a context has accepted beyond the first `n`. -/
def sentPayload (c0 c1 : Ctx) : Nat := ((c1.out.drop c0.out.length).map (fun d => d.length - 20)).sum

/-- Number of datagrams accepted by the transport. -/
def nOut (c : Ctx) : Nat := c.out.length

theorem transportSend_out (c : Ctx) (bytes : List Nat) :
    ((transportSend c bytes).2 = .sent → (transportSend c bytes).1.out = c.out ++ [bytes]) ∧
    ((transportSend c bytes).2 ≠ .sent → (transportSend c bytes).1.out = c.out) := by
  unfold transportSend
  cases c.transport.outcome c.sends bytes.length <;> simp

/-- `send_data!` hands at most one datagram to the transport, and only in the `sent` outcome. -/
theorem sendData_out (v : VSock) (c : Ctx) (h : Header) (view : SegView) (v' : VSock) (c' : Ctx) (r : DataSend)
    (hs : v.sendData c h view = .ok (v', c', r)) :
    (r = .sent → nOut c' = nOut c + 1) ∧ (r ≠ .sent → nOut c' = nOut c) ∧ v'.lastRemoteWindow = v.lastRemoteWindow := by
  unfold sendData at hs
  split at hs
  · simp at hs
  · dsimp only at hs
    cases hser : (v.dataHeader c h view).serialize Gen.UTP_HEADER with
    | none => rw [hser] at hs; simp at hs
    | some hb =>
      rw [hser] at hs
      simp only at hs
      cases hprep : TxRing.prepare2 [] v.tx.ring view.payloadOffset view.seg.payloadSize with
      | bugOffset => rw [hprep] at hs; simp at hs
      | bugLength => rw [hprep] at hs; simp at hs
      | ok payload =>
        rw [hprep] at hs
        simp only at hs
        have ht := transportSend_out c (hb ++ payload)
        cases ho : transportSend c (hb ++ payload) with
        | mk c1 o =>
          rw [ho] at hs ht
          simp only at hs ht
          cases o with
          | error => simp at hs
          | emsgsize =>
            simp only [pure, Except.pure, Except.ok.injEq, Prod.mk.injEq] at hs
            obtain ⟨rfl, rfl, rfl⟩ := hs
            exact ⟨by simp, fun _ => by unfold nOut; rw [ht.2 (by simp)], rfl⟩
          | pending =>
            simp only [pure, Except.pure, Except.ok.injEq, Prod.mk.injEq] at hs
            obtain ⟨rfl, rfl, rfl⟩ := hs
            exact ⟨by simp, fun _ => by unfold nOut; rw [ht.2 (by simp)], rfl⟩
          | sent =>
            simp only [pure, Except.pure, Except.ok.injEq, Prod.mk.injEq] at hs
            obtain ⟨rfl, rfl, rfl⟩ := hs
            refine ⟨fun _ => by unfold nOut; rw [ht.1 rfl]; simp, by simp, ?_⟩
            split <;> rfl

/-- **First transmissions never exceed the budget**: the loop sends a segment only while
`remaining ≥ payload`, and subtracts what it sent. Counting datagrams: with budget `remaining` and every
payload ≥ 1 byte, at most `remaining` datagrams; with a zero budget (e.g. a zero peer window) none. -/
theorem newDataLoop_budget (h : Header) (views : List SegView) (v : VSock) (c : Ctx) (remaining : Nat)
    (hpos : ∀ s ∈ views, 1 ≤ s.seg.payloadSize)
    (v' : VSock) (c' : Ctx) (r : Option (Nat × Nat))
    (hl : newDataLoop h views v c remaining = .ok (v', c', r)) :
    nOut c' ≤ nOut c + remaining ∧ v'.lastRemoteWindow = v.lastRemoteWindow := by
  induction views generalizing v c remaining with
  | nil =>
    simp only [newDataLoop, pure, Except.pure, Except.ok.injEq, Prod.mk.injEq] at hl
    obtain ⟨rfl, rfl, _⟩ := hl
    exact ⟨by omega, rfl⟩
  | cons item rest ih =>
    unfold newDataLoop at hl
    split at hl
    · split at hl <;>
      · simp only [pure, Except.pure, Except.ok.injEq, Prod.mk.injEq] at hl
        obtain ⟨rfl, rfl, _⟩ := hl
        exact ⟨by omega, rfl⟩
    · rename_i hfit
      have hp := hpos item (by simp)
      split at hl
      · simp at hl
      · rename_i v1 c1 hsd
        obtain ⟨h1, _, hw⟩ := sendData_out v c h item v1 c1 .sent hsd
        obtain ⟨i1, i2⟩ := ih v1 c1 _ (fun s hs => hpos s (by simp [hs])) hl
        exact ⟨by have := h1 rfl; omega, by rw [i2, hw]⟩
      · rename_i v1 c1 hsd
        obtain ⟨_, h2, hw⟩ := sendData_out v c h item v1 c1 .pending hsd
        simp only [pure, Except.pure, Except.ok.injEq, Prod.mk.injEq] at hl
        obtain ⟨rfl, rfl, _⟩ := hl
        exact ⟨by have := h2 (by simp); omega, hw⟩
      · rename_i v1 c1 hsd
        obtain ⟨_, h2, hw⟩ := sendData_out v c h item v1 c1 .emsgsize hsd
        simp only [pure, Except.pure, Except.ok.injEq, Prod.mk.injEq] at hl
        obtain ⟨rfl, rfl, _⟩ := hl
        exact ⟨by have := h2 (by simp); omega, hw⟩

/-- **After a zero window nothing new is sent**: the budget is `min(cwnd, 0) − flight = 0`. -/
theorem zero_window_sends_nothing (h : Header) (views : List SegView) (v : VSock) (c : Ctx)
    (hpos : ∀ s ∈ views, 1 ≤ s.seg.payloadSize) (v' : VSock) (c' : Ctx) (r : Option (Nat × Nat))
    (w flight : Nat) (hl : newDataLoop h views v c (min w 0 - flight) = .ok (v', c', r)) : nOut c' = nOut c := by
  have := (newDataLoop_budget h views v c _ hpos v' c' r hl).1
  have hge : nOut c ≤ nOut c' := by
    clear this
    induction views generalizing v c with
    | nil => simp only [newDataLoop, pure, Except.pure, Except.ok.injEq, Prod.mk.injEq] at hl; obtain ⟨_, rfl, _⟩ := hl; exact Nat.le_refl _
    | cons item rest _ =>
      unfold newDataLoop at hl
      have hp := hpos item (by simp)
      have : (min w 0 - flight : Nat) < item.seg.payloadSize := by omega
      simp only [this, if_true] at hl
      split at hl <;>
      · simp only [pure, Except.pure, Except.ok.injEq, Prod.mk.injEq] at hl
        obtain ⟨_, rfl, _⟩ := hl; exact Nat.le_refl _
  omega

/-- The budget formula itself (stream_dispatch.rs:562-573): outside recovery it is
`min(window(), last_remote_window).saturating_sub(flight_size)`; in particular it never exceeds the
peer's advertised window minus what is in flight. -/
theorem budget_within_peer_window (w lrw flight : Nat) : min w lrw - flight ≤ lrw - flight := by omega

/-- **While the RTO counter is set nothing is sent by the recovery / new-data parts** of `send_tx_queue`:
it returns right after the (possible) RTO retransmission. -/
theorem rto_mode_blocks_sending (v : VSock) (c : Ctx) (hp : v.transportPending = false)
    (hnotexp : Timer.expired v.timers.retransmit v.pollNow = false) (hr : v.rtoRetransmissions > 0) :
    v.sendTxQueue c = .ok (v, c) := by
  unfold sendTxQueue
  simp [hp, hnotexp, hr, pure, Except.pure, bind, Except.bind]

/-! ### Byte-level budget and the composite statement for one pass of `send_tx_queue` -/

theorem addExt_nofit (bufLen : Nat) (out : List Nat) (pos id : Nat) (payload : List Nat) (h : bufLen < out.length + 2) :
    addExt bufLen out pos id payload = (out, pos) := by
  unfold addExt
  have : ¬ (bufLen ≥ out.length + 2 + payload.length) := by omega
  simp [this]

theorem serialize_header_len (h : Header) (hb : List Nat) (hs : h.serialize Gen.UTP_HEADER = some hb) : hb.length = 20 := by
  unfold Header.serialize at hs
  simp only [Gen.UTP_HEADER, Nat.lt_irrefl, if_false, Option.some.injEq] at hs
  subst hs
  have hbase : ([(h.htype * 16 + Gen.WIRE_VERSION) % 256, Gen.NO_NEXT_EXT] ++ toBe16 h.connId ++ toBe32 h.ts ++
    toBe32 h.tsDiff ++ toBe32 h.wnd ++ toBe16 h.seqNr ++ toBe16 h.ackNr).length = 20 := by simp [toBe16, toBe32]
  generalize hB : ([(h.htype * 16 + Gen.WIRE_VERSION) % 256, Gen.NO_NEXT_EXT] ++ toBe16 h.connId ++ toBe32 h.ts ++
    toBe32 h.tsDiff ++ toBe32 h.wnd ++ toBe16 h.seqNr ++ toBe16 h.ackNr) = base at hbase ⊢
  have nf : ∀ pos id payload, addExt 20 base pos id payload = (base, pos) :=
    fun pos id payload => addExt_nofit _ _ _ _ _ (by omega)
  cases h.sack <;> cases h.closeReason <;> simp only [nf] <;> exact hbase

theorem prepare2_len (ring : List Nat) (off len : Nat) (p : List Nat)
    (h : TxRing.prepare2 [] ring off len = .ok p) : p.length = len := by
  unfold TxRing.prepare2 at h
  simp only [List.length_nil, Nat.zero_min, List.drop_nil, Nat.sub_zero, List.take_nil, List.nil_append] at h
  split at h
  · simp at h
  · split at h
    · simp at h
    · rename_i h1 h2
      simp only [TxRing.SliceRes.ok.injEq] at h
      subst h
      rw [List.length_take, List.length_drop] at *
      omega

/-- `send_data!` in the `sent` outcome appends exactly one datagram: 20 header bytes + the segment's payload. -/
theorem sendData_bytes (v : VSock) (c : Ctx) (h : Header) (view : SegView) (v' : VSock) (c' : Ctx)
    (hs : v.sendData c h view = .ok (v', c', .sent)) :
    ∃ d, c'.out = c.out ++ [d] ∧ d.length = 20 + view.seg.payloadSize := by
  unfold sendData at hs
  split at hs
  · simp at hs
  · dsimp only at hs
    cases hser : (v.dataHeader c h view).serialize Gen.UTP_HEADER with
    | none => rw [hser] at hs; simp at hs
    | some hb =>
      rw [hser] at hs
      simp only at hs
      cases hprep : TxRing.prepare2 [] v.tx.ring view.payloadOffset view.seg.payloadSize with
      | bugOffset => rw [hprep] at hs; simp at hs
      | bugLength => rw [hprep] at hs; simp at hs
      | ok payload =>
        rw [hprep] at hs
        simp only at hs
        have ht := transportSend_out c (hb ++ payload)
        cases ho : transportSend c (hb ++ payload) with
        | mk c1 o =>
          rw [ho] at hs ht
          simp only at hs ht
          cases o with
          | error => simp at hs
          | emsgsize => simp [pure, Except.pure] at hs
          | pending => simp [pure, Except.pure] at hs
          | sent =>
            simp only [pure, Except.pure, Except.ok.injEq, Prod.mk.injEq] at hs
            obtain ⟨_, rfl, _⟩ := hs
            exact ⟨hb ++ payload, ht.1 rfl, by rw [List.length_append, serialize_header_len _ _ hser, prepare2_len _ _ _ _ hprep]⟩

theorem sendData_notsent (v : VSock) (c : Ctx) (h : Header) (view : SegView) (v' : VSock) (c' : Ctx) (r : DataSend)
    (hs : v.sendData c h view = .ok (v', c', r)) (hr : r ≠ .sent) : c'.out = c.out := by
  unfold sendData at hs
  split at hs
  · simp at hs
  · dsimp only at hs
    cases hser : (v.dataHeader c h view).serialize Gen.UTP_HEADER with
    | none => rw [hser] at hs; simp at hs
    | some hb =>
      rw [hser] at hs
      simp only at hs
      cases hprep : TxRing.prepare2 [] v.tx.ring view.payloadOffset view.seg.payloadSize with
      | bugOffset => rw [hprep] at hs; simp at hs
      | bugLength => rw [hprep] at hs; simp at hs
      | ok payload =>
        rw [hprep] at hs
        simp only at hs
        have ht := transportSend_out c (hb ++ payload)
        cases ho : transportSend c (hb ++ payload) with
        | mk c1 o =>
          rw [ho] at hs ht
          simp only at hs ht
          cases o with
          | error => simp at hs
          | emsgsize =>
            simp only [pure, Except.pure, Except.ok.injEq, Prod.mk.injEq] at hs
            obtain ⟨_, rfl, _⟩ := hs
            exact ht.2 (by simp)
          | pending =>
            simp only [pure, Except.pure, Except.ok.injEq, Prod.mk.injEq] at hs
            obtain ⟨_, rfl, _⟩ := hs
            exact ht.2 (by simp)
          | sent =>
            simp only [pure, Except.pure, Except.ok.injEq, Prod.mk.injEq] at hs
            exact absurd hs.2.2.symm hr

/-- **First transmissions never exceed the byte budget**: the datagrams the loop hands to the transport are
appended in order and their payload bytes sum to at most `remaining`. -/
theorem newDataLoop_bytes (h : Header) (views : List SegView) (v : VSock) (c : Ctx) (remaining : Nat)
    (v' : VSock) (c' : Ctx) (r : Option (Nat × Nat))
    (hl : newDataLoop h views v c remaining = .ok (v', c', r)) :
    ∃ ds, c'.out = c.out ++ ds ∧ (ds.map (fun d => d.length - 20)).sum ≤ remaining := by
  induction views generalizing v c remaining with
  | nil =>
    simp only [newDataLoop, pure, Except.pure, Except.ok.injEq, Prod.mk.injEq] at hl
    obtain ⟨_, rfl, _⟩ := hl
    exact ⟨[], by simp, by simp⟩
  | cons item rest ih =>
    unfold newDataLoop at hl
    split at hl
    · split at hl <;>
      · simp only [pure, Except.pure, Except.ok.injEq, Prod.mk.injEq] at hl
        obtain ⟨_, rfl, _⟩ := hl
        exact ⟨[], by simp, by simp⟩
    · rename_i hfit
      split at hl
      · simp at hl
      · rename_i v1 c1 hsd
        obtain ⟨d, hd, hlen⟩ := sendData_bytes v c h item v1 c1 hsd
        obtain ⟨ds, hds, hsum⟩ := ih v1 c1 _ hl
        refine ⟨d :: ds, by rw [hds, hd]; simp, ?_⟩
        simp only [List.map_cons, List.sum_cons, hlen]
        omega
      · rename_i v1 c1 hsd
        have h2 := sendData_notsent v c h item v1 c1 .pending hsd (by simp)
        simp only [pure, Except.pure, Except.ok.injEq, Prod.mk.injEq] at hl
        obtain ⟨_, rfl, _⟩ := hl
        exact ⟨[], by simp [h2], by simp⟩
      · rename_i v1 c1 hsd
        have h2 := sendData_notsent v c h item v1 c1 .emsgsize hsd (by simp)
        simp only [pure, Except.pure, Except.ok.injEq, Prod.mk.injEq] at hl
        obtain ⟨_, rfl, _⟩ := hl
        exact ⟨[], by simp [h2], by simp⟩

/-- In `sentPayload` form. -/
theorem newDataLoop_sentPayload (h : Header) (views : List SegView) (v : VSock) (c : Ctx) (remaining : Nat)
    (v' : VSock) (c' : Ctx) (r : Option (Nat × Nat))
    (hl : newDataLoop h views v c remaining = .ok (v', c', r)) : sentPayload c c' ≤ remaining := by
  obtain ⟨ds, hds, hsum⟩ := newDataLoop_bytes h views v c remaining v' c' r hl
  unfold sentPayload
  rw [hds, List.drop_left]
  exact hsum


/-- **Bytes in flight stay within the peer's advertised window** (ordinary sending: no loss recovery or RTO
retransmission in progress). Whatever `send_tx_queue` transmits in one pass, (bytes in flight before) + (payload
bytes put on the wire by this pass) ≤ the peer's last advertised window — unless more than that was already in
flight (the peer shrank its window), in which case nothing at all is sent. -/
theorem first_transmissions_within_peer_window (v : VSock) (c : Ctx) (v' : VSock) (c' : Ctx)
    (hp : v.transportPending = false) (hne : Timer.expired v.timers.retransmit v.pollNow = false)
    (hr : v.rtoRetransmissions = 0) (hph : ∀ rec, v.recovery.phase ≠ .recovering rec)
    (hs : v.sendTxQueue c = .ok (v', c')) :
    sentPayload c c' + v.segs.calcFlightSize v.lastSentSeqNr ≤
      max (v.segs.calcFlightSize v.lastSentSeqNr) v.lastRemoteWindow := by
  unfold sendTxQueue at hs
  simp only [hp, hne, hr, Bool.false_eq_true, if_false, pure, Except.pure, bind, Except.bind, Nat.lt_irrefl] at hs
  have hrc : v.recovery.remainingCwnd v.lastRemoteWindow = none := by
    unfold Recovery.remainingCwnd
    split
    · rename_i rec h; exact absurd h (hph rec)
    · rfl
  simp only [hrc] at hs
  have h0 : sentPayload c c = 0 := by simp [sentPayload]
  split at hs
  · simp only [Except.ok.injEq, Prod.mk.injEq] at hs
    obtain ⟨_, rfl⟩ := hs
    rw [h0]; omega
  · split at hs
    · simp [throw, throwThe, MonadExceptOf.throw] at hs
    · rename_i views _
      split at hs
      · simp [throw, throwThe, MonadExceptOf.throw] at hs
      · rename_i v1 c1 hl
        simp only [Except.ok.injEq, Prod.mk.injEq] at hs
        obtain ⟨_, rfl⟩ := hs
        have := newDataLoop_sentPayload _ _ _ _ _ _ _ _ hl
        have e : sentPayload c c1 = sentPayload { c with cc := (c.cc.read "window").snd } c1 := rfl
        rw [e]
        omega
      · rename_i v1 c1 seqNr size hl
        have := newDataLoop_sentPayload _ _ _ _ _ _ _ _ hl
        have e : sentPayload c c1 = sentPayload { c with cc := (c.cc.read "window").snd } c1 := rfl
        split at hs
        · -- the probe did not fit with nothing in flight: popped, nothing more sent
          split at hs
          · simp [throw, throwThe, MonadExceptOf.throw] at hs
          · simp only [Except.ok.injEq, Prod.mk.injEq] at hs
            obtain ⟨_, rfl⟩ := hs
            rw [e]; omega
          · simp only [Except.ok.injEq, Prod.mk.injEq] at hs
            obtain ⟨_, rfl⟩ := hs
            rw [e]; omega
        · split at hs
          · simp [throw, throwThe, MonadExceptOf.throw] at hs
          · simp only [Except.ok.injEq, Prod.mk.injEq] at hs
            obtain ⟨_, rfl⟩ := hs
            rw [e]; omega
          · simp [throw, throwThe, MonadExceptOf.throw] at hs
/-- **Loss recovery is paced by the pipe** (rfc6675 §5 step C): apart from the single retransmission that
entering recovery triggers (`total_retransmitted_segments = 0`), the recovery loop retransmits only while the
window left over the pipe estimate exceeds one segment, and charges every retransmission to it; with segments of
at most `mss` bytes the payload it puts on the wire in one pass is at most that window (plus one segment for
the entry retransmission). -/
theorem recoveryLoop_bytes (h : Header) (mss : Nat) (views : List SegView) (v : VSock) (c : Ctx) (l : RecLoop)
    (hsz : ∀ s ∈ views, s.seg.payloadSize ≤ mss)
    (v' : VSock) (c' : Ctx) (l' : RecLoop) (p : Bool)
    (hl : recoveryLoop h mss views v c l = .ok (v', c', l', p)) :
    ∃ ds, c'.out = c.out ++ ds ∧
      (ds.map (fun d => d.length - 20)).sum ≤ l.cwnd + (if l.st.totalRetransmittedSegments = 0 then mss else 0) := by
  induction views generalizing v c l with
  | nil =>
    simp only [recoveryLoop, pure, Except.pure, Except.ok.injEq, Prod.mk.injEq] at hl
    obtain ⟨_, rfl, _⟩ := hl
    exact ⟨[], by simp, by simp⟩
  | cons seg rest ih =>
    have hrest : ∀ s ∈ rest, s.seg.payloadSize ≤ mss := fun s hs => hsz s (List.mem_cons_of_mem _ hs)
    have hseg := hsz seg List.mem_cons_self
    unfold recoveryLoop at hl
    split at hl
    · simp only [pure, Except.pure, Except.ok.injEq, Prod.mk.injEq] at hl
      obtain ⟨_, rfl, _⟩ := hl
      exact ⟨[], by simp, by simp⟩
    · rename_i hgo
      split at hl
      · exact ih v c l hrest hl
      · split at hl
        · simp only [pure, Except.pure, Except.ok.injEq, Prod.mk.injEq] at hl
          obtain ⟨_, rfl, _⟩ := hl
          exact ⟨[], by simp, by simp⟩
        · split at hl
          · simp at hl
          · simp [throw, throwThe, MonadExceptOf.throw] at hl
          · rename_i v1 c1 hsd
            have h2 := sendData_notsent v c h seg v1 c1 .pending hsd (by simp)
            simp only [pure, Except.pure, Except.ok.injEq, Prod.mk.injEq] at hl
            obtain ⟨_, rfl, _⟩ := hl
            exact ⟨[], by simp [h2], by simp⟩
          · rename_i v1 c1 hsd
            obtain ⟨d, hd, hlen⟩ := sendData_bytes v c h seg v1 c1 hsd
            obtain ⟨ds, hds, hsum⟩ := ih v1 c1 _ hrest hl
            refine ⟨d :: ds, by rw [hds, hd]; simp, ?_⟩
            simp only [List.map_cons, List.sum_cons, hlen] at hsum ⊢
            simp only [Nat.succ_ne_zero, if_false, Nat.add_zero] at hsum
            split
            · omega
            · rename_i hne
              have : l.cwnd > mss := by
                rcases Decidable.not_not.mp hgo with h0 | h1
                · exact absurd h0 hne
                · exact h1
              omega
end UtpVerif.Props.C05
