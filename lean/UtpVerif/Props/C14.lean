import UtpVerif.Model.Mtu
import UtpVerif.Gen.Fns
/-!
# C14 — path-MTU discovery is safe and converges (segment-size component)

Invariant, for every link MTU (u16), both address families, every operation sequence with
arbitrary arguments (in particular arbitrary sizes used by the peer):
`1 ≤ min_ss ≤ max_ss ≤ ceiling(link MTU)`.  Convergence against a consistent path oracle by
halving of the gap.  The segmentation-side clauses (ordinary segments ≤ min_ss, one outstanding
probe, newest) are in the connection-level file.
-/
namespace UtpVerif.Props.C14
open UtpVerif.Model UtpVerif.Model.SegSizes UtpVerif.Gen

inductive Op where
  | delivered (payload : Nat)     -- `on_payload_delivered`, any size (peer-controlled)
  | next                          -- `next_segment_size`
  | failed (size : Nat)           -- `on_probe_failed`
  | disarm
deriving Repr

def step (s : SegSizes) : Op → SegSizes
  | .delivered p => s.onPayloadDelivered p
  | .next => s.nextSegmentSize.1
  | .failed n => s.onProbeFailed n
  | .disarm => s.disarmCooldown

def Inv (ceil : Nat) (s : SegSizes) : Prop := 1 ≤ s.minSs ∧ s.minSs ≤ s.maxSs ∧ s.maxSs ≤ ceil

theorem constants_pinned :
    IPV4_HEADER = 20 ∧ IPV6_HEADER = 40 ∧ UDP_HEADER = 8 ∧ UTP_HEADER = 20 ∧
    MIN_MTU_V4 = 576 ∧ MIN_MTU_V6 = 1280 := by decide

/-- The ceiling is what the link MTU leaves after IP, UDP and uTP headers (at least one byte). -/
theorem ceiling_spec (isV4 : Bool) (linkMtu : Nat) :
    ceiling isV4 linkMtu + (ipHeader isV4 + UDP_HEADER + UTP_HEADER) =
      max linkMtu (ipHeader isV4 + UDP_HEADER + UTP_HEADER + 1) := by
  obtain ⟨h1, h2, h3, h4, _, _⟩ := constants_pinned
  unfold ceiling ipHeader
  cases isV4 <;> simp only [h1, h2, h3, h4] <;> omega

theorem new_inv (isV4 : Bool) (linkMtu cd : Nat) : Inv (ceiling isV4 linkMtu) (new isV4 linkMtu cd) := by
  obtain ⟨h1, h2, h3, h4, h5, h6⟩ := constants_pinned
  unfold Inv new ceiling ipHeader
  cases isV4 <;> simp only [h1, h2, h3, h4, h5, h6, Bool.false_eq_true, if_false, if_true] <;> omega

theorem step_inv (ceil : Nat) (s : SegSizes) (op : Op) (h : Inv ceil s) : Inv ceil (step s op) := by
  unfold Inv at *
  cases op with
  | delivered p => simp only [step, onPayloadDelivered]; omega
  | next => simp only [step, nextSegmentSize]; split <;> simp only <;> omega
  | failed n => simp only [step, onProbeFailed]; omega
  | disarm => simp only [step, disarmCooldown]; omega

/-- **Safety for every history**: whatever sizes the peer uses and whatever probes fail, the proven
size and the probe ceiling stay between 1 and what the configured link MTU allows. -/
theorem sizes_within_link_ceiling (isV4 : Bool) (linkMtu cd : Nat) (ops : List Op) :
    Inv (ceiling isV4 linkMtu) (ops.foldl step (new isV4 linkMtu cd)) := by
  have : ∀ s, Inv (ceiling isV4 linkMtu) s → Inv (ceiling isV4 linkMtu) (ops.foldl step s) := by
    induction ops with
    | nil => intro s h; exact h
    | cons op t ih => intro s h; exact ih _ (step_inv _ s op h)
  exact this _ (new_inv isV4 linkMtu cd)

/-- Every size handed to segmentation is within the ceiling; an ordinary one equals the proven
size, a probe is strictly larger than it and at most `max_ss`. -/
theorem next_segment_size_bounds (ceil : Nat) (s : SegSizes) (h : Inv ceil s) :
    let r := s.nextSegmentSize
    r.2 ≤ ceil ∧ r.1.minSs = s.minSs ∧ r.1.maxSs = s.maxSs ∧
    (r.2 = s.minSs ∨ (s.minSs < r.2 ∧ r.2 ≤ s.maxSs)) := by
  unfold Inv at h
  simp only [nextSegmentSize]
  split
  · simp only [nextProbe]
    refine ⟨by omega, trivial, trivial, ?_⟩
    by_cases hg : s.minSs = s.maxSs
    · left; omega
    · right; omega
  · exact ⟨by simp only; omega, rfl, rfl, Or.inl rfl⟩

/-- `next_probe` cannot overflow `u16`, and `max_ss - min_ss` cannot underflow. -/
theorem next_probe_no_overflow (ceil : Nat) (s : SegSizes) (h : Inv ceil s) (hc : ceil < 65536) :
    s.minSs + (s.maxSs - s.minSs) / 2 + 1 ≤ 65536 ∧ s.minSs ≤ s.maxSs ∧ s.nextProbe < 65536 := by
  unfold Inv at h; unfold nextProbe; omega

theorem ceiling_lt_u16 (isV4 : Bool) (linkMtu : Nat) (h : linkMtu < 65536) : ceiling isV4 linkMtu < 65536 := by
  have := ceiling_spec isV4 linkMtu
  obtain ⟨h1, h2, h3, h4, _, _⟩ := constants_pinned
  unfold ipHeader at this
  cases isV4 <;> simp only [h1, h2, h3, h4, Bool.false_eq_true, if_false, if_true] at this <;> omega

/-- Bracketing invariant against a consistent path oracle "size ≤ P passes". -/
def Brackets (P : Nat) (s : SegSizes) : Prop := s.minSs ≤ P ∧ P ≤ s.maxSs

def gap (s : SegSizes) : Nat := s.maxSs - s.minSs

/-- **One probe outcome keeps the bracket and at least halves the gap.** -/
theorem outcome_halves (P : Nat) (s : SegSizes) (hb : Brackets P s) (hu : s.maxSs < 65536) :
    Brackets P (s.outcome P) ∧ gap (s.outcome P) ≤ gap s / 2 := by
  unfold Brackets gap at *
  simp only [outcome, nextProbe]
  by_cases hP : min (s.minSs + (s.maxSs - s.minSs) / 2 + 1) s.maxSs ≤ P
  · simp only [hP, if_true, onPayloadDelivered]; omega
  · simp only [hP, if_false, onProbeFailed]; omega

def outcomes (P : Nat) : Nat → SegSizes → SegSizes
  | 0, s => s
  | n + 1, s => outcomes P n (s.outcome P)

theorem outcome_maxSs_le (P : Nat) (s : SegSizes) (hb : Brackets P s) : (s.outcome P).maxSs ≤ s.maxSs := by
  unfold Brackets at hb
  simp only [outcome, nextProbe]
  by_cases hP : min (s.minSs + (s.maxSs - s.minSs) / 2 + 1) s.maxSs ≤ P
  · simp only [hP, if_true, onPayloadDelivered]; omega
  · simp only [hP, if_false, onProbeFailed]; omega

theorem outcomes_gap (P : Nat) (n : Nat) (s : SegSizes) (hb : Brackets P s) (hu : s.maxSs < 65536) :
    Brackets P (outcomes P n s) ∧ gap (outcomes P n s) ≤ gap s / 2 ^ n := by
  induction n generalizing s with
  | zero => simp [outcomes, hb]
  | succ n ih =>
    obtain ⟨hb1, hg1⟩ := outcome_halves P s hb hu
    have hu1 : (s.outcome P).maxSs < 65536 := Nat.lt_of_le_of_lt (outcome_maxSs_le P s hb) hu
    obtain ⟨hb2, hg2⟩ := ih _ hb1 hu1
    refine ⟨hb2, ?_⟩
    simp only [outcomes]
    calc gap (outcomes P n (s.outcome P)) ≤ gap (s.outcome P) / 2 ^ n := hg2
      _ ≤ (gap s / 2) / 2 ^ n := Nat.div_le_div_right hg1
      _ = gap s / 2 ^ (n + 1) := by rw [Nat.div_div_eq_div_mul, Nat.pow_succ, Nat.mul_comm]

/-- **Convergence after a logarithmic number of probes**: once `2^n` exceeds the initial gap,
`n` probe outcomes leave `min_ss = max_ss = P` — the largest payload size that fits — and probing
has stopped. -/
theorem converges (P : Nat) (n : Nat) (s : SegSizes) (hb : Brackets P s) (hu : s.maxSs < 65536)
    (hn : gap s < 2 ^ n) :
    (outcomes P n s).minSs = P ∧ (outcomes P n s).maxSs = P ∧ (outcomes P n s).isProbing = false := by
  obtain ⟨hbr, hg⟩ := outcomes_gap P n s hb hu
  have h0 : gap s / 2 ^ n = 0 := Nat.div_eq_of_lt hn
  rw [h0] at hg
  unfold Brackets gap at *
  have e1 : (outcomes P n s).minSs = P := by omega
  have e2 : (outcomes P n s).maxSs = P := by omega
  refine ⟨e1, e2, ?_⟩
  simp only [isProbing, nextProbe, e1, e2]
  simp

/-- Default IPv4 start (528 … 1452): 10 probe outcomes suffice, for every true path size. -/
theorem default_v4_converges_in_10 (P : Nat) (hP1 : 528 ≤ P) (hP2 : P ≤ 1452) :
    (outcomes P 10 (new true 1500 3)).minSs = P := by
  have hs : (new true 1500 3) = { minSs := 528, maxSs := 1452, cooldownRemaining := 1, cooldownMax := 3 } := by decide
  rw [hs]
  exact (converges P 10 _ (by unfold Brackets; simp only; omega) (by simp only; omega)
    (by unfold gap; simp only; omega)).1

-- Non-vacuity: the invariant is met by the default state and the path oracle really moves it.
example : Inv 1452 (new true 1500 3) := by unfold Inv; decide
example : (outcomes 1000 10 (new true 1500 3)).minSs = 1000 := by decide

/-! ### Monotonicity: the search only narrows -/

/-- One step never shrinks the proven size and never raises the probe ceiling. -/
theorem step_monotone (ceil : Nat) (s : SegSizes) (op : Op) (h : Inv ceil s) :
    s.minSs ≤ (step s op).minSs ∧ (step s op).maxSs ≤ s.maxSs := by
  unfold Inv at h
  cases op with
  | delivered p => simp only [step, onPayloadDelivered]; omega
  | next => simp only [step, nextSegmentSize]; split <;> simp only <;> omega
  | failed n => simp only [step, onProbeFailed]; omega
  | disarm => simp only [step, disarmCooldown]; omega

/-- **The search only narrows, for every history**: whatever the peer sends and whatever probes fail or succeed, in
whatever order, the segment size in use (`min_ss`, the MSS) never goes down and the probe ceiling (`max_ss`) never
goes up. A size once proven by an acknowledgement is never given up again, and a size once refuted is never probed
again (`next_probe ≤ max_ss`, `next_segment_size_bounds`). -/
theorem search_only_narrows (ceil : Nat) (ops : List Op) (s : SegSizes) (h : Inv ceil s) :
    s.minSs ≤ (ops.foldl step s).minSs ∧ (ops.foldl step s).maxSs ≤ s.maxSs := by
  induction ops generalizing s with
  | nil => exact ⟨Nat.le_refl _, Nat.le_refl _⟩
  | cons op t ih =>
    have h1 := step_monotone ceil s op h
    have h2 := ih (step s op) (step_inv ceil s op h)
    simp only [List.foldl_cons]
    omega

theorem foldl_inv (ceil : Nat) (ops : List Op) (s : SegSizes) (h : Inv ceil s) : Inv ceil (ops.foldl step s) := by
  induction ops generalizing s with
  | nil => exact h
  | cons op t ih => exact ih _ (step_inv _ s op h)

/-- `skip_next_probe` (D23) touches only the cooldown. -/
theorem skipNextProbe_sizes (s : SegSizes) :
    s.skipNextProbe.minSs = s.minSs ∧ s.skipNextProbe.maxSs = s.maxSs ∧ 1 ≤ s.skipNextProbe.cooldownRemaining := by
  refine ⟨rfl, rfl, ?_⟩
  simp only [skipNextProbe]; omega

/-- Once the search has closed (`min_ss = max_ss`) it stays closed at that size: no later delivery, failure or
cooldown event re-opens probing. -/
theorem closed_search_stays_closed (ceil : Nat) (ops : List Op) (s : SegSizes) (h : Inv ceil s)
    (hc : s.minSs = s.maxSs) :
    (ops.foldl step s).minSs = s.minSs ∧ (ops.foldl step s).maxSs = s.maxSs ∧
    (ops.foldl step s).isProbing = false := by
  have hm := search_only_narrows ceil ops s h
  have hi := foldl_inv ceil ops s h
  unfold Inv at hi
  refine ⟨by omega, by omega, ?_⟩
  have hn : ¬ ((ops.foldl step s).nextProbe > (ops.foldl step s).minSs) := by unfold nextProbe; omega
  simpa [isProbing] using hn

-- Non-vacuity: a peer-sized delivery closes the search at the ceiling; a later failure does not re-open it.
example : Inv 1452 (new true 1500 5) ∧
    ([Op.next, .delivered 3000, .failed 991, .next].foldl step (new true 1500 5)).minSs = 1452 :=
  ⟨by unfold Inv; decide, by decide⟩

/-! ### Tie 1b: the hand-written model of this function equals the definition regenerated from the Rust source

`UtpVerif.Gen.Fns` is rewritten by `tools/translate_fns.py` from /repo's current source on every run; the theorems
of this file are about the model definition, and the equality below re-attaches them to what the code says now. -/

theorem generated_next_probe (s : SegSizes) : UtpVerif.Gen.Fns.nextProbe s.minSs s.maxSs = s.nextProbe := rfl

theorem generated_on_probe_failed (s : SegSizes) (size : Nat) :
    s.onProbeFailed size = { s with maxSs := UtpVerif.Gen.Fns.probeFailedMaxSs s.maxSs s.minSs size } := rfl

theorem generated_on_payload_delivered (s : SegSizes) (n : Nat) (h : s.maxSs < 65536) :
    s.onPayloadDelivered n =
      { s with minSs := UtpVerif.Gen.Fns.deliveredMinSs s.maxSs s.minSs n,
               maxSs := UtpVerif.Gen.Fns.deliveredMaxSs s.maxSs (UtpVerif.Gen.Fns.deliveredMinSs s.maxSs s.minSs n) } := by
  unfold SegSizes.onPayloadDelivered UtpVerif.Gen.Fns.deliveredMinSs UtpVerif.Gen.Fns.deliveredMaxSs
  have : min n s.maxSs % 65536 = min n s.maxSs := Nat.mod_eq_of_lt (by omega)
  simp only [this]

end UtpVerif.Props.C14
