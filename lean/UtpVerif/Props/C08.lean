import UtpVerif.Model.VSock
/-!
# C08 — every connection terminates, frees its slot, and is silent afterwards (connection part)

The socket-table part (slot release, limit) is in `Props/C12.lean` / `C13.lean`.  What the model
cannot exhibit — that Rust runs `Drop` guards when the task's future is dropped, that tokio drops the
future on completion / cancellation, that the socket dispatcher drains its control channel — is assumed.
-/
namespace UtpVerif.Props.C08
open UtpVerif.Model UtpVerif.Model.VSock UtpVerif.Gen

theorem constants_pinned : SHUTDOWN_FINAL_CHANCE_DELAY = 1000000000 := by decide

/-- **After the local close the inactivity timer is always armed**, no later than it already was and no
later than one second after this poll: every `poll` that returns Pending from a state at or past our own
FIN leaves a bounded deadline after which `RemoteInactiveForTooLong` ends the task. -/
theorem final_chance_armed (v : VSock) (h : v.state.isLocalFinOrLater = true) :
    ∃ d, v.armFinalChance.timers.inactivity = some d ∧ d ≤ v.pollNow + 1000000000 ∧
      (∀ e, v.timers.inactivity = some e → d ≤ e) := by
  have hc := constants_pinned
  unfold armFinalChance
  simp only [h, if_true, Timer.arm, hc]
  cases v.timers.inactivity with
  | none => exact ⟨_, rfl, Nat.le_refl _, by simp⟩
  | some e => exact ⟨_, rfl, Nat.min_le_right _ _, by intro e' he; simp at he; subst he; exact Nat.min_le_left _ _⟩

/-- The final-chance arm never *extends* a deadline (`restart = false`), so repeated polls cannot push the
end of the connection away; only a packet that advances the peer's state restarts the timer. -/
theorem final_chance_never_extends (v : VSock) (e : Nat) (he : v.timers.inactivity = some e) :
    ∃ d, v.armFinalChance.timers.inactivity = some d ∧ d ≤ e := by
  unfold armFinalChance
  split
  · simp only [Timer.arm, he]; exact ⟨_, rfl, Nat.min_le_left _ _⟩
  · split
    · simp only [Timer.arm, he]; exact ⟨_, rfl, Nat.min_le_left _ _⟩
    · exact ⟨e, he, Nat.le_refl _⟩

/-- **Once the application has let go of both halves a Pending poll always leaves the inactivity timer
armed**, whatever the state (data still unsent behind a zero window included), no later than the configured
remote-inactivity timeout after this poll and never later than it already was (D19). -/
theorem app_gone_timer_armed (v : VSock) (hr : v.rx.readerDropped = true) (hw : v.tx.writerDropped = true) :
    ∃ d, v.armFinalChance.timers.inactivity = some d ∧ d ≤ v.pollNow + max 1000000000 v.opts.inactivityTimeout ∧
      (∀ e, v.timers.inactivity = some e → d ≤ e) := by
  have hc := constants_pinned
  unfold armFinalChance
  split
  · simp only [Timer.arm, hc]
    cases v.timers.inactivity with
    | none => exact ⟨_, rfl, by omega, by simp⟩
    | some e => exact ⟨_, rfl, by have := Nat.min_le_right e (v.pollNow + 1000000000); omega, by intro e' he; simp at he; subst he; exact Nat.min_le_left _ _⟩
  · simp only [hr, hw, and_self, if_true, Timer.arm]
    cases v.timers.inactivity with
    | none => exact ⟨_, rfl, by omega, by simp⟩
    | some e => exact ⟨_, rfl, by have := Nat.min_le_right e (v.pollNow + v.opts.inactivityTimeout); omega, by intro e' he; simp at he; subst he; exact Nat.min_le_left _ _⟩

/-- Local close is absorbing: every state at or past our FIN stays so under the transition table. -/
theorem local_close_absorbing (v : VSock) (hdr : Header) (h : v.state.isLocalFinOrLater = true) :
    (v.stateGate hdr).vsock.state.isLocalFinOrLater = true := by
  cases hs : v.state <;> simp only [hs, VState.isLocalFinOrLater] at h
  all_goals (first | (simp at h; done) | skip)
  all_goals
    simp only [stateGate, hs]
    repeat' rw [apply_ite Gate.vsock]
    simp only [Gate.vsock]
    repeat' rw [apply_ite VSock.state]
    repeat' rw [apply_ite VState.isLocalFinOrLater]
    simp only [VState.isLocalFinOrLater, restartInactivity, hs]
    repeat' split
    all_goals simp

/-- `Closed` (or `LastAck` when the final ACK is not awaited) makes `poll` finish. -/
theorem closed_states_finish (w : Bool) :
    VState.isClosed .closed w = true ∧ (w = false → ∀ a b, VState.isClosed (.lastAck a b) w = true) := by
  constructor
  · rfl
  · intro h a b; simp [VState.isClosed, h]

end UtpVerif.Props.C08
