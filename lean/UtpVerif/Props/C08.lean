import UtpVerif.Model.VSock
/-!
# C08 — every connection terminates, frees its slot, and is silent afterwards (connection part)

The socket-table part (slot release, limit) is in `Props/C12.lean` / `C13.lean`.  What the model
cannot exhibit — that Rust runs `Drop` guards when the task's future is dropped, that tokio drops the
future on completion / cancellation, that the socket dispatcher drains its control channel — is assumed.
-/
namespace UtpVerif.Props.C08
open UtpVerif.Model UtpVerif.Model.VSock UtpVerif.Gen

theorem constants_pinned : SHUTDOWN_FINAL_CHANCE_DELAY = 1000000000 := by decide

/-- **After the local close the inactivity timer is always armed**, no later than it already was and no
later than one second after this poll: every `poll` that returns Pending from a state at or past our own
FIN leaves a bounded deadline after which `RemoteInactiveForTooLong` ends the task. -/
theorem final_chance_armed (v : VSock) (h : v.state.isLocalFinOrLater = true) :
    ∃ d, v.armFinalChance.timers.inactivity = some d ∧ d ≤ v.pollNow + 1000000000 ∧
      (∀ e, v.timers.inactivity = some e → d ≤ e) := by
  have hc := constants_pinned
  unfold armFinalChance
  simp only [h, if_true, Timer.arm, hc]
  cases v.timers.inactivity with
  | none => exact ⟨_, rfl, Nat.le_refl _, by simp⟩
  | some e => exact ⟨_, rfl, Nat.min_le_right _ _, by intro e' he; simp at he; subst he; exact Nat.min_le_left _ _⟩

/-- The final-chance arm never *extends* a deadline (`restart = false`), so repeated polls cannot push the
end of the connection away; only a packet that advances the peer's state restarts the timer. -/
theorem final_chance_never_extends (v : VSock) (e : Nat) (he : v.timers.inactivity = some e) :
    ∃ d, v.armFinalChance.timers.inactivity = some d ∧ d ≤ e := by
  unfold armFinalChance
  split
  · simp only [Timer.arm, he]; exact ⟨_, rfl, Nat.min_le_left _ _⟩
  · split
    · simp only [Timer.arm, he]; exact ⟨_, rfl, Nat.min_le_left _ _⟩
    · exact ⟨e, he, Nat.le_refl _⟩

/-- **Once the application has let go of both halves a Pending poll always leaves the inactivity timer
armed**, whatever the state (data still unsent behind a zero window included), no later than the configured
remote-inactivity timeout after this poll and never later than it already was (D19). -/
theorem app_gone_timer_armed (v : VSock) (hr : v.rx.readerDropped = true) (hw : v.tx.writerDropped = true) :
    ∃ d, v.armFinalChance.timers.inactivity = some d ∧ d ≤ v.pollNow + max 1000000000 v.opts.inactivityTimeout ∧
      (∀ e, v.timers.inactivity = some e → d ≤ e) := by
  have hc := constants_pinned
  unfold armFinalChance
  split
  · simp only [Timer.arm, hc]
    cases v.timers.inactivity with
    | none => exact ⟨_, rfl, by omega, by simp⟩
    | some e => exact ⟨_, rfl, by have := Nat.min_le_right e (v.pollNow + 1000000000); omega, by intro e' he; simp at he; subst he; exact Nat.min_le_left _ _⟩
  · simp only [hr, hw, and_self, if_true, Timer.arm]
    cases v.timers.inactivity with
    | none => exact ⟨_, rfl, by omega, by simp⟩
    | some e => exact ⟨_, rfl, by have := Nat.min_le_right e (v.pollNow + v.opts.inactivityTimeout); omega, by intro e' he; simp at he; subst he; exact Nat.min_le_left _ _⟩

/-- Local close is absorbing: every state at or past our FIN stays so under the transition table. -/
theorem local_close_absorbing (v : VSock) (hdr : Header) (h : v.state.isLocalFinOrLater = true) :
    (v.stateGate hdr).vsock.state.isLocalFinOrLater = true := by
  cases hs : v.state <;> simp only [hs, VState.isLocalFinOrLater] at h
  all_goals (first | (simp at h; done) | skip)
  all_goals
    simp only [stateGate, hs]
    repeat' rw [apply_ite Gate.vsock]
    simp only [Gate.vsock]
    repeat' rw [apply_ite VSock.state]
    repeat' rw [apply_ite VState.isLocalFinOrLater]
    simp only [VState.isLocalFinOrLater, restartInactivity, hs]
    repeat' split
    all_goals simp

/-- `Closed` (or `LastAck` when the final ACK is not awaited) makes `poll` finish. -/
theorem closed_states_finish (w : Bool) :
    VState.isClosed .closed w = true ∧ (w = false → ∀ a b, VState.isClosed (.lastAck a b) w = true) := by
  constructor
  · rfl
  · intro h a b; simp [VState.isClosed, h]

/-! ### Only progress restarts the inactivity timer -/

/-- Acknowledgement processing touches neither a timer, nor the receive side, nor the consumed point. -/
theorem ackPart_frame (v : VSock) (c : Ctx) (msg : Msg) (v1 : VSock) (c1 : Ctx) (res : OnAckResult)
    (h : v.ackPart c msg = .ok (v1, c1, res)) :
    v1.timers = v.timers ∧ v1.rx = v.rx ∧ v1.lastConsumedRemoteSeqNr = v.lastConsumedRemoteSeqNr := by
  unfold ackPart at h
  simp only [bind, Except.bind, pure, Except.pure] at h
  split at h
  · simp at h
  · rename_i x hx
    cases hrec : v.recovery.isRecovering <;> cases hrtt : x.snd.newRtt <;> simp only [hrec, hrtt] at h <;>
    · split at h
      · simp at h
      · simp only [Except.ok.injEq, Prod.mk.injEq] at h
        rw [← h.1]
        exact ⟨rfl, rfl, rfl⟩

/-- **A data packet that does not advance the stream never touches a timer**: an ST_DATA at or below the
consumed point (an old duplicate, a retransmission the peer keeps sending because our ACKs are lost) is
answered with a forced ACK and leaves every timer - the inactivity deadline in particular - exactly where
it was. So a peer that keeps resending old data cannot keep a closing connection alive. -/
theorem stale_data_keeps_timers (v : VSock) (c : Ctx) (msg : Msg) (psf : Bool) (v' : VSock) (c' : Ctx) (r : OnAckResult)
    (hd : msg.h.htype = Gen.TYPE_ST_DATA)
    (hoff : seqSub msg.h.seqNr (wadd v.lastConsumedRemoteSeqNr 1) < 0)
    (h : v.processAccepted c msg psf = .ok (v', c', r)) : v'.timers = v.timers := by
  unfold processAccepted at h
  split at h
  · simp [throw, throwThe, MonadExceptOf.throw] at h
  · rename_i v1 c1 res ha
    obtain ⟨ht, _, hlc⟩ := ackPart_frame v c msg v1 c1 res ha
    unfold payloadPart at h
    simp only [bind, Except.bind, pure, Except.pure] at h
    rw [hlc, if_pos hd, if_pos hoff] at h
    simp only [Except.ok.injEq, Prod.mk.injEq] at h
    rw [← h.1, ← ht]
    rfl

theorem sendControlPacket_inactivity (v : VSock) (c : Ctx) (h : Header) (v' : VSock) (c' : Ctx) (b : Bool)
    (hs : v.sendControlPacket c h = .ok (v', c', b)) : v'.timers.inactivity = v.timers.inactivity := by
  unfold sendControlPacket at hs
  split at hs
  · simp only [pure, Except.pure, Except.ok.injEq, Prod.mk.injEq] at hs; rw [← hs.1]
  · split at hs
    · simp [throw, throwThe, MonadExceptOf.throw] at hs
    · dsimp only at hs
      split at hs
      · simp only [pure, Except.pure, Except.ok.injEq, Prod.mk.injEq] at hs; rw [← hs.1]; rfl
      · simp only [pure, Except.pure, Except.ok.injEq, Prod.mk.injEq] at hs; rw [← hs.1]
      · simp [throw, throwThe, MonadExceptOf.throw] at hs
      · simp [throw, throwThe, MonadExceptOf.throw] at hs

/-- **…and neither does a data packet the reassembly queue does not consume** (already buffered, or beyond
what the window has room for): whatever ACK it triggers, the inactivity deadline stays where it was. Only a
packet that advances the consumed point (`Consumed`) - or an acknowledgement that advances ours - restarts it. -/
theorem unconsumed_data_keeps_inactivity (v : VSock) (c : Ctx) (msg : Msg) (psf : Bool) (v' : VSock) (c' : Ctx) (r : OnAckResult)
    (hd : msg.h.htype = Gen.TYPE_ST_DATA)
    (hoff : ¬ seqSub msg.h.seqNr (wadd v.lastConsumedRemoteSeqNr 1) < 0)
    (rx' : Rx) (ar : AddRemove) (ws : List Wake)
    (har : v.rx.addRemove msg.h.htype msg.payload (seqSub msg.h.seqNr (wadd v.lastConsumedRemoteSeqNr 1)).toNat = some (rx', ar, ws))
    (hnc : ar = .unavailable ∨ ar = .alreadyPresent)
    (h : v.processAccepted c msg psf = .ok (v', c', r)) : v'.timers.inactivity = v.timers.inactivity := by
  unfold processAccepted at h
  split at h
  · simp [throw, throwThe, MonadExceptOf.throw] at h
  · rename_i v1 c1 res ha
    obtain ⟨ht, hrx, hlc⟩ := ackPart_frame v c msg v1 c1 res ha
    unfold payloadPart at h
    simp only [bind, Except.bind, pure, Except.pure] at h
    rw [hlc, if_pos hd, if_neg hoff] at h
    simp only [hrx, har] at h
    rw [← ht]
    rcases hnc with rfl | rfl <;> simp only at h <;>
    · split at h
      · split at h
        · simp at h
        · rename_i v2 c2 b2 hsa
          simp only [Except.ok.injEq, Prod.mk.injEq] at h
          rw [← h.1]
          unfold sendAck at hsa
          rw [sendControlPacket_inactivity _ _ _ _ _ _ hsa]
          rfl
      · simp only [Except.ok.injEq, Prod.mk.injEq] at h
        rw [← h.1]
end UtpVerif.Props.C08
