import UtpVerif.Model.Wire
import UtpVerif.Lemmas.Wire
/-!
# C11 — wire format: total parser, lossless round-trip, well-formed output

`Chain` is the *specification* of a BEP-29 extension chain, written as an inductive relation from
the BEP text (each extension = next-id byte, length byte, that many bytes; id 0 ends the chain).
The parser of `raw.rs` (model `Header.deserialize`) is proved to accept exactly the byte strings
the specification accepts, with the payload boundary where the specification puts it.
-/
namespace UtpVerif.Props.C11
open UtpVerif.Model UtpVerif.Gen UtpVerif.Lemmas.Wire

/-- `Chain id buf n`: starting with pending extension id `id`, the bytes `buf` contain a complete
extension chain occupying exactly `n` bytes. -/
inductive Chain : Nat → List Nat → Nat → Prop
  | done (buf : List Nat) : Chain 0 buf 0
  | ext (id next len : Nat) (rest : List Nat) (n : Nat) :
      id ≠ 0 → len ≤ rest.length → Chain next (rest.drop len) n →
      Chain id (next :: len :: rest) (2 + len + n)

theorem parseExts_sound (id : Nat) (buf : List Nat) (s : Option Sack) (c : Option Nat) (t : Nat)
    (s' : Option Sack) (c' : Option Nat) (t' : Nat)
    (h : parseExts id buf s c t = some (s', c', t')) : ∃ n, t' = t + n ∧ Chain id buf n := by
  fun_induction parseExts id buf s c t with
  | case1 buf s c t =>
    simp only [Option.some.injEq, Prod.mk.injEq] at h
    exact ⟨0, by omega, Chain.done _⟩
  | case2 id s c t hid next extLen rest hlen extData sack' cr' ih =>
    obtain ⟨n, hn, hc⟩ := ih h
    exact ⟨2 + extLen + n, by omega, Chain.ext id next extLen rest n hid hlen hc⟩
  | case3 => simp at h
  | case4 => simp at h

theorem parseExts_complete (id : Nat) (buf : List Nat) (n : Nat) (hc : Chain id buf n)
    (s : Option Sack) (c : Option Nat) (t : Nat) :
    ∃ s' c', parseExts id buf s c t = some (s', c', t + n) := by
  induction hc generalizing s c t with
  | done buf => exact ⟨s, c, by unfold parseExts; simp⟩
  | ext id next len rest n hid hlen _ ih =>
    unfold parseExts
    simp only [hid, if_false, hlen, if_true]
    obtain ⟨s', c', h⟩ := ih _ _ (t + 2 + len)
    exact ⟨s', c', by rw [h]; congr 3; omega⟩

theorem chain_functional (id : Nat) (buf : List Nat) (n m : Nat)
    (h1 : Chain id buf n) (h2 : Chain id buf m) : n = m := by
  induction h1 generalizing m with
  | done buf => cases h2 with
    | done => rfl
    | ext _ _ _ _ _ hid => exact absurd rfl hid
  | ext id next len rest n hid hlen _ ih =>
    cases h2 with
    | done => exact absurd rfl hid
    | ext _ _ _ _ n' _ _ hc' => rw [ih _ hc']

/-- **The parser accepts exactly**: at least 20 bytes, version nibble 1, type nibble ≤ 4, and an
extension chain that fits in the datagram — and then reports the header size `20 + chain size`
(**unknown extensions are skipped without shifting the payload boundary**). Both directions. -/
theorem deserialize_accepts_iff (buf : List Nat) (hsize : Nat) :
    (∃ h, Header.deserialize buf = some (h, hsize)) ↔
    (20 ≤ buf.length ∧ buf.getD 0 0 % 16 = 1 ∧ buf.getD 0 0 / 16 ≤ 4 ∧
      ∃ n, Chain (buf.getD 1 0) (buf.drop 20) n ∧ hsize = 20 + n) := by
  have hU : UTP_HEADER = 20 := by decide
  have hV : WIRE_VERSION = 1 := by decide
  unfold Header.deserialize
  rw [hU, hV]
  simp only
  constructor
  · rintro ⟨h, hd⟩
    split at hd
    · simp at hd
    · rename_i hlen
      split at hd
      · simp at hd
      · rename_i hver
        split at hd
        · simp at hd
        · rename_i hty
          split at hd
          · simp at hd
          · rename_i sack cr tot hp
            simp only [Option.some.injEq, Prod.mk.injEq] at hd
            obtain ⟨n, hn, hc⟩ := parseExts_sound _ _ _ _ _ _ _ _ hp
            exact ⟨by omega, by omega, by omega, n, hc, by omega⟩
  · rintro ⟨hlen, hver, hty, n, hc, hs⟩
    obtain ⟨s', c', hp⟩ := parseExts_complete _ _ _ hc none none 0
    have h0 : ¬ (buf.length < 20) := by omega
    have h1 : ¬ (buf.getD 0 0 % 16 ≠ 1) := by omega
    have h2 : ¬ (buf.getD 0 0 / 16 > 4) := by omega
    simp only [h0, h1, h2, if_false, hp]
    have hz : 20 + (0 + n) = hsize := by omega
    rw [hz]
    exact ⟨_, rfl⟩

/-- The fixed fields are read big-endian from their BEP-29 positions. -/
theorem deserialize_fields (buf : List Nat) (h : Header) (n : Nat)
    (hd : Header.deserialize buf = some (h, n)) :
    let g := fun i => buf.getD i 0
    h.htype = g 0 / 16 ∧ h.connId = g 2 * 256 + g 3 ∧ h.seqNr = g 16 * 256 + g 17 ∧
    h.ackNr = g 18 * 256 + g 19 ∧
    h.wnd = ((g 12 * 256 + g 13) * 256 + g 14) * 256 + g 15 ∧
    h.ts = ((g 4 * 256 + g 5) * 256 + g 6) * 256 + g 7 ∧
    h.tsDiff = ((g 8 * 256 + g 9) * 256 + g 10) * 256 + g 11 := by
  unfold Header.deserialize at hd
  simp only at hd
  repeat' split at hd
  all_goals first | (simp at hd; done) | skip
  simp only [Option.some.injEq, Prod.mk.injEq] at hd
  obtain ⟨rfl, _⟩ := hd
  simp [be16, be32]

/-- **Payload present exactly for data packets** (`UtpMessage::deserialize`). -/
theorem message_accepts_iff (buf : List Nat) :
    (Message.deserialize buf).isSome ↔
    ∃ h hsize, Header.deserialize buf = some (h, hsize) ∧
      (h.htype = 0 ↔ buf.length > hsize) := by
  have hT : TYPE_ST_DATA = 0 := by decide
  unfold Message.deserialize
  rw [hT]
  cases hd : Header.deserialize buf with
  | none => simp
  | some p =>
    obtain ⟨h, hsize⟩ := p
    simp only [Option.some.injEq, Prod.mk.injEq, exists_and_left]
    by_cases hty : h.htype = 0
    · simp only [hty, if_true]
      by_cases hp : buf.length - hsize = 0
      · simp only [hp, if_true, Option.isSome_none, Bool.false_eq_true, false_iff]
        rintro ⟨h', hs', ⟨rfl, rfl⟩, hiff⟩
        have := hiff.mp hty; omega
      · simp only [hp, if_false, Option.isSome_some, true_iff]
        exact ⟨h, hsize, ⟨rfl, rfl⟩, by constructor <;> intro <;> first | omega | exact hty⟩
    · simp only [hty, if_false]
      by_cases hp : buf.length - hsize > 0
      · simp only [hp, if_true, Option.isSome_none, Bool.false_eq_true, false_iff]
        rintro ⟨h', hs', ⟨rfl, rfl⟩, hiff⟩
        exact hty (hiff.mpr (by omega))
      · simp only [hp, if_false, Option.isSome_some, true_iff]
        exact ⟨h, hsize, ⟨rfl, rfl⟩, by constructor <;> intro h' <;> first | exact absurd h' hty | omega⟩

/-- The payload handed on is exactly the bytes after the header (no shift). -/
theorem message_payload (buf : List Nat) (h : Header) (p : List Nat)
    (hm : Message.deserialize buf = some (h, p)) :
    ∃ hsize, Header.deserialize buf = some (h, hsize) ∧ p = buf.drop hsize := by
  unfold Message.deserialize at hm
  cases hd : Header.deserialize buf with
  | none => simp [hd] at hm
  | some q =>
    obtain ⟨h', hsize⟩ := q
    simp only [hd] at hm
    repeat' split at hm
    all_goals first | (simp at hm; done) | skip
    all_goals
      simp only [Option.some.injEq, Prod.mk.injEq] at hm
      obtain ⟨rfl, rfl⟩ := hm
      exact ⟨hsize, rfl, rfl⟩

/-- The 20 fixed bytes `serialize` writes. -/
def baseBytes (h : Header) (ext : Nat) : List Nat :=
  [(h.htype * 16 + 1) % 256, ext,
   h.connId / 256 % 256, h.connId % 256,
   h.ts / 16777216 % 256, h.ts / 65536 % 256, h.ts / 256 % 256, h.ts % 256,
   h.tsDiff / 16777216 % 256, h.tsDiff / 65536 % 256, h.tsDiff / 256 % 256, h.tsDiff % 256,
   h.wnd / 16777216 % 256, h.wnd / 65536 % 256, h.wnd / 256 % 256, h.wnd % 256,
   h.seqNr / 256 % 256, h.seqNr % 256, h.ackNr / 256 % 256, h.ackNr % 256]

/-- Parsing the 20 fixed bytes followed by a well-formed chain gives back the fields. -/
theorem deserialize_base (h : Header) (ext : Nat) (tail : List Nat) (sack : Option Sack) (cr : Option Nat) (tot : Nat)
    (hwf : HeaderWF h) (hp : parseExts ext tail none none 0 = some (sack, cr, tot)) :
    Header.deserialize (baseBytes h ext ++ tail) =
      some ({ h with sack := sack, closeReason := cr }, 20 + tot) := by
  obtain ⟨h1, h2, h3, h4, h5, h6, h7, _, _⟩ := hwf
  have hU : UTP_HEADER = 20 := by decide
  have hV : WIRE_VERSION = 1 := by decide
  unfold Header.deserialize
  rw [hU, hV]
  simp only [baseBytes, List.cons_append, List.length_cons, List.getD_cons_zero, List.getD_cons_succ,
    List.drop_succ_cons, List.drop_zero, List.nil_append]
  have e0 : ¬ (tail.length + 1 + 1 + 1 + 1 + 1 + 1 + 1 + 1 + 1 + 1 + 1 + 1 + 1 + 1 + 1 + 1 + 1 + 1 + 1 + 1 < 20) := by omega
  have e1 : ¬ ((h.htype * 16 + 1) % 256 % 16 ≠ 1) := by omega
  have e2 : ¬ ((h.htype * 16 + 1) % 256 / 16 > 4) := by omega
  simp only [e0, e1, e2, if_false, hp]
  have e3 : (h.htype * 16 + 1) % 256 / 16 = h.htype := by omega
  rw [e3, be16_toBe16 _ h2, be16_toBe16 _ h3, be16_toBe16 _ h4, be32_toBe32 _ h5, be32_toBe32 _ h6, be32_toBe32 _ h7]

/-- **Lossless round trip**: serialising any well-formed header into a buffer with room (36 bytes
always suffice) and parsing it back yields the same header and the serialised length. -/
theorem roundtrip (h : Header) (bufLen : Nat) (hwf : HeaderWF h) (hbuf : 36 ≤ bufLen) :
    ∃ out, h.serialize bufLen = some out ∧ Header.deserialize out = some (h, out.length) := by
  have hU : UTP_HEADER = 20 := by decide
  have hV : WIRE_VERSION = 1 := by decide
  have hN : NO_NEXT_EXT = 0 := by decide
  have hS : EXT_SELECTIVE_ACK = 1 := by decide
  have hC : EXT_CLOSE_REASON = 3 := by decide
  have hwf' := hwf
  obtain ⟨_, _, _, _, _, _, _, hsk, hcr⟩ := hwf
  have hbase : [(h.htype * 16 + WIRE_VERSION) % 256, NO_NEXT_EXT] ++ toBe16 h.connId ++ toBe32 h.ts ++
      toBe32 h.tsDiff ++ toBe32 h.wnd ++ toBe16 h.seqNr ++ toBe16 h.ackNr = baseBytes h 0 := by
    simp [baseBytes, toBe16, toBe32, hV, hN]
  unfold Header.serialize
  rw [hU]
  have e0 : ¬ (bufLen < 20) := by omega
  simp only [e0, if_false, hbase]
  cases hs : h.sack with
  | none =>
    cases hc : h.closeReason with
    | none =>
      refine ⟨_, rfl, ?_⟩
      have := deserialize_base h 0 [] none none 0 hwf' (parseExts_zero _ _ _ _)
      simp only [List.append_nil] at this
      rw [this]
      cases h; simp_all [baseBytes]
    | some r =>
      have hr := hcr r hc
      simp only [addExt, baseBytes, List.length_cons, List.length_nil, closeReasonBytes, hC, hN]
      have e1 : bufLen ≥ 0 + 1 + 1 + 1 + 1 + 1 + 1 + 1 + 1 + 1 + 1 + 1 + 1 + 1 + 1 + 1 + 1 + 1 + 1 + 1 + 1 + 2 + (0 + 1 + 1 + 1 + 1) := by omega
      simp only [e1, if_true, List.set_cons_succ, List.set_cons_zero]
      refine ⟨_, rfl, ?_⟩
      have hp : parseExts 3 ([0, 4] ++ closeReasonBytes r ++ []) none none 0 = some (none, some r, 6) := by
        have := parseExts_step 3 0 (closeReasonBytes r) [] none none 0 (by omega)
        simp only [closeReasonBytes, List.length_cons, List.length_nil, List.append_nil] at this
        simp only [closeReasonBytes, List.append_nil, List.cons_append, List.nil_append]
        rw [this, parseExts_zero]
        have := closeReason_roundtrip r hr
        simp only [closeReasonBytes] at this
        simp [hS, hC, this]
      have := deserialize_base h 3 _ _ _ _ hwf' hp
      simp only [baseBytes, closeReasonBytes, List.cons_append, List.nil_append, List.append_nil] at this
      simp only [List.cons_append, List.nil_append, List.length_cons, List.length_nil, Nat.zero_add, Nat.mod_self]
      rw [this]
      cases h; simp_all
  | some s =>
    have hsw := hsk s hs
    have hsl := sack_asBytes_length s hsw
    cases hc : h.closeReason with
    | none =>
      simp only [addExt, baseBytes, List.length_cons, List.length_nil, hS, hN]
      have e1 : bufLen ≥ 0 + 1 + 1 + 1 + 1 + 1 + 1 + 1 + 1 + 1 + 1 + 1 + 1 + 1 + 1 + 1 + 1 + 1 + 1 + 1 + 1 + 2 + s.asBytes.length := by omega
      simp only [e1, if_true, List.set_cons_succ, List.set_cons_zero]
      refine ⟨_, rfl, ?_⟩
      have hmod : s.asBytes.length % 256 = s.asBytes.length := by omega
      have hp : parseExts 1 (0 :: s.asBytes.length :: (s.asBytes ++ [])) none none 0 = some (some s, none, 2 + s.asBytes.length) := by
        rw [parseExts_step 1 0 s.asBytes [] none none 0 (by omega), parseExts_zero]
        simp [hS, hC, sack_deserialize_asBytes s hsw]
      have := deserialize_base h 1 _ _ _ _ hwf' hp
      simp only [baseBytes, List.cons_append, List.nil_append, List.append_nil] at this
      simp only [List.cons_append, List.nil_append, List.length_cons, List.length_append, List.length_nil, hmod]
      rw [this]
      cases h; simp_all; omega
    | some r =>
      have hr := hcr r hc
      simp only [addExt, baseBytes, List.length_cons, List.length_nil, hS, hC, hN, closeReasonBytes]
      have e1 : bufLen ≥ 0 + 1 + 1 + 1 + 1 + 1 + 1 + 1 + 1 + 1 + 1 + 1 + 1 + 1 + 1 + 1 + 1 + 1 + 1 + 1 + 1 + 2 + s.asBytes.length := by omega
      simp only [e1, if_true, List.set_cons_succ, List.set_cons_zero, List.cons_append, List.nil_append,
        List.length_cons, List.length_append, List.length_nil]
      have e2 : bufLen ≥ s.asBytes.length + 1 + 1 + 1 + 1 + 1 + 1 + 1 + 1 + 1 + 1 + 1 + 1 + 1 + 1 + 1 + 1 + 1 + 1 + 1 + 1 + 1 + 1 + 2 + (0 + 1 + 1 + 1 + 1) := by omega
      simp only [e2, if_true, List.set_cons_succ, List.set_cons_zero]
      refine ⟨_, rfl, ?_⟩
      have hmod : s.asBytes.length % 256 = s.asBytes.length := by omega
      have hp : parseExts 1 (3 :: s.asBytes.length :: (s.asBytes ++ ([0, 4] ++ closeReasonBytes r ++ []))) none none 0
          = some (some s, some r, 2 + s.asBytes.length + 6) := by
        rw [parseExts_step 1 3 s.asBytes _ none none 0 (by omega)]
        have := parseExts_step 3 0 (closeReasonBytes r) [] (some (Sack.deserialize s.asBytes)) none (0 + 2 + s.asBytes.length) (by omega)
        simp only [closeReasonBytes, List.length_cons, List.length_nil, List.append_nil] at this
        simp only [closeReasonBytes, List.append_nil, List.cons_append, List.nil_append, hS, hC]
        simp only [hS, hC] at this
        have e4 : (0 + 1 + 1 + 1 + 1 : Nat) = 4 := rfl
        rw [e4] at this
        have e5 : ¬ ((1:Nat) ≠ 1 ∧ (1:Nat) = 3 ∧ s.asBytes.length = 4) := by omega
        simp only [if_true, e5, if_false]
        rw [this, parseExts_zero]
        have hcrr := closeReason_roundtrip r hr
        simp only [closeReasonBytes] at hcrr
        simp [hcrr, sack_deserialize_asBytes s hsw]
      have := deserialize_base h 1 _ _ _ _ hwf' hp
      simp only [baseBytes, closeReasonBytes, List.cons_append, List.nil_append, List.append_nil] at this
      simp only [hmod, Nat.zero_add, List.append_assoc, List.cons_append, List.nil_append]
      rw [this]
      cases h; simp_all; omega

theorem parseExts_wf (id : Nat) (buf : List Nat) (s : Option Sack) (c : Option Nat) (t : Nat)
    (hb : ∀ b ∈ buf, b < 256) (hs : ∀ x, s = some x → SackWF x) (hc : ∀ r, c = some r → r < 65536)
    (s' : Option Sack) (c' : Option Nat) (t' : Nat) (h : parseExts id buf s c t = some (s', c', t')) :
    (∀ x, s' = some x → SackWF x) ∧ (∀ r, c' = some r → r < 65536) := by
  fun_induction parseExts id buf s c t with
  | case1 buf s c t =>
    simp only [Option.some.injEq, Prod.mk.injEq] at h
    obtain ⟨rfl, rfl, _⟩ := h
    exact ⟨hs, hc⟩
  | case2 id s c t hid next extLen rest hlen extData sack' cr' ih =>
    have hrest : ∀ b ∈ rest, b < 256 := fun b hb' => hb b (by simp [hb'])
    apply ih (fun b hb' => hrest b (List.mem_of_mem_drop hb')) ?_ ?_ h
    · intro x hx
      simp only [sack'] at hx
      split at hx
      · simp only [Option.some.injEq] at hx
        subst hx
        exact sack_deserialize_wf _ (fun b hb' => hrest b (List.mem_of_mem_take hb'))
      · exact hs x hx
    · intro r hr
      simp only [cr'] at hr
      split at hr
      · rename_i hcond
        simp only [Option.some.injEq] at hr
        subst hr
        have h4 : extData.length = 4 := by simp only [extData, List.length_take]; omega
        match extData, h4, (fun b hb' => hrest b (List.mem_of_mem_take hb') : ∀ b ∈ extData, b < 256) with
        | [a, b, c, d], _, hbb =>
          have hc' := hbb c (by simp)
          have hd' := hbb d (by simp)
          simp only [closeReasonParse, be16]; omega
      · exact hc r hr
  | case3 => simp at h
  | case4 => simp at h

/-- Every header the parser returns is well-formed, so the round trip applies to it:
**parse → serialise → parse is the identity** on everything the parser accepts. -/
theorem parsed_header_roundtrip (buf : List Nat) (hb : ∀ b ∈ buf, b < 256) (h : Header) (n : Nat)
    (hd : Header.deserialize buf = some (h, n)) :
    ∃ out, h.serialize 1024 = some out ∧ Header.deserialize out = some (h, out.length) := by
  apply roundtrip h 1024 ?_ (by omega)
  have hf := deserialize_fields buf h n hd
  simp only at hf
  obtain ⟨f1, f2, f3, f4, f5, f6, f7⟩ := hf
  have hg : ∀ i, buf.getD i 0 < 256 := by
    intro i
    rw [List.getD_eq_getElem?_getD]
    cases hi : buf[i]? with
    | none => simp
    | some v => simp; exact hb v (List.mem_of_getElem? hi)
  unfold Header.deserialize at hd
  simp only at hd
  repeat' split at hd
  all_goals first | (simp at hd; done) | skip
  rename_i hty _ sack cr tot hp
  simp only [Option.some.injEq, Prod.mk.injEq] at hd
  obtain ⟨rfl, _⟩ := hd
  have hwf := parseExts_wf _ _ none none 0 (fun b hb' => hb b (List.mem_of_mem_drop hb')) (by simp) (by simp) _ _ _ hp
  have g0 := hg 0; have g2 := hg 2; have g3 := hg 3; have g4 := hg 4; have g5 := hg 5; have g6 := hg 6
  have g7 := hg 7; have g8 := hg 8; have g9 := hg 9; have g10 := hg 10; have g11 := hg 11; have g12 := hg 12
  have g13 := hg 13; have g14 := hg 14; have g15 := hg 15; have g16 := hg 16; have g17 := hg 17
  have g18 := hg 18; have g19 := hg 19
  refine ⟨by simp only; omega, by simp only [be16]; omega, by simp only [be16]; omega, by simp only [be16]; omega,
    by simp only [be32]; omega, by simp only [be32]; omega, by simp only [be32]; omega, hwf.1, hwf.2⟩

/-- Short-buffer branch (covered separately): any buffer of at least 20 bytes gives a datagram that
still parses, to a header equal to the original except that extensions that did not fit are absent. -/
theorem serialize_short_buffer_parses (h : Header) (bufLen : Nat) (hwf : HeaderWF h) (hbuf : 20 ≤ bufLen)
    (hnosack : h.sack = none) (hnocr : h.closeReason = none) :
    h.serialize bufLen = some (baseBytes h 0) ∧ Header.deserialize (baseBytes h 0) = some (h, 20) := by
  have hU : UTP_HEADER = 20 := by decide
  have hV : WIRE_VERSION = 1 := by decide
  have hN : NO_NEXT_EXT = 0 := by decide
  constructor
  · unfold Header.serialize
    have e0 : ¬ (bufLen < UTP_HEADER) := by omega
    simp only [e0, if_false, hnosack, hnocr]
    simp [baseBytes, toBe16, toBe32, hV, hN]
  · have := deserialize_base h 0 [] none none 0 hwf (parseExts_zero _ _ _ _)
    simp only [List.append_nil] at this
    rw [this]
    cases h; simp_all

/-- Too-small buffer is an error, never a panic or a truncated header. -/
theorem serialize_too_small (h : Header) (bufLen : Nat) (hbuf : bufLen < 20) : h.serialize bufLen = none := by
  have hU : UTP_HEADER = 20 := by decide
  unfold Header.serialize; simp [hU, hbuf]

-- Non-vacuity: a concrete well-formed header with both extensions and an odd SACK length round-trips.
def exampleHeader : Header :=
  { htype := 2, connId := 7, ts := 1, tsDiff := 2, wnd := 3, seqNr := 65535, ackNr := 5
    sack := some (Sack.deserialize [255, 1]), closeReason := some 15 }
example : ∃ out, exampleHeader.serialize 64 = some out ∧ out.length = 30 := ⟨_, rfl, rfl⟩
example : HeaderWF exampleHeader := by
  refine ⟨by decide, by decide, by decide, by decide, by decide, by decide, by decide, ?_, ?_⟩
  · intro s hs; simp only [exampleHeader, Option.some.injEq] at hs; subst hs
    exact sack_deserialize_wf _ (by decide)
  · intro r hr; simp only [exampleHeader, Option.some.injEq] at hr; omega
example : Chain 1 [2, 1, 9, 0, 0] 5 :=
  Chain.ext 1 2 1 [9, 0, 0] 2 (by decide) (by decide) (Chain.ext 2 0 0 [] 0 (by decide) (by decide) (Chain.done _))

end UtpVerif.Props.C11
