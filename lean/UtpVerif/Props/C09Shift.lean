import UtpVerif.Model.Segments
import UtpVerif.Props.C09
import UtpVerif.Lemmas.Segments
/-!
# C09 (continued) — the segment queue is invariant under relabelling of sequence numbers

`Segments` stores only its first unacknowledged number; every other number is a position. These theorems show
that its acknowledgement processing (cumulative drain, selective-ACK marking, front clean-up) and its flight
size commute with moving every sequence number by the same `d` (with 16-bit wrap), for every queue, every ACK,
every SACK and every `d` - as long as the compared pairs are within the tolerance, which a window bound gives.
-/
namespace UtpVerif.Props.C09Shift
open UtpVerif.Model UtpVerif.Model.Segments UtpVerif.Gen UtpVerif.Props.C09 UtpVerif.Lemmas.Segments

/-- relabel the queue: every sequence number moved by `d` -/
def shiftS (d : Nat) (s : Segments) : Segments := { s with sndUna := wadd s.sndUna d }

/-- the pair's distance is within the tolerance, so its 16-bit comparison is the true modular one -/
def NA (a b : Nat) : Prop := (modDist a b).natAbs ≤ WRAP_TOLERANCE

theorem wadd_lt (a d : Nat) : wadd a d < 65536 := by unfold wadd; omega

theorem seqSub_shift (a b d : Nat) (ha : a < 65536) (hb : b < 65536) (h : NA a b) :
    seqSub (wadd a d) (wadd b d) = seqSub a b := by
  have hk : modDist (wadd a d) (wadd b d) = modDist a b := by
    unfold modDist wsub wadd; simp only; (repeat' split) <;> omega
  rw [seqSub_eq_modDist _ _ (wadd_lt _ _) (wadd_lt _ _) (by rw [hk]; exact h), seqSub_eq_modDist _ _ ha hb h, hk]

theorem wadd_comm1 (x d k : Nat) : wadd (wadd x d) k = wadd (wadd x k) d := by unfold wadd; omega

theorem drainFront_shift (now d : Nat) (n : Nat) (s : Segments) (a : AckAcc) :
    drainFront now n (shiftS d s) a = (drainFront now n s a).map (fun p => (shiftS d p.1, p.2)) := by
  induction n generalizing s a with
  | zero => rfl
  | succ n ih =>
    unfold drainFront
    show (match s.segs with | [] => _ | seg :: rest => _) = _
    cases hs : s.segs with
    | nil => simp [shiftS, hs]
    | cons seg rest =>
      simp only [shiftS, hs]
      split
      · rfl
      · have := ih { s with segs := rest, sndUna := wadd s.sndUna 1, lenBytes := s.lenBytes - seg.payloadSize }
          { a with removed := a.removed + 1, payloadSize := a.payloadSize + seg.payloadSize,
                   maxAcked := max a.maxAcked seg.payloadSize, newRtt := seg.updateRtt now a.newRtt }
        simp only [shiftS] at this
        rw [← this, wadd_comm1]

theorem cleanupFront_shift (d : Nat) (n : Nat) (s : Segments) (a : AckAcc) :
    cleanupFront n (shiftS d s) a = (cleanupFront n s a).map (fun p => (shiftS d p.1, p.2)) := by
  induction n generalizing s a with
  | zero => rfl
  | succ n ih =>
    unfold cleanupFront
    show (match s.segs with | [] => _ | seg :: rest => _) = _
    cases hs : s.segs with
    | nil => simp [shiftS, hs]
    | cons seg rest =>
      simp only [shiftS, hs]
      split
      · simp [hs]
      · split
        · rfl
        · have := ih { s with segs := rest, sndUna := wadd s.sndUna 1, lenBytes := s.lenBytes - seg.payloadSize }
            { a with removed := a.removed + 1, payloadSize := a.payloadSize + seg.payloadSize }
          simp only [shiftS] at this
          rw [← this, wadd_comm1]

theorem drainFront_sndUna (now : Nat) (n : Nat) (s : Segments) (a : AckAcc) (s1 : Segments) (a1 : AckAcc)
    (hu : s.sndUna < 65536) (h : drainFront now n s a = some (s1, a1)) :
    ∃ k, k ≤ s.segs.length ∧ s1.sndUna = wadd s.sndUna k := by
  induction n generalizing s a with
  | zero =>
    simp only [drainFront, Option.some.injEq, Prod.mk.injEq] at h
    exact ⟨0, Nat.zero_le _, by rw [← h.1]; simp [wadd, Nat.mod_eq_of_lt hu]⟩
  | succ n ih =>
    unfold drainFront at h
    cases hs : s.segs with
    | nil =>
      simp only [hs, Option.some.injEq, Prod.mk.injEq] at h
      exact ⟨0, Nat.zero_le _, by rw [← h.1]; simp [wadd, Nat.mod_eq_of_lt hu]⟩
    | cons seg rest =>
      simp only [hs] at h
      split at h
      · cases h
      · obtain ⟨k, hk, hk2⟩ := ih _ _ (wadd_lt _ _) h
        refine ⟨k + 1, by simp at hk ⊢; omega, ?_⟩
        rw [hk2]; simp only [wadd]; omega

theorem sackPhase_shift (now ackNr d : Nat) (sack : Option Sack) (s1 : Segments) (a1 : AckAcc)
    (hu : s1.sndUna < 65536) (hack : ackNr < 65536) (h1 : NA s1.sndUna ackNr) (h2 : NA (wadd ackNr 2) s1.sndUna) :
    sackPhase now (wadd ackNr d) sack (shiftS d s1) a1 =
      (shiftS d (sackPhase now ackNr sack s1 a1).1, (sackPhase now ackNr sack s1 a1).2) := by
  unfold sackPhase
  have hfirst : (shiftS d s1).firstSeqNr = s1.firstSeqNr.map (wadd · d) := by
    simp only [firstSeqNr, shiftS]; split <;> simp [*]
  rw [hfirst]
  cases hf : s1.firstSeqNr with
  | none => rfl
  | some first =>
    have hfe : first = s1.sndUna := by
      simp only [firstSeqNr] at hf; split at hf <;> simp at hf; exact hf.symm
    cases sack with
    | none => rfl
    | some sk =>
      have hgt : seqGt (wadd first d) (wadd ackNr d) = seqGt first ackNr := by
        simp only [seqGt]
        rw [seqSub_shift _ _ _ (by rw [hfe]; exact hu) hack (by rw [hfe]; exact h1)]
      have hsso : seqSub (wadd (wadd ackNr d) 2) (wadd first d) = seqSub (wadd ackNr 2) first := by
        rw [wadd_comm1]
        exact seqSub_shift _ _ _ (wadd_lt _ _) (by rw [hfe]; exact hu) (by rw [hfe]; exact h2)
      simp only [Option.map_some, hgt, hsso]
      split
      · split <;> rfl
      · rfl

/-- **The acknowledgement processing of the segment queue is invariant under relabelling**: moving the queue's
first unacknowledged number and the ACK number by the same `d` (with 16-bit wrap) gives the same result with every
number moved by `d` - provided no compared pair is out of tolerance (which the window bounds guarantee, see
`C09.default_windows_within_tolerance`). -/
theorem removeUpToAck_shift (s : Segments) (now ackNr d : Nat) (sack : Option Sack)
    (hu : s.sndUna < 65536) (hack : ackNr < 65536) (hA : NA ackNr s.sndUna)
    (hB : ∀ k ≤ s.segs.length, NA (wadd s.sndUna k) ackNr ∧ NA (wadd ackNr 2) (wadd s.sndUna k)) :
    removeUpToAck (shiftS d s) now (wadd ackNr d) sack =
      (removeUpToAck s now ackNr sack).map (fun p => (shiftS d p.1, p.2)) := by
  rw [removeUpToAck_eq, removeUpToAck_eq]
  have hoff : seqSub (wadd ackNr d) (shiftS d s).sndUna = seqSub ackNr s.sndUna := seqSub_shift _ _ _ hack hu hA
  simp only [hoff, show (shiftS d s).segs.length = s.segs.length from rfl]
  have hr1 : (if seqSub ackNr s.sndUna ≥ 0 then drainFront now (min ((seqSub ackNr s.sndUna).toNat + 1) s.segs.length) (shiftS d s) {} else some (shiftS d s, {})) =
      (if seqSub ackNr s.sndUna ≥ 0 then drainFront now (min ((seqSub ackNr s.sndUna).toNat + 1) s.segs.length) s {} else some (s, {})).map (fun p => (shiftS d p.1, p.2)) := by
    split
    · exact drainFront_shift _ _ _ _ _
    · rfl
  rw [hr1]
  cases hr : (if seqSub ackNr s.sndUna ≥ 0 then drainFront now (min ((seqSub ackNr s.sndUna).toNat + 1) s.segs.length) s {} else some (s, {})) with
  | none => rfl
  | some p =>
    obtain ⟨s1, a1⟩ := p
    have hk : ∃ k, k ≤ s.segs.length ∧ s1.sndUna = wadd s.sndUna k := by
      split at hr
      · exact drainFront_sndUna _ _ _ _ _ _ hu hr
      · simp only [Option.some.injEq, Prod.mk.injEq] at hr
        exact ⟨0, Nat.zero_le _, by rw [← hr.1]; simp [wadd, Nat.mod_eq_of_lt hu]⟩
    obtain ⟨k, hk1, hk2⟩ := hk
    obtain ⟨hB1, hB2⟩ := hB k hk1
    have hs1u : s1.sndUna < 65536 := by rw [hk2]; exact wadd_lt _ _
    simp only [Option.map_some]
    rw [sackPhase_shift now ackNr d sack s1 a1 hs1u hack (by rw [hk2]; exact hB1) (by rw [hk2]; exact hB2)]
    simp only [show (shiftS d (sackPhase now ackNr sack s1 a1).1).segs.length = (sackPhase now ackNr sack s1 a1).1.segs.length from rfl]
    rw [cleanupFront_shift]
    cases cleanupFront ((sackPhase now ackNr sack s1 a1).1.segs.length + 1) (sackPhase now ackNr sack s1 a1).1 (sackPhase now ackNr sack s1 a1).2 <;> rfl

/-- The tolerance hypotheses of `removeUpToAck_shift` follow from a window bound: the ACK number is within
`WRAP_TOLERANCE - queue length - 2` of the queue's front (the default configuration keeps queue and reorder
window far below that, `C09.default_windows_within_tolerance`). -/
theorem na_of_window (s : Segments) (ackNr : Nat) (hu : s.sndUna < 65536) (hack : ackNr < 65536)
    (hw : (modDist ackNr s.sndUna).natAbs + s.segs.length + 2 ≤ WRAP_TOLERANCE) :
    NA ackNr s.sndUna ∧ ∀ k ≤ s.segs.length, NA (wadd s.sndUna k) ackNr ∧ NA (wadd ackNr 2) (wadd s.sndUna k) := by
  have ht : WRAP_TOLERANCE ≤ 32767 := default_windows_within_tolerance.1
  refine ⟨by unfold NA; omega, fun k hk => ⟨?_, ?_⟩⟩
  · unfold NA
    have : (modDist (wadd s.sndUna k) ackNr).natAbs ≤ (modDist ackNr s.sndUna).natAbs + k := by
      unfold modDist wsub wadd at *; simp only at *; (repeat' split) <;> omega
    omega
  · unfold NA
    have : (modDist (wadd ackNr 2) (wadd s.sndUna k)).natAbs ≤ (modDist ackNr s.sndUna).natAbs + k + 2 := by
      unfold modDist wsub wadd at *; simp only at *; (repeat' split) <;> omega
    omega

/-- flight size is invariant under relabelling -/
theorem calcFlightSize_shift (s : Segments) (lss d : Nat) (hu : s.sndUna < 65536) (hl : lss < 65536) (h : NA lss s.sndUna) :
    calcFlightSize (shiftS d s) (wadd lss d) = calcFlightSize s lss := by
  unfold calcFlightSize
  rw [show (shiftS d s).sndUna = wadd s.sndUna d from rfl, seqSub_shift _ _ _ hl hu h]
  rfl

/-! ### Non-vacuity -/

example : NA 5 65530 := by unfold NA; decide

end UtpVerif.Props.C09Shift
