import UtpVerif.Model.VSock
import UtpVerif.Lemmas.Rx
import UtpVerif.Props.C05
import UtpVerif.Props.C19
import UtpVerif.Props.C04
import UtpVerif.Lemmas.Segments
/-!
# C02 — progress: no stall, no lost wake-up (the logic; the runtime's part is assumed)

Liveness over an unbounded fault space needs the runtime ("a woken task is polled; an armed Sleep
fires"), which the model cannot exhibit.  What is proved is every *obligation of the code*: each state in
which something is outstanding has a timer armed, the re-poll request covers every armed timer, every
flag the connection task polls is accompanied by a wake of that task, and each useful event makes strict
progress.
-/
namespace UtpVerif.Props.C02
open UtpVerif.Model UtpVerif.Model.VSock UtpVerif.Lemmas.Rx UtpVerif.Lemmas.Segments

/-- **Data on the wire ⇒ retransmission and inactivity timers armed** (rfc6298 5.1): every accepted
`send_data!` leaves both armed, with the retransmission deadline no later than `now + RTO`. -/
theorem data_sent_arms_timers (v : VSock) (c : Ctx) (h : Header) (view : SegView) (v' : VSock) (c' : Ctx)
    (hs : v.sendData c h view = .ok (v', c', .sent)) :
    (∃ d, v'.timers.retransmit = some d ∧ d ≤ v'.pollNow + v'.rtte.rto) ∧ v'.timers.inactivity.isSome := by
  unfold sendData at hs
  split at hs
  · simp [throw, throwThe, MonadExceptOf.throw] at hs
  · dsimp only at hs
    cases hser : (v.dataHeader c h view).serialize Gen.UTP_HEADER with
    | none => rw [hser] at hs; simp [throw, throwThe, MonadExceptOf.throw] at hs
    | some hb =>
      rw [hser] at hs
      simp only at hs
      cases hprep : TxRing.prepare2 [] v.tx.ring view.payloadOffset view.seg.payloadSize with
      | bugOffset => rw [hprep] at hs; simp [throw, throwThe, MonadExceptOf.throw] at hs
      | bugLength => rw [hprep] at hs; simp [throw, throwThe, MonadExceptOf.throw] at hs
      | ok payload =>
        rw [hprep] at hs
        simp only at hs
        cases ho : transportSend c (hb ++ payload) with
        | mk c1 o =>
          rw [ho] at hs
          simp only at hs
          cases o with
          | error => simp [throw, throwThe, MonadExceptOf.throw] at hs
          | emsgsize => simp [pure, Except.pure] at hs
          | pending => simp [pure, Except.pure] at hs
          | sent =>
            simp only [pure, Except.pure, Except.ok.injEq, Prod.mk.injEq] at hs
            obtain ⟨rfl, _, _⟩ := hs
            constructor
            · simp only [Timer.arm]
              split
              · exact ⟨_, rfl, by split <;> simp [onPacketSent]⟩
              · rename_i e he
                refine ⟨_, rfl, ?_⟩
                split <;> simp only [onPacketSent] <;> exact Nat.min_le_right _ _
            · simp only [Timer.arm]
              split <;> simp

/-- **The re-poll request is the earliest armed protocol timer** (transport writable): it is no later
than any of retransmit / inactivity / delayed-ACK / recovery-pipe / SYN-ACK deadlines. -/
theorem repoll_covers_every_timer (v : VSock) (hp : v.transportPending = false) (d : Nat)
    (hd : v.timers.ackDelay = some d ∨ v.timers.retransmit = some d ∨ v.timers.inactivity = some d ∨
          v.timers.pipeExpiry = some d ∨ v.timers.synAckResend = some d) :
    ∃ t, v.nextTimerToPoll.2 = some t ∧ t ≤ d := by
  unfold nextTimerToPoll
  simp only [hp, Bool.false_eq_true, if_false]
  -- generic fact about the fold of `min` over the armed timers
  have key : ∀ (l : List Nat) (acc : Option Nat), (d ∈ l ∨ ∃ a, acc = some a ∧ a ≤ d) →
      ∃ t, l.foldl (fun acc t => match acc with | none => some t | some a => some (min a t)) acc = some t ∧ t ≤ d := by
    intro l
    induction l with
    | nil => intro acc h; rcases h with h | ⟨a, rfl, ha⟩; simp at h; exact ⟨a, rfl, ha⟩
    | cons x xs ih =>
      intro acc h
      simp only [List.foldl_cons]
      apply ih
      rcases h with h | ⟨a, rfl, ha⟩
      · rcases List.mem_cons.mp h with rfl | h
        · right; cases acc with
          | none => exact ⟨d, rfl, Nat.le_refl _⟩
          | some a => exact ⟨min a d, rfl, Nat.min_le_right _ _⟩
        · left; exact h
      · right; exact ⟨min a x, rfl, by omega⟩
  apply key
  left
  apply List.mem_filterMap.mpr
  refine ⟨some d, ?_, rfl⟩
  rcases hd with h | h | h | h | h <;> simp [h]

/-- With a blocked transport the connection still asks to be re-polled for the inactivity deadline. -/
theorem repoll_when_transport_blocked (v : VSock) (hp : v.transportPending = true) :
    v.nextTimerToPoll.2 = v.timers.inactivity := by
  unfold nextTimerToPoll; simp [hp]

/-- **No lost wake-up, writer → connection**: the connection registers its waker exactly when it finds
the ring empty (`split_tx_queue_into_segments`), and then an accepting write (C19
`write_wakes_dispatcher`), a shutdown request and a writer drop each fire it. -/
theorem empty_ring_registers_dispatcher (v : VSock) (c : Ctx) (he : v.tx.ring = []) :
    ∃ v', v.splitTxQueue c = .ok (v', c) ∧ v'.tx.dispatcherWaker = true := by
  unfold splitTxQueue
  simp [he, TxRing.registerDispatcher, pure, Except.pure]

/-- **No lost wake-up, reader → connection**: a read that returns bytes fires the connection's waker if
`flush` registered it (it does so whenever less than one segment of room would be left). -/
theorem read_wakes_dispatcher (r : Rx) (n : Nat) (b : List Nat) (r' : Rx) (ws : List Wake)
    (h : r.pollRead n = (r', .data b, ws)) (hreg : (Rx.readLoop (2 * (r.queue.length + 2) + 1) r n []).1.dispatcherWaker = true) :
    ws = [.dispatcher] := by
  unfold Rx.pollRead at h
  generalize Rx.readLoop (2 * (r.queue.length + 2) + 1) r n [] = res at h hreg
  obtain ⟨r1, out, ex⟩ := res
  simp only at h hreg
  cases ex <;> simp only at h
  all_goals (first | (simp at h; done) | skip)
  all_goals
    by_cases ho : out.length > 0
    · simp only [ho, if_true, hreg, Prod.mk.injEq] at h; exact h.2.2.symm
    · simp only [ho, if_false] at h
      split at h <;> (try split at h) <;> simp at h

theorem flushLoop_dispatcherWaker (fuel : Nat) (r : Rx) (win f p : Nat) (r' : Rx) (win' f' p' : Nat)
    (h : Rx.flushLoop fuel r win f p = some (r', win', f', p')) : r'.dispatcherWaker = r.dispatcherWaker := by
  induction fuel generalizing r win f p with
  | zero => simp only [Rx.flushLoop, Option.some.injEq, Prod.mk.injEq] at h; rw [← h.1]
  | succ n ih =>
    unfold Rx.flushLoop at h
    split at h
    · simp only [Option.some.injEq, Prod.mk.injEq] at h; rw [← h.1]
    · split at h
      · simp at h
      · have := ih _ _ _ _ h; simpa using this

/-- **No lost wake-up, reader → connection (registration half)**: whenever `flush` leaves less than one
segment of room in the reader's queue window (in particular whenever a zero window is about to be
advertised), it has registered the connection's waker - on EVERY call, whether or not anything changed
since the previous one - so the next read that returns bytes (`read_wakes_dispatcher`) re-polls the
connection and the window update goes out. -/
theorem flush_registers_when_window_low (r r' : Rx) (n : Nat) (ws : List Wake)
    (hlow : r.queueWindow - r.ooq.filledFrontBytes < r.maxIncomingPayload)
    (h : r.flush = some (r', n, ws)) : r'.dispatcherWaker = true := by
  unfold Rx.flush at h
  simp only [hlow, if_true] at h
  split at h
  · simp at h
  · rename_i r2 win flushed pkts hl
    have := flushLoop_dispatcherWaker _ _ _ _ _ _ _ _ _ hl
    simp only [Option.some.injEq, Prod.mk.injEq] at h
    rw [← h.1]
    split <;> simp_all

theorem flushLoop_window (fuel : Nat) (r : Rx) (win f p : Nat) (r' : Rx) (win' f' p' : Nat)
    (hinv : OoqInv r.ooq)
    (h : Rx.flushLoop fuel r win f p = some (r', win', f', p')) :
    win' - r'.ooq.lenBytes = win - r.ooq.lenBytes ∧ r'.readerDropped = r.readerDropped := by
  induction fuel generalizing r win f p with
  | zero => simp only [Rx.flushLoop, Option.some.injEq, Prod.mk.injEq] at h; obtain ⟨rfl, rfl, _⟩ := h; exact ⟨rfl, rfl⟩
  | succ n ih =>
    unfold Rx.flushLoop at h
    have hs := sendFront_inv r.ooq win (!r.readerDropped) hinv
    split at h
    · simp only [Option.some.injEq, Prod.mk.injEq] at h; obtain ⟨rfl, rfl, _⟩ := h; exact ⟨rfl, rfl⟩
    · rename_i ooq' m heq
      rw [heq] at hs
      obtain ⟨hinv', hm, _⟩ := hs
      obtain ⟨_, _, hle, _, _, _, hlb, hle2, _⟩ := hm m rfl
      split at h
      · simp at h
      · have := ih _ _ _ _ (by simpa using hinv') h
        simp only at this
        constructor
        · rw [this.1]; simp only at hlb; rw [hlb]; omega
        · rw [this.2]

/-- **An advertised zero window always comes with a registered wake-up (D21).** If, after `flush`, the room
the connection can advertise is below the wake-up threshold - the connection sets the threshold to its
current segment size right before flushing, and `rx_window()` advertises 0 exactly below that size - then
`flush` has registered the connection's waker with the reader, so the read that re-opens the window re-polls
the connection (`read_wakes_dispatcher`) and the window update goes out at once. (Nothing stored beyond the
in-order front: with a hole in the sequence the peer's retransmission is what polls the connection.) -/
theorem zero_window_means_waker_registered (r r' : Rx) (n : Nat) (ws : List Wake)
    (hinv : OoqInv r.ooq) (hnd : r.readerDropped = false)
    (hfront : r.ooq.lenBytes = r.ooq.filledFrontBytes)
    (h : r.flush = some (r', n, ws))
    (hz : r'.remainingRxWindow < r.maxIncomingPayload) : r'.dispatcherWaker = true := by
  by_cases hlow : r.queueWindow - r.ooq.filledFrontBytes < r.maxIncomingPayload
  · exact flush_registers_when_window_low r r' n ws hlow h
  · exfalso
    unfold Rx.flush at h
    simp only [hlow, if_false] at h
    split at h
    · simp at h
    · rename_i r2 win flushed pkts hl
      obtain ⟨hw, hrd⟩ := flushLoop_window _ _ _ _ _ _ _ _ _ hinv hl
      simp only [Option.some.injEq, Prod.mk.injEq] at h
      obtain ⟨rfl, _, _⟩ := h
      have hrem : ({ (if pkts > 0 ∧ r2.readerWaker = true then ({ r2 with readerWaker := false }, [Wake.reader]) else (r2, [])).1 with
          lastRemainingRxWindow := win } : Rx).remainingRxWindow = win - r2.ooq.lenBytes := by
        unfold Rx.remainingRxWindow
        split <;> simp_all
      rw [hrem, hw, hfront] at hz
      omega

/-- **A size probe can never block the send queue for good (D23).** When the next unsent segment is a probe that was
never transmitted and does not fit the window while nothing at all is in flight - the one situation in which no
acknowledgement can arrive to open the window and no timer is armed - the send loop does not simply stop: it reports
the probe (size 0 = "does not fit") and `send_tx_queue` pops it, makes the next segment an ordinary one and restarts
the poll loop, so its bytes are segmented again at a proven size, which always fits (`window() ≥ 2·MSS`, C15). -/
theorem oversized_probe_is_resegmented (h : Header) (item : SegView) (rest : List SegView) (v : VSock) (c : Ctx) (rem : Nat)
    (hrem : rem < item.seg.payloadSize) (hfl : v.segs.calcFlightSize v.lastSentSeqNr = 0)
    (hp : item.seg.isMtuProbe = true) (hs : item.seg.sendCount = 0) :
    newDataLoop h (item :: rest) v c rem = .ok (v, c, some (item.seqNr, 0)) := by
  unfold newDataLoop
  simp [hrem, hfl, hp, hs, pure, Except.pure]

/-- **Each useful acknowledgement makes strict progress**: an ACK whose number is at or beyond the
first unacknowledged segment removes at least one segment from the queue (so `snd_una` advances). -/
theorem ack_makes_progress (s : Segments) (now ackNr : Nat) (sack : Option Sack) (h : SInv s) (hu : s.sndUna < 65536)
    (hne : s.segs ≠ []) (hack : seqSub ackNr s.sndUna ≥ 0) :
    ∃ s' r, s.removeUpToAck now ackNr sack = some (s', r) ∧ 1 ≤ r.ackedSegmentsCount ∧
      s'.segs.length < s.segs.length := by
  obtain ⟨s', r, k, h1, _, h3, h4, h5, _, _, _, _, _, _, hprog⟩ := removeUpToAck_ok s now ackNr sack h hu
  have hk := hprog hack
  have hlen : 0 < s.segs.length := by cases hs : s.segs with | nil => exact absurd hs hne | cons a t => simp
  have hshape := congrArg List.length h3
  simp only [shape, List.length_map, List.length_drop] at hshape
  exact ⟨s', r, h1, by omega, by omega⟩

/-! ### Known finding D18: the progress property is FALSE of the model (and of the code) at a zero window

The full statement "progress does not hinge on one datagram" would need: whenever accepted bytes wait and
nothing is in flight, some timer is armed. The witness below refutes it: an established connection whose peer
advertised a zero window, 1000 accepted bytes, one `poll`: nothing is sent, **no timer is armed and no re-poll
is registered**, the bytes stay in the ring. The same five lines are replayed on the implementation on every
run (`corpus/vsock/known_d18_zero_window_no_probe.ops`). -/

def d18State : VSock :=
  let ss := SegSizes.new true 1500 UtpVerif.Gen.MTU_PROBE_COOLDOWN_DEFAULT
  let opts : Opts := { maxRetx := 5, inactivityTimeout := 10000000000, nagle := true, waitForLastAck := true, mtuProbeMaxRetx := 1, txMax := 1048576, rxBufSize := 1048576 }
  { state := .established, opts := opts, socketCreated := 0, connIdSend := 8, lastRemoteTimestamp := 0, lastRemoteWindow := 0, seqNr := 101, lastSentSeqNr := 100, lastConsumedRemoteSeqNr := 0, lastSentAckNr := 0, lastSentWindow := 1048576, rx := Rx.build opts.rxBufSize ss.mss, tx := ((TxRing.new 32768).pollWrite (List.replicate 1000 7)).1, segs := Segments.new 101, ss := ss, rtte := Rtte.init.sample 1000000000, pollNow := 1000000000, timers := { sleep := 1000000000 } }

def d18Ctx : Ctx := { now := 1000000000, transport := .ok, cc := { answers := [0, 0, 0, 0] } }

/-- negation witness (kernel evaluation of the model's `poll`) -/
theorem d18_zero_window_arms_no_timer :
    (d18State.poll d18Ctx).2.2 = .pending ∧ (d18State.poll d18Ctx).2.1.out = [] ∧
    (d18State.poll d18Ctx).1.timers.retransmit = none ∧ (d18State.poll d18Ctx).1.timers.inactivity = none ∧
    (d18State.poll d18Ctx).1.timers.ackDelay = none ∧ (d18State.poll d18Ctx).1.timers.pipeExpiry = none ∧
    (d18State.poll d18Ctx).1.timers.synAckResend = none ∧ (d18State.poll d18Ctx).1.timers.sleepRegistered = false ∧
    (d18State.poll d18Ctx).1.tx.ring.length = 1000 := by
  decide +kernel

end UtpVerif.Props.C02
